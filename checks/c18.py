"""C18 - Jitter buffer emits pushed packets in sequence order, at most once.
(M) MC_JitterBuffer, MC_JitterList (refinement)  (G) Gen_JitterBuffer scripts -> real PriorityQueue / JitterBuffer / ReceiverInterceptor
(T) Trace_JitterBuffer."""
import json
import random

import vlib

META = {
    "level": "model_checking",
    "text": "JitterBuffer.tla (PriorityQueue + JitterBuffer, exact result of every exported method) is model checked "
            "exhaustively at scaled constants (numbers mod 8, minimum start 1..3, all sequences of <= 5-6 state-changing "
            "operations; the C18 clauses as invariants/action properties over pushed/returned/cleared histories, the "
            "result clauses quantified over all arguments in every state); TLC enumerates every behaviour of L operations "
            "over a wrap-around / state-relative alphabet at the real 2^16 modulus; these and seeded random long histories are "
            "executed on the real PriorityQueue, JitterBuffer and ReceiverInterceptor with pointer-tracked packet identities "
            "and every recorded step (returned object or error class, playout head, length, reachable nodes, events) "
            "must be a step of the specification. JitterList.tla (the sorted doubly linked list with cached length, transcribed "
            "from priority_queue.go) is checked by TLC to refine the property-level queue, with the three repaired defects as "
            "refuted negative controls.",
    "note": "Trusted: the reading of the property in JitterBuffer.tla (behaviour the property is silent about - list order, "
            "PopAtSequence head+1, Clear(true) keeping the head and restoring minStart 50, events - follows the code); "
            "single caller (locking is C10); < 65536 packets buffered; interceptor level uses caller buffers of exactly the "
            "packet size (parsing of the scratch buffer beyond n belongs to C02).",
    "technique": "TLA+ spec + TLC model checking, TLC-generated behaviours replayed into the Go code, recorded traces validated by TLC",
    "design_ref": "DESIGN.md section 7 C18",
}

PKG = "pkg/jitterbuffer"
HARNESS = ["zz_verif_jb_test.go"]
RULE = ("scripts = TLC-enumerated behaviours of Gen_JitterBuffer at the real modulus (every sequence of L operations after a "
        "warm-up, over pushes around the 2^16 wrap incl. duplicates/reordering and pop/peek/find/set-head/clear arguments "
        "relative to the specification state, per (level, minStart, warm-up) configuration) + TLC -simulate walks + seeded "
        "random long histories (jb, pq, interceptor); each is executed on the real code and the recorded trace is validated "
        "by TLC against Trace_JitterBuffer. distinct_nontrivial = number of distinct recorded traces in which at least one "
        "pop/peek/find returned a packet.")

M = 65536
TSBASES = [0, 4294967290, 2147483640, 90000]


def run_batch(ctx, scripts, tag, go_timeout=240):
    return vlib.run_batch(ctx, tag=tag, scripts=scripts, pkg_rel=PKG, pkgname="jitterbuffer", files=HARNESS,
                          test="TestVerifJBExec", trace_module="Trace_JitterBuffer.tla", go_timeout=go_timeout,
                          nontrivial=lambda evs: any(e.get("res", 0) > 0 for e in evs))


def gen(ctx, rng, cfg, simulate=None):
    """Behaviours of one plan set of Gen_JitterBuffer (the .cfg selects the set); simulate=(walks, walk length)."""
    if simulate:
        num, length = simulate
        beh = vlib.generate(ctx, "Gen_JitterBuffer.tla", cfg, simulate=(num, length + 2))
    else:
        beh = vlib.generate(ctx, "Gen_JitterBuffer.tla", cfg)
    # a behaviour is printed once per permitted duplicate choice: keep one; TLC's workers print in any order: sort, so
    # that the seeded choices below do not depend on the schedule
    uniq = {json.dumps(b, sort_keys=True): b for b in beh}
    res = []
    for k in sorted(uniq):
        b = uniq[k]
        b["tsbase"] = rng.choice(TSBASES)
        res.append(b)
    return res


# ---------------------------------------------------------------------------------- seeded random histories

def random_jb(rng, n):
    """Long JitterBuffer history: a mostly in-order stream with loss, reordering, duplicates, wrap; a consumer that
    pops at the head, skips gaps, pops by sequence/timestamp, peeks, clears."""
    minstart = rng.choice([0, 1, 2, 3, 5, 10, 50, 60])
    pos = rng.choice([0, 65500, 65530, 32760, rng.randrange(M)])
    ts0 = rng.randrange(0, 1000)
    steps = []
    late = []
    recent = []

    def push(w):
        steps.append({"a": "push", "n": w % M, "ts": ts0 + ((w - pos0) // 3) % 100000, "b": False})
        recent.append(w % M)
        del recent[:-40]
    pos0 = pos - 200000
    for _ in range(n):
        r = rng.random()
        if r < 0.45:
            q = rng.random()
            if q < 0.08:
                if rng.random() < 0.7:
                    late.append(pos)
            elif q < 0.10:
                pos += rng.choice([2, 3, 30, 120])
                push(pos)
            else:
                push(pos)
                if rng.random() < 0.06:
                    push(pos)                                   # duplicate
            pos += 1
        elif r < 0.50 and late:
            push(late.pop(rng.randrange(len(late))))            # late arrival
        elif r < 0.52 and recent:
            push(rng.choice(recent))                            # retransmitted duplicate of something recent
        elif r < 0.80:
            steps.append({"a": "pop", "n": 0, "ts": 0, "b": False})
        elif r < 0.84 and recent:
            steps.append({"a": "popseq", "n": rng.choice(recent + [(pos + 5) % M]), "ts": 0, "b": False})
        elif r < 0.87:
            steps.append({"a": "popts", "n": 0, "ts": ts0 + ((pos - rng.randrange(0, 30) - pos0) // 3) % 100000, "b": False})
        elif r < 0.90:
            steps.append({"a": "peek", "n": 0, "ts": 0, "b": rng.random() < 0.5})
        elif r < 0.93 and recent:
            steps.append({"a": "peekseq", "n": rng.choice(recent + [(pos + 7) % M]), "ts": 0, "b": False})
        elif r < 0.975 and recent:
            # the consumer skips: head to something recent (often the oldest still plausible)
            steps.append({"a": "sethead", "n": rng.choice(recent[:8] + [recent[0]] * 3), "ts": 0, "b": False})
        elif r < 0.985:
            steps.append({"a": "clear", "n": 0, "ts": 0, "b": rng.random() < 0.4})
        else:
            steps.append({"a": "pop", "n": 0, "ts": 0, "b": False})
    return {"level": "jb", "min": minstart, "tsbase": rng.choice(TSBASES), "steps": steps}


def random_pq(rng, n):
    pos = rng.choice([0, 65500, 65530, rng.randrange(M)])
    steps = []
    recent = []
    for _ in range(n):
        r = rng.random()
        if r < 0.5:
            w = (pos + rng.choice([0, 0, 0, 1, 2, -1, -2, -3, 5, -30])) % M
            steps.append({"a": "qpush", "n": w, "ts": (w // 2) % 1000, "b": False})
            recent.append(w)
            del recent[:-30]
            pos += 1
        elif r < 0.62:
            steps.append({"a": "qpop", "n": 0, "ts": 0, "b": False})
        elif r < 0.76:
            steps.append({"a": "qpopat", "n": rng.choice(recent + [pos % M, 0, 65535]), "ts": 0, "b": False})
        elif r < 0.86:
            w = rng.choice(recent + [pos % M])
            steps.append({"a": "qpopts", "n": 0, "ts": (w // 2) % 1000, "b": False})
        elif r < 0.98:
            steps.append({"a": "qfind", "n": rng.choice(recent + [pos % M, 0, 65535]), "ts": 0, "b": False})
        else:
            steps.append({"a": "qclear", "n": 0, "ts": 0, "b": False})
    return {"level": "pq", "min": 0, "tsbase": rng.choice(TSBASES), "steps": steps}


def stall_pq(rng, k):
    """A consumer that has stalled: k > 65535 packets are buffered (more than the uint16 length counter holds), then the
    queue is cleared and used again - nothing of the old content may come back."""
    n0 = rng.choice([70, 40000, 65535])
    q = lambda a, n=0, ts=0: {"a": a, "n": n % M, "ts": ts, "b": False}
    steps = [q("qpush", n0 + 3, 5), dict(q("qbulk", n0, 7), k=k), q("qclear"),
             q("qfind", n0 - 9), q("qpop"), q("qpush", 11, 3), q("qpush", 10, 3), q("qpopts", 0, 7), q("qpop"), q("qpop"), q("qpop"),
             dict(q("qbulk", 500, 9), k=300), q("qclear"), q("qpop")]
    return {"level": "pq", "min": 0, "tsbase": rng.choice(TSBASES), "steps": steps}


def random_icpt(rng, n):
    """Interceptor: each read pushes one packet and (once emitting) pops at the head. Default minimum start 50."""
    pos = rng.choice([0, 65500, 65480, rng.randrange(M)])
    steps = []
    held = []
    style = rng.choice(["inorder", "inorder", "swaps", "dups", "mixed"])
    for i in range(n):
        r = rng.random()
        w = pos
        if style in ("swaps", "mixed") and r < 0.10:
            held.append(pos)           # delayed: delivered a little later
            pos += 1
            continue
        if held and rng.random() < 0.5:
            w = held.pop(0)
        else:
            pos += 1
        steps.append({"a": "read", "n": w % M, "ts": (w // 3) % 100000, "b": False})
        if style in ("dups", "mixed") and rng.random() < 0.05:
            steps.append({"a": "read", "n": w % M, "ts": (w // 3) % 100000, "b": False})
        if rng.random() < 0.03:          # a read whose wrapped reader fails: passed up, nothing buffered
            steps.append({"a": "readfail", "n": (pos + rng.choice([0, 1, 5])) % M, "ts": 7, "b": False})
        if rng.random() < 0.004:
            steps.append({"a": "unbind", "n": 0, "ts": 0, "b": False})
    return {"level": "icpt", "min": 50, "tsbase": rng.choice(TSBASES), "steps": steps}


def run(ctx):
    rng = random.Random(ctx.seed)
    q = ctx.quick
    # (M)
    vlib.model_check(ctx, "MC_JitterBuffer.tla", vlib.cfg_variant(ctx, "MC_JitterBuffer.cfg", {"MaxSteps": 5 if q else 6}),
                     timeout=3000, note="history clauses: VeryObject AtMostOnce Consecutive StartsAtFirst ClearedGone + action properties")
    vlib.model_check(ctx, "MC_JitterBuffer.tla", vlib.cfg_variant(ctx, "MC_JitterBuffer_ops.cfg", {"MaxSteps": 4 if q else 5}),
                     timeout=3000, note="per-state result clauses over all arguments (history hidden by VIEW)")
    # (M) implementation-shaped layer: the linked list of priority_queue.go (JitterList.tla) refines the property-level
    # PriorityQueue machine; the three repaired behaviours are switched back on one at a time as negative controls
    for consts in ([{"M": 4, "MaxSteps": 6}] if q else [{"M": 4, "MaxSteps": 8}, {"M": 6, "MaxSteps": 7}]):
        vlib.model_check(ctx, "MC_JitterList.tla", vlib.cfg_variant(ctx, "MC_JitterList.cfg", consts), workers=4, timeout=3000,
                         note="refinement: contents in order, reach = length, acyclic, prev pointers, nothing outside reachable, results")
    for cfg, inv, what in [
            ("MC_JitterList_neg_clear.cfg", "LengthIsReach", "Clear leaves the list attached"),
            ("MC_JitterList_neg_insert.cfg", "IsAcyclic", "strict < in the head-insert test of Push"),
            ("MC_JitterList_neg_prev.cfg", "PrevPointers", "head pop does not clear the new head's prev"),
            ("MC_JitterList_neg_prev_e.cfg", "NothingOutside", "head pop does not clear prev (only clause (e) checked)")]:
        vlib.model_check(ctx, "MC_JitterList.tla", cfg, workers=1, expect_violation="Invariant %s is violated" % inv,
                         note="negative control: " + what)
    # (G) systematic: every behaviour of the plan set (see Gen_JitterBuffer.tla) + TLC random walks
    if q:
        scripts = gen(ctx, rng, "Gen_JitterBuffer.cfg")
        scripts += gen(ctx, rng, "Gen_JitterBuffer_sim.cfg", simulate=(250, 30))
    else:
        scripts = gen(ctx, rng, "Gen_JitterBuffer_thorough.cfg", )
        scripts += gen(ctx, rng, "Gen_JitterBuffer_simthorough.cfg", simulate=(8000, 60))
    # (T) seeded random long histories
    rs = []
    njb, npq, nic, ln = (40, 20, 12, 600) if q else (500, 200, 120, 2500)
    for _ in range(njb):
        rs.append(random_jb(rng, ln))
    for _ in range(npq):
        rs.append(random_pq(rng, ln))
    for _ in range(nic):
        rs.append(random_icpt(rng, rng.choice([70, 130, 260])))
    rs.append(stall_pq(rng, rng.choice([65540, 65536 + 300])))
    if q:
        run_batch(ctx, scripts + rs, "G+T")          # one Go run and one TLC run keep the quick tier short
    else:
        chunk = 100000
        for i in range(0, len(scripts), chunk):
            run_batch(ctx, scripts[i:i + chunk], "G-%d" % (i // chunk))
        rs.append(random_jb(rng, 100000))
        rs.append(random_pq(rng, 100000))
        run_batch(ctx, rs, "T-random", go_timeout=600)
    ctx.assumptions += [
        "the TLA+ module JitterBuffer is the reading of the property; behaviour the statement is silent about (list order = raw "
        "uint16 order for PriorityQueue.Pop/PopAtTimestamp, PopAtSequence advances the head by one, SetPlayoutHead, Clear(true) "
        "keeps the playout head and restores minStartCount 50, listener events) is modelled as the code does it",
        "sequential use (one caller); more than 65535 buffered packets only at the PriorityQueue level (one macro-event for the "
        "pushes; Length() is a uint16 and is expected modulo 2^16, the list itself is not)",
        "packet identity = Go pointer identity tracked by the harness, repeated in the payload; list reachability and prev-pointer "
        "consistency are read from the unexported next/prev pointers",
        "interceptor level: default minimum start 50, caller buffers of exactly the packet size (the C02 suspect about parsing the "
        "whole scratch buffer is outside this property), all packets of a script have one size",
        "Go toolchain go1.24.0 from the module cache, pion/rtp Marshal/Unmarshal trusted",
    ]
    return vlib.finish(ctx, "model_checking", RULE)


def replay(ctx, path):
    run_batch(ctx, vlib.replay_scripts(path), "replay")
    return vlib.finish(ctx, "model_checking", RULE)

"""C04 - NACK responder retransmits exactly what was sent.
(M) MC_NackResp: all interleavings of writes / NACK jobs / unbind / close over ring + refcounts + pool, checked against
    the property-level RtpBuffer machine (negative control: Get without Retain).
(G) Gen_RtpBuffer: boundary-alphabet Add/Get/Clear behaviours on internal/rtpbuffer;
    Gen_NackResp: TLC-generated schedules realised on the real ResponderInterceptor through the verif gates.
(T) Trace_NackResp validates every recorded trace (header fields and payload bytes of each retransmission)."""
import random

import vlib

META = {
    "level": "model_checking",
    "text": "NackResp.tla (ring, reference counts, pool recycling, one action per critical section of the responder) is model "
            "checked for all interleavings at small constants against the property-level buffer; TLC-generated schedules "
            "(Write / NACK read / lookup / Get / emit / Unbind / Bind / Close in every order) are realised on the real "
            "ResponderInterceptor by parking the resend goroutines at verif gates and in the downstream writer, and "
            "TLC-enumerated Add/Get/Clear behaviours plus random long histories run on internal/rtpbuffer; every recorded "
            "trace (found/not found per request, header fields and payload bytes of every retransmission, RFC 4588 form) "
            "must be explained by the specification.",
    "note": "Trusted: reading of the property in RtpBuffer.tla (window = the `size` numbers up to the highest sent; a number "
            "sent more than once may be answered with any of its contents); harness packet builder and canonical packet "
            "record; RTX sequence numbers are not compared (not stated). Schedules inside one critical section are atomic "
            "by the code's mutexes (races are C10).",
    "technique": "TLA+ protocol model checked with TLC; TLC-generated schedules replayed on the Go code through scheduling "
                 "gates; recorded traces validated by TLC",
    "design_ref": "DESIGN.md section 7 C04",
}

RULE = ("buf level: every sequence of L Add/Get/Clear operations over a boundary alphabet (TLC, real modulus) + seeded random "
        "histories on RTPBuffer+PacketFactoryCopy with payload lengths 0..1461, padding forms, RTX on/off; icpt level: "
        "TLC -simulate walks of the NackResp protocol executed step by step on the real interceptor (gates). "
        "distinct_nontrivial = distinct recorded traces containing at least one retransmission / non-empty Get.")

LENS = [0, 1, 2, 3, 17, 40, 40, 100]
BIG = [1458, 1459, 1460, 1461]


def pick_len_shape(rng, big_ok=True):
    ln = rng.choice(BIG) if big_ok and rng.random() < 0.04 else rng.choice(LENS)
    shape = rng.choice([0, 0, 0, 1, 2, 3, 3, 4 if rng.random() < 0.2 else 0])
    return ln, shape


def buf_scripts_from_tlc(ctx, rng, size, base, L, rtx):
    cfg = vlib.cfg_variant(ctx, "Gen_RtpBuffer.cfg", {"Size": size, "Base": base, "L": L})
    beh = vlib.generate(ctx, "Gen_RtpBuffer.tla", cfg)
    scripts = []
    for b in beh:
        steps = []
        for i, e in enumerate(b):
            if e["a"] == "add":
                ln, shape = pick_len_shape(rng, big_ok=False)
                steps.append({"a": "add", "w": e["w"], "id": i + 1, "len": ln, "shape": shape})
            elif e["a"] == "get":
                steps.append({"a": "get", "n": e["n"]})
            else:
                steps.append({"a": "clear"})
        scripts.append({"level": "buf", "size": size, "rtxssrc": rtx[0], "rtxpt": rtx[1], "steps": steps})
    return scripts


def random_buf_script(rng, size, n):
    rtx = rng.choice([(0, 0), (5000, 97), (0, 97), (5000, 0)])
    pos = rng.choice([0, 65500, 32760, rng.randrange(65536)])
    steps = []
    ident = 0
    for _ in range(n):
        r = rng.random()
        if r < 0.55:
            q = rng.random()
            if q < 0.75:
                pos += 1
                w = pos
            elif q < 0.85:
                pos += rng.choice([2, 3, size, size + 1, 2 * size, 1000, 32767])
                w = pos
            else:   # late / duplicate send
                w = pos - rng.choice([0, 1, 2, max(size - 1, 0), size, size + 1, 2 * size, 33000])
            ident += 1
            ln, shape = pick_len_shape(rng)
            steps.append({"a": "add", "w": w % 65536, "id": ident, "len": ln, "shape": shape})
        elif r < 0.97:
            d = rng.choice([0, 1, 2, 3, size - 1, size, size + 1, rng.randrange(0, 2 * size + 2), 32768, 65535])
            steps.append({"a": "get", "n": (pos - d) % 65536})
        else:
            steps.append({"a": "clear"})
    return {"level": "buf", "size": size, "rtxssrc": rtx[0], "rtxpt": rtx[1], "steps": steps}


def icpt_scripts_from_tlc(ctx, rng, size, walks, depth):
    cfg = vlib.cfg_variant(ctx, "Gen_NackResp.cfg", {"Size": size, "L": depth})
    beh = vlib.generate(ctx, "Gen_NackResp.tla", cfg, simulate=(walks, depth + 1), timeout=600)
    # the invariant prints every successor of the last step: keep two variants per (L-1)-prefix
    seen = {}
    scripts = []
    for b in beh:
        key = str(b[:-1])
        seen[key] = seen.get(key, 0) + 1
        if seen[key] > 2:
            continue
        rtx = {1: rng.choice([(0, 0), (5001, 97)]), 2: rng.choice([(0, 0), (5002, 98)])}
        steps = []
        ident = 0
        for e in b:
            a = e["a"]
            if a == "bind":
                steps.append({"a": "bind", "s": e["s"], "nack": True, "rtxssrc": rtx[e["s"]][0], "rtxpt": rtx[e["s"]][1]})
            elif a == "write":
                ident += 1
                ln, shape = pick_len_shape(rng)
                steps.append({"a": "write", "s": e["s"], "w": e["w"], "id": ident, "len": ln, "shape": shape})
            elif a == "nack":
                steps.append({"a": "nack", "s": e["s"], "j": e["j"], "nums": e["nums"]})
            elif a in ("jobstart", "jobget", "jobemit"):
                steps.append({"a": a, "j": e["j"]})
            else:
                steps.append({"a": a, "s": e["s"]})
        sc = {"level": "icpt", "size": size, "steps": faults(rng, park_writes(rng, steps))}
        if rng.random() < 0.35:      # every NACK packed, the first retransmission of every job still running at the end refused
            sc["drainfail"] = True
            sc["steps"] = [dict(st, fail=True) if st["a"] == "nack" else st for st in sc["steps"]]
        scripts.append(sc)
    return scripts


def repeat_nack_script(rng, rtx):
    """The same numbers are requested again and again (a receiver that keeps missing them), the packets carry contributing
    sources and header extensions, and the transport modifies the header of every retransmission it is given: each answer
    must still be the packet as it was written."""
    steps = [{"a": "bind", "s": 1, "nack": True, "rtxssrc": rtx[0], "rtxpt": rtx[1]}]
    base = rng.choice([100, 65533])
    nums = []
    for i, shape in enumerate([3, 9, 5, 6, 7, 8]):
        steps.append({"a": "write", "s": 1, "w": (base + i) % 65536, "id": i + 1, "len": rng.choice([0, 7, 300]), "shape": shape})
        nums.append((base + i) % 65536)
    for j in (1, 2, 3):
        steps += [{"a": "nack", "s": 1, "j": j, "nums": nums}, {"a": "jobstart", "j": j}]
        for _ in nums:
            steps += [{"a": "jobget", "j": j}, {"a": "jobemit", "j": j}]
    return {"level": "icpt", "size": 64, "steps": steps}


def faults(rng, steps):
    """The stream's writer refuses some retransmissions (the rest of the NACK must be answered all the same), and after an
    Unbind a Write arrives through the writer the stream had (it lost the race with the Unbind): it passes through and is not
    kept - a NACK on ANOTHER stream for its number finds nothing."""
    out, extra = [], 0
    for st in steps:
        if st["a"] == "jobemit" and rng.random() < 0.25:
            st = dict(st, fail=True)
        if st["a"] == "nack" and rng.random() < 0.5:      # numbers packed into (id, bit mask) pairs
            st = dict(st, fail=True)
        out.append(st)
        if st["a"] == "unbind" and rng.random() < 0.5:
            extra += 1
            w = 40000 + extra
            other = 2 if st["s"] == 1 else 1
            out.append({"a": "wstale", "s": st["s"], "w": w, "id": 900 + extra, "len": 7, "shape": 0})
            out.append({"a": "bind", "s": other, "nack": True, "rtxssrc": 0, "rtxpt": 0})      # (no effect if it is bound)
            out.append({"a": "wstale", "s": st["s"], "w": w + 100, "id": 950 + extra, "len": 7, "shape": 0})
            out.append({"a": "nack", "s": other, "j": 70 + extra, "nums": [w, w + 100]})
    return out


def park_writes(rng, steps):
    """Turns some writes into writes that are held inside the transport's writer while the following steps (NACKs, resend
    jobs, other writes) run: the packet is on the wire but its Write call has not returned yet."""
    if rng.random() < 0.5:
        return steps
    out, parked = [], 0
    for st in steps:
        if parked:
            parked -= 1
            if parked == 0 or st["a"] in ("bind", "unbind", "close"):
                out.append({"a": "wrelease"})
                parked = 0
        if st["a"] == "write" and not parked and rng.random() < 0.35:
            out.append(dict(st, a="wpark"))
            parked = rng.choice([2, 3, 5, 8])
            continue
        out.append(st)
    return out


def nontrivial(evs):
    return any((e["a"] == "jobemit") or (e["a"] == "get" and e["out"]) for e in evs)


def run_buf(ctx, scripts, tag):
    return vlib.run_batch(ctx, tag=tag, scripts=scripts, pkg_rel="internal/rtpbuffer", pkgname="rtpbuffer",
                          files=["zz_verif_rtpbuffer_test.go", "common:zz_verif_pkt_test.go.tpl"],
                          test="TestVerifRtpBufferExec", trace_module="Trace_NackResp.tla", nontrivial=nontrivial)


def run_icpt(ctx, scripts, tag):
    return vlib.run_batch(ctx, tag=tag, scripts=scripts, pkg_rel="pkg/nack", pkgname="nack",
                          files=["zz_verif_nackresp_test.go", "common:zz_verif_pkt_test.go.tpl"],
                          test="TestVerifNackRespExec", trace_module="Trace_NackResp.tla", nontrivial=nontrivial,
                          race=True)


def run(ctx):
    rng = random.Random(ctx.seed)
    # (M)
    if ctx.quick:
        vlib.model_check(ctx, "MC_NackResp.tla", "MC_NackResp.cfg", workers=8)
    else:
        vlib.model_check(ctx, "MC_NackResp.tla", "MC_NackResp_deep.cfg", workers=12, timeout=3000)
    vlib.model_check(ctx, "MC_NackResp.tla", "MC_NackResp_neg.cfg", workers=4,
                     expect_violation="Invariant ContentOK is violated",
                     note="negative control: Get without Retain lets a recycled buffer reach the writer")
    # (G) buffer level
    confs = [(8, 65530, 3, (0, 0)), (1, 0, 3, (5000, 97)), (2, 32766, 3, (0, 0))] if ctx.quick else \
            [(8, 65530, 4, (0, 0)), (1, 0, 4, (5000, 97)), (2, 32766, 4, (5000, 97)), (1024, 65000, 3, (0, 0)),
             (32768, 100, 3, (5000, 97))]
    for size, base, L, rtx in confs:
        run_buf(ctx, buf_scripts_from_tlc(ctx, rng, size, base, L, rtx), "G-buf-%d" % size)
    # (T) buffer level, random long histories
    nb, ln = (30, 300) if ctx.quick else (300, 1200)
    sizes = [1, 2, 8, 64, 1024] if ctx.quick else [1, 2, 4, 8, 64, 512, 1024, 8192, 32768]
    # (every tier has the extreme sizes: 32768 is the largest a responder accepts - int16(size) is negative there - and 1 the smallest)
    run_buf(ctx, [random_buf_script(rng, rng.choice(sizes), ln) for _ in range(nb)] +
            [random_buf_script(rng, sz, ln) for sz in (32768, 16384, 1, 32768)], "T-buf-random")
    # (G) schedules on the real interceptor
    plans = [(1, 60, 18), (2, 80, 22), (8, 60, 22)] if ctx.quick else [(1, 400, 20), (2, 600, 26), (8, 400, 26), (64, 200, 26)]
    for size, walks, depth in plans:
        run_icpt(ctx, icpt_scripts_from_tlc(ctx, rng, size, walks, depth), "G-icpt-%d" % size)
    run_icpt(ctx, [repeat_nack_script(rng, rtx) for rtx in ((0, 0), (5001, 97), (0, 0))], "T-icpt-repeat")
    ctx.assumptions += [
        "RtpBuffer.tla is the reading of the property; a number written twice may be answered with either content",
        "resend goroutines are stepped through the verif gates nack.responder.{start,get,done} and the harness writer",
        "RTX sequence numbers are not compared; Write errors are accepted only for payload > 1460 bytes or overflowing legacy padding",
    ]
    return vlib.finish(ctx, "model_checking", RULE)


def replay(ctx, path):
    for sc in vlib.replay_scripts(path):
        if sc.get("level") == "buf":
            run_buf(ctx, [sc], "replay")
        else:
            run_icpt(ctx, [sc], "replay")
    return vlib.finish(ctx, "model_checking", RULE)

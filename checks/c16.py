"""C16 - GCC target bitrate stays finite, within bounds, and consistent.
(M) MC_Gcc: envelope + close protocol (closeLock RW, pipeline channels/goroutines, callback goroutines, getter) for
    2-3 feeders + closer, every interleaving, safety + liveness; two negative controls (no final clamp, Close not waiting).
(G) Gen_Gcc: TLC enumerates send/feedback scripts over the alphabet of departure gaps x arrival patterns x loss;
    they run on the real gcc.SendSideBWE (and through cc.Interceptor) for every (initial,min,max) x pacer x feedback kind.
(T) Trace_Gcc validates every recorded trace (pacer calls, callback values, getter polls, stats, WriteRTCP results, Close)."""
import hashlib
import json
import os
import random
import re

import vlib

META = {
    "level": "model_checking",
    "text": "Gcc.tla specifies the discrete envelope of the send-side bandwidth estimator (published target = min(delay, loss) "
            "brought into [min, max] for ANY integer estimates; pacer told exactly the published sequence; exactly one change "
            "callback per published value; getter = last published; closed error and no publication after Close); GccProto.tla "
            "models the close protocol and the publication steps goroutine by goroutine and is model checked for every "
            "interleaving of 2-3 feeders, the two pipeline goroutines, callback goroutines, a getter and a closer (safety, "
            "deadlock freedom, and under weak fairness: every WriteRTCP returns, Close returns, every callback is delivered). "
            "TLC-enumerated send/feedback scripts (departure gaps x arrival patterns incl. zero and negative inter-arrival, "
            "10 s gaps, 0/50/100 % loss, unknown packets, duplicated feedback; TWCC and RFC 8888) are executed on the real "
            "gcc.SendSideBWE and through cc.Interceptor for four (initial, min, max) configurations and every pacer; each "
            "recorded trace (ordered SetTargetBitrate calls, callback values, linearizable getter polls, GetStats, WriteRTCP "
            "results, Close) must be a behaviour of the specification; the state.transition table is compared for all pairs. "
            "Specification growth (no verdict, divergences are NOTEs): GccGroups.tla / GccOveruse.tla specify the arrival-group "
            "accumulator, the rate window, adaptiveThreshold.compare, the overuse detector's hysteresis and the controller state "
            "exactly over integers; TLC-generated and random input sequences run through the real stages and every output is "
            "compared by TLC (Trace_GccGrow). GccRate.tla specifies the remaining numeric stages as exact machines over integers "
            "(rates in bit/s, a virtual clock in microseconds, fractions in parts per 10^9, the decrease-rate EMA as natural "
            "numbers of any size): the loss-based estimator (averaged loss, +5 % below 2 %, x(1 - loss/2) above 10 %, the two "
            "200 ms timers, its own clamp, getEstimate) and the rate controller (8 %/s multiplicative and packet-size/RTT "
            "additive increase, decrease to 0.85 x received rate, hold, clamp, EMA and its 3-sigma band, what is emitted when), "
            "each float64 rounding located and each output given a derived tolerance (exact, or within 1 bit/s); GccKalman.tla "
            "states the structure of one filter update (innovation truncated to microseconds, noise clamp >= 1, gain from the NEW "
            "noise estimate, estimate moves toward the measurement by gain x innovation, error update) as a relation. MC_GccRate "
            "checks clamps, monotonicity, timer and definedness properties from 11 warm-up states with five negative controls; "
            "TLC-enumerated input sequences over alphabets relative to the machine state (loss exactly at 2 % / 10 % and one unit "
            "either side, reports exactly at the timers and one grid step either side, received rate 0 / equal / 1.5 x target / "
            "at the band edges, RTT 0 / -100 ms / 200 s, all nine state-table entries) plus seeded random walks and random scripts "
            "run on the real lossBasedBandwidthEstimator, rateController, kalman and delayController; TLC compares every logged "
            "output (Trace_GccRate).",
    "note": "Claimed for the discrete envelope only: the numeric accuracy of the estimate (Kalman filter, thresholds, AIMD "
            "constants, loss averaging) is abstracted into nondeterministic integers and NOT checked. Real-code schedules are "
            "sampled (real goroutines, real clock), only the model's interleavings are exhaustive. Trusted: the reading of "
            "the property in Gcc.tla; the harness's packet builders (pion/rtcp, the real twcc.Recorder); quiescence = an "
            "empty feedback flushed through the unbuffered pipeline + callback count equal to pacer count (or a 3 s quiet "
            "period).",
    "technique": "TLA+ protocol model checked with TLC (safety + liveness); TLC-generated scripts replayed on the Go code; "
                 "recorded traces validated by TLC",
    "design_ref": "DESIGN.md section 7 C16",
}

RULE = ("scripts = TLC-enumerated sequences of L rounds (send n packets with a departure gap; feedback with an arrival "
        "pattern and a loss level) with a Close position, each assigned a configuration x pacer x feedback kind (all "
        "combinations covered in rotation, seeded) + seeded random long scripts + loss scripts with 200 ms waits (thorough) "
        "+ concurrent feeders/getters/closer on one estimator + the same scripts through cc.Interceptor + the state "
        "table. Each runs on the real code; the trace is validated by TLC against Trace_Gcc. distinct_nontrivial = distinct "
        "traces in which the target bitrate was published at least once. Growth batches (coverage.growth, growth_notes): every "
        "sequence of L acks / samples over boundary alphabets relative to the group / window / detector state + random long "
        "sequences through the real arrivalGroupAccumulator, rateCalculator, adaptiveThreshold.compare, overuseDetector, "
        "rateController; coverage.growth_rate: Gen_GccRate behaviours (every sequence of L calls from each warm-up state over "
        "the state-relative alphabets) + TLC -simulate walks + seeded random scripts through the real loss-based estimator, "
        "rate controller (virtual clock realised by re-basing the objects' time stamps before every call, guard bands, slow "
        "calls undone and repeated), kalman filter and delayController, every output compared by TLC within the tolerance "
        "derived in GccRate.tla; hazards_observed = hazards of the code as read (named in GccRate.tla, shown by negative "
        "controls of MC_GccRate) that occurred in the recorded traces. Not part of the verdict except for panics/hangs.")

PKG = "pkg/gcc"
SHARED = os.path.join(vlib.VERIF, "harness", "pkg", "gcc", "zz_verif_gccshared_test.go.tpl")
COMMON = os.path.join(vlib.VERIF, "harness", "common", "zz_verif_common_test.go.tpl")
GROW = "zz_verif_gccgrow_test.go"
RATE = "zz_verif_gccrate_test.go"

CONFIGS = [
    {"defaults": True, "init": 10000, "min": 5000, "max": 50000000},
    {"defaults": False, "init": 2000000, "min": 1000000, "max": 3000000},
    {"defaults": False, "init": 5000, "min": 5000, "max": 5000},
    {"defaults": False, "init": 100000, "min": 50000, "max": 200000000},
    {"defaults": False, "init": 1000000, "min": 100000, "max": 1000000},      # starts at its maximum: only the loss side can move it
    {"defaults": False, "init": 300000, "min": 300000, "max": 2000000},       # starts at its minimum
    {"defaults": False, "init": 80000000, "min": 60000000, "max": 100000000}, # the whole range above the default maximum (50 Mbit/s)
    {"defaults": False, "init": 2000, "min": 1000, "max": 3000},              # ... and below the default minimum (5 kbit/s)
]
PACERS = ["rec", "noop", "leaky", "default"]
FBS = ["twcc", "rfc8888"]


# ------------------------------------------------------------------------------------------ batch execution

def _overlay(ctx, level, safe):
    """pkg/gcc: own file + shared template + common helpers; pkg/cc: own file + the same two templates as package cc."""
    if level == "cc":
        rel, pkgname, own = "pkg/cc", "cc", "zz_verif_gcccc_test.go"
    else:
        rel, pkgname, own = "pkg/gcc", "gcc", "zz_verif_gcc_test.go"
    m = {
        os.path.join(rel, own): os.path.join(vlib.VERIF, "harness", rel, own),
        os.path.join(rel, "zz_verif_gccshared_test.go"): (SHARED, pkgname),
        os.path.join(rel, "zz_verif_common_test.go"): (COMMON, pkgname),
    }
    if rel == "pkg/gcc":
        m[os.path.join(rel, GROW)] = os.path.join(vlib.VERIF, "harness", rel, GROW)
        m[os.path.join(rel, RATE)] = os.path.join(vlib.VERIF, "harness", rel, RATE)
    return rel, vlib.overlay(ctx, m, name="overlay-%s.json" % safe)


def _go(ctx, rel, ov, test, inp, outp, par, race=False, timeout=900):
    env = {"VERIF_IN": inp, "VERIF_OUT": outp, "VERIF_SEED": ctx.seed, "VERIF_PAR": par}
    rc, out = vlib.go_test(ctx, rel, ov, "^%s$" % test, env=env, race=race, timeout=timeout)
    if "VERIF-INFRA" in out:
        raise vlib.Infra("harness error in %s:\n%s" % (test, out[-2500:]))
    return rc, out


def _crash_what(tag, out):
    if "DATA RACE" in out:
        what = "%s: Go race detector report while executing a script" % tag
    elif "VERIF-FAIL" in out:
        what = "%s: a call of the estimator did not return while executing a script" % tag
    elif "panic:" in out or "fatal error:" in out:
        what = "%s: the real code panicked while executing a script" % tag
    elif "test timed out" in out:
        what = "%s: the real code did not return (test timed out) while executing a script" % tag
    else:
        what = "%s: harness-detected failure while executing a script" % tag
    m = re.search(r"(panic:.*|fatal error:.*|WARNING: DATA RACE.*|--- FAIL.*|VERIF-FAIL.*)", out)
    return what + (": " + m.group(1)[:300] if m else "")


def nontrivial(evs):
    return any(e["a"] == "pacer" or e["a"] == "cb" for e in evs)


def run_batch(ctx, scripts, tag, level="bwe", par=8, race=False):
    """Like vlib.run_batch, but the harness executes scripts in parallel goroutines (they mostly sleep: departure gaps
    are real time); after a crash the scripts that were in flight are re-run one by one to name the culprit."""
    if not scripts:
        return []
    safe = re.sub(r"[^A-Za-z0-9_.-]", "_", tag)
    test = "TestVerifGccCcExec" if level == "cc" else "TestVerifGccExec"
    rel, ov = _overlay(ctx, level, safe)
    inp = ctx.path("%s-%s.in" % (ctx.pid, safe))
    outp = ctx.path("%s-%s.trace" % (ctx.pid, safe))
    vlib.write_ndjson(inp, scripts)
    rc, out = _go(ctx, rel, ov, test, inp, outp, par, race=race)
    ctx.cov["evaluations"] += len(scripts)
    if rc != 0:
        started, done = set(), set()
        if os.path.exists(outp + ".inflight"):
            for ln in open(outp + ".inflight"):
                k, i = ln.split()
                (started if k == "S" else done).add(int(i))
        cand = sorted(started - done)
        culprit = None
        for i in cand[:16]:
            vlib.write_ndjson(inp + ".one", [scripts[i]])
            rc1, out1 = _go(ctx, rel, ov, test, inp + ".one", outp + ".one", 1, race=race, timeout=300)
            if rc1 != 0:
                culprit, out = scripts[i], out1
                break
        rep = {"kind": tag, "level": level, "go_output": out[-6000:]}
        if culprit is not None:
            rep["script"] = culprit
        else:   # not reproduced alone: keep everything that was in flight
            rep["scripts"] = [scripts[i] for i in cand[:16]] or scripts[:16]
            rep["note"] = "the failure did not reproduce with a single script; all scripts in flight are stored"
        vlib.report_violation(ctx, _crash_what(tag, out), rep)
        return None
    events = vlib.read_ndjson(outp)
    v = vlib.validate(ctx, "Trace_Gcc.tla", outp, timeout=1800)
    traces = vlib.split_traces(events)
    for m in re.finditer(r'<<\s*"NOTE",[^>]*>>', v.out):
        note = " ".join(m.group(0).split())
        if note not in ctx.notes:
            ctx.notes.append(note)
    ninc = sum(1 for e in events if e.get("a") == "inconclusive")
    ctx.inconclusive = getattr(ctx, "inconclusive", 0) + ninc
    vlib.handle_validation(ctx, v, events, tag, lambda i: scripts[i] if i < len(scripts) else None)
    seen = set()
    for _, evs in traces:
        if nontrivial(evs):
            seen.add(hashlib.sha1(json.dumps(evs, sort_keys=True).encode()).hexdigest())
    ctx.cov["distinct_nontrivial"] += len(seen)
    st = ctx.cov.setdefault("gcc", {"publishes": 0, "callbacks": 0, "scripts_with_publish": 0, "polls": 0,
                                    "closed_errors": 0, "states_seen": {}, "below_init": 0, "above_init": 0})
    for _, evs in traces:
        init = evs[0].get("init", 0)
        pubs = [e["v"] for e in evs if e["a"] == "pacer"]
        cbs = [e["v"] for e in evs if e["a"] == "cb"]
        st["publishes"] += len(pubs)
        st["callbacks"] += len(cbs)
        st["scripts_with_publish"] += 1 if (pubs or cbs) else 0
        st["polls"] += sum(1 for e in evs if e["a"] == "get")
        st["closed_errors"] += sum(1 for e in evs if e["a"] in ("fb", "wret") and e.get("res") == "closed")
        st["below_init"] += 1 if any(x < init for x in pubs + cbs) else 0
        st["above_init"] += 1 if any(x > init for x in pubs + cbs) else 0
        for e in evs:
            if e["a"] == "stats":
                k = "%s/%s" % (e["usage"], e["state"])
                st["states_seen"][k] = st["states_seen"].get(k, 0) + 1
    if traces:
        vlib.add_samples(ctx, [traces[len(traces) // 2][1][:24]], 1)
    return events


# ------------------------------------------------------------------------------------------ scripts

def combos(rng, default_share=True):
    """every configuration x pacer x feedback kind; the un-instrumented default pacer (slow quiescence: nothing to
    compare the callback count with) only once per configuration x feedback kind in three rotations of the others"""
    base = [(c, p, f) for c in range(len(CONFIGS)) for p in PACERS[:3] for f in FBS]
    cs = []
    for _ in range(3):
        rng.shuffle(base)
        cs += base
    if default_share:
        cs += [(c, "default", f) for c in range(len(CONFIGS)) for f in FBS]
    rng.shuffle(cs)
    return cs


def mk_script(level, conf, pacer, fb, steps, base=0):
    sc = {"level": level, "pacer": pacer, "fb": fb, "base": base, "steps": steps,
          "pcloseerr": pacer != "default" and (len(steps) + conf + base) % 4 == 0}     # the injected pacer's Close fails in a quarter
    sc.update(CONFIGS[conf])
    return sc


def steps_from_behaviour(b):
    """A Gen_Gcc behaviour is a list of uniform records {a, n, gap, pat, loss}; after every feedback the script polls."""
    steps = []
    for e in b:
        if e["a"] == "send":
            steps.append({"a": "send", "n": e["n"], "gap": e["gap"], "size": 1000})
        elif e["a"] == "fb":
            steps.append({"a": "fb", "pat": e["pat"], "loss": e["loss"]})
            steps.append({"a": "get"})
            steps.append({"a": "stats"})
        else:
            steps.append({"a": e["a"]})
    return steps


def gen_scripts(ctx, rng, L, n, gaps, k=None, level="bwe", pacers=None):
    cfg = vlib.cfg_variant(ctx, "Gen_Gcc.cfg", {"L": L, "N": n, "Gaps": gaps})
    beh = vlib.generate(ctx, "Gen_Gcc.tla", cfg)
    if k is not None and k < len(beh):
        beh = rng.sample(beh, k)
    cs = [c for c in combos(rng) if pacers is None or c[1] in pacers]
    rng.shuffle(beh)
    scripts = []
    for i, b in enumerate(beh):
        c, p, f = cs[i % len(cs)]
        scripts.append(mk_script(level, c, p, f, steps_from_behaviour(b), base=rng.choice([0, 65530, 30000])))
    return scripts


PATS = ["inc", "equal", "dec", "gap10s", "slow", "fast", "unknown", "dup"]


def random_script(rng, level, rounds, conf=None, pacer=None, fb=None, loss_waits=False):
    steps = []
    for _ in range(rounds):
        r = rng.random()
        if r < 0.8:
            steps.append({"a": "send", "n": rng.choice([1, 3, 6, 10]), "gap": rng.choice([0, 1000, 5500, 6000, 12000]),
                          "size": rng.choice([0, 100, 1000, 1200])})
        loss = rng.choice([0, 0, 0, 50, 100]) if not loss_waits else rng.choice([50, 50, 100, 0])
        steps.append({"a": "fb", "pat": rng.choice(PATS), "loss": loss})
        if loss_waits:
            steps.append({"a": "sleep", "ms": 205})
        q = rng.random()
        if q < 0.5:
            steps.append({"a": "get"})
        elif q < 0.7:
            steps.append({"a": "stats"})
        elif q < 0.8:
            steps.append({"a": "quiesce"})
    if rng.random() < 0.3:
        steps.insert(rng.randrange(len(steps) + 1), {"a": "close"})
    return mk_script(level, rng.randrange(len(CONFIGS)) if conf is None else conf, pacer or rng.choice(PACERS[:3]),
                     fb or rng.choice(FBS), steps, base=rng.choice([0, 65500, 12345]))


def close_mid_digest_script(rng, conf, pacer, fb):
    """Close while the estimator's pipeline goroutines are still digesting a report: WriteRTCP hands the acknowledgements
    over and returns, the goroutines work through several hundred of them (an arrival group, hence a delay update, every
    few packets) - and Close is called at once.  Close must come back (it waits for the pipeline), and afterwards the
    closed error, no callback, no pacer update."""
    steps = []
    for _ in range(3):
        steps += [{"a": "send", "n": 10, "gap": 6000, "size": 1000}, {"a": "fb", "pat": "inc", "loss": 0}]
    steps += [{"a": "send", "n": rng.choice([300, 600]), "gap": rng.choice([1000, 5500, 6000]), "size": rng.choice([100, 1000])},
              {"a": "fb", "pat": rng.choice(["inc", "inc", "slow", "dec"]), "loss": 0}, {"a": "close"}]
    return mk_script("bwe", conf, pacer, fb, steps, base=rng.choice([0, 65000]))


def close_mid_drain_script(rng, pacer, fb):
    """Close while the pacer goroutine is in the middle of a burst: 60 packets are queued at 2 Mbit/s (a quarter of a second
    of work) and Close is called at once - it must come back, the closed error afterwards, whatever the pacer still held."""
    steps = [{"a": "send", "n": 10, "gap": 6000, "size": 1000}, {"a": "fb", "pat": "inc", "loss": 0},
             {"a": "send", "n": 60, "gap": 0, "size": 1200}, {"a": "close"}]
    if rng.random() < 0.5:
        # ... or with one packet still INSIDE the transport and small packets queued behind it (several fit the budget of one
        # pacing tick): Close is called, the transport comes back 30 ms later, the pacer goes on with its burst
        steps = [{"a": "send", "n": 10, "gap": 6000, "size": 1000}, {"a": "fb", "pat": "inc", "loss": 0},
                 {"a": "sendheld"}, {"a": "send", "n": 8, "gap": 0, "size": 100}, {"a": "closeheld"}]
    return mk_script("bwe", 1, pacer, fb, steps, base=rng.choice([0, 65000]))


def paced_script(rng, conf, pacer, fb, rounds):
    """rounds separated by 205 ms of wall clock, so that the loss-based side may move once per round (its increase and
    decrease steps are rate limited to one per 200 ms) and the published value changes often"""
    steps = []
    for i in range(rounds):
        steps.append({"a": "send", "n": rng.choice([6, 10]), "gap": rng.choice([5500, 6000, 9000]),
                      "size": rng.choice([100, 1000, 1200])})
        steps.append({"a": "fb", "pat": rng.choice(["inc", "inc", "slow", "fast", "equal", "dec", "gap10s"]),
                      "loss": rng.choice([0, 0, 50, 100])})
        steps.append({"a": "get"})
        steps.append({"a": "stats"})
        steps.append({"a": "sleep", "ms": 205})
    return mk_script("bwe", conf, pacer, fb, steps, base=rng.choice([0, 65520]))


def loss_script(rng, conf, pacer, fb):
    """Loss-controller decreases need 200 ms of wall clock each: lossy rounds separated by real waits, then clean rounds so
    that the delay-based side produces updates while the loss-based estimate is low."""
    steps = []
    for i in range(rng.choice([3, 4, 6])):
        steps.append({"a": "send", "n": 8, "gap": 5500, "size": 1000})
        steps.append({"a": "fb", "pat": "inc", "loss": rng.choice([50, 100])})
        steps.append({"a": "sleep", "ms": 205})
    for i in range(3):
        steps.append({"a": "send", "n": 10, "gap": 5500, "size": 1000})
        steps.append({"a": "fb", "pat": rng.choice(["inc", "fast", "slow"]), "loss": rng.choice([0, 50])})
        steps.append({"a": "get"})
        steps.append({"a": "stats"})
    return mk_script("bwe", conf, pacer, fb, steps)


def conc_script(rng, conf, pacer, fb, feeders=2, writes=4):
    total = feeders * writes
    sc = mk_script("conc", conf, pacer, fb, [])
    sc.update({"feeders": feeders, "writes": writes, "closeafter": rng.randrange(0, total + 1), "getters": 1})
    return sc



# ------------------------------------------------------------------------------------------ specification growth
# The discrete stages C16 abstracts (arrival groups, rate window, overuse hysteresis, controller state) have their own
# modules GccGroups.tla / GccOveruse.tla.  They describe behaviour the property does not state: a divergence of the real
# code from them is printed as a NOTE and recorded under coverage["growth_notes"]; it never changes the verdict.  Only a
# panic / hang of the real stage (which the property does forbid) is a violation.

def groups_scripts_from(beh):
    scripts = []
    for i, b in enumerate(beh):
        acks = [{"id": a["id"], "dep": a["dep"], "arr": a["arr"], "size": a["size"]} for a in b]
        far = max([a["dep"] for a in acks] + [a["arr"] for a in acks]) + 1000000
        acks.append({"id": len(acks) + 1, "dep": far, "arr": far + 100000, "size": 1})   # closes the last group
        scripts.append({"lvl": "groups", "batch": (1, 2, 0)[i % 3], "acks": acks})
    return scripts


def random_groups_script(rng, n):
    dep, arr, acks = 100000, 300000, []
    for i in range(n):
        q = rng.random()
        if q < 0.08:
            a = -1
        else:
            dep += rng.choice([0, 1, 300, 2500, 4999, 5000, 5001, 7000, 20000, -1, -3000])
            arr += rng.choice([0, 0, 1, 250, 2500, 4999, 5000, 5001, 7000, 30000, -1, -250, -6000])
            a = arr
        acks.append({"id": i + 1, "dep": dep, "arr": a, "size": rng.choice([0, 100, 1200])})
    return {"lvl": "groups", "batch": rng.choice([1, 3, 7, 0]), "acks": acks}


def random_rate_script(rng, n):
    arr, acks = 1000, []
    for i in range(n):
        if rng.random() < 0.1:
            a = -1
        else:
            arr += rng.choice([0, 0, 1, 1, 2, 5, 20, 100, 250, 499, 500, 501, 1200, -1, -3, -40])
            a = arr
        acks.append({"id": i + 1, "dep": 0, "arr": a, "size": rng.choice([0, 1, 100, 1200, 1460])})
    return {"lvl": "rate", "batch": rng.choice([1, 4, 0]), "acks": acks}


def random_od_script(rng, n):
    steps, nd = [], 0
    for i in range(n):
        nd += 1
        th = rng.choice([6000, 12500, 12500, 30000, 600000])
        q = th // min(nd, 60)
        est = rng.choice([q + 1, q + 1, q + 40, q, 0, -q, -(q + 1), rng.randrange(-3 * q - 5, 3 * q + 5)])
        steps.append({"est": est, "th": th, "delta": rng.choice([1, 3, 4, 5, 6, 11, 21]) * 1000000})
    return {"lvl": "od", "steps": steps}


_GROWTH = re.compile(r'<<\s*"GROWTH",\s*(\d+),\s*"([A-Za-z-]+)"')


def _count_discrete(g, events):
    for e in events:
        if e["a"] == "gbatch":
            g["groups_emitted"] += len(e["out"])
        elif e["a"] == "rbatch":
            g["rates"] += len(e["out"])
            g["rates_undefined"] += sum(1 for x in e["out"] if x <= -2147483647)
        elif e["a"] == "od":
            g["od_samples"] += 1
            g["od_overuse"] += e["use"] == "overuse"
            g["od_underuse"] += e["use"] == "underuse"


_DISCRETE0 = {"scripts": 0, "events": 0, "groups_emitted": 0, "rates": 0, "rates_undefined": 0,
              "od_samples": 0, "od_overuse": 0, "od_underuse": 0, "diverging_traces": {}}


def grow_batch(ctx, scripts, tag, test="TestVerifGccGrowExec", module="Trace_GccGrow.tla", count=_count_discrete,
               covkey="growth", fresh=_DISCRETE0, go_timeout=900):
    if not scripts:
        return
    safe = re.sub(r"[^A-Za-z0-9_.-]", "_", tag)
    rel, ov = _overlay(ctx, "bwe", safe)
    inp = ctx.path("%s-%s.in" % (ctx.pid, safe))
    outp = ctx.path("%s-%s.trace" % (ctx.pid, safe))
    vlib.write_ndjson(inp, scripts)
    rc, out = _go(ctx, rel, ov, test, inp, outp, 1, timeout=go_timeout)
    events = vlib.read_ndjson(outp) if os.path.exists(outp) else []
    g = ctx.cov.setdefault(covkey, json.loads(json.dumps(fresh)))
    g["scripts"] += len(scripts)
    if rc != 0:   # the property does state that feeding feedback never panics / blocks
        nres = sum(1 for e in events if e.get("a") == "reset")
        vlib.report_violation(ctx, _crash_what(tag, out), {
            "kind": tag, "level": "grow", "script": scripts[nres - 1] if 0 < nres <= len(scripts) else None,
            "go_output": out[-6000:]})
        return
    v = vlib.validate(ctx, module, outp, timeout=1800)
    if v.hw != v.n + 1 or "Error:" in v.out:
        raise vlib.Infra("growth trace validator did not consume the trace (%s):\n%s" % (tag, v.out[-2500:]))
    g["events"] += v.n
    count(g, events)
    hz = re.search(r'<<\s*"HAZARDS",([^>]*)>>', v.out)
    if hz:      # hazards of the code as read that occurred in the recorded traces, counted by TLC (Trace_GccRate)
        h = g.setdefault("hazards_observed", {})
        for name, n in re.findall(r'"([a-z-]+)",\s*(\d+)', hz.group(1)):
            h[name] = h.get(name, 0) + int(n)
    notes = ctx.cov.setdefault("growth_notes", [])
    first = {}
    for m in _GROWTH.finditer(v.out):
        kind = m.group(2)
        g["diverging_traces"][kind] = g["diverging_traces"].get(kind, 0) + 1
        if kind not in first:
            txt = v.out[m.start():m.start() + 1200]
            end = txt.find(">>\n<<")
            first[kind] = (int(m.group(1)), " ".join((txt[:end + 2] if end > 0 else txt).split())[:700])
    traces = vlib.split_traces(events)
    for kind, (line, txt) in sorted(first.items()):
        if any(n.startswith("growth/%s:" % kind) for n in notes):
            continue
        tr, off = vlib.trace_at(events, line)
        idx = max(i for i, (start, _) in enumerate(traces) if start + 1 <= line)
        notes.append("growth/%s: real code differs from the growth specification; first: %s; event %s; script %s" % (
            kind, txt, json.dumps(tr[off])[:400], json.dumps(scripts[idx])[:600]))
    ctx.log("(T) %s: %d growth traces / %d events validated in %.1fs, diverging: %s" % (
        tag, len(traces), v.n, v.wall, dict((k, n) for k, n in g["diverging_traces"].items()) or "none"))


def growth_discrete(ctx, rng):
    quick = ctx.quick
    vlib.model_check(ctx, "MC_GccOveruse.tla", vlib.cfg_variant(ctx, "MC_GccOveruse.cfg", {"MaxSteps": 5 if quick else 7}),
                     workers=2 if quick else 6, note="overuse hysteresis + controller state, all sample sequences")
    if not quick:
        vlib.model_check(ctx, "MC_GccOveruse.tla", "MC_GccOveruse_memoryless.cfg", workers=2,
                         expect_violation="Action property MemorylessNoDirectIncrease is violated",
                         note="negative control: applying the table from `increase` every time allows decrease -> increase")
        vlib.model_check(ctx, "MC_GccGroups.tla", "MC_GccGroups.cfg", workers=8, timeout=1800,
                         note="arrival groups + rate window, all sequences of 4 acks on a 5x6 grid")
    def some(beh, k):
        return beh if quick or len(beh) <= k else rng.sample(beh, k)

    gs = groups_scripts_from(some(vlib.generate(
        ctx, "Gen_GccGroups.tla", vlib.cfg_variant(ctx, "Gen_GccGroups.cfg", {"L": 2 if quick else 3, "Mode": '"groups"'})),
        120000))
    ods = [{"lvl": "od", "steps": b} for b in some(vlib.generate(
        ctx, "Gen_GccOveruse.tla", vlib.cfg_variant(ctx, "Gen_GccOveruse.cfg", {"L": 2 if quick else 3})), 120000)]
    n = 60 if quick else 1500
    rnd = [random_groups_script(rng, 40) for _ in range(n)] + [random_rate_script(rng, 40) for _ in range(n)]
    rnd += [random_od_script(rng, 90) for _ in range(n // 3)]
    if quick:
        grow_batch(ctx, gs + ods + rnd, "GROW")
    else:
        rates = some(vlib.generate(ctx, "Gen_GccGroups.tla",
                                   vlib.cfg_variant(ctx, "Gen_GccGroups.cfg", {"L": 4, "Mode": '"rate"'})), 120000)
        rs = [{"lvl": "rate", "batch": (1, 0)[i % 2],
               "acks": [{"id": a["id"], "dep": 0, "arr": a["arr"], "size": a["size"]} for a in b]}
              for i, b in enumerate(rates)]
        grow_batch(ctx, gs, "GROW-groups")
        grow_batch(ctx, ods, "GROW-overuse")
        grow_batch(ctx, rs, "GROW-rate")
        grow_batch(ctx, rnd, "GROW-random")
    g = ctx.cov.get("growth", {})
    if g.get("rates_undefined"):
        ctx.cov.setdefault("growth_notes", []).append(
            "growth/rate-undefined: rateCalculator handed int(bits / 0 s) to onRateUpdate %d times (window of one packet or "
            "equal arrival times: int(+Inf) / int(NaN), not defined by the Go specification, MinInt64 on amd64); the "
            "specification leaves that output undefined" % g["rates_undefined"])


# ---- the numeric stages: loss-based estimator, rate controller, kalman filter, wiring of the delay controller ----------
# spec/GccRate.tla, GccKalman.tla; MC_GccRate (+ five negative controls); Gen_GccRate (enumeration + seeded walks);
# harness zz_verif_gccrate_test.go; Trace_GccRate.  Same rules as above: growth only, a divergence is a NOTE.

_RATE0 = {"scripts": 0, "events": 0, "loss_reports": 0, "loss_increases": 0, "loss_decreases": 0, "loss_gets": 0,
          "rc_samples": 0, "rc_emitted": 0, "rc_states": {}, "kalman_updates": 0, "wire_batches": 0, "wire_emitted": 0,
          "clock_retries": 0, "inconclusive": 0, "diverging_traces": {}}


def _count_rate(g, events):
    for e in events:
        a = e["a"]
        if a == "lupd":
            g["loss_reports"] += 1
            g["loss_increases"] += bool(e["sti"])
            g["loss_decreases"] += bool(e["std"])
            g["clock_retries"] += e["tries"] - 1
        elif a == "lget":
            g["loss_gets"] += 1
        elif a == "rds":
            g["rc_samples"] += 1
            g["rc_emitted"] += e["emit"]
            g["rc_states"][e["state"]] = g["rc_states"].get(e["state"], 0) + 1
            g["clock_retries"] += e["tries"] - 1
        elif a == "kal":
            g["kalman_updates"] += 1
        elif a == "wbatch":
            g["wire_batches"] += 1
            g["wire_emitted"] += len(e["out"])
        elif a == "inconclusive":
            g["inconclusive"] += 1


def rate_batch(ctx, scripts, tag):
    # the whole batch runs in seconds (no sleeps, a virtual clock): a call that does not return is reported after 5 minutes
    grow_batch(ctx, scripts, tag, test="TestVerifGccRateExec", module="Trace_GccRate.tla", count=_count_rate,
               covkey="growth_rate", fresh=_RATE0, go_timeout=300)


def rate_scripts_from(beh):
    """A Gen_GccRate behaviour: uniform records {a, lost, n, dt, w, r, d, usage, st}; the first one carries the configuration
    (n = 1: loss-based estimator, n = 0: rate controller)."""
    res = []
    for b in beh:
        i = b[0]
        res.append({"lvl": "loss" if i["n"] == 1 else "rc", "init": i["w"], "min": i["r"], "max": i["d"], "steps": b[1:]})
    return res


def random_loss_script(rng, n):
    steps = []
    for _ in range(n):
        q = rng.random()
        if q < 0.75:
            tot = rng.choice([1, 7, 50, 100, 1000, 1000, 0])
            lost = 0 if tot == 0 else min(tot, rng.choice([0, 0, tot // 100, tot // 50, tot // 50 + 1, tot // 10, tot // 10 + 1,
                                                             tot // 4, tot // 2, tot, rng.randrange(tot + 1)]))
            steps.append({"a": "upd", "lost": lost, "n": tot,
                          "dt": rng.choice([0, 500, 1000, 20000, 100000, 199500, 200000, 200500, 250000, 1000000, 3000000, 150000000])})
        else:
            steps.append({"a": "get", "w": rng.choice([0, -5, 50000, 99999, 100000, 150000, 1000000, 30000000, 150000000,
                                                       rng.randrange(1, 200000000)]), "dt": rng.choice([0, 0, 1000])})
    return {"lvl": "loss", "init": rng.choice([10000, 100000, 1000000, 5000, 100000000, 0, 2000000]), "min": 0, "max": 0,
            "steps": steps}


def random_rc_script(rng, n):
    lo, hi = rng.choice([(5000, 50000000), (100000, 1000000), (300000, 2000000), (50000, 200000000), (5000, 5000)])
    init = rng.choice([lo, hi, max(lo, min(hi, 100000)), max(lo, min(hi, 800000))])
    steps, r = [], rng.choice([0, 90000, 120000, 1000000])
    for _ in range(n):
        q = rng.random()
        if q < 0.25:
            r = max(0, rng.choice([r, r + rng.randrange(-3000, 3000), int(r * rng.choice([0.5, 0.9, 1.1, 1.6])), 0, init,
                                   rng.randrange(1, 3000000)]))
            steps.append({"a": "recv", "r": r})
        elif q < 0.35:
            steps.append({"a": "rtt", "d": rng.choice([0, 500, 10000, 50000, 150000, 900000, -50000, -100000, -99500, -100500,
                                                       -300000, 200000000, rng.randrange(-150000, 2000000)])})
        else:
            steps.append({"a": "ds", "usage": rng.choice(["normal", "normal", "overuse", "underuse"]),
                          "st": rng.choice(["increase", "increase", "decrease", "hold"]),
                          "dt": rng.choice([0, 0, 500, 1000, 5000, 20000, 100000, 500000, 999500, 1000000, 2500000])})
    return {"lvl": "rc", "init": init, "min": lo, "max": hi, "steps": steps}


def random_kalman_script(rng, n):
    steps, m = [], 0
    for _ in range(n):
        m = rng.choice([0, m, m + 999, m - 999, m + 1000, m - 1000, 1000000, -1000000, 5000000, -20000000, 250000000,
                        -1000000000, 1000000000, rng.randrange(-30000000, 30000000)])
        m = max(-1000000000, min(1000000000, m))
        steps.append({"a": "kal", "m": m})
    return {"lvl": "kal", "init": 0, "min": 0, "max": 0, "steps": steps}


def random_wire_script(rng, n):
    dep, arr, acks = 100000, 300000, []
    for i in range(n):
        dep += rng.choice([0, 1000, 3000, 5000, 6000, 6000, 7000, 20000])
        arr += rng.choice([0, 1000, 4000, 5000, 6000, 6000, 8000, 9000, 30000, -1000])
        acks.append({"id": i + 1, "dep": dep, "arr": -1 if rng.random() < 0.05 else arr, "size": rng.choice([100, 1000, 1200])})
    lo, hi = rng.choice([(5000, 50000000), (100000, 1000000), (300000, 2000000)])
    return {"lvl": "wire", "init": rng.choice([lo, hi, (lo + hi) // 2]), "min": lo, "max": hi, "batch": rng.choice([1, 4, 10, 0]),
            "acks": acks}


RATE_NEG = [("MC_GccRate_neg_lossfloor.cfg", "Invariant LOutputInClamp is violated",
             "negative control: 'what getEstimate returns lies in the estimator's own clamp' - it is min(wanted, bitrate)"),
            ("MC_GccRate_neg_inclowers.cfg", "Invariant RIncNeverLowers is violated",
             "negative control: 'an increase never lowers the target' - the additive branch returns min(target + inc, 1.5 x received)"),
            ("MC_GccRate_neg_decraises.cfg", "Invariant RDecNeverRaises is violated",
             "negative control: 'a decrease never raises the target' - 0.85 x received rate may lie above the target"),
            ("MC_GccRate_neg_beyondcap.cfg", "Invariant RIncBelowCap is violated",
             "negative control: 'an increase never goes above 1.5 x the received rate' - the cap binds only while it lies above the target"),
            ("MC_GccRate_neg_nan.cfg", "Invariant RDefined is violated",
             "negative control: a round-trip time of -100 ms makes the additive increase divide 0 ms by 0 ms (int(NaN))")]


def growth_rate(ctx, rng):
    quick = ctx.quick
    got = {"beh": [], "walks": []}

    def mc(c):
        vlib.model_check(c, "MC_GccRate.tla", vlib.cfg_variant(c, "MC_GccRate.cfg", {"MaxSteps": 2 if quick else 3}),
                         workers=1 if quick else 2, timeout=1200,
                         note="loss-based estimator + rate controller at the real constants, every call sequence from 11 warm-up states")

    def neg(i):
        def job(c):
            cfg, exp, note = RATE_NEG[i]
            vlib.model_check(c, "MC_GccRate.tla", cfg, workers=1, expect_violation=exp, note=note)
        return job

    def enum(c):
        if quick:
            got["beh"] = vlib.generate(c, "Gen_GccRate.tla", vlib.cfg_variant(c, "Gen_GccRate.cfg", {
                "L": 1, "Mode": '"both"', "Wide": "FALSE"}), workers=1)
        else:
            got["beh"] = vlib.generate(c, "Gen_GccRate.tla", vlib.cfg_variant(c, "Gen_GccRate.cfg", {
                "L": 2, "Mode": '"loss"', "Wide": "TRUE"}), workers=1)
            got["beh"] += vlib.generate(c, "Gen_GccRate.tla", vlib.cfg_variant(c, "Gen_GccRate.cfg", {
                "L": 2, "Mode": '"rc"', "Wide": "FALSE"}), workers=1)

    walks, depth = (24, 30) if quick else (600, 80)

    def sim(c):
        got["walks"] = vlib.generate(c, "Gen_GccRate.tla", vlib.cfg_variant(c, "Gen_GccRate_sim.cfg", {
            "L": depth, "Mode": '"both"'}), simulate=(walks, depth + 3))

    # generation first (the executor waits for it), the model-checking runs fill the remaining slots
    jobs = [enum, sim, mc] + [neg(i) for i in (range(2) if quick else range(len(RATE_NEG)))]
    vlib.run_parallel(ctx, jobs, max_workers=4 if quick else 3)      # at most 4 TLC worker threads at any time

    def some(beh, k):
        return beh if len(beh) <= k else rng.sample(beh, k)
    scripts = rate_scripts_from(some(got["beh"], 300 if quick else 15000)) + rate_scripts_from(got["walks"][:walks])
    n = 8 if quick else 300
    scripts += [random_loss_script(rng, 40) for _ in range(n)] + [random_rc_script(rng, 60) for _ in range(n)]
    scripts += [random_kalman_script(rng, 60) for _ in range(n // 2)] + [random_wire_script(rng, 40) for _ in range(n)]
    rate_batch(ctx, scripts, "GROW-numeric")
    if ctx.cov.get("growth_rate"):
        notes = ctx.cov.setdefault("growth_notes", [])
        hz = ctx.cov["growth_rate"].get("hazards_observed", {})
        texts = {
            "loss-below-floor": "lossBasedBandwidthEstimator.getEstimate returned (and kept) a bitrate below the estimator's own "
                                "100 kbit/s floor %d times: it is min(wanted, bitrate), the clamp is applied only when the bitrate moves",
            "decrease-raises": "rateController.decrease RAISED the target %d times: it goes to 0.85 x the received rate whether or "
                               "not that lies below the current target",
            "increase-lowers": "rateController.increase LOWERED the target %d times: near convergence it returns "
                               "min(target + increase, 1.5 x received rate) without comparing with the current target",
            "increase-beyond-cap": "rateController.increase raised the target %d times although it already lay at or above 1.5 x the "
                                   "received rate: the 'maximum increase to 1.5 * received rate' binds only while 1.5 x received lies "
                                   "ABOVE the target, at or below it the multiplicative branch adds 8 %%/s whatever is received",
            "increase-undefined": "rateController.increase computed int(NaN) %d times (0 ms elapsed / 0 ms response time with "
                                  "latestRTT in (-101 ms, -99 ms), or a target <= 0): not defined by the Go specification; on "
                                  "amd64 the target falls to the configured minimum",
        }
        for k, n in sorted(hz.items()):
            if n and k in texts:
                notes.append("growth/hazard-%s: %s (the specification follows the code; MC_GccRate shows the unconditional "
                             "monotonicity / definedness property failing)" % (k, texts[k] % n))


def growth(ctx, rng):
    """The discrete stages and the numeric stages are independent: they run side by side (own scratch directories), the
    results are merged afterwards.  Nothing here changes the verdict except a panic / hang of a real stage."""
    import threading
    rrng = random.Random("%s/gccrate" % ctx.seed)
    child = vlib.Ctx(ctx.pid, ctx.tier, ctx.seed)
    child.replay_mode = getattr(ctx, "replay_mode", False)
    err = []

    def side():
        try:
            growth_rate(child, rrng)
        except BaseException as e:   # re-raised in the main thread
            err.append(e)
    th = threading.Thread(target=side)
    th.start()
    try:
        growth_discrete(ctx, rng)
    finally:
        th.join()
    for k in ("states", "transitions", "behaviours_generated", "evaluations"):
        ctx.cov[k] += child.cov[k]
    ctx.cov["model_runs"] += child.cov["model_runs"]
    ctx.violations += child.violations
    if "growth_rate" in child.cov:
        ctx.cov["growth_rate"] = child.cov["growth_rate"]
    notes = ctx.cov.setdefault("growth_notes", [])
    notes += [n for n in child.cov.get("growth_notes", []) if n not in notes]
    if err:
        raise err[0]
    for note in ctx.cov.get("growth_notes", []):
        print("NOTE: property=%s %s" % (ctx.pid, note), flush=True)


# ------------------------------------------------------------------------------------------ run

def run(ctx):
    rng = random.Random(ctx.seed)
    quick = ctx.quick
    # (M)
    vlib.model_check(ctx, "MC_Gcc.tla", "MC_Gcc.cfg", workers=8, timeout=600,
                     note="2 feeders x 1 WriteRTCP, pipeline + callback goroutines, getter, closer; safety + liveness")
    vlib.model_check(ctx, "MC_Gcc.tla", "MC_Gcc_noclamp.cfg", workers=2, expect_violation="Invariant InBounds is violated",
                     note="negative control: min(delay, loss) without a final clamp leaves the envelope (loss floor < min)")
    vlib.model_check(ctx, "MC_Gcc.tla", "MC_Gcc_nowait.cfg", workers=2,
                     expect_violation="Action property NoPublishAfterClose is violated",
                     note="negative control: Close that does not wait for the pipeline goroutines publishes after Close")
    if not quick:
        vlib.model_check(ctx, "MC_Gcc.tla", "MC_Gcc_point.cfg", workers=4, note="min = init = max")
        vlib.model_check(ctx, "MC_Gcc.tla", "MC_Gcc_live3.cfg", workers=8, timeout=3000, note="3 feeders, safety + liveness")
        vlib.model_check(ctx, "MC_Gcc.tla", "MC_Gcc_deep.cfg", workers=8, timeout=3000,
                         note="2 feeders x 2 WriteRTCP, 2 updates per batch, 2 polls; safety")
    # state table + names
    run_batch(ctx, [mk_script("table", 0, "rec", "twcc", [])], "T-table", par=1)
    # (G) systematic scripts
    if quick:
        scripts = gen_scripts(ctx, rng, 2, 8, "{0, 6000}", k=None)
    else:
        scripts = gen_scripts(ctx, rng, 2, 8, "{0, 1000, 6000}", k=None)
        scripts += gen_scripts(ctx, rng, 3, 6, "{0, 6000}", k=5000)
    run_batch(ctx, scripts, "G-bwe", par=8 if quick else 12)
    # the same family through cc.Interceptor
    ccs = gen_scripts(ctx, rng, 2, 8, "{6000}", k=40 if quick else 300, level="cc", pacers=["rec", "noop", "leaky", "default"])
    run_batch(ctx, ccs, "G-cc", level="cc", par=8)
    # (T) seeded random scripts, concurrent feeders/closer
    nr, rounds = (60, 6) if quick else (800, 14)
    rs = [random_script(rng, "bwe", rounds) for _ in range(nr)]
    rs += [random_script(rng, "bwe", rounds, pacer="default") for _ in range(6 if quick else 40)]
    cs = combos(rng, default_share=False)
    rs += [paced_script(rng, cs[i % len(cs)][0], cs[i % len(cs)][1], cs[i % len(cs)][2], 5 if quick else 12)
           for i in range(32 if quick else 200)]
    for pc in ("noop", "rec", "leaky"):
        for fbk in FBS:
            for _ in range(2 if quick else 10):
                rs.append(close_mid_digest_script(rng, rng.choice([0, 1]), pc, fbk))
    for pc in ("leaky", "default"):
        for fbk in FBS:
            for _ in range(4 if quick else 12):
                rs.append(close_mid_drain_script(rng, pc, fbk))
    # a loopback transport: every packet is acknowledged from inside the pacer's own Write (feedback re-enters the estimator
    # on the pacer goroutine while the script keeps sending and feeding)
    for pc in ("leaky", "default", "noop"):
        for _ in range(2 if quick else 12):
            sc = random_script(rng, "bwe", rounds, pacer=pc, fb="rfc8888")
            sc["loopback"] = True
            rs.append(sc)
        # many small packets per pacing interval at megabit rates: several acknowledgements re-enter within one tick
        steps = []
        for _ in range(4):
            steps += [{"a": "send", "n": 60, "gap": rng.choice([0, 100]), "size": 200}, {"a": "get"}]
        steps += [{"a": "fb", "pat": "inc", "loss": 0}, {"a": "get"}]
        sc = mk_script("bwe", rng.choice([1, 4]), pc, "rfc8888", steps)
        sc["loopback"] = True
        rs.append(sc)
    # a busy rate consumer: the change callback does not return while feedback is being fed; compound feedback (this report
    # followed by the previous one again) keeps WriteRTCP feeding after the report that changes the rate
    for pc in ("rec", "noop", "leaky"):
        for fbk in FBS:
            for _ in range(2 if quick else 10):
                sc = random_script(rng, "bwe", rounds, pacer=pc, fb=fbk)
                sc["cbwait"] = True
                for st in sc["steps"]:
                    if st["a"] == "fb" and rng.random() < 0.6:
                        st["pair"] = True
                rs.append(sc)
    # a slow rate consumer: the first change callback takes 1.6 s while the target keeps changing - every change is announced
    for pc in ("rec", "noop"):
        for fbk in FBS:
            sc = paced_script(rng, 3, pc, fbk, 8)
            sc["cbhold"] = 1600
            rs.append(sc)
    # an RTP write that is still inside the transport (back pressure) while feedback keeps arriving: feeding feedback,
    # the getters and Close must not wait for it
    for pc in ("noop", "rec", "leaky"):
        for fbk in FBS:
            steps = []
            for _ in range(2):        # paced rounds: the published value moves
                steps += [{"a": "send", "n": 10, "gap": 5500, "size": 1000}, {"a": "fb", "pat": "inc", "loss": 0}, {"a": "get"},
                          {"a": "sleep", "ms": 205}]
            steps += [{"a": "send", "n": 9, "gap": 5500, "size": 1000}, {"a": "sendheld"},     # the last packet of the round stays in the transport
                      {"a": "fb", "pat": "inc", "loss": rng.choice([0, 50])}, {"a": "sleep", "ms": 100}, {"a": "get"}, {"a": "stats"},
                      {"a": "sleep", "ms": 205}, {"a": "fb", "pat": "inc", "loss": 0}, {"a": "get"},
                      {"a": "release"}, {"a": "send", "n": 5, "gap": 1000, "size": 1000}, {"a": "fb", "pat": "inc", "loss": 0},
                      {"a": "quiesce"}, {"a": "close"}]
            rs.append(mk_script("bwe", rng.choice([0, 3]), pc, fbk, steps))
    if quick:   # a few loss scripts also in the quick tier (about 1.2 s each, run in parallel with the others)
        rs += [loss_script(rng, c, rng.choice(PACERS[:3]), f) for c in (1, 3, 0, 4, 5) for f in FBS]
    run_batch(ctx, rs, "T-random", par=16)
    ncon = 24 if quick else 200
    con = [conc_script(rng, cs[i % len(cs)][0], cs[i % len(cs)][1] if cs[i % len(cs)][1] != "default" else "rec",
                       cs[i % len(cs)][2], feeders=2 if i % 3 else 3, writes=3 if quick else 5) for i in range(ncon)]
    run_batch(ctx, con, "T-conc", par=8 if quick else 12)
    if not quick:
        ls = [loss_script(rng, c, p, f) for c in range(len(CONFIGS)) for p in PACERS[:3] for f in FBS for _ in range(6)]
        ls += [random_script(rng, "bwe", 8, loss_waits=True) for _ in range(120)]
        run_batch(ctx, ls, "T-loss", par=16)
        run_batch(ctx, [conc_script(rng, c % 4, "rec", FBS[c % 2], feeders=3, writes=4) for c in range(24)], "T-conc-race",
                  par=4, race=True)
    growth(ctx, rng)
    inc = getattr(ctx, "inconclusive", 0)
    ctx.cov["inconclusive_scripts"] = inc
    if inc > max(3, ctx.cov["evaluations"] // 50):
        raise vlib.Infra("%d scripts could not establish quiescence" % inc)
    ctx.assumptions += [
        "Gcc.tla is the reading of the property: the numeric pipeline is two arbitrary integers per update; only the envelope "
        "(bounds, pacer = published sequence, one callback per publication, getter = last published, closed error) is decided",
        "SetTargetBitrate on the injected pacer is called under the estimator's lock right after latestBitrate is stored "
        "(send_side_bwe.go onDelayUpdate), so the recorded order is the publication order and a getter poll must return the "
        "k-th published value for some k between the pacer-call counts before and after the poll",
        "quiescence: an empty TransportLayerCC written after all other feedback is consumed by the (unbuffered) pipeline only "
        "when all earlier work is done; callbacks are awaited until their count equals the pacer-call count or 3 s of silence",
        "departure times are the real clock (time.Now in the code): gaps are real sleeps and are inputs, never assertions",
        "Go toolchain go1.24.0, pion/rtcp v1.2.17 and the repository's twcc.Recorder build the feedback packets",
    ]
    return vlib.finish(ctx, "model_checking", RULE)


def replay(ctx, path):
    rep = json.load(open(path))
    scripts = vlib.replay_scripts(path)
    for sc in scripts:
        if sc.get("lvl") in ("loss", "rc", "kal", "wire"):
            rate_batch(ctx, [sc], "replay-grow")
            continue
        if sc.get("lvl"):
            grow_batch(ctx, [sc], "replay-grow")
            continue
        run_batch(ctx, [sc], "replay", level="cc" if sc.get("level") == "cc" else "bwe", par=1,
                  race="race" in (rep.get("kind") or ""))
    for note in ctx.cov.get("growth_notes", []):       # a growth script replayed: the divergence is a NOTE, as in run()
        print("NOTE: property=%s %s" % (ctx.pid, note), flush=True)
    return vlib.finish(ctx, "model_checking", RULE)

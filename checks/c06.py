"""C06 - Receiver reports follow RFC 3550 for the observed reception history.
(M) MC_ReceiverReport  (G) Gen_ReceiverReport scripts -> real receiverStream / ReceiverInterceptor  (T) Trace_ReceiverReport."""
import random

import vlib

META = {
    "level": "model_checking",
    "text": "ReceiverReport.tla (loss accounting over true extended sequence numbers with an 8192-number history, saturating "
            "cumulative loss, RFC 3550 A.8 jitter in fixed point over true RTP time, LSR/DLSR) is model checked exhaustively at "
            "scaled constants against the plain definitions (numbers never received, unsaturated sum); TLC enumerates every "
            "boundary-alphabet behaviour at the real constants and these plus seeded random histories (loss, duplicates, "
            "reordering, sequence and RTP-timestamp wrap, many cycles, saturation, SRs, several SSRCs) are executed on the real "
            "receiverStream and ReceiverInterceptor; every report block of every recorded trace must be the one the "
            "specification computes (jitter and DLSR within the derived +-1).",
    "note": "Trusted: the reading of the property in ReceiverReport.tla; tick stepping through the verif gate (real 200us "
            "ticker, clock injected with ReceiverNow); millisecond clocks and clock rates for which elapsed*rate is integral; "
            "pion/rtcp and pion/rtp (un)marshalling. Exact float64 rounding of jitter is not covered (+-1 unit).",
    "technique": "TLA+ spec + TLC model checking, TLC-generated behaviours replayed into the Go code, recorded traces validated by TLC",
    "design_ref": "DESIGN.md section 7 C06",
}

PKG = "pkg/report"
HARNESS = ["zz_verif_rr_test.go"]
HIST = 8192
RULE = ("scripts = TLC-enumerated boundary-alphabet behaviours of Gen_ReceiverReport at the real constants (every sequence of "
        "L actions: packet position relative to the highest number and to the edge of the 8192 history incl. duplicates and "
        "the 2^16 wrap, RTP-time/arrival moves incl. backwards and across the 2^32 wrap (harness base 2^32-1000), SR, Report) "
        "+ seeded random histories (loss bursts, reordering, duplicates, jumps, many cycles, cumulative-loss saturation, SR "
        "placement, unbind/rebind, several SSRCs and clock rates); each is executed on the real receiverStream and/or "
        "ReceiverInterceptor (ticks stepped through the verif gate) and the recorded trace is validated by TLC against "
        "Trace_ReceiverReport. distinct_nontrivial = number of distinct recorded traces containing at least one report "
        "block with a non-zero loss, jitter or LSR field. Traces cut short at a listed known finding (a report interval "
        "longer than the history; known_finding_hits gives their number) are included in the trace counts up to that point.")

NTP_POOL = [[43690, 4660, 22136, 52719], [1, 0, 0, 1], [65535, 65535, 65535, 65535], [59000, 32768, 1, 0], [0, 0, 0, 0]]


def wrap(level, tsb, tsmid, steps):
    return {"level": level, "tsb": tsb, "tsmid": tsmid, "steps": steps}


def ev(a, s=0, w=0, ts=0, t=0, ntp=None, rate=0, cmp=0, lost0=0):
    e = {"a": a, "s": s, "w": w, "ts": ts, "t": t, "ntp": ntp or NTP_POOL[0], "rate": rate}
    if cmp:
        e["cmp"] = cmp          # interceptor level: the sender report travels in a compound packet next to foreign ones
    if lost0:
        e["lost0"] = lost0      # stream level: base of the cumulative-lost counter (brings the saturation within reach)
    return e


class Stream:
    def __init__(self, rng, s, rate):
        self.s, self.rate = s, rate
        self.pos = rng.choice([0, 65500, 32760, 65535, rng.randrange(65536)])   # true number of the next new packet
        self.hi = None          # highest true number delivered
        self.rep = None         # highest at the last report
        self.pending = []       # lost numbers that may still arrive late
        self.ts = rng.choice([0, -500, 100000])   # media clock (true RTP time offset)
        self.arr = None
        self.lts = 0


def random_script(rng, level, n, beyond=False, g=None):
    """A seeded random reception history. Unless `beyond`, no report interval is longer than the history and no packet
    arrives more than the history behind the highest (those classes are generated separately)."""
    g = g or rng.choice([1, 1, 1, 10])
    rates = [90000, 48000, 8000, 1000, 16000] + ([44100, 11000] if g == 10 else [])
    steps = []
    now = rng.choice([0, 5, 1000])
    now -= now % g
    streams = {}
    for s in (1, 2, 3):
        streams[s] = Stream(rng, s, rng.choice(rates))
        steps.append(ev("bind", s=s, rate=streams[s].rate,
                        lost0=rng.choice([0, 0, 0xFFFFFF - 40, 0xFFFFFF - 3, 0xFFFFFF]) if level == "stream" else 0))
    p_loss = rng.choice([0.0, 0.02, 0.1, 0.3])
    p_report = rng.choice([0.02, 0.05, 0.2])
    sr_floor = [0]                 # the arrival clock (ReceiverNow) may be stepped back, but not behind the newest sender report

    def report():
        steps.append(ev("report", t=now))
        for st in streams.values():
            st.rep = st.hi

    def deliver(st, num, ts):
        if st.arr is not None:
            # keep |D| below 2^23 RTP units so that D * 2^8 fits TLC's 32-bit integers
            lim = 8000000 - abs(now - st.arr) * st.rate // 1000      # (the arrival clock may have been stepped back)
            ts = max(st.lts - lim, min(st.lts + lim, ts))
        st.lts = ts
        st.arr = now
        if st.hi is None:
            st.hi = num
            st.rep = num - 1
        elif num > st.hi:
            st.hi = num
        steps.append(ev("rtp", s=st.s, w=num % 65536, ts=ts, t=now))

    for _ in range(n):
        now += rng.choice([0, 0, g, g, 2 * g, 3 * g, 30, 40] + ([1000, 2500] if rng.random() < 0.2 else []))
        if rng.random() < 0.04:    # the clock is stepped back between two packets (RFC 3550 A.8 takes the SIGNED arrival difference)
            now = max(sr_floor[0], now - rng.choice([g, 3 * g, 20 * g, 500, 2000]))
            now -= now % g
            now = max(now, sr_floor[0])
        idle = [st for st in streams.values() if st.arr is not None and now - st.arr >= 9000]
        st = idle[0] if idle else streams[rng.choice([1, 1, 1, 2, 2, 3])]
        r = rng.random()
        if idle or r < 0.72:
            # a new packet, possibly lost, possibly after a jump
            step = 1
            q = rng.random()
            if q < 0.04:
                step = rng.choice([2, 5, 100, 1000, HIST - 1, HIST])
                if beyond and rng.random() < 0.5:
                    step = rng.choice([HIST + 1, 2 * HIST, 20000, 32767])
            st.pos += step
            num = st.pos
            # media clock: nominal advance with some noise, sometimes the same frame, rarely a big or backward move
            q2 = rng.random()
            if q2 < 0.55:
                st.ts += st.rate // 1000 * rng.choice([20, 33, 40])
            elif q2 < 0.80:
                pass
            elif q2 < 0.95:
                st.ts += rng.randrange(-3000, 6000)
            else:
                st.ts += rng.choice([-3000000, 3000000, 1 << 21])
            if not idle and rng.random() < p_loss:
                if rng.random() < 0.6:
                    st.pending.append((num, st.ts))
                continue
            if not beyond and st.hi is not None:
                if num - st.hi > HIST:                                    # too many losses in a row: stay inside the history
                    st.pos = num = st.hi + HIST
                    st.pending = []
                if num - st.rep > HIST:
                    report()
            deliver(st, num, st.ts)
            if rng.random() < 0.04:
                now += rng.choice([0, g])
                deliver(st, num, st.ts)                                   # duplicate
        elif r < 0.82 and st.pending and st.hi is not None:
            num, ts = st.pending.pop(rng.randrange(len(st.pending)))
            if beyond:
                deliver(st, num, ts)
            elif st.hi - num < HIST and num - st.hi <= HIST:              # late arrival inside the history (or still ahead)
                if num - st.rep > HIST:
                    report()
                deliver(st, num, ts)
        elif r < 0.84 and st.hi is not None:
            back = rng.choice([1, 2, HIST - 1]) if not beyond else rng.choice([HIST, HIST + 1, 20000, 32768])
            deliver(st, st.hi - back, st.ts - 90 * back)                  # old packet at the edge of the history
        elif r < 0.84 + p_report:
            report()
        elif r < 0.97:
            s = rng.choice([1, 1, 2, 3, 9])                               # 9 is never bound
            steps.append(ev("sr", s=s, t=now, ntp=[rng.randrange(65536) for _ in range(4)] if rng.random() < 0.7
                            else rng.choice(NTP_POOL), cmp=rng.choice([0, 0, 1, 2])))
            sr_floor[0] = now
        elif r < 0.985:
            report()
            if rng.random() < 0.7:
                steps.append(ev("unbind", s=st.s))              # (otherwise: bound again while bound - starts fresh)
            report()
            streams[st.s] = Stream(rng, st.s, rng.choice(rates))
            steps.append(ev("bind", s=st.s, rate=streams[st.s].rate))
            if level == "icpt" and rng.random() < 0.6:
                # reads that were in flight when the stream was removed arrive through the reader of the OLD binding (after
                # the SSRC has been bound again): accounted to nothing
                for d in (100, 101, 3000):
                    steps.append(dict(ev("rtp", s=st.s, w=(st.pos + d) % 65536, ts=st.ts, t=now), stale=True))
        else:
            now += rng.choice([100, 700, 5000])
            report()
    now += 1000
    report()
    if level == "icpt" and rng.random() < 0.5:          # reads whose wrapped reader fails: passed up, nothing accounted
        extra = []
        for st in steps:
            extra.append(st)
            if st["a"] == "rtp" and rng.random() < 0.05:
                extra.append(dict(st, w=(st["w"] + rng.choice([1, 2, 50, 9000, 40000])) % 65536, rfail=True))
        steps = extra
    if level == "icpt" and rng.random() < 0.5:          # the RTCP writer refuses the reports of some ticks
        steps = [dict(st, wfail=True) if st["a"] == "report" and rng.random() < 0.25 else st for st in steps]
    return wrap(level, rng.choice([0, -1000, -1000, -1, 12345]), rng.choice([0, 0, 1]), steps)


def saturation_script(rng, level, jumps):
    """Many cycles and the 2^24-1 saturation of the cumulative counter: a jump of exactly the history length
    (8191 numbers lost) before every report, a sender report now and then, hours of wall time."""
    steps = [ev("bind", s=1, rate=90000), ev("bind", s=2, rate=8000)]
    now, pos, ts = 0, rng.choice([0, 65000, 40000]), 0
    steps.append(ev("rtp", s=1, w=pos % 65536, ts=ts, t=now))
    steps.append(ev("rtp", s=2, w=5, ts=0, t=now))
    for i in range(jumps):
        now += rng.choice([20, 1000, 9000])
        ts += rng.choice([900, 90000, 2000000])
        extra = rng.random() < 0.05
        pos += HIST - (1 if extra else 0) - (1 if i == 0 else 0)   # the first interval starts one number before the first packet
        steps.append(ev("rtp", s=1, w=pos % 65536, ts=ts, t=now))
        if extra:
            pos += 1
            steps.append(ev("rtp", s=1, w=pos % 65536, ts=ts, t=now))
        if rng.random() < 0.03:
            steps.append(ev("sr", s=rng.choice([1, 2]), t=now, ntp=[rng.randrange(65536) for _ in range(4)]))
        now += rng.choice([0, 1, 999, 8000])
        steps.append(ev("report", t=now))
    return wrap(level, -1000, 0, steps)


def inside_history(script):
    """True iff no report interval of the script is longer than the history and no packet arrives more than the history
    behind the highest, i.e. none of the deviation predicates of ReceiverReport.tla can hold (generator self-check)."""
    hi, rep = {}, {}
    for e in script["steps"]:
        s = e["s"]
        if e["a"] in ("bind", "unbind"):
            hi.pop(s, None)
            rep.pop(s, None)
        elif e["a"] == "rtp" and not e.get("rfail") and not e.get("stale"):
            if s not in hi:
                hi[s], rep[s] = e["w"], e["w"] - 1
            else:
                d = (e["w"] - hi[s]) % 65536
                if 0 < d < 32768:
                    hi[s] += d
                elif (65536 - d) % 65536 >= HIST:
                    return False
        elif e["a"] == "report":
            for k in hi:
                if hi[k] - rep[k] > HIST:
                    return False
                rep[k] = hi[k]
    return True


def nontrivial(evs):
    for e in evs:
        if e["a"] == "report":
            for b in e["out"]:
                if b["frac"] or b["tot"] or b["jit"] or b["lsr"] != [0, 0]:
                    return True
    return False


CHUNK = 12000   # scripts per Go/TLC round (TLC loads a whole trace file into memory)


def run_batch(ctx, scripts, tag):
    """vlib.run_batch in chunks; returns the concatenated event list (None if a chunk could not be executed)."""
    allev = []
    for n, i in enumerate(range(0, len(scripts), CHUNK)):
        evs = vlib.run_batch(ctx, tag=tag if len(scripts) <= CHUNK else "%s.%d" % (tag, n), scripts=scripts[i:i + CHUNK],
                             pkg_rel=PKG, pkgname="report", files=HARNESS, test="TestVerifRRExec", trace_module="Trace_ReceiverReport.tla",
                             nontrivial=nontrivial, xss="512m")
        if evs is None:
            return None
        allev += evs
    return allev


def gen_scripts(ctx, base, L, alpha, tsb, tsmid):
    cfg = vlib.cfg_variant(ctx, "Gen_ReceiverReport.cfg", {"Base": base, "L": L, "Alpha": alpha})
    beh = vlib.generate(ctx, "Gen_ReceiverReport.tla", cfg)
    return [wrap("stream", tsb, tsmid, b) for b in beh]


def run(ctx):
    rng = random.Random(ctx.seed)
    # (M)
    a, b = (5, 5) if ctx.quick else (6, 7)
    vlib.model_check(ctx, "MC_ReceiverReport.tla", vlib.cfg_variant(ctx, "MC_ReceiverReport.cfg", {"MaxSteps": a}), timeout=3000)
    vlib.model_check(ctx, "MC_ReceiverReport.tla", vlib.cfg_variant(ctx, "MC_ReceiverReport_jitter.cfg", {"MaxSteps": b}),
                     timeout=3000)
    vlib.model_check(ctx, "MC_ReceiverReport.tla", "MC_ReceiverReport_asfound.cfg", workers=2,
                     expect_violation="Invariant AsFoundAlways is violated",
                     note="negative control: beyond the history the ring of the code (as-found model) counts differently from the "
                          "property - the recorded finding is reachable, and only there")
    vlib.model_check(ctx, "MC_ReceiverReport.tla", "MC_ReceiverReport_reach.cfg",
                     expect_violation="Invariant ReachSaturated is violated",
                     note="negative control: the saturation of the cumulative counter is reachable in the model")
    # (G) systematic, receiverStream directly; a sample of the same behaviours through the interceptor
    if ctx.quick:
        confs = [(65530, 2, 1, -1000, 0), (100, 3, 2, 0, 0)]
    else:
        confs = [(65530, 3, 1, -1000, 0), (100, 4, 2, 0, 0), (32768, 4, 2, -1, 1), (65535, 2, 1, -2971, 0)]
    icpt_sample = []
    for (base, L, alpha, tsb, tsmid) in confs:
        scripts = gen_scripts(ctx, base, L, alpha, tsb, tsmid)
        run_batch(ctx, scripts, "G-stream-%d-%d-%d" % (base, L, alpha))
        k = 200 if ctx.quick else 1500
        for sc in rng.sample(scripts, min(k, len(scripts))):
            sc2 = dict(sc)
            sc2["level"] = "icpt"
            sc2["steps"] = [dict(e, cmp=rng.choice([0, 1, 2])) if e["a"] == "sr" else e for e in sc["steps"]]
            icpt_sample.append(sc2)
    run_batch(ctx, icpt_sample, "G-icpt")
    # (T) seeded random long histories
    ns, ni, length = (30, 10, 500) if ctx.quick else (300, 100, 2500)
    rs = [random_script(rng, "stream", length) for _ in range(ns)]
    rs += [random_script(rng, "icpt", length // 2) for _ in range(ni)]
    rs.append(saturation_script(rng, "stream", 2100))
    if not ctx.quick:
        rs.append(saturation_script(rng, "icpt", 2100))
        rs += [random_script(rng, "stream", 20000) for _ in range(4)]
    if not all(inside_history(sc) for sc in rs):
        raise vlib.Infra("a random history meant to stay inside the 8192-number history leaves it (generator bug)")
    rs = [vlib.remap_ids(sc, rng.choice(vlib.SSRC_TABLES)) for sc in rs]
    evs = run_batch(ctx, rs, "T-random")
    if evs is not None and not ctx.violations:
        top = max([b["tot"] for e in evs if e["a"] == "report" for b in e["out"]] or [0])
        if top != 0xFFFFFF:
            raise vlib.Infra("the saturation history did not reach 2^24-1 (highest cumulative lost seen: %d)" % top)
        ctx.cov["max_cumulative_lost_observed"] = top
        ctx.cov["max_cycles_observed"] = max(b["cyc"] for e in evs if e["a"] == "report" for b in e["out"])
    # (T) the classes outside the history: report intervals longer than 8192 numbers, packets older than the history
    nb = 6 if ctx.quick else 60
    bs = [random_script(rng, rng.choice(["stream", "icpt"]), length, beyond=True) for _ in range(nb)]
    run_batch(ctx, bs, "T-beyond-history")
    ctx.assumptions += [
        "the TLA+ module ReceiverReport is the reading of the property (a wire number denotes the true number nearest to the "
        "highest, ties late; reception status is remembered for the 8192 numbers up to the highest; a packet older than that "
        "has no effect on the loss accounting; every packet after the first updates the jitter)",
        "clocks are integer milliseconds and clock rates are such that elapsed*rate/1000 is integral; jitter and DLSR are "
        "compared with the +-1 tolerance derived in DESIGN.md C06, everything else exactly",
        "RTP timestamp steps are below 2^23 units so that the fixed-point recurrence (scale 2^8) fits TLC's 32-bit integers",
        "interceptor-level ticks are stepped through the verif gate at the top of the ticker case; the real ticker interval is 200us",
        "a report for a stream that has not received any packet carries zeros (the property does not say)",
        "Go toolchain go1.24.0 from the module cache, pion/rtcp and pion/rtp trusted",
    ]
    return vlib.finish(ctx, "model_checking", RULE)


def replay(ctx, path):
    run_batch(ctx, vlib.replay_scripts(path), "replay")
    return vlib.finish(ctx, "model_checking", RULE)

"""C08 - RFC 8888 reports reflect the reception history and respect the size limit.
(M) MC_Rfc8888  (G) Gen_Rfc8888 scripts -> real Recorder / SenderInterceptor  (T) Trace_Rfc8888."""
import random

import vlib

META = {
    "level": "model_checking",
    "text": "Rfc8888.tla (per-SSRC log over unwrapped numbers, first-copy arrival times, per-stream size budget, cursor over "
            "the gap-free prefix, arrival-time-offset encoding, marshalled length) is model checked exhaustively at a scaled "
            "modulus with the clauses of C08 stated over independent history variables; TLC enumerates every "
            "boundary-alphabet behaviour at the real 2^16 modulus (sequence deltas, microsecond clock deltas on both sides "
            "of the 1/1024 s offset boundaries and of the saturation, size limits around the header/padding boundaries, 1-3 SSRCs) and these plus TLC random walks and "
            "seeded long histories are executed on the real rfc8888.Recorder and, end to end, on SenderInterceptor with "
            "injected ticker and clock; every recorded report (blocks as a set keyed by SSRC, every entry, the report "
            "timestamp and len(Marshal())) must be the one the specification computes.",
    "note": "Trusted: the reading of the property in Rfc8888.tla (numbers below the cursor are dropped, equal split of the "
            "limit between streams rounded to whole 32-bit words, unwrapper semantics of C20 incl. floor at zero, ECN of a "
            "duplicated packet = first copy's or CE); pion/rtcp Marshal; clocks are whole microseconds; NTP conversion "
            "itself is C20 (timestamp compared within one 2^-16 s unit). Concurrency of Read/Close is C10/C11 "
            "(the reader hand-off blocks without a running loop; the harness always binds the writer first).",
    "technique": "TLA+ spec + TLC model checking, TLC-generated behaviours replayed into the Go code, recorded traces validated by TLC",
    "design_ref": "DESIGN.md section 7 C08",
}

PKG = "pkg/rfc8888"
HARNESS = ["zz_verif_rfc8888_test.go"]
RULE = ("scripts = TLC-enumerated boundary-alphabet behaviours of Gen_Rfc8888 at the real modulus (every sequence of L actions "
        "per family: sequence deltas relative to the highest number, clock deltas relative to the logged arrivals, size limits "
        "x 1-3 streams) + TLC random walks over the full alphabet + seeded random long multi-stream histories (loss, "
        "reordering, duplicates, jumps, wrap, old packets, reports in the past); each is executed on the real Recorder and/or "
        "SenderInterceptor and the recorded trace is validated by TLC against Trace_Rfc8888. distinct_nontrivial = number of "
        "distinct recorded traces with at least one report that lists a received packet.")

NTP_UNIX = 2208988800
BASES = [1700000000, 0, 1700000000 + (65535 - (1700000000 + NTP_UNIX) % 65536), 946684800]
ALL_SEQ = "{1, 2, 5, 0, 101, 103, 200}"
ALL_SIZES = "{12, 19, 20, 26, 28, 30, 36, 1199, 1200, 1201}"
# clock deltas in microseconds: the alphabet of DESIGN.md (0, 1 ms, 125 ms, 1 s, 7.999 s, 8 s, 64.5 s) ...
ALL_CLK = "{0, 1000, 125000, 1000000, 7999000, 8000000, 64500000}"
# ... and just below / (at) / just above k/1024 s = k * 976.5625 us for k = 1, 8189, 8190, 8191, 8192
FINE = [1, 976, 977, 7997070, 7997071, 7998046, 7998047, 7999023, 7999024, 7999999, 8000000, 8000001]
FINE_CLK = "{0, " + ", ".join(str(x) for x in FINE) + "}"
MAX_CLK = 2000000000            # every clock value stays below 2^31 microseconds


def to_script(beh, level, base, icpt_max=0):
    """A generated behaviour (list of add/build events) -> executable script."""
    steps = []
    started = False
    for e in beh:
        if e["a"] == "add":
            started = True
            steps.append({"a": "add", "s": e["s"], "n": e["n"], "t": e["t"], "ecn": e["ecn"] if level == "rec" else 0})
        elif level == "rec":
            steps.append({"a": "build", "now": e["now"], "max": e["max"]})
        elif started:                       # the interceptor has one fixed limit and no ticker before the first packet
            steps.append({"a": "build", "now": e["now"], "max": icpt_max or 1200})
    return {"level": level, "base": base, "ntp16": (base + NTP_UNIX) % 65536, "max": icpt_max if level == "icpt" else 0,
            "steps": steps}


def idle_script(rng, level):
    """A stream that has been acknowledged completely stays silent for many reports (another one keeps the reports coming),
    then resumes with a late copy of an old packet followed by new ones: nothing reported received may later be reported lost."""
    a, b = rng.sample(range(1, 2 ** 31 - 1), 2)
    pa, pb = rng.choice([0, 65520, 30000]), rng.choice([5, 65000])
    clk = rng.choice([10000, 1000000])
    steps = []

    def add(s, n):
        steps.append({"a": "add", "s": s, "n": n % 65536, "t": clk, "ecn": 0})
    for i in range(10):
        clk += 5000
        add(a, pa + i)
    add(b, pb)
    clk += 20000
    steps.append({"a": "build", "now": clk, "max": 1200})
    for k in range(rng.choice([49, 50, 51, 60, 120])):      # reports without anything new on the first stream
        clk += 100000
        add(b, pb + 1 + k)
        clk += 1000
        steps.append({"a": "build", "now": clk, "max": 1200})
    clk += 5000
    add(a, pa + rng.choice([4, 8, 9]))                      # a late copy of an acknowledged packet
    clk += 5000
    add(a, pa + 10)
    clk += 5000
    add(a, pa + 12)
    clk += 20000
    steps.append({"a": "build", "now": clk, "max": 1200})
    clk += 100000
    steps.append({"a": "build", "now": clk, "max": 1200})
    base = rng.choice(BASES)
    return {"level": level, "base": base, "ntp16": (base + NTP_UNIX) % 65536, "max": 0, "steps": steps}


def random_script(rng, level, n, nstreams, icpt_max=0):
    """Seeded long history; clock values are microseconds (kept below MAX_CLK)."""
    ssrcs = rng.sample(range(1, 2 ** 31 - 1), nstreams)
    pos = {s: rng.choice([0, 1, 3, 65500, 65534, 32760, rng.randrange(65536)]) for s in ssrcs}
    pending = {s: [] for s in ssrcs}
    recent = {s: [] for s in ssrcs}
    arrivals = []                      # recent arrival clock values (targets for boundary-aged reports)
    clk = rng.choice([10000, 500000, 1000000, 999999000])
    steps = []
    small = [12, 19, 20, 26, 27, 28, 29, 30, 36, 44, 100, 101, 102, 103, 104]
    every = rng.choice([5, 20, 60])

    def add(s, true_n, ecn=None):
        steps.append({"a": "add", "s": s, "n": true_n % 65536, "t": clk,
                      "ecn": (rng.choice([0, 0, 0, 1, 2, 3]) if ecn is None else ecn) if level == "rec" else 0})
        recent[s].append(true_n)
        del recent[s][:-20]
        arrivals.append(clk)
        del arrivals[:-6]

    for s in ssrcs:
        add(s, pos[s])
    for _ in range(n):
        q = rng.random()
        if q < 0.55:
            d = rng.choice([0, 0, 1000, 1000, 2000, 5000, 20000, 33000, 125000, 250000, 1000000])
        elif q < 0.97:
            d = rng.choice([1, 7, 976, 977, 1953, 1954, rng.randrange(40000), rng.randrange(300000)])
        else:
            d = rng.choice([7998000, 7999000, 8000000, 8001000, 20000000, 63999000, 64000000, 64500000, 70000000, 131072000]
                           + FINE[3:])
        if clk + d <= MAX_CLK:
            clk += d
        s = rng.choice(ssrcs)
        r = rng.random()
        if r < 0.62:
            pos[s] += 1
            q = rng.random()
            if q < 0.10:                                   # lost, maybe delivered late
                if rng.random() < 0.6:
                    pending[s].append(pos[s])
                continue
            if q < 0.13:                                   # loss burst / jump
                pos[s] += rng.choice([2, 5, 30, 300, 700, 3000, 32766])
            add(s, pos[s])
        elif r < 0.72 and pending[s]:
            add(s, pending[s].pop(rng.randrange(len(pending[s]))))   # late arrival (maybe below the cursor by now)
        elif r < 0.80 and recent[s]:
            add(s, rng.choice(recent[s]))                  # duplicate with a later arrival time and maybe another mark
        elif r < 0.82:
            old = pos[s] - rng.choice([1, 3, 10, 600, 5000])
            if old >= 0:                                   # stay above the unwrapper's zero (the floor is C20's subject)
                add(s, old)
        else:
            if rng.random() < 1.0 / every * 5 or r > 0.97:
                mx = icpt_max or (1200 if rng.random() < 0.5 else rng.choice(small + [rng.randrange(12, 1500)]))
                now = clk
                p = rng.random()
                if p < 0.08 and clk > 100000:              # report time before the latest arrivals
                    now = clk - rng.choice([1, 2, 1000, 50000])
                elif p < 0.30:                             # a logged arrival is exactly a boundary age old
                    now = rng.choice(arrivals) + rng.choice(FINE)
                    if now > MAX_CLK:
                        now = clk
                    clk = max(clk, now)
                steps.append({"a": "build", "now": now, "max": mx})
    steps.append({"a": "build", "now": clk, "max": icpt_max or 1200})
    base = rng.choice(BASES)
    if level == "icpt" and rng.random() < 0.5:          # the RTCP writer refuses some reports
        steps = [dict(st, wfail=True) if st["a"] == "build" and rng.random() < 0.25 else st for st in steps]
    return {"level": level, "base": base, "ntp16": (base + NTP_UNIX) % 65536, "max": icpt_max if level == "icpt" else 0,
            "steps": steps}


def nontrivial(evs):
    return any(e["a"] == "build" and any(any(m[0] == 1 for m in b["m"]) for b in e["blocks"]) for e in evs)


def run_batch(ctx, scripts, tag):
    return vlib.run_batch(ctx, tag=tag, scripts=scripts, pkg_rel=PKG, pkgname="rfc8888", files=HARNESS,
                          test="TestVerifRfc8888Exec", trace_module="Trace_Rfc8888.tla", nontrivial=nontrivial,
                          xss="256m")


def run_chunked(ctx, scripts, tag, n=20000):
    for i in range(0, len(scripts), n):
        run_batch(ctx, scripts[i:i + n], tag if len(scripts) <= n else "%s-%d" % (tag, i // n))


def gen(ctx, consts, simulate=None):
    base = "Gen_Rfc8888_sim.cfg" if simulate else "Gen_Rfc8888.cfg"
    return vlib.generate(ctx, "Gen_Rfc8888.tla", vlib.cfg_variant(ctx, base, consts), simulate=simulate)


def families(quick):
    """(name, constants) of the exhaustive generator runs: each family spans one part of the alphabet completely."""
    la, lb, lc = (3, 3, 3) if quick else (5, 4, 4)
    fam = []
    for base in ([65530, 0] if quick else [65530, 0, 32760, 2]):
        fam.append(("seq-%d" % base, {"NS": 1, "Base": base, "L": la if base in (65530, 0) else la - 1, "SeqD": ALL_SEQ, "ClkA": "{1000}", "ClkB": "{0}",
                                      "Sizes": "{1200, 26, 28}", "PastSizes": "{}", "Jump": 0}))
    fam.append(("clock", {"NS": 1, "Base": 100, "L": lb, "SeqD": "{1, 0}", "ClkA": "{0, 125000}", "ClkB": ALL_CLK,
                          "Sizes": "{1200}", "PastSizes": "{1200}", "Jump": 0}))
    # the age of the packet just added is exactly the report's clock delta: both sides of every 1/1024 s boundary
    fam.append(("clock-fine", {"NS": 1, "Base": 100, "L": lb, "SeqD": "{1}", "ClkA": "{0}", "ClkB": FINE_CLK,
                               "Sizes": "{1200}", "PastSizes": "{1200}", "Jump": 0}))
    for ns, jump in ([(1, 700), (2, 0), (2, 700), (3, 700)] if quick else [(1, 0), (1, 700), (2, 0), (2, 700), (3, 0), (3, 700)]):
        fam.append(("size-%d-%d" % (ns, jump), {"NS": ns, "Base": 65000, "L": lc if ns < 3 or not quick else 2,
                                               "SeqD": "{1, 2}" if ns < 3 else "{1}", "ClkA": "{1000}",
                                               "ClkB": "{0}", "Sizes": ALL_SIZES, "PastSizes": "{}", "Jump": jump}))
    return fam


def run(ctx):
    rng = random.Random(ctx.seed)
    # (M) the specification has the property (scaled modulus, every wire number, every history up to the bound)
    mc = lambda adds, builds, ssrc="{1, 2}", **kw: vlib.model_check(  # noqa: E731
        ctx, "MC_Rfc8888.tla", vlib.cfg_variant(ctx, "MC_Rfc8888.cfg", {"MaxAdds": adds, "MaxBuilds": builds, "SSRC": ssrc}), **kw)
    if ctx.quick:
        mc(3, 1)
        mc(2, 2)
    else:
        mc(3, 2, timeout=1500)
        mc(4, 1, timeout=1500)
        mc(4, 2, ssrc="{1}", timeout=2400)
        mc(3, 3, ssrc="{1}", timeout=2400)
    # negative control: the budget without rounding to whole words (DESIGN.md / recorder.go before the fix) breaks the bound
    vlib.model_check(ctx, "MC_Rfc8888.tla", vlib.cfg_variant(ctx, "MC_Rfc8888.cfg", {"MaxAdds": 2, "MaxBuilds": 1, "Even": "FALSE"}),
                     expect_violation="Invariant SizeBound is violated")
    # what is handed out (a report) belongs to the consumer: Handout.tla, with the scratch-reuse policy as negative control;
    # the harness re-reads every report at the end of its script (side trace, Trace_Handout)
    vlib.model_check(ctx, "MC_Handout.tla", "MC_Handout.cfg", workers=2)
    vlib.model_check(ctx, "MC_Handout.tla", "MC_Handout_neg_reuse.cfg", workers=2, expect_violation="Invariant Intact is violated",
                     note="negative control: a reused scratch object changes what a consumer still holds")
    # (G) systematic: every behaviour of each family on the exported Recorder; a sample end to end through SenderInterceptor
    rec, icpt = [], []
    for name, consts in families(ctx.quick):
        behs = gen(ctx, consts)
        base = rng.choice(BASES)
        scripts = [to_script(b, "rec", base) for b in behs]
        if ctx.quick:
            rec += scripts
        else:
            run_chunked(ctx, scripts, "G-rec-" + name)
        for b in rng.sample(behs, min(60 if ctx.quick else 400, len(behs))):
            sizes = sorted({e["max"] for e in b if e["a"] == "build"})
            icpt.append(to_script(b, "icpt", rng.choice(BASES), rng.choice([0] + sizes)))
    # (G) random walks over the full alphabet, three streams
    walks = gen(ctx, {"L": 30 if ctx.quick else 60}, simulate=(60 if ctx.quick else 1500, 100))
    rec += [to_script(b, "rec", rng.choice(BASES)) for b in walks]
    icpt += [to_script(b, "icpt", rng.choice(BASES), rng.choice([0, 0, 36, 1199, 1201]))
             for b in rng.sample(walks, min(20 if ctx.quick else 300, len(walks)))]
    # (T) seeded random long histories
    nrec, nic, length = (40, 10, 400) if ctx.quick else (400, 150, 2000)
    for i in range(nrec):
        rec.append(random_script(rng, "rec", length, rng.choice([1, 1, 2, 2, 3, 3, 5, 10])))
    for i in range(nic):
        icpt.append(random_script(rng, "icpt", length // 2, rng.choice([1, 2, 3, 4]), rng.choice([0, 0, 1200, 100, 102, 600, 1199])))
    rec += [idle_script(rng, "rec") for _ in range(2 if ctx.quick else 10)]
    icpt += [idle_script(rng, "icpt") for _ in range(1 if ctx.quick else 5)]
    for sc in icpt:                                     # one bound stream that carries every SSRC of the script
        if rng.random() < 0.3:
            sc["shared"] = True
    # quick: one Recorder batch (families + walks + random) and one interceptor batch; thorough: the families ran above
    run_chunked(ctx, rec, "GT-rec" if ctx.quick else "T-rec-walks-random", 20000 if ctx.quick else 300)
    run_chunked(ctx, icpt, "GT-icpt", 20000 if ctx.quick else 2000)
    ctx.assumptions += [
        "the TLA+ module Rfc8888 is the reading of the property: a stream's reported history starts at its first packet; numbers "
        "below the report cursor (acknowledged in a gap-free prefix or cut by the size limit of an earlier report) are dropped; "
        "the limit is split equally between the known streams and rounded down to whole 32-bit words; one block per SSRC ever seen",
        "a wire number denotes the true number the unwrapper of C20 assigns (nearest to the previous packet, floor at zero)",
        "ECN of a packet received several times: the first copy's mark, or CE if any copy carried CE (RFC 8888 section 3.1); the "
        "begin number of an empty block and the order of blocks are not compared",
        "clock values are whole microseconds below 2^31 (35 min per script); the report timestamp is compared within one unit of 2^-16 s (C20 owns NTP)",
        "interceptor level: Read returns after the loop took the packet and a tick is accepted only when the loop is back in its "
        "select, so the script order is the Recorder's order; the maximum report size is set through an in-package option",
        "Go toolchain go1.24.0 from the module cache, pion/rtcp v1.2.17 Marshal trusted",
    ]
    return vlib.finish(ctx, "model_checking", RULE)


def replay(ctx, path):
    run_batch(ctx, vlib.replay_scripts(path), "replay")
    return vlib.finish(ctx, "model_checking", RULE)

"""C12 - memory held per interceptor is bounded regardless of stream length.
(M) MC_Mem: container with the eviction policies found in the code; Size <= Cap x bound streams and release on Unbind hold
    for the window policy; the report-driven and the no-eviction policies are refuted (negative controls).
    (The component specifications carry their own size invariants: NackGen TypeOK, RtpBuffer window domain, ...)
(T) long runs through the universal harness for every interceptor: equal-length phases of one workload (in-order, steady
    loss, duplicates; with and without feedback), live heap measured after forced GC at every phase boundary and after
    Unbind + Close; Trace_Mem bounds the growth between successive phases and the residue after release.
(M/G/T) container-size conformance (checks/c12_sizes.py): Sizes.tla names, for every stateful container, its bound as a function
    of configuration and bound streams and - where determined by the history - its exact size; MC_Sizes checks the history
    machines against their bounds; Gen_Sizes enumerates component x configuration x stream pattern x workload x lifecycle action;
    in-package probes execute them (and seeded long histories) on the real objects and log the real sizes; Trace_Sizes compares."""
import json
import random

import c12_sizes
import vlib

META = {
    "level": "exploration",
    "text": "The eviction disciplines are modelled in Mem.tla and checked by TLC (window eviction bounded; report-driven and missing "
            "eviction refuted as negative controls). On the code every interceptor is driven through four equal phases of each "
            "workload with the live heap (HeapAlloc and HeapObjects after two forced GCs) logged at the phase boundaries and after "
            "Unbind + Close; TLC requires phase-to-phase growth below a fixed slack independent of the phase length, and the "
            "final heap to return to the pre-bind level. In addition every stateful container (35 containers of 17 components in 14 "
            "packages: NACK logs and counters, RTP ring, TWCC arrival ring, RFC 8888 logs, both feedback histories, report streams, "
            "stats recorders and histories, jitter queue, pacer queues and writer maps, FEC batches, PLI streams, attribute cache) has "
            "a named bound in Sizes.tla as a function of the configuration and the number of currently bound streams, and where the "
            "content is a function of the history an exact size; in-package probes drive the real objects through TLC-enumerated "
            "scripts (configuration x stream pattern x workload x lifecycle action) and seeded long histories (several wraps, largest "
            "windows filled, SSRC floods, Unbind/re-Bind cycles) and log the real len/capacity of each container; TLC checks every "
            "sample: size <= bound, exact equality, zero per-stream state after Unbind of everything.",
    "note": "An asymptotic claim sampled at finite length (quick 4x3k, thorough 4x60k packets per stream and workload; time-windowed "
            "containers get phases longer than their 500 ms window). The heap stage does not see a leak smaller than its slack "
            "(192 KiB / 1500 objects per phase, fitted on the unchanged tree); the container-size stage sees single entries but only "
            "in the containers it names (goroutine-local state such as the gcc rate calculator history and the pacing loop's slice is "
            "seen through the heap or through accepted-minus-delivered counts only). History-exact sizes are compared in the "
            "fully logged scripts (about 200 packets each), bounds and lifecycle-exact sizes also in the long runs (up to 80 k packets "
            "quick, 640 k thorough). Pacer queues have no configured bound under overload and are held to conservation only.",
    "technique": "TLA+ eviction and container-size models checked with TLC (negative controls); TLC-generated and seeded scripts executed "
                 "on the Go code by in-package probes reading the real container sizes, traces validated by TLC; heap-phase traces of "
                 "long runs validated by TLC",
    "design_ref": "DESIGN.md section 7 C12",
}

RULE = ("run = interceptor kind x workload {in-order, steady loss, duplicates} x {periodic feedback, no feedback}; 4 equal phases; "
        "distinct_nontrivial = runs in which at least 4 heap measurements were taken and validated.")

KINDS = ["nackgen", "nackresp", "rrecv", "rsend", "twccsend", "twcchdr", "rfc8888", "rtpfb", "stats", "pdrecv", "pdsend", "pli",
         "flexfec", "cc", "ccleaky", "jitter", "pacing"]
TIMED = {"twccsend", "cc", "ccleaky", "pacing", "rfc8888"}     # containers bounded by a time window (500 ms): phases must outlast it


def script_rtcp(rng, kinds, n):
    """RTCP-heavy workload: n outgoing extended reports and n/4 incoming reports per phase (state kept per feedback message)."""
    members = [{"k": k, "o": {"ivl": 1, "size": 512}} for k in kinds]
    steps = [{"a": "heap", "ms": 20, "kind": "base"}, {"a": "bindw"}, {"a": "bindr"},
             {"a": "bindl", "s": 1, "nack": True, "twcc": 0, "rtx": False, "fec": False},
             {"a": "bindm", "s": 2, "nack": True, "twcc": 0, "pli": False},
             {"a": "wait", "ms": 20, "kind": "feedback-rtcp"}]
    for ph in range(4):
        if ph == 1:     # once the histories are full: one extended report with two receiver reference time blocks
            steps.append({"a": "wrtcp", "s": 1, "kind": "xr2", "id": 1, "fail": False})
        steps.append({"a": "par", "par": [
            {"a": "wrtcp", "s": 1, "kind": "xr", "id": 1, "fail": False, "rep": n},
            {"a": "wrtcp", "s": 1, "kind": "sr", "id": 1, "fail": False, "rep": n // 4},
            {"a": "rrtcp", "s": 2, "kind": "sr", "id": 1, "fail": False, "rep": n // 4},
            {"a": "rrtcp", "s": 1, "kind": "rr", "id": 1, "w": 5, "fail": False, "rep": n // 4}]})
        steps.append({"a": "heap", "ms": 30, "kind": "phase"})
    steps += [{"a": "unbindl", "s": 1}, {"a": "unbindm", "s": 2}, {"a": "close"}, {"a": "heap", "ms": 50, "kind": "final"}]
    return {"members": members, "steps": steps, "watch": 120000, "settle": 5, "nowire": True}


def script_standing_backlog(rng, kinds, n, rate):
    """A pacer that is kept busy: the application writes in a closed loop, at most 32 packets ahead of what has left the
    pacer, and the pacing rate is the bottleneck - the pacer's queue is never empty and never long.  What the pacer keeps
    must be bounded by the backlog, not by the number of packets it has sent."""
    members = [{"k": k, "o": {"ivl": 1, "size": 512, "k": 5, "n": 2, "rate": rate}} for k in kinds]
    steps = [{"a": "heap", "ms": 20, "kind": "base"}, {"a": "bindw"}, {"a": "bindr"},
             {"a": "bindl", "s": 1, "nack": True, "twcc": 0, "rtx": False, "fec": False},
             {"a": "wait", "ms": 0, "kind": "standing-backlog"}]
    # the heap is sampled WHILE the backlog stands (a pacer that has drained its queue once may have let go of everything):
    # n packets of 1012 bytes at `rate` take n * 8096 / rate seconds; five samples spread over the first 85 % of that
    ms = int(n * 8096 * 1000 / rate * 0.85 / 5)
    steps.append({"a": "par", "par": [{"a": "wrtp", "s": 1, "w": 0, "id": 1, "len": 1000, "shape": 0, "fail": False,
                                       "rep": n, "inc": 1, "win": 32},
                                      {"a": "heap", "ms": ms, "kind": "phase", "rep": 5}]})
    steps += [{"a": "unbindl", "s": 1}, {"a": "close"}, {"a": "heap", "ms": 50, "kind": "final", "id": n}]
    return {"members": members, "steps": steps, "watch": 120000, "settle": 5, "nowire": True}


def script_slow_feedback(rng, kinds, n):
    """A slow RTCP transport (4 ms per write, one write at a time) under steady traffic: an interceptor that reports every
    millisecond gets back pressure from its writer - what it holds for reports that have not gone out yet must not grow
    with the number of packets (one pending report per bound writer, not one per tick)."""
    members = [{"k": k, "o": {"ivl": 1, "size": 512}} for k in kinds]
    steps = [{"a": "heap", "ms": 20, "kind": "base"}, {"a": "bindw"}, {"a": "bindr"},
             {"a": "bindm", "s": 2, "nack": True, "twcc": 7, "pli": False},
             {"a": "wait", "ms": 0, "kind": "slow-feedback"}, {"a": "sloww", "ms": 4}]
    w = 0
    for ph in range(4):
        steps.append({"a": "par", "par": [{"a": "rrtp", "s": 2, "w": w % 65536, "id": 1, "len": 100, "shape": 0, "tw": w % 65536,
                                           "fail": False, "rep": n, "inc": 1, "gap": 1000}]})
        steps.append({"a": "heap", "ms": 5, "kind": "phase"})
        w += n
    steps += [{"a": "sloww", "ms": 0}, {"a": "unbindm", "s": 2}, {"a": "close"}, {"a": "heap", "ms": 50, "kind": "final", "id": n}]
    return {"members": members, "steps": steps, "watch": 120000, "settle": 5, "nowire": True}


def script(rng, kinds, workload, feedback, n, timed, failing=False):
    members = [{"k": k, "o": {"ivl": 1, "size": 512, "k": 5, "n": 2, "rate": 80_000_000}} for k in kinds]
    twcc = 0
    steps = [{"a": "heap", "ms": 20, "kind": "base"}, {"a": "bindw"}, {"a": "bindr"},
             {"a": "bindl", "s": 1, "nack": True, "twcc": twcc, "rtx": True, "fec": True},
             {"a": "bindm", "s": 2, "nack": True, "twcc": 7, "pli": False},
             {"a": "wait", "ms": 0, "kind": ("feedback-" if feedback else "nofeedback-") + workload}]
    if feedback:      # one extended report that carries two receiver reference time blocks
        steps.append({"a": "wrtcp", "s": 1, "kind": "xr2", "id": 1, "fail": False})
    if failing:       # a second local stream whose transport-side writer always fails, with a packet stuck on it
        steps.append({"a": "bindl", "s": 3, "nack": False, "twcc": 0, "rtx": False, "fec": False, "fail": True})
        steps.append({"a": "wrtp", "s": 3, "w": 1, "id": 1, "len": 100, "shape": 0, "fail": False})
    inc = {"inorder": 1, "loss": 3, "dup": 1}[workload]
    gap = (700_000 // n) if timed else 0
    w = 0
    for ph in range(4):
        roles = [{"a": "wrtp", "s": 1, "w": w % 65536, "id": 1, "len": 100, "shape": 0, "fail": False, "rep": n, "inc": 1, "gap": gap},
                 {"a": "rrtp", "s": 2, "w": (w * inc) % 65536, "id": 1, "len": 100, "shape": 0, "tw": (w * inc) % 65536, "fail": False,
                  "rep": n, "inc": inc, "gap": gap}]
        if workload == "dup":            # the same numbers are received twice and sent twice (retransmission without RTX)
            roles.append(dict(roles[1]))
            roles.append(dict(roles[0]))
        if feedback:
            roles.append({"a": "rrtcp", "s": 1, "kind": "ccfb", "w": w % 65536, "tw": w % 65536, "id": 1, "fail": False,
                          "rep": n // 3, "inc": 3, "gap": gap * 3})
            roles.append({"a": "rrtcp", "s": 1, "kind": "twccfb", "w": w % 65536, "tw": w % 65536, "id": 1, "fail": False,
                          "rep": n // 3, "inc": 3, "gap": gap * 3})
            roles.append({"a": "rrtcp", "s": 2, "kind": "sr", "id": 1, "fail": False, "rep": n // 50 + 1, "gap": gap * 50})
            roles.append({"a": "wrtcp", "s": 1, "kind": "xr", "id": 1, "fail": False, "rep": n // 20 + 1, "gap": gap * 20})
        steps.append({"a": "par", "par": roles})
        if feedback:   # acknowledge the tail of the phase so that report-driven histories are drained at the boundary
            steps.append({"a": "rrtcp", "s": 1, "kind": "ccfb", "w": (w + n - 3) % 65536, "tw": 0, "id": 1, "fail": False})
        steps.append({"a": "heap", "ms": 30, "kind": "phase"})
        w += n + (7 if workload == "loss" else 0)     # lossy workload: the sender skips numbers between phases as well
    steps += [{"a": "unbindl", "s": 1}, {"a": "unbindm", "s": 2}, {"a": "close"}, {"a": "heap", "ms": 50, "kind": "final", "id": n}]
    return {"members": members, "steps": steps, "watch": 120000, "settle": 5, "nowire": True}


def script_afterclose(rng, kinds, n):
    """Traffic that keeps arriving after Close (the streams are still bound: reads and writes through the bound reader /
    writer are permitted and must return): equal phases, the live heap must not grow from one to the next."""
    members = [{"k": k, "o": {"ivl": 1, "size": 512, "k": 5, "n": 2, "rate": 80_000_000}} for k in kinds]
    steps = [{"a": "heap", "ms": 20, "kind": "base"}, {"a": "bindw"}, {"a": "bindr"},
             {"a": "bindl", "s": 1, "nack": True, "twcc": 0, "rtx": True, "fec": True},
             {"a": "bindm", "s": 2, "nack": True, "twcc": 7, "pli": False},
             {"a": "wait", "ms": 0, "kind": "feedback-afterclose"}]
    w = 0

    def phase(k):
        return {"a": "par", "par": [
            {"a": "wrtp", "s": 1, "w": w % 65536, "id": 1, "len": 100, "shape": 0, "fail": False, "rep": k, "inc": 1, "gap": 0},
            {"a": "rrtp", "s": 2, "w": w % 65536, "id": 1, "len": 100, "shape": 0, "tw": w % 65536, "fail": False, "rep": k, "inc": 1,
             "gap": 0}]}
    steps += [phase(500), {"a": "wait", "ms": 5}, {"a": "heap", "ms": 30, "kind": "phase"}, {"a": "close"}]
    w += 500
    for _ in range(3):
        steps += [phase(n), {"a": "heap", "ms": 30, "kind": "phase"}]
        w += n
    return {"members": members, "steps": steps, "watch": 120000, "settle": 5, "nowire": True}


def script_many_streams(rng, kinds, n):
    """n streams are bound, carry a packet each, live through a few ticks and are unbound again while the interceptor stays
    open: what it holds afterwards is about the streams that are bound NOW, not about the peak."""
    members = [{"k": k, "o": {"ivl": 1, "size": 64, "k": 5, "n": 2, "rate": 80_000_000}} for k in kinds]
    steps = [{"a": "heap", "ms": 20, "kind": "base"}, {"a": "bindw"}, {"a": "bindr"},
             {"a": "bindl", "s": 1, "nack": True, "twcc": 0, "rtx": False, "fec": False},
             {"a": "bindm", "s": 2, "nack": True, "twcc": 7, "pli": False},
             {"a": "wait", "ms": 0, "kind": "feedback-manystreams"},
             {"a": "wrtp", "s": 1, "w": 1, "id": 1, "len": 100, "shape": 0, "fail": False, "rep": 50, "inc": 1},
             {"a": "rrtp", "s": 2, "w": 1, "id": 1, "len": 100, "shape": 0, "tw": 1, "fail": False, "rep": 50, "inc": 1},
             {"a": "wait", "ms": 10}, {"a": "heap", "ms": 30, "kind": "phase"}]
    for i in range(n):
        s = 1000 + i
        steps.append({"a": "bindm", "s": s, "nack": True, "twcc": 7, "pli": False})
        steps.append({"a": "bindl", "s": s + 100000, "nack": True, "twcc": 0, "rtx": False, "fec": False})
        steps.append({"a": "rrtp", "s": s, "w": 5, "id": 1, "len": 50, "shape": 0, "tw": -1, "fail": False})
        steps.append({"a": "wrtp", "s": s + 100000, "w": 5, "id": 1, "len": 50, "shape": 0, "fail": False})
    steps += [{"a": "wait", "ms": 15}, {"a": "heap", "ms": 30, "kind": "phase"}]
    for i in range(n):
        steps.append({"a": "unbindm", "s": 1000 + i})
        steps.append({"a": "unbindl", "s": 101000 + i})
    steps += [{"a": "wait", "ms": 15}, {"a": "heap", "ms": 40, "kind": "unbound", "id": n},
              {"a": "unbindl", "s": 1}, {"a": "unbindm", "s": 2}, {"a": "close"}]
    return {"members": members, "steps": steps, "watch": 120000, "settle": 5, "nowire": True, "nostale": True}


def run_batch(ctx, scripts, tag):
    return vlib.run_batch(ctx, tag=tag, scripts=scripts, pkg_rel="", pkgname="interceptor_test",
                          files=["zz_verif_univ_test.go", "common:zz_verif_pkt_test.go.tpl"],
                          test="TestVerifUnivExec", trace_module="Trace_Mem.tla",
                          nontrivial=lambda evs: sum(1 for e in evs if e["a"] == "heap") >= 5, race=False, go_timeout=3000,
                          culprit_hint=vlib.univ_culprit_hint)


def run(ctx):
    rng = random.Random(ctx.seed)
    vlib.model_check(ctx, "MC_Mem.tla", "MC_Mem_window.cfg", workers=2)
    vlib.model_check(ctx, "MC_Mem.tla", "MC_Mem_onreport.cfg", workers=2, expect_violation="Invariant Bounded is violated",
                     note="negative control: report-driven eviction is unbounded while no report arrives")
    vlib.model_check(ctx, "MC_Mem.tla", "MC_Mem_never.cfg", workers=2, expect_violation="Invariant Bounded is violated",
                     note="negative control: a container without an eviction path grows with the history")
    n = 3000 if ctx.quick else 60000
    scripts = []
    for k in KINDS:
        combos = (([("loss", True), ("dup", True)] if k in ("cc", "ccleaky") else [("loss", True)]) if k in TIMED
                  else [("inorder", True), ("loss", True), ("dup", False)]) if ctx.quick else \
                 [(wl, fb) for wl in ("inorder", "loss", "dup") for fb in (True, False)]
        for wl, fb in combos:
            nn = n if k not in TIMED or not ctx.quick else 2000
            if k == "jitter" and wl in ("loss", "dup"):
                nn = min(nn, 4000)      # (known finding: the buffer grows and its sorted insert is quadratic)
            if k == "rtpfb" and not fb:
                nn = min(nn, 20000)     # (known finding: grows without feedback)
            scripts.append(script(rng, [k], wl, fb, nn, k in TIMED))
    for k in ("stats", "rsend", "rrecv", "pdsend"):             # state kept per feedback message
        scripts.append(script_rtcp(rng, [k], 20000 if ctx.quick else 200000))
    for k in ("pacing", "ccleaky", "nackresp", "flexfec"):      # steady traffic next to a stream whose transport keeps failing
        scripts.append(script(rng, [k], "inorder", True, 2000 if ctx.quick else n, k in TIMED, failing=True))
    for k in ("twccsend", "rfc8888", "rrecv", "nackgen"):       # periodic reports into a slow transport
        scripts.append(script_slow_feedback(rng, [k], 300 if ctx.quick else 1500))
    for k in ("pacing", "ccleaky"):                             # a pacer working against a small standing backlog
        scripts.append(script_standing_backlog(rng, [k], 6000 if ctx.quick else 24000, 20_000_000))
    for k in ("rrecv", "rsend", "nackgen", "nackresp", "twccsend", "pli", "flexfec", "pdrecv", "twcchdr", "rtpfb"):
        scripts.append(script_many_streams(rng, [k], 3000 if ctx.quick else 8000))      # (stats, rfc8888, cc, jitter: known findings)
    for k in KINDS:                                             # traffic that keeps arriving after Close
        if k != "rtpfb":                                        # (rtpfb: known finding, grows while no feedback arrives)
            scripts.append(script_afterclose(rng, [k], 20000 if ctx.quick else 100000))
    if not ctx.quick:
        scripts.append(script(rng, ["nackgen", "nackresp", "rrecv", "rsend", "stats", "flexfec"], "loss", True, n, False))
        scripts.append(script(rng, ["twcchdr", "twccsend", "rtpfb", "stats"], "loss", True, n, True))
    # heap measurements are process-wide: one script at a time per process; separate processes run side by side
    chunk = 7 if ctx.quick else 9
    jobs = []
    for i in range(0, len(scripts), chunk):
        jobs.append(lambda child, part=scripts[i:i + chunk], tag="T-heap-%d" % (i // chunk): run_batch(child, part, tag))
    # second stage, side by side with the heap runs: exact container sizes (Sizes.tla) - its verdict counts for C12 as well
    extra = {}

    def sizes_job(child):
        try:
            c12_sizes.run_sizes(child)
        finally:
            extra.update({k: child.cov[k] for k in ("size_samples", "size_scripts") if k in child.cov})
            ctx.assumptions += child.assumptions
    jobs.append(sizes_job)
    vlib.run_parallel(ctx, jobs, max_workers=4)
    ctx.assumptions += ["live heap after two forced GCs is the measure of retained memory", "slack 192 KiB / 1500 objects per phase"]
    return vlib.finish(ctx, "exploration", RULE, extra_cov=extra)


def replay(ctx, path):
    if str(json.load(open(path)).get("kind", "")).startswith("sizes"):       # a script of the container-size probes
        c12_sizes.execute(ctx, vlib.replay_scripts(path), "replay")
    else:
        run_batch(ctx, vlib.replay_scripts(path), "replay")
    return vlib.finish(ctx, "exploration", RULE)

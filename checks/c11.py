"""C11 - lifecycle: Close and Unbind stop activity and never strand a caller.
(M) MC_Lifecycle: generic lifecycle automaton per feature profile (call/return split, loop goroutine, hand-off channel),
    safety P1/P2/P4 and liveness P3/CloseReturns under fairness; the rfc8888 profile (hand-off send that does not select
    on close, streams never dropped) is kept as a negative control.
(G) Gen_Lifecycle: every sequence of L lifecycle/traffic calls, executed on a fresh instance of EVERY interceptor and on
    three chains, each call under a watchdog. (T) Trace_Lifecycle validates the recorded traces.
(P5) checks/c11_rebind.py: re-bind freshness and release of per-stream state as a two-run relation (Rebind.tla, MC_Rebind,
    Gen_Rebind, Trace_Rebind): every stateful interceptor runs `Bind; H; Unbind; Bind; B` and, on a fresh instance, `Bind; B`;
    TLC pairs the recorded observations of the suffix and compares them."""
import random

import c10
import c11_rebind
import growth_pli_dump
import vlib

META = {
    "level": "model_checking",
    "text": "Lifecycle.tla (interface calls split into call/return, loop goroutine, reader->loop hand-off, close channel) is "
            "model checked per feature profile for P1 (no emission after Close returned), P2 (Close waits for the loop), "
            "P3 (every call returns, liveness under fairness) and P4 (at most one emission about an unbound SSRC); TLC "
            "enumerates every sequence of 3-4 lifecycle/traffic calls over 12 call kinds, which is executed on fresh "
            "instances of all 19 interceptor kinds and three chains with a per-call watchdog, a goroutine census after "
            "Close and transport-side recording; traces are validated by TLC. P5 (fresh state after re-bind, state released by "
            "Unbind) is a two-run relation: Rebind.tla (per-stream state vs. per-instance state, both runs in lock step) is model "
            "checked with negative controls (an Unbind that keeps one field; comparing per-instance counters); TLC enumerates "
            "(interceptor kind x first life H x suffix B x knobs: number base at the 2^16 wrap, another stream staying bound, "
            "StreamInfo variant of the second bind) for 13 stateful kinds; each script is executed on the real interceptor as "
            "`Bind;H;Unbind;Bind;B` and on a fresh instance as `Bind;B` with a controlled clock and stepped tick loops, and TLC "
            "pairs and compares the observations of every suffix step (results, feedback/reports/retransmissions/FEC about the "
            "stream, statistics, report attributes) modulo the per-instance quantities listed in Rebind.tla.",
    "note": "Trusted: watchdog of 4 s per call as the meaning of 'blocks indefinitely' (a blocked call is confirmed by its "
            "goroutine stack in the replay); goroutine census by stack frames of the library; feedback members run with "
            "1 ms tickers. P5 stage: the harness's observation recorder and step synchronisation (verif tick gates, injected "
            "clock/tickers, resend done gate; a script that cannot be ordered within 3 s is inconclusive); rtpfb, the TWCC sender "
            "and cc read time.Now and are compared on time-free observations only (TWCC sender in aggregate on its real ticker; "
            "cc: only which transport-side writer a packet reaches); the jitter-buffer interceptor is exercised with one stream "
            "(one buffer per instance); first life and suffix are 2+2 steps in the quick tier (3+3 thorough), plus 50-packet "
            "bursts for the jitter buffer. Collectability (weak pointers) is C12.",
    "technique": "TLA+ lifecycle automaton model checked with TLC (safety + liveness); TLC-generated call sequences executed "
                 "on every interceptor; recorded traces validated by TLC; two-run relational conformance (re-bound vs. fresh "
                 "instance) with TLC as generator and comparator",
    "design_ref": "DESIGN.md section 7 C11",
}

RULE = ("script = (single interceptor kind or chain) x sequence of L calls from {BindRTCPWriter, BindRTCPReader, BindLocalStream, "
        "BindRemoteStream, RTP write, RTP read, RTCP write, RTCP read, wait, UnbindLocal, UnbindRemote, Close}, TLC-enumerated, with a "
        "standard prefix/suffix variant; distinct_nontrivial = distinct recorded traces in which Close or an Unbind was followed by further calls or ticks; "
        + c11_rebind.RULE_PART + ".")

KINDS = ["noop", "nackgen", "nackresp", "rrecv", "rsend", "twccsend", "twcchdr", "rfc8888", "rtpfb", "stats", "pdrecv", "pdsend",
         "pli", "flexfec", "cc", "ccleaky", "jitter", "pacing"]
CHAINS = [["nackgen", "nackresp", "rrecv", "rsend"], ["twcchdr", "twccsend", "rtpfb", "stats"], ["rfc8888", "pli", "flexfec", "pdsend", "pdrecv"]]
NEEDS_LOOP = {"twccsend", "rfc8888"}    # a read before BindRTCPWriter waits for the loop by design (not part of C11's statement)


def to_script(rng, kinds, seq, prefix):
    members = [{"k": k, "o": {"ivl": 1, "size": 64, "k": 2, "n": 1}} for k in kinds]
    steps = []
    st = {"w": 100, "r": 200, "id": 0, "bw": False, "closed": False}

    def add(a):
        st["id"] += 1
        if a == "bindw":
            st["bw"] = True
            steps.append({"a": "bindw"})
        elif a == "bindr":
            steps.append({"a": "bindr"})
        elif a == "bindl":
            steps.append({"a": "bindl", "s": 1, "nack": True, "twcc": 7, "rtx": False, "fec": True})
        elif a == "bindm":
            steps.append({"a": "bindm", "s": 2, "nack": True, "twcc": 7, "pli": True})
        elif a == "tl":
            st["w"] += 1
            steps.append({"a": "wrtp", "s": 1, "w": st["w"], "id": st["id"], "len": 20, "shape": 0, "fail": False})
        elif a == "tm":
            if NEEDS_LOOP & set(kinds) and not st["bw"] and not st["closed"]:
                return
            st["r"] += 2
            steps.append({"a": "rrtp", "s": 2, "w": st["r"], "id": st["id"], "len": 20, "shape": 0, "tw": st["r"], "fail": False})
        elif a == "cw":
            steps.append({"a": "wrtcp", "s": 2, "kind": "pli", "id": st["id"], "fail": False})
        elif a == "cr":
            steps.append({"a": "rrtcp", "s": 1, "kind": "nack", "nums": [st["w"]], "id": st["id"], "fail": False})
        elif a == "wait":
            steps.append({"a": "wait", "ms": 6})
        elif a == "failw":
            steps.append({"a": "failw", "ms": 1})
            steps.append({"a": "wait", "ms": 4})
        elif a == "unbindl":
            steps.append({"a": "unbindl", "s": 1, "bare": rng.random() < 0.5})     # (bare: the stream is named by its SSRC only)
            if rng.random() < 0.5:     # writes that were in flight when the stream was removed arrive through its old writer
                for _ in range(2):
                    st["w"] += 1
                    st["id"] += 1
                    steps.append({"a": "wrtp", "s": 1, "w": st["w"], "id": st["id"], "len": 20, "shape": 0, "fail": False, "stale": True})
                steps.append({"a": "wait", "ms": 6})
            steps.append({"a": "wait", "ms": 6})
        elif a == "unbindm":
            steps.append({"a": "unbindm", "s": 2, "bare": rng.random() < 0.5})
            needs_loop = NEEDS_LOOP & set(kinds) and not st["bw"] and not st["closed"]
            if rng.random() < 0.5 and not needs_loop:      # reads that were in flight when the stream was removed arrive through its old reader
                for gap in (2, 3):
                    st["r"] += gap
                    st["id"] += 1
                    steps.append({"a": "rrtp", "s": 2, "w": st["r"], "id": st["id"], "len": 20, "shape": 0, "tw": st["r"],
                                  "fail": False, "stale": True})
            steps.append({"a": "wait", "ms": 6})
            steps.append({"a": "wait", "ms": 6})
        elif a == "close":
            st["closed"] = True
            steps.append({"a": "close"})
            steps.append({"a": "wait", "ms": 4})

    for a in prefix:
        add(a)
    for a in seq:
        add(a)
    return {"members": members, "steps": steps, "watch": 4000, "settle": 5}


def nontrivial(evs):
    names = [e["a"] for e in evs]
    for i, a in enumerate(names):
        if a in ("close", "unbindl", "unbindm") and any(x not in ("end", "wire", "pre") for x in names[i + 1:]):
            return True
    return False


def run_batch(ctx, scripts, tag):
    return vlib.run_batch(ctx, tag=tag, scripts=scripts, pkg_rel="", pkgname="interceptor_test",
                          files=["zz_verif_univ_test.go", "common:zz_verif_pkt_test.go.tpl"],
                          test="TestVerifUnivExec", trace_module="Trace_Lifecycle.tla", nontrivial=nontrivial,
                          race=False, go_timeout=2400)


PREFIXES = [[], ["bindw", "bindr", "bindl", "bindm", "tl", "tm", "tm"], ["bindw", "bindm", "tm", "tm", "wait"],
            ["bindw", "bindr", "bindl", "bindm", "tm", "tm", "failw", "tm", "tm", "wait", "tm", "tl"]]


def run(ctx):
    rng = random.Random(ctx.seed)
    for cfg in ("MC_Lifecycle_nack.cfg", "MC_Lifecycle_twcc.cfg"):
        vlib.model_check(ctx, "MC_Lifecycle.tla", cfg, workers=4)
    vlib.model_check(ctx, "MC_Lifecycle.tla", "MC_Lifecycle_rfc8888.cfg", workers=4,
                     expect_violation="Temporal property P3 was violated",
                     note="negative control: a hand-off send that does not select on close strands a reader after Close")
    vlib.model_check(ctx, "MC_Lifecycle.tla", "MC_Lifecycle_rfc8888_p4.cfg", workers=4,
                     expect_violation="Invariant P4 is violated",
                     note="negative control: per-stream state that is never dropped keeps reporting an unbound SSRC")
    L = 3 if ctx.quick else 4
    seqs = vlib.generate(ctx, "Gen_Lifecycle.tla", vlib.cfg_variant(ctx, "Gen_Lifecycle.cfg", {"L": L}), workers=4)
    per_kind = 60 if ctx.quick else 700
    scripts = []
    targets = [[k] for k in KINDS] + CHAINS
    for kinds in targets:
        pick = rng.sample(seqs, min(per_kind, len(seqs)))
        for i, sq in enumerate(pick):
            scripts.append(to_script(rng, kinds, sq, PREFIXES[i % len(PREFIXES)]))
    # corners that every member is held to in EVERY run (not left to the sample): binds and traffic after Close, a second Close
    for kinds in targets:
        for sq in (["close", "bindw", "close"], ["close", "bindr", "cr", "close"], ["close", "bindl", "tl", "close"],
                   ["close", "bindm", "tm", "close"], ["bindw", "close", "bindw", "wait", "close"], ["bindw", "bindw", "wait", "close"],
                   ["bindw", "bindm", "close", "tm", "unbindm", "close"], ["bindw", "bindl", "close", "tl", "unbindl", "close"],
                   ["close", "bindr", "bindl", "tl", "tl", "cr", "wait", "cr", "wait", "close"],
                   ["bindw", "bindr", "close", "bindl", "bindm", "tl", "tm", "tm", "cr", "cw", "wait", "close"]):
            scripts.append(to_script(rng, kinds, sq, []))
    # a second PLI-enabled stream bound before the loop exists blocks (known finding); Close must still release it and return
    for kinds in (["pli"], ["pli", "nackgen", "rrecv"], ["stats", "pli"]):
        for sq in (["bindm", "bindm", "close"], ["bindm", "bindm", "bindw", "wait", "close"], ["bindm", "bindm", "bindr", "close"]):
            scripts.append(to_script(rng, kinds, sq, []))
    rng.shuffle(scripts)
    # several test processes in parallel would complicate the goroutine census; run in chunks instead
    chunk = 700
    for i in range(0, len(scripts), chunk):
        run_batch(ctx, scripts[i:i + chunk], "G-lifecycle-%d" % (i // chunk))
    # Close placed mid-traffic from another goroutine (programs of Gen_Conc that contain the close role), call results
    # validated by Trace_Conc
    progs = [["close", r] for r in ("w1a", "r2a", "c1", "c2", "cw")] + [["close", "w1a", "c1"], ["close", "r2a", "c2"]]
    racing = []
    for kinds in targets:
        for roles in (progs if not ctx.quick else rng.sample(progs, 2)):
            racing.append(c10.script(rng, kinds, roles, 120))
        if {"cc", "ccleaky"} & set(kinds):      # Close racing with feedback being fed to the bandwidth estimator
            for _ in range(4 if ctx.quick else 20):
                for roles in (["close", "c1"], ["close", "c2"], ["close", "c1", "c2"]):
                    racing.append(c10.script(rng, kinds, roles, 400))
    # Close must wait for the estimator's pipeline goroutines: pacer that is slow in SetTargetBitrate, census right after Close
    for _ in range(6 if ctx.quick else 40):
        for roles in (["close", "c1", "w1a"], ["close", "c2", "w1a"], ["close", "c1", "c2", "w1a"]):
            sc = c10.script(rng, ["ccslow"], roles, 400)
            sc["strict"], sc["settle"] = True, 2
            racing.append(sc)
    # a Read that waits at the hand-off to a loop that is not running (no RTCP writer bound yet) is released by Close
    for kinds in (["twccsend"], ["rfc8888"], ["rfc8888", "twccsend", "nackgen", "rrecv"]):
        for _ in range(2 if ctx.quick else 10):
            racing.append({
                "members": [{"k": k, "o": {"ivl": 1, "size": 64}} for k in kinds], "watch": 4000, "settle": 10,
                "steps": [{"a": "bindr"}, {"a": "bindm", "s": 2, "nack": True, "twcc": 7, "pli": False},
                          {"a": "par", "par": [
                              {"a": "rrtp", "s": 2, "w": 100, "id": 1, "len": 30, "shape": 0, "tw": 100, "fail": False, "rep": rng.choice([1, 3])},
                              {"a": "seq", "rep": 1, "seq": [{"a": "wait", "ms": rng.choice([2, 5, 20])}, {"a": "close"}]}]},
                          {"a": "wait", "ms": 3}]})
    # ... and by a loop that IS running but busy inside a slow RTCP write when Close arrives: reads parked at the hand-off
    # meanwhile must come back as well
    for kinds in (["twccsend"], ["rfc8888"], ["nackgen"], ["rrecv"], ["rfc8888", "twccsend", "nackgen", "rrecv"], ["stats", "twccsend"]):
        for _ in range(2 if ctx.quick else 10):
            def rd(s, w):
                return {"a": "rrtp", "s": s, "w": w, "id": 1, "len": 30, "shape": 0, "tw": w, "fail": False, "rep": 12, "gap": 300}
            racing.append({
                "members": [{"k": k, "o": {"ivl": 1, "size": 64}} for k in kinds], "watch": 4000, "settle": 10,
                "steps": [{"a": "bindw"}, {"a": "bindr"}, {"a": "bindm", "s": 2, "nack": True, "twcc": 7, "pli": False},
                          {"a": "bindm", "s": 4, "nack": True, "twcc": 7, "pli": False},
                          {"a": "sloww", "ms": rng.choice([15, 30])},
                          {"a": "rrtp", "s": 2, "w": 100, "id": 1, "len": 30, "shape": 0, "tw": 100, "fail": False},
                          {"a": "rrtp", "s": 2, "w": 103, "id": 1, "len": 30, "shape": 0, "tw": 103, "fail": False},
                          {"a": "wait", "ms": 4},
                          {"a": "par", "par": [rd(2, 110), rd(4, 300), rd(2, 500),
                                               {"a": "seq", "rep": 1, "seq": [{"a": "wait", "ms": rng.choice([1, 3, 6])}, {"a": "close"}]}]},
                          {"a": "sloww", "ms": 0}, {"a": "wait", "ms": 3}]})
    # Close called twice while a loop is inside a slow RTCP write: EVERY Close returns only after the goroutines have finished
    # (strict census 2 ms after the last one)
    for kinds in (["rsend"], ["rrecv"], ["nackgen"], ["pli"], ["twccsend"], ["rfc8888"], ["rsend", "rrecv", "nackgen", "pli"]):
        for _ in range(1 if ctx.quick else 5):
            racing.append({
                "members": [{"k": k, "o": {"ivl": 1, "size": 64}} for k in kinds], "watch": 4000, "settle": 2, "strict": True,
                "steps": [{"a": "bindw"}, {"a": "bindr"}, {"a": "bindl", "s": 1, "nack": True, "twcc": 0, "rtx": False, "fec": False},
                          {"a": "bindm", "s": 2, "nack": True, "twcc": 7, "pli": True},
                          {"a": "wrtp", "s": 1, "w": 10, "id": 1, "len": 20, "shape": 0, "fail": False},
                          {"a": "rrtp", "s": 2, "w": 100, "id": 1, "len": 30, "shape": 0, "tw": 100, "fail": False},
                          {"a": "rrtp", "s": 2, "w": 103, "id": 2, "len": 30, "shape": 0, "tw": 103, "fail": False},
                          {"a": "sloww", "ms": rng.choice([25, 40])}, {"a": "wait", "ms": 6},
                          {"a": "par", "par": [{"a": "close"}, {"a": "seq", "rep": 1, "seq": [{"a": "wait", "ms": 2}, {"a": "close"}]},
                                               {"a": "seq", "rep": 1, "seq": [{"a": "wait", "ms": 4}, {"a": "close"}]}]},
                          {"a": "close"}]})
    for i in range(0, len(racing), 60):
        vlib.run_batch(ctx, tag="G-close-racing-%d" % (i // 60), scripts=racing[i:i + 60], pkg_rel="", pkgname="interceptor_test",
                       files=["zz_verif_univ_test.go", "common:zz_verif_pkt_test.go.tpl"], test="TestVerifUnivExec",
                       trace_module="Trace_Conc.tla", nontrivial=lambda evs: True, race=False, go_timeout=2400,
                       culprit_hint=vlib.univ_culprit_hint)
    # P5: re-bind freshness / release of per-stream state, two-run relation (part of the property: divergences are verdicts)
    c11_rebind.run_stage(ctx)
    # specification growth: functional specifications of intervalpli and packetdump (behaviour no listed property states;
    # divergences are NOTE lines, never a verdict)
    notes = growth_pli_dump.run_growth(ctx)
    ctx.cov["growth_notes"] = notes
    ctx.assumptions += ["a call that has not returned after 4 s is blocked (its goroutine stack is stored in the replay)",
                        "reads on twcc/rfc8888 senders before BindRTCPWriter are not generated (they wait for the loop by design)"]
    return vlib.finish(ctx, "model_checking", RULE)


def replay(ctx, path):
    scripts = vlib.replay_scripts(path)
    if c11_rebind.is_rebind_replay(scripts):
        c11_rebind.run_batch(ctx, scripts, "replay")
    else:
        run_batch(ctx, scripts, "replay")
    return vlib.finish(ctx, "model_checking", RULE)

"""C17 - Pacers deliver each accepted packet once, in order, intact, within the rate.
(M) MC_Pacer: producers x packets x ticks x rate change x close, all interleavings; safety (FIFO / exactly once / content /
    writer / real-time order / rate envelope) and liveness under fairness (no state constraint); negative controls.
(G) Gen_Pacer: every sequence of L single-producer actions over a burst-relative size alphabet, executed in real time on
    pacing.Interceptor, gcc.LeakyBucketPacer and gcc.NoOpPacer.
(T) seeded random long single-producer scripts and concurrent producers (call/return intervals logged, the enqueue is a
    silent step of Trace_Pacer, high-water-mark acceptance)."""
import concurrent.futures
import os
import random
import re

import vlib

META = {
    "level": "model_checking",
    "text": "Pacer.tla (FIFO of accepted packets, token bucket in integer bits/ms, Write as call / accept-or-refuse / return) is "
            "model checked for all interleavings of 2 producers with releases, ticks, a rate change and Close: released = prefix "
            "of accepted in acceptance order, content at release = content at accept although callers reuse their buffers, own "
            "writer, acceptance order respects real time, cumulative released bits <= largest burst + sum rate*dt, and - under "
            "weak fairness of the tick and release steps, without any state constraint - every accepted packet is released "
            "while the pacer is open (the variant that accepts a packet larger than the burst fails this: head-of-line "
            "blocking). TLC-generated single-producer scripts (sizes at the edges of the burst allowance, rates 100k..50M, "
            "1/5 ms ticks, mid-stream SetRate, idle gaps) and seeded random scripts, also with 2-4 concurrent producers, are "
            "executed in real time on pacing.Interceptor, gcc.LeakyBucketPacer and gcc.NoOpPacer; TLC validates every "
            "recorded trace, searching the silent enqueue steps inside the logged call/return intervals.",
    "note": "Timing: only upper bounds are asserted (release instants are taken by the harness writer, never earlier than the "
            "limiter's own clock; elapsed ms rounded up; the larger rate while SetRate is in progress) and liveness uses "
            "time-outs of 3x the token model's need + 2 s, confirmed by a second wait of at least the same length (>= 3 s) without a single release. Tick intervals that do "
            "not divide 1000 ms and rate 0 are not exercised. Payloads are compared by length, CRC-32 and their first/last "
            "8 bytes. Releases after Close are not judged here (C11).",
    "technique": "TLA+ protocol model checked with TLC (safety + liveness); TLC-generated scripts executed in real time on the "
                 "Go code; recorded traces with silent steps validated by TLC",
    "design_ref": "DESIGN.md section 7 C17",
}

RULE = ("scripts = TLC-enumerated sequences of L actions of Gen_Pacer (write with burst-relative sizes / setrate / sleep / "
        "quiesce, per initial rate and tick interval, for the three pacers) + seeded random single-producer histories + "
        "seeded concurrent-producer programs; each script is executed in real time on the real pacer and its trace validated "
        "by TLC against Trace_Pacer. distinct_nontrivial = distinct recorded traces in which at least one packet was released "
        "by a paced (not immediate) pacer or two producers overlapped.")

LIBTPL = os.path.join(vlib.VERIF, "harness", "pkg", "pacing", "zz_verif_pacerlib_test.go.tpl")
TARGETS = {
    "pacing": ("pkg/pacing", "pacing", "zz_verif_pacing_test.go", "TestVerifPacingExec"),
    "gcc": ("pkg/gcc", "gcc", "zz_verif_pacer_test.go", "TestVerifGccPacerExec"),
}
FLOOR = 12000
SLACK_MS = 2000


def burst(kind, rate_ms, ival):
    return max(FLOOR, rate_ms * ival) if kind == "pacing" else 0


def split_bytes(n):
    """wire size -> (payload length <= 1460, number of CSRCs) with 12 + 4*csrc + len = n."""
    c = max(0, -(-(n - 12 - 1460) // 4))
    return n - 12 - 4 * c, c


class Need:
    """time the token model needs to drain what was written since the last quiescent point (ms)."""

    def __init__(self, kind, rate_ms, ival):
        self.kind, self.ival = kind, ival
        self.rate = self.minrate = rate_ms
        self.bits = self.n = 0

    def write(self, nbytes):
        self.bits += 8 * nbytes
        self.n += 1

    def setrate(self, r):
        self.rate = r
        self.minrate = min(self.minrate, r)

    def wait(self):
        if self.kind == "pacing":
            need = self.bits // max(self.minrate, 1) + (self.n + 3) * self.ival + 5
        elif self.kind.endswith("leaky"):
            need = (self.n + 3) * 5 + 5
        else:
            need = 5
        self.bits = self.n = 0
        self.minrate = self.rate
        return 3 * need + SLACK_MS


SHAPE_BYTES = {0: 0, 1: 8, 2: 12}      # header extension bytes the shapes add (vfPcPacket)


def wr(ident, s, nbytes, ssrc=0, shape=0):
    """a write step whose packet has exactly nbytes on the wire (header incl. CSRCs and extension + payload)."""
    if nbytes - SHAPE_BYTES[shape] < 12:
        shape = 0
    ln, c = split_bytes(nbytes - SHAPE_BYTES[shape])
    return {"a": "write", "s": s, "ssrc": ssrc, "id": ident, "len": ln, "csrc": c, "shape": shape}


def wire_bytes(st):
    return 12 + 4 * st["csrc"] + st["len"] + SHAPE_BYTES[st["shape"]]


def script_from_behaviour(kind, b):
    rate0, ival = b[0]["rate0"], b[0]["ival"]
    need = Need(kind, rate0, ival)
    steps = []
    ident = 0
    for e in b[1:]:
        if e["a"] == "write":
            ident += 1
            steps.append(wr(ident, e["s"], e["bytes"]))
            need.write(e["bytes"])
        elif e["a"] == "setrate":
            steps.append({"a": "setrate", "rate": e["rate"] * 1000})
            need.setrate(e["rate"])
        elif e["a"] == "sleep":
            steps.append({"a": "sleep", "ms": e["ms"]})
        elif e["a"] == "quiesce":
            steps.append({"a": "quiesce", "wait": need.wait()})
    steps += [{"a": "quiesce", "wait": need.wait()}, {"a": "close"}]
    return {"kind": kind, "rate": rate0 * 1000, "ival": ival, "qsize": 256, "streams": [1, 2], "steps": steps}


SIZES = [12, 13, 40, 100, 100, 212, 212, 512, 1212, 1212, 1472]
RATES = {"pacing": [100, 1000, 1000, 2500, 10000, 50000], "leaky": [100, 1000, 50000], "noop": [1000]}


def random_size(rng, kind, cur_burst, edge=True):
    if edge and kind == "pacing" and cur_burst == FLOOR and rng.random() < 0.08:
        return rng.choice([1499, 1500, 1500, 1496])
    if rng.random() < 0.03:
        return rng.choice([1500, 1512, 1532]) if kind != "pacing" or cur_burst > 8 * 1532 else 1472
    return rng.choice(SIZES)


def random_single(rng, kind, n):
    rate = rng.choice(RATES[kind])
    ival = rng.choice([1, 5]) if kind == "pacing" else 5
    need = Need(kind, rate, ival)
    streams = [1, 2, 3]
    steps = []
    ident = 0
    budget_ms = 0.0          # keep the script's real-time length bounded
    for _ in range(n):
        r = rng.random()
        if r < 0.72 and budget_ms < 600:
            ident += 1
            nb = random_size(rng, kind, burst(kind, need.rate, ival))
            ssrc = 0
            s = rng.choice(streams)
            if kind == "pacing" and rng.random() < 0.1:
                ssrc = rng.choice([2, 77])           # a packet with another SSRC on a bound stream (RTX / FEC)
            steps.append(wr(ident, s, nb, ssrc=ssrc, shape=rng.choice([0, 0, 1, 2])))
            need.write(nb)
            budget_ms += 8 * nb / max(need.rate, 1)
        elif r < 0.80:
            nr = rng.choice(RATES[kind])
            steps.append({"a": "setrate", "rate": nr * 1000})
            need.setrate(nr)
        elif r < 0.93:
            ms = rng.choice([0, 1, 1, 2, ival, 3 * ival])
            steps.append({"a": "sleep", "ms": ms})
            budget_ms += ms
        elif need.n:
            steps.append({"a": "quiesce", "wait": need.wait()})
            budget_ms = 0
            if rng.random() < 0.5:      # nothing is queued: a stream is bound again, with a NEW next writer
                steps.append({"a": "rebind", "s": rng.choice(streams)})
    steps.append({"a": "quiesce", "wait": need.wait()})
    steps.append({"a": "close"})
    if rng.random() < 0.3:      # writes after Close: refused or accepted, never an obligation
        for _ in range(2):
            ident += 1
            steps.append(wr(ident, 1, 100))
    return {"kind": kind, "rate": rate * 1000, "ival": ival, "qsize": rng.choice([0, 64, 1024, 1024]), "streams": streams,
            "steps": steps}


def random_concurrent(rng, kind, k, per):
    rate = rng.choice([1000, 2500, 10000, 50000]) if kind == "pacing" else rng.choice(RATES[kind])
    ival = rng.choice([1, 5]) if kind == "pacing" else 5
    need = Need(kind, rate, ival)
    streams = [1, 2, 3]
    steps = []
    ident = 0
    phases = rng.choice([1, 2])
    closed = False
    for phase in range(phases):
        progs = []
        for g in range(k):
            prog = []
            for i in range(per):
                ident += 1
                nb = rng.choice([12, 13, 40, 100, 212, 212, 512, 1212])
                prog.append(wr(ident, rng.choice(streams) if rng.random() < 0.5 else streams[g % 3], nb,
                               shape=rng.choice([0, 1])))
                need.write(nb)
                if rng.random() < 0.25:
                    prog.append({"a": "sleep", "ms": rng.choice([0, 0, 1, 2])})
                if g == 0 and rng.random() < 0.06:      # only one goroutine changes the rate
                    nr = rng.choice([1000, 2500, 10000, 50000]) if kind == "pacing" else rng.choice(RATES[kind])
                    prog.append({"a": "setrate", "rate": nr * 1000})
                    need.setrate(nr)
            progs.append(prog)
        if phase == phases - 1 and rng.random() < 0.25:
            # Close races with the writers: what was accepted before it may or may not come out, nothing is owed after
            progs[k - 1].insert(rng.randrange(len(progs[k - 1]) + 1), {"a": "close"})
            closed = True
        steps.append({"a": "par", "progs": progs})
        if not closed:
            steps.append({"a": "quiesce", "wait": need.wait()})
    if not closed:
        steps.append({"a": "close"})
    return {"kind": kind, "rate": rate * 1000, "ival": ival, "qsize": 4096, "streams": streams, "steps": steps}


def overflow_script(rng):
    """the downstream writer is slow (the pacer's goroutine is blocked in it) while a burst arrives: the hand-over channel
    fills, further writes must fail with an error - what was accepted is still delivered once, in order."""
    rate, ival, q = rng.choice([1000, 10000, 50000]), rng.choice([1, 5]), rng.choice([1, 2, 4, 8])
    need = Need("pacing", rate, ival)
    steps = [{"a": "hold", "ms": rng.choice([20, 40])}, wr(1, 1, 112), {"a": "waithold"}]
    need.write(112)
    for i in range(q + rng.choice([2, 6, 12])):
        steps.append(wr(i + 2, rng.choice([1, 2]), rng.choice([52, 112, 212])))
        need.write(212)
    steps += [{"a": "sleep", "ms": 45}, {"a": "quiesce", "wait": need.wait()}, wr(90, 2, 112), wr(91, 1, 52)]
    need.write(200)
    steps += [{"a": "quiesce", "wait": need.wait()}, {"a": "close"}]
    return {"kind": "pacing", "rate": rate * 1000, "ival": ival, "qsize": q, "streams": [1, 2], "steps": steps}


def slow_writer_script(rng, kind):
    """a backlog, a slow downstream write (the pacer is blocked in the harness writer for `hold` ms) and a rate change
    while it is blocked; low rates and small packets so that the envelope is tight."""
    rate = rng.choice([100, 100, 200, 1000]) if kind == "pacing" else rng.choice(RATES[kind])
    ival = rng.choice([1, 5]) if kind == "pacing" else 5
    need = Need(kind, rate, ival)
    n = 12000 // (8 * 52) + rng.choice([20, 40])
    steps = [{"a": "hold", "ms": 40}]
    for i in range(n):
        steps.append(wr(i + 1, rng.choice([1, 2]), 52))
        need.write(52)
    nr = rng.choice([rate, rate, 2 * rate])
    steps += [{"a": "waithold"}, {"a": "sleep", "ms": rng.choice([10, 15, 20])}, {"a": "setrate", "rate": nr * 1000}]
    need.setrate(nr)
    steps += [{"a": "quiesce", "wait": need.wait() + 150}, {"a": "close"}]
    return {"kind": kind, "rate": rate * 1000, "ival": ival, "qsize": 1024, "streams": [1, 2], "steps": steps}


def rate_cut_script(rng):
    """pacing interceptor with a LONG interval: a backlog of about one burst is handed over (and sits in the loop's own queue)
    before the first tick; the first release of that tick blocks in a slow downstream write; the rate is cut to a burst of
    two or three packets while the loop is blocked there; what is still queued then leaves at the NEW rate."""
    rate, ival = rng.choice([(1000, 100), (2000, 50)])
    need = Need("pacing", rate, ival)
    npk = (rate * ival) // (8 * 1012) + rng.choice([0, 2])
    steps = [{"a": "hold", "ms": 40}]
    for i in range(npk):
        steps.append(wr(i + 1, rng.choice([1, 2]), 1000))
        need.write(1012)
    nr = rng.choice([200, 300])
    steps += [{"a": "waithold"}, {"a": "sleep", "ms": 5}, {"a": "setrate", "rate": nr * 1000}]
    need.setrate(nr)
    steps += [{"a": "quiesce", "wait": need.wait() + 150}, {"a": "close"}]
    return {"kind": "pacing", "rate": rate * 1000, "ival": ival, "qsize": 1024, "streams": [1, 2], "steps": steps}


def close_midburst_script(rng, kind):
    """Close arrives while the pacer is inside the (slow) next writer with more packets of the burst still queued; a packet
    written afterwards is refused or accepted, but the call comes back."""
    rate = 50000 if kind == "pacing" else rng.choice(RATES[kind])
    steps = [{"a": "hold", "ms": 60}]
    for i in range(6):
        steps.append(wr(i + 1, rng.choice([1, 2]), 200))
    steps += [{"a": "waithold"}, {"a": "close"}, wr(50, 1, 100), wr(51, 2, 100)]
    return {"kind": kind, "rate": rate * 1000, "ival": 5, "qsize": 1024, "streams": [1, 2], "steps": steps}


def pool_script(rng, kind):
    """content at release = content at accept while the downstream writer is slow: in every round the pacer's goroutine is
    parked inside the writer of one packet, more packets are accepted meanwhile (pooled payload buffers must not be handed
    out again while the writer still reads them), then the writer reads and records what it was given."""
    rate = rng.choice([10000, 50000])
    need = Need(kind, rate, 5)
    steps = []
    ident = 0
    for _ in range(rng.choice([6, 8])):
        ident += 1
        steps += [{"a": "hold", "ms": rng.choice([8, 12])}, wr(ident, 1, 12 + rng.choice([1000, 1200, 1460, 300]))]
        need.write(1472)
        steps.append({"a": "waithold"})
        for _ in range(rng.choice([2, 4, 6])):
            ident += 1
            steps.append(wr(ident, rng.choice([1, 2]), 12 + rng.choice([1000, 1200, 1460, 300, 40])))
            need.write(1472)
        steps.append({"a": "quiesce", "wait": need.wait() + 50})
    steps.append({"a": "close"})
    return {"kind": kind, "rate": rate * 1000, "ival": 5, "qsize": 1024, "streams": [1, 2], "steps": steps}


def rate_flap_script(rng):
    """a long backlog of small packets drains while SetRate is called 20-30 times, 10 ms apart, alternating two rates (or
    repeating the same one): every update must leave the bucket's content alone - the cumulative envelope grants one burst
    for the whole script plus rate x time."""
    r1 = rng.choice([100, 200, 1000])
    r2 = rng.choice([r1, 2 * r1, 2 * r1])
    ival = rng.choice([1, 5])
    nb = 52 if r1 <= 200 else 212
    calls = rng.choice([20, 25, 30])
    n = (FLOOR + max(r1, r2) * (10 * calls + 60)) // (8 * nb) + 10
    need = Need("pacing", r1, ival)
    steps = []
    for i in range(n):
        steps.append(wr(i + 1, rng.choice([1, 2]), nb))
        need.write(nb)
    for i in range(calls):
        steps += [{"a": "sleep", "ms": 10}, {"a": "setrate", "rate": (r2 if i % 2 == 0 else r1) * 1000}]
    steps += [{"a": "quiesce", "wait": need.wait()}, {"a": "close"}]
    return {"kind": "pacing", "rate": r1 * 1000, "ival": ival, "qsize": 8192, "streams": [1, 2], "steps": steps}


def fault_script(rng, kind):
    """the next writer of a stream fails for chosen packets (once, or for a few attempts): every accepted packet is still
    handed over exactly once - the failed attempt is its delivery - and the packets behind it, of every stream, follow in
    order."""
    rate = rng.choice([1000, 10000, 50000])
    ival = rng.choice([1, 5]) if kind == "pacing" else 5
    need = Need(kind, rate, ival)
    steps = []
    n = rng.choice([12, 20, 30])
    for i in range(n):
        st = wr(i + 1, rng.choice([1, 2, 3]), rng.choice([52, 112, 212, 512]))
        if rng.random() < 0.25 or i == 1:
            st["fail"] = rng.choice([1, 1, 2, 3])
        steps.append(st)
        need.write(512)
        if rng.random() < 0.2:
            steps.append({"a": "sleep", "ms": rng.choice([1, ival, 2 * ival])})
    steps += [{"a": "sleep", "ms": 4 * ival}, {"a": "quiesce", "wait": need.wait()}]
    for i in range(3):      # and the pacer goes on working afterwards
        steps.append(wr(n + i + 1, rng.choice([1, 2, 3]), 112))
        need.write(112)
    steps += [{"a": "sleep", "ms": 4 * ival}, {"a": "quiesce", "wait": need.wait()}, {"a": "close"}]
    return {"kind": kind, "rate": rate * 1000, "ival": ival, "qsize": 256, "streams": [1, 2, 3], "steps": steps}


def bwe_script(rng, kind):
    """the pacers as gcc.SendSideBWE wires them: AddStream(info, writer) for a mixed set of streams - some negotiated the
    transport-wide-cc extension (their packets carry it), some did not - then writes through the returned writer, from
    one or two goroutines."""
    rate = rng.choice([1000, 10000])
    streams = [1, 2, 3]
    mix = rng.choice([[1], [2], [1, 3], [2, 3], [3], [1, 2]] + ([[1, 2, 3], []] if rng.random() < 0.3 else []))
    twcc = [[s, rng.randint(1, 14)] for s in mix]
    rng.shuffle(streams)            # AddStream order
    need = Need(kind, rate, 5)
    ident = 0

    def prog(n):
        nonlocal ident
        out = []
        for _ in range(n):
            ident += 1
            out.append(wr(ident, rng.choice([1, 2, 3]), rng.choice([52, 112, 212, 1212])))
            need.write(1212)
            if rng.random() < 0.2:
                out.append({"a": "sleep", "ms": rng.choice([0, 1, 5])})
        return out
    steps = prog(rng.choice([6, 10]))
    steps.append({"a": "quiesce", "wait": need.wait()})
    steps.append({"a": "par", "progs": [prog(8), prog(8)]})
    steps += [{"a": "quiesce", "wait": need.wait()}, {"a": "close"}]
    return {"kind": kind, "rate": rate * 1000, "ival": 5, "streams": streams, "twcc": twcc, "steps": steps}


def nontrivial(evs):
    kind = evs[0].get("kind")
    if not any(e["a"] == "rel" for e in evs):
        return False
    if not kind.endswith("noop"):
        return True
    return len({e.get("g") for e in evs if e["a"] == "call"}) > 1


# ------------------------------------------------------------------------------------------ execution / validation

def go_exec(ctx, tag, target, scripts, par, extra_env=None):
    pkg, pkgname, hfile, test = TARGETS[target]
    safe = re.sub(r"[^A-Za-z0-9_.-]", "_", tag)
    inp, outp = ctx.path("C17-%s.in" % safe), ctx.path("C17-%s.trace" % safe)
    vlib.write_ndjson(inp, scripts)
    mapping = vlib.harness_files(pkg, pkgname, [hfile, "common:zz_verif_pkt_test.go.tpl"])
    mapping[os.path.join(pkg, "zz_verif_pacerlib_test.go")] = (LIBTPL, pkgname)
    ov = vlib.overlay(ctx, mapping, name="overlay-%s.json" % safe)
    env = {"VERIF_IN": inp, "VERIF_OUT": outp, "VERIF_SEED": ctx.seed, "VERIF_PAR": par}
    env.update(extra_env or {})
    rc, out = vlib.go_test(ctx, pkg, ov, "^%s$" % test, env=env, timeout=1500)
    return rc, out, outp


def run_batches(ctx, batches, par=48):
    """batches: [(tag, target, scripts[, extra env])].  The Go tests run concurrently (they mostly sleep), TLC validates
    one by one."""
    batches = [(b[0], b[1], b[2], b[3] if len(b) > 3 else None) for b in batches if b[2]]
    with concurrent.futures.ThreadPoolExecutor(max_workers=max(1, len(batches))) as ex:
        futs = [ex.submit(go_exec, ctx, tag, target, scripts, par, env) for tag, target, scripts, env in batches]
        results = [f.result() for f in futs]
    for (tag, target, scripts, _), (rc, out, outp) in zip(batches, results):
        if "VERIF-INFRA" in out:
            raise vlib.Infra("harness error in %s:\n%s" % (tag, out[-2500:]))
        ctx.cov["evaluations"] += len(scripts)
        if rc != 0:
            # a panic / hang while scripts ran in parallel: re-run one at a time so that the culprit is named
            ctx.log("%s: go test failed while running scripts in parallel; re-running serially" % tag)
            pkg, pkgname, hfile, test = TARGETS[target]
            serial(ctx, tag + "-serial", target, scripts)
            if not ctx.violations:
                raise vlib.Infra("go test failed in parallel mode but not serially (%s):\n%s" % (tag, out[-3000:]))
            continue
        validate(ctx, tag, scripts, outp)


def serial(ctx, tag, target, scripts):
    pkg, pkgname, hfile, test = TARGETS[target]
    safe = re.sub(r"[^A-Za-z0-9_.-]", "_", tag)
    inp, outp = ctx.path("C17-%s.in" % safe), ctx.path("C17-%s.trace" % safe)
    vlib.write_ndjson(inp, scripts)
    mapping = vlib.harness_files(pkg, pkgname, [hfile, "common:zz_verif_pkt_test.go.tpl"])
    mapping[os.path.join(pkg, "zz_verif_pacerlib_test.go")] = (LIBTPL, pkgname)
    ov = vlib.overlay(ctx, mapping, name="overlay-%s.json" % safe)
    env = {"VERIF_IN": inp, "VERIF_OUT": outp, "VERIF_SEED": ctx.seed, "VERIF_PAR": 1}
    rc, out = vlib.go_test(ctx, pkg, ov, "^%s$" % test, env=env, timeout=3000)
    if "VERIF-INFRA" in out:
        raise vlib.Infra("harness error in %s:\n%s" % (tag, out[-2500:]))
    events = vlib.read_ndjson(outp) if os.path.exists(outp) else []
    if rc != 0:
        nres = sum(1 for e in events if e.get("a") == "reset")
        culprit = scripts[nres - 1] if 0 < nres <= len(scripts) else None
        m = re.search(r"(panic:.*|fatal error:.*|--- FAIL.*|test timed out.*)", out)
        vlib.report_violation(ctx, "%s: the real code panicked or did not return while executing a script%s" % (
            tag, ": " + m.group(1)[:300] if m else ""), {"kind": tag, "script": culprit, "go_output": out[-6000:]})
        return
    validate(ctx, tag, scripts, outp)


_DIAG = re.compile(r'<<\s*"(DEAD|MISMATCH)",\s*(\d+),(.*?)>>\s*(?=<<\s*"(?:DEAD|MISMATCH|HW|KNOWNDEV)"|$)', re.S)


def validate(ctx, tag, scripts, outp):
    events = vlib.read_ndjson(outp)
    v = vlib.validate(ctx, "Trace_Pacer.tla", outp, deque=True, timeout=1800, xss="512m")
    v.known = sorted(set(v.known))            # the same stall may be reached on several paths of the search
    if not v.accepted:
        # several paths may be dead at different events; the verdict is about the furthest event any path reached
        best = None
        flat = " ".join(v.out.split())
        for m in _DIAG.finditer(flat):
            if int(m.group(2)) == v.hw:
                best = (v.hw, "%s %s" % (m.group(1), m.group(3).strip()[:1200]))
                break
        v.mismatch = best
    vlib.handle_validation(ctx, v, events, tag, lambda i: scripts[i] if i < len(scripts) else None)
    traces = vlib.split_traces(events)
    ctx.cov["distinct_nontrivial"] += vlib.distinct_count([evs for _, evs in traces if nontrivial(evs)])
    if traces:
        vlib.add_samples(ctx, [[{k: x for k, x in e.items() if k != "pkt"} for e in traces[len(traces) // 2][1][:14]]], 1)
    return v


# ------------------------------------------------------------------------------------------ the check

def gen(ctx, cfg, consts):
    return vlib.generate(ctx, "Gen_Pacer.tla", vlib.cfg_variant(ctx, cfg, consts), workers=4)


def cap_oversize(rng, scripts, k):
    """scripts in which the token bucket is handed a packet above its burst cost two time-outs each: keep k of them."""
    def over(sc):
        r = sc["rate"] // 1000
        for st in sc["steps"]:
            if st["a"] == "setrate":
                r = st["rate"] // 1000
            if st["a"] == "write" and sc["kind"] == "pacing" and 8 * wire_bytes(st) > burst("pacing", r, sc["ival"]):
                return True
        return False
    big = [s for s in scripts if over(s)]
    rest = [s for s in scripts if not over(s)]
    return rest, (rng.sample(big, k) if len(big) > k else big)


def run(ctx):
    rng = random.Random(ctx.seed)
    quick = ctx.quick
    # (M)
    np_ = {"NP": 2} if quick else {"NP": 3}
    vlib.model_check(ctx, "MC_Pacer.tla", vlib.cfg_variant(ctx, "MC_Pacer.cfg", np_), workers=4 if quick else 8, timeout=3000,
                     note="safety + rate envelope, bounded clock")
    vlib.model_check(ctx, "MC_Pacer.tla", vlib.cfg_variant(ctx, "MC_Pacer_live.cfg", np_), workers=4 if quick else 8,
                     timeout=3000, note="liveness under WF(Tick) and WF(Release), no state constraint")
    if not quick:
        vlib.model_check(ctx, "MC_Pacer.tla", vlib.cfg_variant(ctx, "MC_Pacer.cfg", {"NP": 3, "MaxRC": 2, "MaxT": 10}), workers=8,
                         timeout=3000, note="safety + envelope, two rate changes")
        vlib.model_check(ctx, "MC_Pacer.tla", vlib.cfg_variant(ctx, "MC_Pacer_live.cfg", {"NP": 3, "MaxRC": 2}), workers=8,
                         timeout=3000, note="liveness, two rate changes")
    vlib.model_check(ctx, "MC_Pacer.tla", vlib.cfg_variant(ctx, "MC_Pacer_leaky.cfg", np_), workers=2,
                     note="gcc pacer: stream 2 has no writer, its packets are refused")
    vlib.model_check(ctx, "MC_Pacer.tla", "MC_Pacer_neg_oversize.cfg", workers=4,
                     expect_violation="Temporal property Live was violated",
                     note="negative control: a packet above the burst floor is accepted -> head-of-line blocking for ever")
    vlib.model_check(ctx, "MC_Pacer.tla", "MC_Pacer_neg_nocopy.cfg", workers=2,
                     expect_violation="Invariant ContentOK is violated",
                     note="negative control: the queue keeps a reference to the caller's buffer")
    # (G) single producer, systematic
    L = 2 if quick else 3
    beh_tb = gen(ctx, "Gen_Pacer.cfg", {"L": L})
    beh_gcc = gen(ctx, "Gen_Pacer_gcc.cfg", {"L": L})
    n_tb, n_gcc, n_over = (10 ** 6, 10 ** 6, 6) if quick else (10 ** 6, 10 ** 6, 400)
    tb = [script_from_behaviour("pacing", b) for b in beh_tb]
    tb, over = cap_oversize(rng, tb, n_over)
    if len(tb) > n_tb:
        ctx.notes.append("Gen_Pacer pacing L=%d: %d behaviours enumerated, %d sampled for real-time execution" % (L, len(beh_tb), n_tb))
        tb = rng.sample(tb, n_tb)
    gcc = []
    for kind in ("leaky", "noop"):
        sel = beh_gcc if len(beh_gcc) <= n_gcc else rng.sample(beh_gcc, n_gcc)
        gcc += [script_from_behaviour(kind, b) for b in sel]
    # (T) random single-producer histories and concurrent producers
    ns, ln, nc, per = (24, 60, 16, 25) if quick else (900, 120, 600, 40)
    t_tb = [random_single(rng, "pacing", ln) for _ in range(ns)]
    t_tb, over2 = cap_oversize(rng, t_tb, 2 if quick else 20)
    t_gcc = [random_single(rng, k, ln) for k in ("leaky", "leaky", "noop") for _ in range(ns // 3)]
    c_tb = [random_concurrent(rng, "pacing", rng.choice([2, 3, 4]), per) for _ in range(nc)]
    c_gcc = [random_concurrent(rng, k, rng.choice([2, 3, 4]), per) for k in ("leaky", "noop") for _ in range(nc // 2)]
    no, nsw = (8, 8) if quick else (300, 300)
    x_tb = [overflow_script(rng) for _ in range(no)] + [slow_writer_script(rng, "pacing") for _ in range(nsw)] + [rate_cut_script(rng) for _ in range(2 if ctx.quick else 10)]
    x_gcc = [slow_writer_script(rng, "leaky") for _ in range(nsw // 2)]
    x_tb += [close_midburst_script(rng, "pacing") for _ in range(2 if quick else 10)]
    x_gcc += [close_midburst_script(rng, k) for k in ("leaky", "noop") for _ in range(2 if quick else 10)]
    nflap, npool = (6, 12) if quick else (60, 120)
    x_tb += [rate_flap_script(rng) for _ in range(nflap)] + [pool_script(rng, "pacing") for _ in range(npool // 3)]
    pool = [pool_script(rng, "leaky") for _ in range(npool)]
    nfault, nbwe = (8, 12) if quick else (120, 200)
    x_tb += [fault_script(rng, "pacing") for _ in range(nfault)]
    x_gcc += [fault_script(rng, "leaky") for _ in range(nfault // 2)]
    x_gcc += [bwe_script(rng, k) for k in ("bwe-leaky", "bwe-leaky", "bwe-noop") for _ in range(nbwe // 3)]
    # a leaky bucket at a target below one byte per pacing interval: the budget of one 5 ms tick is zero, packets leave only
    # because unused time accumulates (240-bit packets at 1.2 / 1.5 kbit/s: 160-200 ms each)
    for r in ((1500, 1200) if quick else (1500, 1200, 800, 1599)):
        x_gcc.append({"kind": "leaky", "rate": r, "ival": 5, "qsize": 256, "streams": [1, 2],
                      "steps": [wr(1, 1, 30), wr(2, 1, 30), wr(3, 2, 30), {"a": "quiesce", "wait": 3 * (720 * 1000 // r) + SLACK_MS},
                                {"a": "close"}]})
    run_batches(ctx, [
        ("G-pacing", "pacing", tb + over),
        ("G-gcc", "gcc", gcc),
        ("T-pacing", "pacing", t_tb + over2 + c_tb + x_tb),
        ("T-gcc", "gcc", t_gcc + c_gcc + x_gcc + pool[:npool // 2]),
        # the same programs on a single P: sync.Pool then hands a buffer that was just put back to the very next Get,
        # whichever goroutine asks (on many Ps a buffer parked in another P's private slot is not reused at once)
        ("T-gcc-oneP", "gcc", pool, {"GOMAXPROCS": "1"}),
    ])
    ctx.assumptions += [
        "Pacer.tla is the reading of the property; acceptance = Write returned nil; the stream of a packet is the bound stream "
        "(pacing interceptor) or its header SSRC (gcc pacers, which have one Write for all streams)",
        "the harness writer's timestamp of a release is never earlier than the limiter's own clock for that release, so "
        "released bits <= largest burst + sum rate*ceil(elapsed ms), cumulative from the start of the script, is a sound upper bound",
        "liveness: a packet is reported stuck only after 3x the token model's need + 2 s and a second wait of the same length (>= 3 s) in which nothing at all was released",
        "burst allowance = max(12000 bits, rate x tick interval) for tick intervals dividing 1000 ms; rate > 0",
    ]
    return vlib.finish(ctx, "model_checking", RULE)


def replay(ctx, path):
    for sc in vlib.replay_scripts(path):
        serial(ctx, "replay", "pacing" if sc["kind"] == "pacing" else "gcc", [sc])
    return vlib.finish(ctx, "model_checking", RULE)

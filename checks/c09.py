"""C09 - Feedback decoding attributes each acknowledgement to the right sent packet.
(M) MC_FbDecode  (G) Gen_FbDecode scripts -> real cc.FeedbackAdapter / rtpfb.Interceptor  (T) Trace_FbDecode,
plus composition runs: real twcc.Recorder / rfc8888.Recorder -> wire -> both decoders."""
import json
import random

import vlib

META = {
    "level": "model_checking",
    "text": "FbDecode.tla (what TWCC / RFC 8888 feedback encodes, the adapter's LRU of 250, the rtpfb report cursor) is model "
            "checked exhaustively at tiny constants with the clauses of the property as invariants in closed form; TLC "
            "enumerates send histories x feedback packets from the abstract syntax at the real constants (every chunk type and "
            "symbol size, padded final chunks, run lengths beyond the status count, evicted / unknown / duplicated / overlapping "
            "ranges, wrap at 2^16, > 250 packets in flight); the behaviours plus seeded random histories and the output of the "
            "library's own twcc / rfc8888 recorders are executed on the real cc.FeedbackAdapter and rtpfb.Interceptor and every "
            "recorded trace (acknowledgements / packet reports after every feedback) must be a behaviour of the specification.",
    "note": "Trusted: the reading of the property in FbDecode.tla; pion/rtcp marshal+unmarshal (the trace records the packet as "
            "delivered by the wire parser); the harness' rendering of time.Time as microsecond offsets. Concurrency of the "
            "rtpfb history (RLock mutation) is C10, its unbounded maps are C12.",
    "technique": "TLA+ spec + TLC model checking, TLC-generated behaviours replayed into the Go code, recorded traces validated by TLC",
    "design_ref": "DESIGN.md section 7 C09",
}

CC = dict(pkg_rel="internal/cc", pkgname="cc", files=["zz_verif_fbadapter_test.go"], test="TestVerifFbAdapterExec")
FB = dict(pkg_rel="pkg/rtpfb", pkgname="rtpfb", files=["zz_verif_rtpfb_test.go"], test="TestVerifRtpfbExec")
REFBASE = 1000
REFBASES = [1000, 1000, 70000, 8000000]      # reference times (64 ms units): minutes, 75 minutes, 5.9 days into the session
RULE = ("scripts = TLC-enumerated behaviours of Gen_FbDecode at the real constants (warm-up runs leaving 5 / 255 packets in "
        "flight, wrap at 2^16; send actions relative to the LRU; every feedback of the abstract-syntax alphabet relative to the "
        "oldest / newest remembered number resp. the report cursor) + seeded random histories (long runs, random chunk lists, "
        "compound feedback, several SSRCs, TWCC and non-TWCC streams) + composition runs through the real twcc / rfc8888 "
        "recorders; each is executed on the real FeedbackAdapter and/or rtpfb Interceptor and the recorded trace is validated "
        "by TLC against Trace_FbDecode. distinct_nontrivial = number of distinct recorded traces in which at least one "
        "feedback produced a non-empty acknowledgement list or packet report.")


def nontrivial(evs):
    for e in evs:
        if e.get("a") == "fb":
            if e.get("rep"):
                return True
            if any(o.get("acks") for o in e.get("outs", [])):
                return True
    return False


def run_batch(ctx, scripts, tag, where):
    return vlib.run_batch(ctx, tag=tag, scripts=scripts, trace_module="Trace_FbDecode.tla", nontrivial=nontrivial,
                          xss="512m", **where)


def group_cc(behaviours, per):
    """The adapter keeps no state across feedback: behaviours that differ only in their final feedback step share one
    warm-up; pack `per` feedback steps behind each distinct send prefix."""
    groups = {}
    order = []
    for b in behaviours:
        cut = next(i for i, s in enumerate(b) if s["a"] == "fb")
        key = json.dumps(b[:cut], sort_keys=True)
        if key not in groups:
            groups[key] = (b[:cut], [])
            order.append(key)
        groups[key][1].extend(b[cut:])
    scripts = []
    for key in order:
        pre, fbs = groups[key]
        for i in range(0, len(fbs), per):
            scripts.append({"target": "cc", "refbase": REFBASE, "steps": pre + fbs[i:i + per]})
    return scripts


def gen(ctx, mode, base, n0, la, L):
    cfg = vlib.cfg_variant(ctx, "Gen_FbDecode.cfg", {"Mode": '"%s"' % mode, "Base": base, "N0": n0, "La": la, "L": L})
    return vlib.generate(ctx, "Gen_FbDecode.tla", cfg)


# ------------------------------------------------------------------------------------------ seeded random scripts

def rl(sym, ln):
    return {"t": "rl", "sym": sym, "len": ln, "syms": []}


def vec(t, syms):
    return {"t": t, "sym": 0, "len": 0, "syms": syms}


def wire_syms(chunks, count):
    """The statuses for which pion/rtcp's parser expects a delta (run lengths clamped to the status count, every
    symbol of a vector chunk) - needed to emit a packet the wire parser accepts."""
    res, done = [], 0
    for c in chunks:
        if c["t"] == "rl":
            k = min(max(count - done, 0), c["len"])
            if c["sym"] in (1, 2):
                res += [c["sym"]] * k
            done += k
        else:
            res += [x for x in c["syms"] if x in (1, 2)]
            done += len(c["syms"])
    return res


def random_twcc(rng, base, ref, big=False):
    chunks = []
    for _ in range(rng.choice([1, 1, 2, 2, 3, 4, 6])):
        q = rng.random()
        if q < 0.4:
            ln = rng.choice([1, 2, 3, 5, 14, 40]) if not big else rng.choice([200, 300, 8191])
            chunks.append(rl(rng.choice([0, 1, 1, 2, 3 if rng.random() < 0.4 else 1]), ln))
        elif q < 0.7:
            chunks.append(vec("v1", [rng.choice([0, 1, 1]) for _ in range(14)]))
        else:
            chunks.append(vec("v2", [rng.choice([0, 1, 1, 2, 3 if rng.random() < 0.4 else 2]) for _ in range(7)]))
    total = sum(c["len"] if c["t"] == "rl" else len(c["syms"]) for c in chunks)
    last = chunks[-1]["len"] if chunks[-1]["t"] == "rl" else len(chunks[-1]["syms"])
    count = total - rng.choice([0, 0, 0, 1, rng.randrange(last), last - 1])
    if total > 700:                                     # a huge run length: declare only its first status
        count = total - (last - 1)
    if chunks[-1]["t"] != "rl" and count < total:   # well-formed padding is zero
        keep = last - (total - count)
        chunks[-1]["syms"] = chunks[-1]["syms"][:keep] + [0] * (last - keep)
    ws = wire_syms(chunks, count)
    deltas = [rng.randrange(0, 256) if t == 1 else rng.choice([-4000, -1, 256, 300, 5000, 32767, -32768, rng.randrange(-2000, 2000)])
              for t in ws]
    if sum(abs(d) for d in deltas) > 4000000:          # keep every arrival offset far below 2^31 us (TLC integers)
        deltas = [d if abs(d) <= 300 else 300 for d in deltas]
    return {"k": "twcc", "base": base % 65536, "count": count, "ref": ref, "chunks": chunks, "deltas": deltas, "dtypes": ws,
            "rts": 0, "blocks": []}


def random_ccfb(rng, rts, streams):
    blocks = []
    for _ in range(rng.choice([1, 1, 2, 3])):
        ssrc = rng.choice(list(streams) + [9])
        pos = streams.get(ssrc, 100)
        mbs = []
        for _ in range(rng.choice([0, 1, 2, 5, 17, 30])):
            if rng.random() < 0.25:
                mbs.append({"r": 0, "ecn": 0, "ato": 0})
            else:
                mbs.append({"r": 1, "ecn": rng.randrange(4), "ato": rng.choice([0, 1, 5, 1023, 1024, 8189, 8190, 8191, rng.randrange(8192)])})
        blocks.append({"ssrc": ssrc, "begin": (pos - rng.choice([0, 1, 5, 20, 40, 300])) % 65536, "mbs": mbs})
    if len({b["ssrc"] for b in blocks}) < len(blocks):       # one block per SSRC (RFC 8888 section 3.1)
        blocks = blocks[:1]
    return {"k": "ccfb", "base": 0, "count": 0, "ref": 0, "chunks": [], "deltas": [], "dtypes": [], "rts": rts, "blocks": blocks}


def random_script(rng, target, nsteps):
    """Long seeded history: runs of sends on a TWCC stream and two RFC 8888 streams (sometimes more than 250 in flight,
    re-sent numbers, skipped numbers, a TWCC-bound stream sending without the extension), feedback whose base lies
    before / inside / after the in-flight range, compound feedback for rtpfb."""
    tw = rng.choice([0, 65000, 65500, rng.randrange(65536)])
    seq1 = rng.randrange(65536)
    seq4 = rng.randrange(65536)
    streams = {2: rng.choice([65530, 10, rng.randrange(65536)]), 3: rng.randrange(65536)}
    now = 0
    ref = 2
    rts = 15 * 65536
    steps = []
    for _ in range(nsteps):
        q = rng.random()
        now += rng.choice([1000, 5000, 20000])
        if q < 0.30:
            n = rng.choice([1, 1, 2, 5, 13, 40, 260 if rng.random() < 0.3 else 7])
            if rng.random() < 0.1:
                tw += rng.choice([1, 2, 5])                       # numbers that are never sent
            ext = not (target == "rtpfb" and rng.random() < 0.05)
            if rng.random() < 0.25:      # a second stream on the same transport-wide counter (another extension id)
                steps.append({"a": "run", "ssrc": 4, "seq": seq4 % 65536, "tw": tw % 65536, "twcc": True, "ext": True, "n": n,
                              "size": rng.randrange(50, 1200), "dep": now, "gap": rng.choice([0, 100, 1000])})
                seq4 += n
            else:
                steps.append({"a": "run", "ssrc": 1, "seq": seq1 % 65536, "tw": tw % 65536, "twcc": True, "ext": ext, "n": n,
                              "size": rng.randrange(50, 1200), "dep": now, "gap": rng.choice([0, 100, 1000])})
                seq1 += n
            if target == "rtpfb" and n <= 5 and rng.random() < 0.3:
                steps[-1]["loop"] = True         # loopback transport: feedback about a packet is read from inside its Write
            now += n * 1000
            tw += n
        elif q < 0.45:
            s = rng.choice([2, 3])
            n = rng.choice([1, 2, 8, 30])
            steps.append({"a": "run", "ssrc": s, "seq": streams[s] % 65536, "tw": 0, "twcc": False, "ext": False, "n": n,
                          "size": rng.randrange(50, 1200), "dep": now, "gap": rng.choice([0, 1000])})
            if target == "rtpfb" and n <= 2 and rng.random() < 0.3:
                steps[-1]["loop"] = True
            elif target == "rtpfb" and rng.random() < 0.3:
                steps[-1]["via"] = 5 - s         # RTX / FEC: packets of SSRC s leave through the writer bound for the other stream
            now += n * 1000
            streams[s] = (streams[s] + n) % 65536
        elif q < 0.52:
            back = rng.choice([1, 3, 100, 249, 250, 251, 300])   # re-send an old transport-wide number
            steps.append({"a": "run", "ssrc": 1, "seq": seq1 % 65536, "tw": (tw - back) % 65536, "twcc": True, "ext": True,
                          "n": 1, "size": rng.randrange(50, 1200), "dep": now, "gap": 0})
            seq1 += 1
        else:
            fbs = []
            for _ in range(rng.choice([1, 1, 1, 2, 3]) if target == "rtpfb" else 1):
                ref += rng.choice([0, 1, 3])
                rts += rng.choice([1000, 30000, 70000])
                if rng.random() < 0.65:
                    back = rng.choice([1, 2, 5, 14, 30, 60, 240, 250, 255, 270, 400, -2])
                    fbs.append(random_twcc(rng, tw - back, ref, big=rng.random() < 0.03))
                else:
                    fbs.append(random_ccfb(rng, rts, streams))
            wire = True
            if target == "cc" and fbs[0]["k"] == "twcc" and rng.random() < 0.06:
                wire = False                      # hand the struct to the adapter directly: deltas may be too few
                if fbs[0]["deltas"] and rng.random() < 0.6:
                    fbs[0]["deltas"].pop()
                    fbs[0]["dtypes"].pop()
            steps.append({"a": "fb", "wire": wire, "at": now, "fbs": fbs})
    sc = {"target": target, "refbase": rng.choice(REFBASES), "steps": steps}
    if target == "rtpfb" and rng.random() < 0.4:
        sc["twin"] = True                        # a second connection of the same factory sends look-alike packets
    return sc


def comp_script(rng, nsend):
    """Composition: a send history and an arrival history (delay, jitter, loss, reordering, duplicates) are pushed
    through the REAL twcc.Recorder / rfc8888.Recorder; whatever they emit is marshalled and fed to both decoders."""
    ev = []
    t = 0
    tw = rng.choice([0, 65400, 65530, rng.randrange(65536)])
    seqs = {1: rng.randrange(65536), 2: rng.choice([65500, rng.randrange(65536)]), 3: rng.randrange(65536)}
    loss = rng.choice([0.0, 0.05, 0.3])
    for i in range(nsend):
        t += rng.choice([200, 1000, 1000, 3000, 20000])
        s = rng.choice([1, 1, 1, 2, 2, 3])
        size = rng.randrange(50, 1200)
        if s == 1:
            ev.append((t, 0, {"a": "run", "ssrc": 1, "seq": seqs[1], "tw": tw, "twcc": True, "ext": True, "n": 1, "size": size,
                              "dep": t, "gap": 0}))
            if rng.random() >= loss:
                at = t + rng.choice([5000, 20000, 20000 + rng.randrange(30000), 90000])
                ev.append((at, 1, {"a": "rx", "k": "twcc", "ssrc": 1, "seq": seqs[1], "tw": tw, "at": at, "ecn": 0}))
                if rng.random() < 0.03:
                    ev.append((at + 7000, 1, {"a": "rx", "k": "twcc", "ssrc": 1, "seq": seqs[1], "tw": tw, "at": at + 7000, "ecn": 0}))
            tw = (tw + 1) % 65536
        else:
            ev.append((t, 0, {"a": "run", "ssrc": s, "seq": seqs[s], "tw": 0, "twcc": False, "ext": False, "n": 1, "size": size,
                              "dep": t, "gap": 0}))
            if rng.random() >= loss:
                at = t + rng.choice([5000, 20000, 20000 + rng.randrange(30000), 90000])
                ev.append((at, 1, {"a": "rx", "k": "ccfb", "ssrc": s, "seq": seqs[s], "tw": 0, "at": at,
                                   "ecn": rng.randrange(4)}))
        seqs[s] = (seqs[s] + 1) % 65536
    end = t + 120000
    tb = rng.choice([30000, 50000, 100000])
    while tb < end:
        ev.append((tb, 2, {"a": "build", "k": "twcc", "at": tb}))
        ev.append((tb + 1, 2, {"a": "build", "k": "ccfb", "at": tb + 1, "max": rng.choice([1200, 1200, 200, 64])}))
        tb += rng.choice([30000, 50000, 100000, 250000])
    ev.sort(key=lambda x: (x[0], x[1]))
    return {"target": "comp", "refbase": rng.choice(REFBASES), "steps": [e[2] for e in ev]}


SSRC_TABLES = [None, None,
               {1: 0x00010001, 2: 0x00020001, 3: 0x00030001, 4: 0x00040002, 9: 0x00090001},      # equal in the low 16 bits
               {1: 0x00010001, 2: 0x00020000, 3: 0x00030000, 4: 0x00040000, 9: 0x00090000},      # low 16 bits all zero
               {1: 0x7FFF0001, 2: 0x7FFF0002, 3: 0x7FFF0003, 4: 0x7FFF0004, 9: 0x7FFF0009},      # equal in the high 16 bits
               {1: 0x12345679, 2: 0x12355678, 3: 0x02345678, 4: 0x12345678, 9: 0x1234567B}]


def remap_ssrc(obj, table):
    """The scripts name streams 1, 2, 3 (9: never bound); the wire carries the SSRCs of `table` instead."""
    if table is None:
        return obj
    if isinstance(obj, dict):
        return {k: (table.get(v, v) if k == "ssrc" and isinstance(v, int) else remap_ssrc(v, table)) for k, v in obj.items()}
    if isinstance(obj, list):
        return [remap_ssrc(x, table) for x in obj]
    return obj


def run(ctx):
    rng = random.Random(ctx.seed)
    q = ctx.quick
    # (M) tiny constants, exhaustive: adapter clauses (LRU 3, <= 4 sends, one feedback), rtpfb clauses (two feedbacks)
    if q:
        vlib.model_check(ctx, "MC_FbDecode.tla", "MC_FbDecode.cfg")
        vlib.model_check(ctx, "MC_FbDecode.tla", "MC_FbDecode_rtpfb.cfg")
    else:
        vlib.model_check(ctx, "MC_FbDecode.tla", vlib.cfg_variant(ctx, "MC_FbDecode.cfg", {
            "RlLens": "{1, 2, 3}", "VecLens": "{1, 2, 3}", "Bases": "{4, 5, 6, 7, 0, 1}", "CountDown": "{0, 1, 2}",
            "CountUp": "{1}", "DeltaModes": '{"all", "exact", "short"}'}), timeout=3000)
        vlib.model_check(ctx, "MC_FbDecode.tla", vlib.cfg_variant(ctx, "MC_FbDecode.cfg", {
            "MaxChunks": 2, "MaxSend": 4, "RlSyms": "{0, 1}", "RlLens": "{1, 2}", "VecSyms": "{0, 1, 2}", "VecLens": "{2}",
            "Bases": "{6, 7, 0}", "CountDown": "{0, 1}", "CountUp": "{}", "DeltaModes": '{"all", "short"}'}), timeout=3000,
            note="two chunks per feedback")
        vlib.model_check(ctx, "MC_FbDecode.tla", vlib.cfg_variant(ctx, "MC_FbDecode_rtpfb.cfg", {
            "MaxSend": 3, "Bases": "{5, 6, 7}", "WithCcfb": "TRUE", "RlLens": "{1, 2, 3}"}), timeout=3000)
    # (G) adapter: every feedback of the alphabet after every send prefix; > 250 in flight with wrap, and 5 in flight
    cc_confs = [(65400, 252, 0, 1)] if q else [(65400, 252, 1, 2), (65400, 252, 2, 3), (65533, 5, 1, 2), (300, 249, 1, 2)]
    for (base, n0, la, L) in cc_confs:
        scripts = group_cc(gen(ctx, "cc", base, n0, la, L), 40)
        run_batch(ctx, scripts, "G-cc-%d-%d-%d" % (base, n0, la), CC)
    # (G) rtpfb: sequences of sends / feedback relative to the report cursor
    fb_confs = [(65533, 5, 2)] if q else [(65533, 5, 3), (65400, 252, 2), (10, 1, 3)]
    for (base, n0, L) in fb_confs:
        beh = gen(ctx, "rtpfb", base, n0, 0, L)
        if len(beh) > 60000:
            beh = rng.sample(beh, 60000)
        run_batch(ctx, [{"target": "rtpfb", "refbase": REFBASE, "steps": b} for b in beh], "G-rtpfb-%d-%d-%d" % (base, n0, L), FB)
    # (T) seeded random long histories on both decoders
    ncc, nfb, ln = (12, 12, 60) if q else (300, 300, 150)
    run_batch(ctx, [remap_ssrc(random_script(rng, "cc", ln), rng.choice(SSRC_TABLES)) for _ in range(ncc)], "T-random-cc", CC)
    run_batch(ctx, [remap_ssrc(random_script(rng, "rtpfb", ln), rng.choice(SSRC_TABLES)) for _ in range(nfb)], "T-random-rtpfb", FB)
    # composition: every feedback the library's own generators emit for seeded send / arrival histories
    ncomp, nsend = (8, 150) if q else (150, 600)
    run_batch(ctx, [remap_ssrc(comp_script(rng, nsend), rng.choice(SSRC_TABLES)) for _ in range(ncomp)], "T-composition", FB)
    ctx.assumptions += [
        "fewer than 65536 packets of a stream are outstanding (sent, not yet reported) in any script: a transport-wide number is "
        "not reused while its first user is still in the history",
        "the TLA+ module FbDecode is the reading of the property: a TWCC packet declares Min(status count, symbols) statuses; "
        "every status with a delta (symbols 1, 2) consumes one delta whether or not the packet is remembered; symbol 3 and the "
        "RFC 8888 offset 0x1FFF mean 'received, arrival time unknown'; the recorded size is what the component stores at send "
        "time (adapter: header+size for TWCC packets, size for RFC 8888 packets; rtpfb: header+payload)",
        "the trace records each feedback packet as delivered by pion/rtcp v1.2.17 Marshal+Unmarshal; packets the wire parser "
        "rejects are skipped (logged as parsed=false); two report blocks for one SSRC are not generated",
        "arrival times are compared as microsecond offsets: TWCC exact, RFC 8888 +-1 us (NTP fixed point -> time.Time), "
        "composition: 125 us (TWCC tick rounding) resp. -17..+978 us (1/1024 s truncation) against the arrival given to the recorder",
        "gcc.SendSideBWE.WriteRTCP is not driven here (it only forwards to the adapter); concurrency of rtpfb.history is C10",
        "Go toolchain go1.24.0 from the module cache",
    ]
    return vlib.finish(ctx, "model_checking", RULE)


def replay(ctx, path):
    scripts = vlib.replay_scripts(path)
    for sc in scripts:
        run_batch(ctx, [sc], "replay", CC if sc.get("target") == "cc" else FB)
    return vlib.finish(ctx, "model_checking", RULE)

"""Metadata of the registered checks; bin/mkmanifest turns it into MANIFEST.json."""

CHECKS = {
    "C03": {
        "level": "model_checking",
        "text": "NackGen.tla is model checked exhaustively at scaled constants (all histories of <= 6-8 actions, two streams); "
                "TLC enumerates every boundary-alphabet behaviour at the real 2^16 modulus and the behaviours plus seeded random "
                "histories are executed on the real receiveLog and GeneratorInterceptor; every recorded trace must be a behaviour "
                "of the specification (each NACK set compared with the specification's set after every tick).",
        "note": "Trusted: the reading of the property in NackGen.tla; tick stepping through the verif gate (real 200us ticker); "
                "pion/rtcp NackPairs expansion. Schedules of concurrent readers vs. the loop are not enumerated here (C10).",
        "technique": "TLA+ spec + TLC model checking, TLC-generated behaviours replayed into the Go code, recorded traces validated by TLC",
        "design_ref": "DESIGN.md section 7 C03",
        "spec": ["NackGen.tla", "MC_NackGen.tla", "Gen_NackGen.tla", "Trace_NackGen.tla"],
    },
}

# properties without a registered check, with the reason (kept current by hand)
NOT_APPLICABLE = {
}

"""Collects the META record of every checks/cNN.py; bin/mkmanifest turns it into MANIFEST.json."""
import glob
import importlib
import os

HERE = os.path.dirname(os.path.abspath(__file__))
# checks that are integrated (built, reviewed, run against /repo itself); others are still being built
ENABLED = ["C%02d" % i for i in range(1, 21)]
CHECKS = {}
for _p in sorted(glob.glob(os.path.join(HERE, "c[0-9][0-9].py"))):
    _name = os.path.basename(_p)[:-3]
    if _name.upper() not in ENABLED:
        continue
    _mod = importlib.import_module(_name)
    if getattr(_mod, "META", None):
        CHECKS[_name.upper()] = _mod.META

# properties without a registered check, with the reason (kept current by hand)
NOT_APPLICABLE = {
}

"""C15 - Transport-wide sequence numbers are gap-free and unique across streams.
(M) MC_TwccHeaderExt: 3 writers x 3 writes, allocation and forward as separate steps, all interleavings (+ negative
    control: load-then-store).
(G) Gen_TwccHeaderExt: every sequence of L writes over streams x header shapes x extension ids x counter bases, executed
    on the real HeaderExtensionInterceptor, header compared field by field by Trace_TwccHeaderExt.
(T) seeded random long sequential histories; concurrent level: k in {1, 4, 16} goroutines, > 2^16 packets in
    barrier-separated batches, per-goroutine logs merged by unwrapped number and run-length encoded (race detector on)."""
import random

import vlib

META = {
    "level": "model_checking",
    "text": "TwccHeaderExt.tla (one shared counter, allocation = linearization point, forward as a separate step) is model "
            "checked for all interleavings of 3 writers x 3 writes across the 16-bit wrap (numbers handed out are exactly "
            "c0..ctr-1 in every state, no duplicates, per-goroutine increasing; load-then-store is rejected). TLC enumerates "
            "every sequence of L writes over {negotiated, not negotiated, negotiated with another id} x 9 header shapes "
            "(one-/two-byte profile, pre-existing extensions incl. a stale element with the same id, CSRC, padding) x ids "
            "1..14 x counter bases at the 2^16 and 2^32 wraps; the real interceptor executes them and TLC compares every "
            "output header with the input field by field. Concurrently k = 1, 4, 16 goroutines write > 2^16 packets on 1..k "
            "streams under the race detector; the merged log must carry base+i at position i.",
    "note": "Trusted: canonical packet record of the harness (pion/rtp accessors), unwrapping of the observed 16-bit numbers "
            "inside a barrier-separated batch of < 2^15 packets. Not covered: headers with a non-RFC 8285 extension profile "
            "or a nil header (Write fails after a number was taken; outside the stated quantifier).",
    "technique": "TLA+ spec + TLC model checking, TLC-generated behaviours replayed into the Go code, recorded traces "
                 "(sequential and concurrent) validated by TLC",
    "design_ref": "DESIGN.md section 7 C15",
}

PKG = "pkg/twcc"
FILES = ["zz_verif_hdrext_test.go", "common:zz_verif_pkt_test.go.tpl"]
RULE = ("seq scripts = TLC-enumerated sequences of L writes (3 stream kinds x 9 header shapes, per extension id and counter "
        "base) + seeded random histories (up to 6 streams, random ids/shapes/bases); conc scripts = k goroutines x batches, "
        "> 65536 numbered packets each. Every script runs on the real HeaderExtensionInterceptor, the recorded trace is "
        "validated by TLC against Trace_TwccHeaderExt. distinct_nontrivial = distinct recorded traces in which at least one "
        "packet was numbered.")

BASE32 = {0: [0], 65534: [65534, 0xFFFFFFFE, 0x7FFEFFFE], 65535: [65535, 0xFFFFFFFF, 0x0001FFFF]}


def other_id(e):
    return e % 14 + 1


def seq_script_from_behaviour(rng, b):
    ext, base = b[0]["ext"], b[0]["base"]
    streams = [{"s": 1, "id": ext, "decoy": other_id(ext)}, {"s": 2, "id": 0, "decoy": ext},
               {"s": 3, "id": other_id(ext), "decoy": 0}]
    steps = [{"a": "write", "s": e["s"], "shape": e["shape"], "id": i + 1} for i, e in enumerate(b)]
    return {"level": "seq", "ext": ext, "base": rng.choice(BASE32[base]), "streams": streams, "steps": steps,
            "exp": [e["exp"] for e in b]}


def random_seq_script(rng, n):
    ns = rng.randint(1, 6)
    ext = rng.randint(1, 14)
    streams = []
    for i in range(ns):
        neg = rng.random() < 0.75
        streams.append({"s": i + 1, "id": rng.choice([ext, ext, rng.randint(1, 14)]) if neg else 0,
                        "decoy": rng.choice([0, rng.randint(1, 14)])})
    base = rng.choice([0, 65535 - rng.randint(0, n), 0xFFFFFFFF - rng.randint(0, n), rng.randrange(2 ** 32)])
    steps = [{"a": "write", "s": rng.randint(1, ns), "shape": rng.randint(0, 8), "id": i + 1} for i in range(n)]
    for _ in range(rng.choice([0, 0, 1, 2])):      # renegotiation: bound again under another id, the old binding unbound
        steps.insert(rng.randrange(len(steps) + 1), {"a": "rebind", "s": rng.randint(1, ns), "shape": 0,
                                                     "id": rng.choice([0, ext, rng.randint(1, 14)])})
    if rng.random() < 0.5:                         # all streams removed and bound again: the numbering goes on
        steps.insert(rng.randrange(len(steps) // 2, len(steps)), {"a": "cycle", "s": 0, "shape": 0, "id": 0})
    return {"level": "seq", "ext": ext, "base": base, "streams": streams, "steps": steps}


def conc_script(rng, k, nstreams, plain, total, failevery=0):
    """k goroutines on nstreams streams (`plain` of the goroutines write on a stream that did not negotiate);
    batches keep the numbered packets of one batch <= 20000 so that they unwrap unambiguously."""
    streams = [{"s": i + 1, "id": rng.randint(1, 14), "decoy": rng.choice([0, 3])} for i in range(nstreams)]
    assign = [g % nstreams for g in range(k)]
    if plain:
        streams.append({"s": nstreams + 1, "id": 0, "decoy": rng.randint(1, 14)})
        for g in range(k - plain, k):
            assign[g] = nstreams
    numbered = k - plain
    per = 20000 // numbered
    batches = []
    left = total
    while left > 0:
        p = min(per, -(-left // numbered))
        batches.append(p)
        left -= p * numbered
    base = rng.choice([0, 60000, 0xFFFF0000 + rng.randrange(65536), rng.randrange(2 ** 32)])
    return {"level": "conc", "ext": 0, "base": base, "streams": streams, "steps": [], "assign": assign, "batches": batches,
            "failevery": failevery, "twin": rng.random() < 0.4}     # (twin: another interceptor of the same factory writes throughout)


def nontrivial(evs):
    return any((e["a"] == "write" and e["outs"] and e["outs"][0]["x"]) or e["a"] == "run" for e in evs)


def run_batch(ctx, scripts, tag):
    return vlib.run_batch(ctx, tag=tag, scripts=scripts, pkg_rel=PKG, pkgname="twcc", files=FILES,
                          test="TestVerifHdrExtExec", trace_module="Trace_TwccHeaderExt.tla", nontrivial=nontrivial,
                          race=True, go_timeout=1500)


def run(ctx):
    rng = random.Random(ctx.seed)
    # (M)
    if ctx.quick:
        vlib.model_check(ctx, "MC_TwccHeaderExt.tla", "MC_TwccHeaderExt.cfg", workers=4)
    else:
        vlib.model_check(ctx, "MC_TwccHeaderExt.tla", vlib.cfg_variant(ctx, "MC_TwccHeaderExt.cfg", {"NW": 4}),
                         timeout=3000, note="3 writers x 4 writes")
        vlib.model_check(ctx, "MC_TwccHeaderExt.tla", _w4(ctx), timeout=3000, note="4 writers x 3 writes")
    vlib.model_check(ctx, "MC_TwccHeaderExt.tla", "MC_TwccHeaderExt_plain.cfg", workers=4,
                     note="one of the three writers is on a stream that did not negotiate the extension")
    vlib.model_check(ctx, "MC_TwccHeaderExt.tla", "MC_TwccHeaderExt_neg.cfg", workers=2,
                     expect_violation="Invariant NoDup is violated",
                     note="negative control: allocation as load-then-store hands one number to two writers")
    # (G) sequential, systematic
    if ctx.quick:
        gens = [({"L": 1}, None), ({"L": 2, "Exts <-": "SomeExts"}, None)]
    else:
        gens = [({"L": 1}, None), ({"L": 2}, None), ({"L": 3, "Exts <-": "SomeExts"}, 40000)]
    scripts = []
    for consts, cap in gens:
        cfg = _gen_cfg(ctx, consts)
        beh = vlib.generate(ctx, "Gen_TwccHeaderExt.tla", cfg, workers=4)
        if cap and len(beh) > cap:
            ctx.notes.append("Gen_TwccHeaderExt %s: %d behaviours enumerated, %d sampled for execution" % (consts, len(beh), cap))
            beh = rng.sample(beh, cap)
        scripts += [seq_script_from_behaviour(rng, b) for b in beh]
    run_batch(ctx, scripts, "G-seq")
    # (T) sequential, random long histories
    n, ln = (40, 150) if ctx.quick else (400, 400)
    run_batch(ctx, [random_seq_script(rng, ln) for _ in range(n)], "T-seq-random")
    # (T) concurrent: k goroutines on 1..k streams, > 2^16 numbered packets each
    if ctx.quick:
        plans = [(1, 1, 0, 66000), (4, 2, 1, 67000), (16, 16, 2, 70000), (16, 3, 0, 66000),
                 (1, 1, 0, 3000, 7), (8, 3, 1, 30000, 5)]           # (.., failevery): the transport fails some writes
    else:
        plans = [(1, 1, 0, 140000), (4, 1, 0, 200000), (4, 4, 1, 200000), (16, 1, 0, 300000), (16, 16, 2, 300000),
                 (16, 5, 1, 300000), (4, 2, 0, 140000), (16, 8, 4, 140000), (1, 1, 0, 30000, 7), (16, 4, 1, 140000, 3)] * 3
    evs = run_batch(ctx, [conc_script(rng, *p) for p in plans], "T-conc") or []
    extra = {"concurrent_numbered_packets": sum(e["total"] for e in evs if e["a"] == "end"),
             "concurrent_runs_logged": sum(1 for e in evs if e["a"] == "run"),
             "concurrent_goroutines": sorted({p[0] for p in plans})}
    ctx.assumptions += [
        "TwccHeaderExt.tla is the reading of the property: the extension with the negotiated id carries the big-endian residue "
        "of the shared counter, other extensions keep their order, every other header field and the payload are unchanged",
        "the numbers a goroutine observes inside one barrier-separated batch (<= 20000 allocations) unwrap unambiguously",
        "sequential scripts set the unexported uint32 counter to the script's base (wraps at 2^16 and 2^32 without 2^32 writes)",
    ]
    return vlib.finish(ctx, "model_checking", RULE, extra_cov=extra)


def _w4(ctx):
    """cfg_variant only rewrites `NAME = value` lines; the writer set is a substitution line."""
    import os
    src = open(os.path.join(ctx.spec, "MC_TwccHeaderExt.cfg")).read()
    name = "MC_TwccHeaderExt_w4.cfg"
    with open(os.path.join(ctx.spec, name), "w") as f:
        f.write(src.replace("Writers <- W3", "Writers <- W4"))
    return name


def _gen_cfg(ctx, consts):
    import os
    subst = {k[:-3].strip(): v for k, v in consts.items() if k.endswith("<-")}
    plain = {k: v for k, v in consts.items() if not k.endswith("<-")}
    name = vlib.cfg_variant(ctx, "Gen_TwccHeaderExt.cfg", plain)
    if subst:
        p = os.path.join(ctx.spec, name)
        txt = open(p).read()
        for k, v in subst.items():
            import re
            txt = re.sub(r"(?m)^(\s*)%s\s*<-\s*\S+" % k, r"\g<1>%s <- %s" % (k, v), txt)
        open(p, "w").write(txt)
    return name


def replay(ctx, path):
    run_batch(ctx, vlib.replay_scripts(path), "replay")
    return vlib.finish(ctx, "model_checking", RULE)

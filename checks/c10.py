"""C10 - interceptors are free of data races under every permitted concurrent use.
(M) MC_Sync: lock-discipline programs transcribed from the code, all interleavings: NoRace, termination (no deadlock),
    NoLostUpdate; negative controls: the rtpfb history as found (writes under RLock) and a plain load/store counter.
(G) Gen_Conc: TLC enumerates every permitted concurrent program (sets of 2..K roles); each is executed on every
    interceptor kind and on chains under the Go race detector with a per-call watchdog.
(T) Trace_Conc validates the recorded call results."""
import random

import vlib

META = {
    "level": "exploration",
    "text": "Sync.tla (locks with read/write modes, atomics, straight-line goroutine programs transcribed from the code) is model "
            "checked over ALL interleavings for race freedom, termination and no lost update, with two negative controls. On the "
            "code, TLC enumerates every permitted combination of concurrent roles (two writers on one stream, writers/readers on "
            "other streams, two RTCP read loops, application RTCP writes, a lifecycle goroutine, Close racing with traffic) and each "
            "program runs on every interceptor and three chains under the Go race detector, a deadlock watchdog and a goroutine census.",
    "note": "A TLA+ model sees the accesses written into it; the observation that two goroutines touched one word unsynchronised "
            "on the real code is the Go race detector's, under schedules that are SAMPLED (repetitions with real goroutines), not "
            "enumerated. Conservation of transport-wide sequence numbers is checked by C15.",
    "technique": "TLA+ lock-discipline model checked with TLC; TLC-enumerated concurrent programs executed on the Go code under the race detector; call results validated by TLC",
    "design_ref": "DESIGN.md section 7 C10",
}

RULE = ("program = set of 2..K concurrently running roles (TLC-enumerated, complete for K) x interceptor kind or chain; each role repeats its call "
        "200-1000 times; distinct_nontrivial = distinct (kinds, program) pairs executed.")

KINDS = ["nackgen", "nackresp", "rrecv", "rsend", "twccsend", "twcchdr", "rfc8888", "rtpfb", "stats", "pdrecv", "pdsend", "pli",
         "flexfec", "cc", "ccleaky", "jitter", "pacing"]
CHAINS = [["nackgen", "nackresp", "rrecv", "rsend", "stats"], ["twcchdr", "twccsend", "rtpfb", "cc"],
          ["rfc8888", "pli", "flexfec", "pdsend", "pdrecv", "stats"],
          # members that inject RTP (retransmissions, FEC) in front of a member that rewrites the header it is given
          ["nackresp", "flexfec", "twcchdr"], ["twcchdr", "flexfec", "nackresp"]]


def role_step(rng, role, rep, fb="mixed"):
    if role in ("w1a", "w1b"):
        return {"a": "wrtp", "s": 1, "w": 1040 if role == "w1a" else 30000, "id": 100 if role == "w1a" else 5000, "len": rng.choice([10, 200, 1200]), "shape": 0,
                "fail": False, "rep": rep}
    if role == "w3":
        return {"a": "wrtp", "s": 3, "w": 5, "id": 1, "len": 40, "shape": 3, "fail": False, "rep": rep}
    if role in ("r2a", "r2b"):
        return {"a": "rrtp", "s": 2, "w": 100 if role == "r2a" else 40000, "id": 1, "len": 30, "shape": 0, "tw": 100 if role == "r2a" else 40000,
                "fail": False, "rep": rep, "inc": 2 if role == "r2a" else 1}     # r2a delivers every second number: the NACK scan has work
    if role == "r4":
        return {"a": "rrtp", "s": 4, "w": 7, "id": 1, "len": 30, "shape": 0, "tw": 20000, "fail": False, "rep": rep}
    if role == "c1":
        k = fb if fb != "mixed" else rng.choice(["nack", "ccfb", "twccfb"])
        return {"a": "rrtcp", "s": 1, "kind": k, "nums": [1001, 1003, 1041, 1044, 30002], "id": 1, "w": 1000, "tw": 0, "fail": False, "rep": rep}
    if role == "c2":
        k = fb if fb != "mixed" else rng.choice(["sr", "rr", "ccfb", "twccfb"])
        return {"a": "rrtcp", "s": 2 if k in ("sr", "rr") else 1, "kind": k, "id": 1, "w": 1002, "tw": 2, "fail": False, "rep": rep}
    if role == "cw":
        return {"a": "wrtcp", "s": 2, "kind": rng.choice(["pli", "sr"]), "id": 1, "fail": False, "rep": rep}
    if role == "life":
        return {"a": "seq", "rep": max(rep // 10, 3), "seq": [
            {"a": "bindl", "s": 5, "nack": True, "twcc": 7, "rtx": False, "fec": True},
            {"a": "wrtp", "s": 5, "w": 1, "id": 1, "len": 10, "shape": 0, "fail": False},
            {"a": "unbindl", "s": 5},
            {"a": "bindm", "s": 6, "nack": True, "twcc": 7, "pli": False},
            {"a": "rrtp", "s": 6, "w": 1, "id": 1, "len": 10, "shape": 0, "tw": 60000, "fail": False},
            {"a": "unbindm", "s": 6}]}
    if role == "close":
        return {"a": "seq", "rep": 1, "seq": [{"a": "wait", "ms": rng.choice([0, 1, 3])}, {"a": "close"}]}
    raise ValueError(role)


def script(rng, kinds, roles, rep, bw2=False):
    members = [{"k": k, "o": {"ivl": 1, "size": 64, "k": 2, "n": 1, "rate": 50_000_000}} for k in kinds]
    twcc = 7 if ("twcchdr" in kinds or not ({"cc", "ccleaky", "ccslow"} & set(kinds))) else 0
    fb = rng.choice(["ccfb", "twccfb", "ccfb", "twccfb", "mixed"])     # both RTCP read loops deliver the same kind of feedback in 2 of 3 scripts
    if "nackresp" in kinds and len(kinds) == 3:
        fb = "nack"
    # bw2: the RTCP writer is bound a second time - interceptors start a loop per BindRTCPWriter, and the loops share state
    steps = [{"a": "bindw"}] + ([{"a": "bindw"}] if bw2 else []) + [{"a": "bindr"},
             {"a": "bindl", "s": 1, "nack": True, "twcc": twcc, "rtx": rng.random() < 0.5, "fec": True},
             {"a": "bindl", "s": 3, "nack": True, "twcc": twcc, "rtx": False, "fec": False},
             {"a": "bindm", "s": 2, "nack": True, "twcc": 7, "pli": False},
             {"a": "bindm", "s": 4, "nack": False, "twcc": 7, "pli": False},
             {"a": "statssync", "nums": [1, 2, 3, 4]},   # (the statistics recorders are started by a goroutine per stream)
             # a prior history, so that feedback about packets 1000.. (transport-wide numbers 0..) names sent packets
             {"a": "par", "par": [{"a": "wrtp", "s": 1, "w": 1000, "id": 1, "len": 20, "shape": 0, "fail": False, "rep": 40}]},
             # a packet the chain may refuse (payload above the responder's 1460 bytes; padding count above the payload): the
             # refusal must leave the stream usable for everything that follows, from every goroutine
             # (not next to a stats member: the counter conservation clause compares with the writes that SUCCEEDED, and a
             # stats interceptor above the refusing member has counted the packet before it was refused)
             ] + ([] if "stats" in kinds else [
                 {"a": "wrtp", "s": 1, "w": 1100, "id": 2, "len": 1500, "shape": 0, "fail": False},
                 {"a": "wrtp", "s": 1, "w": 1101, "id": 3, "len": 50, "shape": 4, "fail": False}]) + [
             {"a": "par", "par": [role_step(rng, r, rep, fb) for r in roles]},
             {"a": "wait", "ms": 3}]
    if "stats" in kinds and "close" not in roles:
        steps += [{"a": "par", "par": [{"a": "bindl", "s": 7, "nack": False, "twcc": 0, "rtx": False, "fec": False},
                                       {"a": "bindm", "s": 7, "nack": False, "twcc": 0, "pli": False}]},
                  {"a": "statssync", "nums": [7]},
                  {"a": "par", "par": [{"a": "wrtp", "s": 7, "w": 1, "id": 1, "len": 10, "shape": 0, "fail": False, "rep": 20},
                                       {"a": "rrtp", "s": 7, "w": 1, "id": 1, "len": 10, "shape": 0, "tw": -1, "fail": False, "rep": 20}]},
                  {"a": "stats", "s": 7}]
        steps += [{"a": "stats", "s": 1}, {"a": "stats", "s": 2}, {"a": "stats", "s": 3}, {"a": "stats", "s": 4}]
    if "close" not in roles:
        steps.append({"a": "close"})
    return {"members": members, "steps": steps, "watch": 20000, "settle": 10}


def park_script(rng, kinds):
    """"No call deadlocks": an RTCP write is still inside the transport (which does not come back before it is released)
    while statistics queries, a Bind and traffic run on other goroutines - each of them must return."""
    members = [{"k": k, "o": {"ivl": 1, "size": 64, "k": 2, "n": 1, "rate": 50_000_000}} for k in kinds]
    twcc = 7 if ("twcchdr" in kinds or not ({"cc", "ccleaky", "ccslow"} & set(kinds))) else 0
    other = [{"a": "wait", "ms": 6}, {"a": "getq", "s": 1}, {"a": "getq", "s": 2},
             {"a": "bindl", "s": 9, "nack": True, "twcc": twcc, "rtx": False, "fec": False},
             {"a": "wrtp", "s": 1, "w": 2000, "id": 1, "len": 20, "shape": 0, "fail": False},
             {"a": "rrtp", "s": 2, "w": 700, "id": 1, "len": 20, "shape": 0, "tw": 700, "fail": False},
             {"a": "rrtcp", "s": 1, "kind": "nack", "nums": [1001], "id": 2, "fail": False},
             {"a": "getq", "s": 1}, {"a": "parkw", "ms": 0}]
    steps = [{"a": "bindw"}, {"a": "bindr"},
             {"a": "bindl", "s": 1, "nack": True, "twcc": twcc, "rtx": False, "fec": True},
             {"a": "bindm", "s": 2, "nack": True, "twcc": 7, "pli": False},
             {"a": "statssync", "nums": [1, 2]},
             {"a": "par", "par": [{"a": "wrtp", "s": 1, "w": 1000, "id": 1, "len": 20, "shape": 0, "fail": False, "rep": 5}]},
             {"a": "parkw", "ms": 1},
             {"a": "par", "par": [{"a": "wrtcp", "s": 2, "kind": rng.choice(["sr", "pli", "nack"]), "nums": [5, 6], "id": 1, "fail": False},
                                  {"a": "seq", "rep": 1, "seq": other}]},
             {"a": "wait", "ms": 3}, {"a": "close"}]
    return {"members": members, "steps": steps, "watch": 2500, "settle": 10}


def run_batch(ctx, scripts, tag):
    return vlib.run_batch(ctx, tag=tag, scripts=scripts, pkg_rel="", pkgname="interceptor_test",
                          files=["zz_verif_univ_test.go", "common:zz_verif_pkt_test.go.tpl"],
                          test="TestVerifUnivExec", trace_module="Trace_Conc.tla",
                          nontrivial=lambda evs: True, race=True, go_timeout=2400, culprit_hint=vlib.univ_culprit_hint)


def run(ctx):
    rng = random.Random(ctx.seed)
    for cfg in ("MC_Sync_rtpfb.cfg", "MC_Sync_nackresp.cfg", "MC_Sync_hdrext.cfg", "MC_Sync_nackgen.cfg"):
        vlib.model_check(ctx, "MC_Sync.tla", cfg, workers=4)
    vlib.model_check(ctx, "MC_Sync.tla", "MC_Sync_rtpfb_asfound.cfg", workers=2, expect_violation="Invariant NoRace is violated",
                     note="negative control: the rtpfb history as found wrote packet records under the read lock")
    vlib.model_check(ctx, "MC_Sync.tla", "MC_Sync_hdrext_plain.cfg", workers=2, expect_violation="Invariant NoLostUpdate is violated",
                     note="negative control: a non-atomic counter loses updates")
    progs = vlib.generate(ctx, "Gen_Conc.tla", vlib.cfg_variant(ctx, "Gen_Conc.cfg", {"K": 3 if ctx.quick else 4}), workers=2)
    progs.sort(key=str)
    per_kind, rep = (10, 150) if ctx.quick else (len(progs), 400)
    scripts = []
    for kinds in [[k] for k in KINDS] + CHAINS:
        key = [p for p in progs if {"c1", "c2"} <= set(p) or {"w1a", "w1b"} <= set(p) or {"r2a", "r2b"} <= set(p)]
        chosen = rng.sample(progs, min(per_kind, len(progs)))
        if ctx.quick:      # always include programs with two goroutines in the same role class
            chosen = rng.sample(key, min(8, len(key))) + chosen[:per_kind - 4]
        for j, roles in enumerate(chosen):
            scripts.append(script(rng, kinds, roles, rep, bw2=(j % 4 == 1)))
    for kinds in [[k] for k in KINDS] + CHAINS:
        scripts.append(park_script(rng, kinds))
    rng.shuffle(scripts)
    chunk = 40
    for i in range(0, len(scripts), chunk):
        run_batch(ctx, scripts[i:i + chunk], "G-conc-%d" % (i // chunk))
    ctx.assumptions += ["schedules on the real code are sampled (goroutines with repetitions), not enumerated",
                        "the Go race detector reports every unsynchronised pair it observes in the executed schedule"]
    return vlib.finish(ctx, "exploration", RULE)


def replay(ctx, path):
    run_batch(ctx, vlib.replay_scripts(path), "replay")
    return vlib.finish(ctx, "exploration", RULE)

"""C01 stage "repotests": trace validation of the executions of the REPOSITORY'S OWN TEST SUITE.

Every other trace the specifications see is produced by drivers of this framework.  The repository's tests are further
executions of the real code (fault-heavy, timing-heavy scenarios nobody here wrote); their assertions sample those executions,
the specification's clauses can be evaluated on every step of them.

  hooks     `verif hooks: MockStream ...` commit: verifhook.Gate at the linearization points of internal/test.MockStream
  recorder  harness/repotests/zz_verif_tracemain_test.go.tpl, injected as TestMain into every test package that uses MockStream
  run       ONE `go test -tags verif -overlay ... ./pkg/... ./internal/...` (-count=1, no -race)
  validate  spec/Trace_Mock.tla, one TLC run over all packages' traces (one trace = one interceptor instance with its streams)

Verdict: a failed clause of C01 (transparency) is a C01 violation; failed clauses of other properties (feedback explainability:
C03 C04 C05 C06 C08 C11 C15 C18) are NOTE lines + coverage.growth_notes.  A failing or timed-out repository test is never a
verdict here (bin/baseline owns that): it is noted, and whatever was recorded is still validated (all clauses are safety clauses,
they hold on every prefix)."""
import glob
import json
import os
import re
import subprocess
import time

import vlib

TPL = os.path.join(vlib.VERIF, "harness", "repotests", "zz_verif_tracemain_test.go.tpl")
TESTPKG = "github.com/pion/interceptor/internal/test"
INJECTED = "zz_verif_tracemain_test.go"
C01_CLAUSES = ["AppRtpOnce", "AppRtpUnmodified", "AppRtpErrSurfaces", "AppRtcpOnce", "AppRtcpUnmodified", "ReadRtpUnmodified",
               "ReadRtcpUnmodified", "ReadErrSurfaces", "InjectedKeepsAppOrder"]


def packages():
    """Test packages of the repository that drive a MockStream -> (rel dir, package clause, own TestMain?)."""
    res, skipped = [], []
    for root in ("pkg", "internal"):
        for d, _, files in os.walk(os.path.join(vlib.REPO, root)):
            tests = [f for f in files if f.endswith("_test.go")]
            if not tests:
                continue
            uses, clause, has_main = False, None, False
            for f in sorted(tests):
                txt = open(os.path.join(d, f), errors="replace").read()
                if re.search(r"^func TestMain\(", txt, re.M):
                    has_main = True
                m = re.search(r"^package (\w+)", txt, re.M)
                if ('"%s"' % TESTPKG in txt or (d.endswith("internal/test") and "NewMockStream(" in txt)) and m:
                    uses = True
                    clause = clause or m.group(1)
            rel = os.path.relpath(d, vlib.REPO)
            if uses and has_main:
                skipped.append(rel)
            elif uses:
                res.append((rel, clause))
    return sorted(res), sorted(skipped)


def render(ctx, rel, clause):
    txt = open(TPL).read().replace("package PKGNAME", "package " + clause).replace('"PKGPATH"', '"%s"' % rel)
    if rel == "internal/test" and not clause.endswith("_test"):      # the recorder sits inside the package that defines the event
        txt = re.sub(r"^.*//VTEST-IMPORT\n", "", txt, flags=re.M).replace("vtest.", "")
    p = ctx.path("tracemain_%s.go" % rel.replace("/", "_"))
    with open(p, "w") as f:
        f.write(txt)
    return p


def record(ctx, count=1, timeout=240, only=None):
    """Run the repository's suite once with the recorder injected; returns (events by package, info).
    only = (package dir, [top-level test names]) restricts the run (replays)."""
    if not os.path.exists(os.path.join(vlib.REPO, "internal", "test", "verif_on.go")):
        raise vlib.Infra("the MockStream hooks (verif hooks commit, internal/test/verif_on.go) are not in %s" % vlib.REPO)
    pkgs, skipped = packages()
    if only:
        pkgs = [p for p in pkgs if p[0] == only[0]]
    if not pkgs:
        raise vlib.Infra("no test package of %s uses internal/test.MockStream" % vlib.REPO)
    rep = {}
    for rel, clause in pkgs:
        dst = os.path.join(vlib.REPO, rel, INJECTED)
        if os.path.exists(dst):
            raise vlib.Infra("overlay target %s exists in the repository" % dst)
        rep[dst] = render(ctx, rel, clause)
    ov = ctx.path("overlay-repotests.json")
    with open(ov, "w") as f:
        json.dump({"Replace": rep}, f)
    outbase = ctx.path("repotests.trace")
    for p in glob.glob(outbase + ".*"):
        os.remove(p)
    cmd = [vlib.go_bin(), "test", "-tags", "verif", "-overlay", ov, "-count=%d" % count, "-vet=off", "-timeout", "%ds" % timeout,
           "./pkg/...", "./internal/..."]
    if only:
        cmd = cmd[:-2] + (["-run", "^(%s)$" % "|".join(only[1])] if only[1] else []) + ["./" + only[0]]
    env = vlib.go_env()
    env["VERIF_OUT"] = outbase
    t = time.time()
    try:
        p = subprocess.run(cmd, cwd=vlib.REPO, env=env, stdout=subprocess.PIPE, stderr=subprocess.STDOUT, text=True, timeout=timeout + 120)
    except subprocess.TimeoutExpired:
        raise vlib.Infra("go test of the repository suite did not finish")
    dt = time.time() - t
    out = p.stdout
    if "[build failed]" in out or "[setup failed]" in out or "VERIF-INFRA" in out:
        raise vlib.Infra("the repository suite does not build with the recorder:\n%s" % out[-3000:])
    failed = sorted(set(re.findall(r"^--- FAIL: (\S+)", out, re.M)))
    failed_pkgs = sorted(set(re.findall(r"^FAIL\s+(\S+)", out, re.M)))
    by_pkg = {}
    for rel, _ in pkgs:
        fp = outbase + "." + rel.replace("/", "_")
        if not os.path.exists(fp):
            raise vlib.Infra("package %s wrote no trace file (recorder not run?):\n%s" % (rel, out[-2000:]))
        evs = []
        for ln in open(fp):
            try:
                evs.append(json.loads(ln))
            except ValueError:           # a line cut off by a crash of the test process
                break
        by_pkg[rel] = evs
    ctx.log("go test (repository suite, %d packages recorded, count=%d): rc=%d %.1fs, %d events%s" % (
        len(pkgs), count, p.returncode, dt, sum(len(v) for v in by_pkg.values()),
        (", FAILED tests: %s" % ", ".join(failed or failed_pkgs)) if p.returncode else ""))
    return by_pkg, {"packages": [r for r, _ in pkgs], "skipped_own_testmain": skipped, "go_rc": p.returncode, "go_wall_s": round(dt, 1),
                    "failed_tests": failed, "failed_packages": failed_pkgs, "go_tail": out[-1500:] if p.returncode else ""}


def demux(by_pkg):
    """One trace per interceptor instance (reset + its streams' events in hook order).  Demultiplexing only."""
    events, index = [], []
    for rel in sorted(by_pkg):
        groups = {}
        for e in sorted((e for e in by_pkg[rel] if e.get("ic")), key=lambda e: e["q"]):
            groups.setdefault(e["ic"], []).append(e)
        for ic in sorted(groups):
            evs = groups[ic]
            news = [e for e in evs if e["a"] == "new"]
            if not news:
                continue
            tests = sorted({e["test"] for e in news})
            index.append({"pkg": rel, "ic": ic, "tests": tests, "start": len(events), "n": len(evs) + 1})
            events.append({"a": "reset", "pkg": rel, "ic": ic, "kinds": news[0]["kinds"], "tests": tests})
            events += evs
    return events, index


_NOTE = re.compile(r'<<"NOTECLAUSE", (\d+), "([^"]+)", "([^"]+)">>')
_BIND = re.compile(r'<<"BINDFAIL", (\d+), "([^"]+)", "([^"]+)"')
_MISM = re.compile(r'<<\s*"MISMATCH",\s*(\d+),\s*"([^"]+)",\s*"([^"]+)"')
_HIT = re.compile(r'<<"HIT", "([^"]+)", (\d+)>>')


def trace_of(events, index, line1):
    """(index entry, trace events, offset) of the trace holding 1-based event number line1."""
    for ent in index:
        if ent["start"] < line1 <= ent["start"] + ent["n"]:
            return ent, events[ent["start"]:ent["start"] + ent["n"]], line1 - 1 - ent["start"]
    return None, events, line1 - 1


def validate(ctx, events, index, tag="repotests"):
    """One TLC run over all traces.  Returns (hard mismatches, notes, hits): each mismatch/note = (clause owner, clause, index
    entry, trace, offset)."""
    path = ctx.path("%s.ndjson" % tag)
    vlib.write_ndjson(path, events)
    t = time.time()
    v = vlib.validate(ctx, "Trace_Mock.tla", path, timeout=600)
    out = " ".join(v.out.split())
    binds = _BIND.findall(out)
    if binds:
        ln, _, name = binds[0]
        ent, tr, off = trace_of(events, index, int(ln))
        raise vlib.Infra("repotests: hook/recorder integrity clause %s failed at event #%d of %s (a hook is missing or the recorder "
                         "mislabels events): %s" % (name, off, ent and (ent["pkg"], ent["tests"]), json.dumps(tr[off])[:300]))
    if v.hw != v.n + 1:
        raise vlib.Infra("repotests: Trace_Mock consumed %d of %d events:\n%s" % (v.hw - 1, v.n, v.out[-2500:]))
    hard = [(cls, name) + trace_of(events, index, int(ln)) for ln, cls, name in _MISM.findall(out)]
    notes = [(cls, name) + trace_of(events, index, int(ln)) for ln, cls, name in _NOTE.findall(out)]
    hits = {n: int(k) for n, k in _HIT.findall(out)}
    ctx.log("(T) %s: %d traces / %d events validated by Trace_Mock in %.1fs: %d C01 mismatches, %d notes" % (
        tag, len(index), len(events), time.time() - t, len(hard), len(notes)))
    return hard, notes, hits


# ------------------------------------------------------------------------------------------ verdicts

def _what(cls, name, ent, tr, off):
    return ("repotests: clause %s (%s) fails at event #%d of the execution of %s %s (%s): %s" % (
        name, cls, off, ent["pkg"] if ent else "?", "/".join(ent["tests"]) if ent else "?",
        ",".join(tr[0].get("kinds", [])) if tr else "?", json.dumps(tr[off])[:300] if 0 <= off < len(tr) else "?"))


def judge(ctx, hard, notes, report=True):
    """C01 clause -> violation with a replay; clauses owned by other properties -> NOTE lines + coverage.growth_notes."""
    seen = set()
    for cls, name, ent, tr, off in hard:
        key = (ent and ent["pkg"], ent and tuple(ent["tests"]), name)
        if key in seen or len(seen) >= 12:
            continue
        seen.add(key)
        if report:
            vlib.report_violation(ctx, _what(cls, name, ent, tr, off), {
                "kind": "repotests", "clause": name, "pkg": ent and ent["pkg"], "tests": ent and ent["tests"],
                "trace": tr[:off + 1], "failing_event_index": off})
    out = []
    for cls, name, ent, tr, off in notes:
        key = (ent and ent["pkg"], ent and tuple(ent["tests"]), name)
        if key in seen:
            continue
        seen.add(key)
        text = _what(cls, name, ent, tr, off)
        out.append({"property": cls, "clause": name, "pkg": ent and ent["pkg"], "tests": ent and ent["tests"], "event": tr[off] if 0 <= off < len(tr) else None,
                    "text": text})
        if len(out) <= 10:
            print("NOTE: growth %s/%s" % (cls, text), flush=True)
    if len(out) > 10:
        print("NOTE: growth repotests: %d more notes (all in coverage.growth_notes)" % (len(out) - 10), flush=True)
    if out:
        ctx.cov["growth_notes"] = ctx.cov.get("growth_notes", []) + out
    return out


# ------------------------------------------------------------------------------------------ binding self-test

def _small_traces(events, index, pred, limit=400):
    for ent in index:
        tr = events[ent["start"]:ent["start"] + ent["n"]]
        if ent["n"] <= limit and pred(tr):
            return [dict(e) for e in tr]
    return None


def selftest(ctx, events, index):
    """Corrupt one recorded field / drop one hook's event in copies of recorded traces: TLC must reject each one with the clause
    named, and must accept the untouched copy.  Returns the evidence record; a self-test that does not behave is Infra."""
    cases = []

    def first(tr, pred):
        return next(i for i, e in enumerate(tr) if pred(e))
    tr = _small_traces(events, index, lambda t: any(e["a"] == "wire" and e["c"] for e in t))
    if tr:
        cases.append(("untouched copy", None, [dict(e) for e in tr]))
        t2 = [dict(e) for e in tr]
        del t2[first(t2, lambda e: e["a"] == "wire" and e["c"])]
        cases.append(("the transport-writer hook is dropped (one wire event missing)", ("MISMATCH", "AppRtpOnce"), t2))
        t3 = [dict(e) for e in tr]
        i = first(t3, lambda e: e["a"] == "wire" and e["c"])
        t3[i] = dict(t3[i], pkt=dict(t3[i]["pkt"], m=not t3[i]["pkt"]["m"]))
        cases.append(("marker bit of a packet at the transport flipped", ("MISMATCH", "AppRtpUnmodified"), t3))
        t4 = [dict(e) for e in tr]
        del t4[first(t4, lambda e: e["a"] == "wpre")]
        cases.append(("the WriteRTP entry hook is dropped", ("BINDFAIL", "CallKnown"), t4))
    tr = _small_traces(events, index, lambda t: any(e["a"] == "read" and not e["err"] for e in t) and t[0]["kinds"] != ["jitterbuffer.ReceiverInterceptor"])
    if tr:
        t5 = [dict(e) for e in tr]
        i = first(t5, lambda e: e["a"] == "read" and not e["err"])
        t5[i] = dict(t5[i], raw=t5[i]["raw"][:-2] + ("00" if t5[i]["raw"][-2:] != "00" else "01"))
        cases.append(("last byte the application read changed", ("MISMATCH", "ReadRtpUnmodified"), t5))
        t6 = [dict(e) for e in tr]
        del t6[first(t6, lambda e: e["a"] == "in" and not e["err"])]
        cases.append(("the transport-reader hook is dropped (one in event missing)", ("MISMATCH", "ReadRtpUnmodified"), t6))
    tr = _small_traces(events, index, lambda t: any(e["a"] == "cwire" and not e["c"] and any(x["t"] == "nack" for x in e["sum"]) for e in t))
    if tr:
        t7 = [dict(e) for e in tr]
        i = first(t7, lambda e: e["a"] == "cwire" and not e["c"] and any(x["t"] == "nack" for x in e["sum"]))
        got = next(e["pkt"]["seq"] for e in t7 if e["a"] == "in" and not e["err"])
        t7[i] = dict(t7[i], sum=[dict(x, nums=x["nums"] + [got]) if x["t"] == "nack" else x for x in t7[i]["sum"]])
        cases.append(("a NACK made to name a number that had been read", ("NOTECLAUSE", "NackExplained"), t7))
    if len(cases) < 5:
        raise vlib.Infra("repotests self-test: the recorded executions do not contain the traces the self-test corrupts")
    evs, idx = [], []
    for name, _, tr in cases:
        idx.append({"pkg": "selftest", "ic": 0, "tests": [name], "start": len(evs), "n": len(tr)})
        evs += tr
    path = ctx.path("repotests-selftest.ndjson")
    vlib.write_ndjson(path, evs)
    v = vlib.validate(ctx, "Trace_Mock.tla", path, timeout=300)
    out = " ".join(v.out.split())
    found = {}
    for kind, rx in (("MISMATCH", _MISM), ("BINDFAIL", _BIND), ("NOTECLAUSE", _NOTE)):
        for ln, _, name in rx.findall(out):
            ent, _, _ = trace_of(evs, idx, int(ln))
            found.setdefault(ent["tests"][0], set()).add((kind, name))
    res = []
    for name, want, _ in cases:
        got = found.get(name, set())
        ok = (not got) if want is None else (want in got)
        res.append({"case": name, "expected": list(want) if want else "accepted", "reported": sorted(map(list, got)), "ok": ok})
        if not ok:
            raise vlib.Infra("repotests self-test: %s -> expected %s, TLC reported %s" % (name, want, sorted(got)))
    ctx.log("repotests binding self-test: %d corrupted copies rejected with the expected clause, the untouched copy accepted" % (len(res) - 1))
    return res


# ------------------------------------------------------------------------------------------ the stage

def summarize(by_pkg, index, events, hits, info):
    tests = sorted({(ent["pkg"], t) for ent in index for t in ent["tests"]})
    vac = sorted(n for n, k in hits.items() if k == 0)
    return {"repository_tests_traced": len(tests), "tests": ["%s.%s" % t for t in tests], "interceptor_instances": len(index),
            "mockstreams": sum(1 for e in events if e["a"] == "new"), "events_validated": len(events),
            "clause_hits": hits, "vacuous_clauses": vac, "packages": info["packages"],
            "skipped_packages_with_own_TestMain": info["skipped_own_testmain"], "go_wall_s": info["go_wall_s"],
            "repository_tests_failed": info["failed_tests"] or info["failed_packages"]}


def run_stage(ctx, count=None):
    """Record the repository's suite once, validate all traces in one TLC run, judge."""
    if not os.path.exists(os.path.join(vlib.REPO, "internal", "test", "verif_on.go")):
        msg = "repotests stage skipped: %s does not contain the MockStream hooks (verif hooks commit)" % vlib.REPO
        print("NOTE: " + msg, flush=True)
        ctx.cov["repotests"] = {"skipped": msg}
        ctx.notes.append(msg)
        return
    count = count or (1 if ctx.quick else 3)
    by_pkg, info = record(ctx, count=count, timeout=240 if ctx.quick else 600)
    if info["go_rc"] != 0:
        msg = "repotests: the repository's own tests did not all pass while being recorded (no verdict here; bin/baseline judges the suite): %s" % (
            ", ".join(info["failed_tests"] or info["failed_packages"]) or info["go_tail"][-300:])
        print("NOTE: " + msg, flush=True)
        ctx.notes.append(msg)
    events, index = demux(by_pkg)
    if not index:
        raise vlib.Infra("repotests: no MockStream was recorded")
    res = {}

    def main_job(child):
        res["main"] = validate(child, events, index)

    def self_job(child):
        try:
            res["selftest"] = selftest(child, events, index)
        except vlib.Infra as e:           # must not mask what the main run found
            res["selftest_error"] = e
    vlib.run_parallel(ctx, [main_job, self_job], max_workers=2)
    hard, notes, hits = res["main"]
    judge(ctx, hard, notes)
    if "selftest_error" in res:
        if not hard:
            raise res["selftest_error"]
        res["selftest"] = [{"case": "self-test not run", "error": str(res["selftest_error"])[:300]}]
    bad_traces = {(h[2]["pkg"], h[2]["ic"]) for h in hard if h[2]}
    ctx.cov["traces_validated_against_impl"] += len(index) - len(bad_traces)
    ctx.cov["events_validated"] += len(events)
    ctx.cov["evaluations"] += len(index)
    summ = summarize(by_pkg, index, events, hits, info)
    summ["binding_selftest"] = res["selftest"]
    summ["count"] = count
    ctx.cov["repotests"] = summ
    ctx.log("repotests: %d repository tests traced (%d interceptor instances, %d MockStreams), %d events; vacuous clauses: %s" % (
        summ["repository_tests_traced"], len(index), summ["mockstreams"], len(events), ", ".join(summ["vacuous_clauses"]) or "none"))
    if index:
        mid = index[len(index) // 2]
        vlib.add_samples(ctx, [events[mid["start"]:mid["start"] + min(mid["n"], 12)]], 1)
    ctx.assumptions += [
        "repotests: an RTP packet at the transport is the application's when it is the caller's header object, or (no such packet "
        "in the call) the only packet of the call with the application packet's content; RTCP likewise by slice identity / bytes",
        "repotests: the order of events is the order of the atomic sequence numbers the MockStream hooks take; every clause "
        "holds for any timing of the interceptors' real tickers (feedback is only required to be explainable, never to be complete)",
    ]


def replay(ctx, rep):
    """Re-run the repository tests named in a repotests replay file with the recorder and validate their executions again."""
    tests = [t for t in rep.get("tests") or [] if t != "?"]
    by_pkg, info = record(ctx, count=1, only=(rep["pkg"], tests))
    events, index = demux(by_pkg)
    hard, notes, _ = validate(ctx, events, index, tag="replay")
    judge(ctx, hard, notes)
    ctx.cov["traces_validated_against_impl"] += len(index)
    ctx.cov["events_validated"] += len(events)

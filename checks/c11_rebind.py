"""C11 clause P5 - "binding the same SSRC again starts from fresh state" and release of per-stream state - as a two-run
relational check (stage of checks/c11.py; this is the property itself, not growth).

(M) MC_Rebind: Rebind.tla's abstract instance (per-stream state + per-instance counters), both runs in lock step; TwoRun and
    Released hold for the property's Unbind and fail for an Unbind that keeps one field (negative controls); comparing the
    per-instance counters as well fails too (the exemption list is necessary).
(G) Gen_Rebind: TLC enumerates (kind) x (knobs) x (first life H over the kind's boundary alphabet) x (suffix B positioned
    relative to H); `script()` turns a behaviour into a script of the universal harness.
(exec) the harness runs every script twice on the real interceptor (with / without the first life), controlled clock,
    stepped tick loops, awaited retransmissions; one observation per suffix step and run.
(T) Trace_Rebind pairs the observations and compares them modulo the per-instance quantities listed in Rebind.tla."""
import json
import random

import vlib

S, O = 5, 6                  # the re-bound stream, the stream that stays bound meanwhile
MEMBER = {"statsl": "stats", "statsr": "stats"}
LOCAL = {"nackresp", "rsend", "statsl", "flexfec", "rtpfb", "cc"}
NO_UNBIND = {"statsl", "statsr", "rtpfb", "rfc8888"}     # kinds with a recorded "never unbinds" finding (DevTags in Rebind.tla)
AGG = {"twccsend"}           # tick loop neither gated nor injectable: emissions observed in aggregate at a final drain step
TW_H, TW_B = 1000, 2000      # transport-wide numbers (one counter for all streams) start here in the first life / in the suffix
KINDS = ["nackgen", "nackresp", "rrecv", "rsend", "statsl", "statsr", "flexfec", "jitter", "rtpfb", "pli", "twccsend",
         "rfc8888", "cc"]
RULE_PART = ("re-bind stage: script = TLC-enumerated (interceptor kind x knobs x first life x suffix) executed twice (with / without "
             "the first life); an observation pair = one suffix step compared between the runs")


def info(kind, var):
    """StreamInfo flags of a bind step of stream S: var None = first bind, 0/1/2 = variant of the second bind."""
    first = {"nackgen": {"nack": True}, "nackresp": {"nack": True}, "flexfec": {"fec": True}, "pli": {"pli": True},
             "twccsend": {"twcc": 7}, "cc": {"twcc": 7}}.get(kind, {})
    if var in (None, 0):
        return dict(first)
    alt = {  # 1: other parameters, 2: the feature is no longer negotiated
        "nackgen": ({"nack": True, "pli": True}, {"pli": True}),
        "nackresp": ({"nack": True, "rtx": True}, {}),
        "flexfec": ({"fec": True, "alt": 7}, {}),
        "pli": ({"pli": True, "nack": True}, {"nack": True}),
        "twccsend": ({"twcc": 9}, {}),
        "cc": ({"twcc": 9}, {}),
        "rtpfb": ({"twcc": 7}, None),
        "rrecv": ({"cr": 48000}, None), "rsend": ({"cr": 48000}, None),
        "statsl": ({"cr": 48000}, None), "statsr": ({"cr": 48000}, None),
    }[kind][var - 1]
    if alt is None:
        raise vlib.Infra("kind %s has no second-bind variant %d" % (kind, var))
    return dict(alt)


def script(beh):
    kind, base, oth, var = beh["kind"], beh["base"], beh["oth"], beh["var"]
    local = kind in LOCAL
    member = MEMBER.get(kind, kind)
    steps = []
    st = {"id": 0, "tw": TW_H, "ow": 40000, "bnums": []}

    def add(step, h1=False, ob=False):
        step = dict(step)
        if h1:
            step["h1"] = True
        if ob:
            step["ob"] = True
        step["clk"] = 10 * (len(steps) + 1)
        steps.append(step)

    def bind(s, flags, h1=False):
        step = {"a": "bindl" if local else "bindm", "s": s, "nack": False, "twcc": 0, "rtx": False, "fec": False, "pli": False}
        step.update(flags)
        add(step, h1=h1)
        if member == "stats":
            add({"a": "statswait"}, h1=h1)

    def pkt(s, w, ph):
        st["id"] += 1
        ident = st["id"]
        if local:
            add({"a": "wrtp", "s": s, "w": w % 65536, "id": ident, "len": 20 + 10 * (ident % 3), "shape": 0, "fail": False},
                h1=(ph == 1 and s == S), ob=(ph == 2 and s == S))
            return
        tw = -1
        if kind == "twccsend":
            if ph == 2 and st["tw"] < TW_B:
                st["tw"] = TW_B
            tw = st["tw"]
            st["tw"] += 1
            if s == S and ph == 2 and var != 2:
                st["bnums"].append(tw)
        add({"a": "rrtp", "s": s, "w": w % 65536, "id": ident, "len": 20 + 10 * (ident % 3), "shape": 0, "tw": tw, "fail": False},
            h1=(ph == 1 and s == S), ob=(ph == 2 and s == S))

    def fb(w, ph):
        st["id"] += 1
        k = {"nackresp": "nack", "statsl": "nack", "rrecv": "sr", "rtpfb": "ccfb"}[kind]
        add({"a": "rrtcp", "s": S, "kind": k, "nums": [w % 65536], "w": w % 65536, "id": st["id"], "fail": False},
            h1=(ph == 1), ob=(ph == 2))

    add({"a": "bindw"})
    add({"a": "bindr"})
    if oth:
        bind(O, info(kind, None))
    bind(S, info(kind, None), h1=True)
    hlen, rebound = 0, False
    for x in beh["steps"]:
        if x["ph"] == 2 and not rebound:
            add({"a": "unbindl" if local else "unbindm", "s": S}, h1=True)
            bind(S, info(kind, var))
            rebound = True
        if x["op"] == "pkt":
            for i in range(x["rep"]):
                pkt(S, base + x["d"] + i, x["ph"])
                hlen += x["ph"] == 1
                if oth and i == 0:
                    st["ow"] += 1
                    pkt(O, st["ow"], x["ph"])
        elif x["op"] == "fb":
            fb(base + x["d"], x["ph"])
            hlen += x["ph"] == 1
        else:
            add({"a": "tick"}, ob=(x["ph"] == 2))
    if not rebound:      # (kinds without packets: the suffix consists of ticks only)
        add({"a": "unbindl" if local else "unbindm", "s": S}, h1=True)
        bind(S, info(kind, var))
    add({"a": "tick"}, ob=True)
    if kind in AGG:
        add({"a": "drain", "nums": st["bnums"]}, ob=True)
    return {"members": [{"k": member, "o": {"ivl": 1, "ivlus": 100, "size": 64, "k": 3, "n": 1, "max": 1}}], "steps": steps, "watch": 4000,
            "settle": 1, "rebind": True, "rs": S, "agg": kind in AGG, "kind": kind, "bnums": st["bnums"],
            "hlen": max(hlen, 1), "beh": beh}


def nontrivial(evs):
    return any(e["a"] == "obs" and e["r"] == "fresh" and (e["em"] or e["st"] or e["rep"] or e["rseq"] >= 0) for e in evs)


def run_batch(ctx, scripts, tag):
    evs = vlib.run_batch(ctx, tag=tag, scripts=scripts, pkg_rel="", pkgname="interceptor_test",
                         files=["zz_verif_univ_test.go", "common:zz_verif_pkt_test.go.tpl"], test="TestVerifUnivExec",
                         trace_module="Trace_Rebind.tla", nontrivial=nontrivial, race=False, go_timeout=2400,
                         culprit_hint=vlib.univ_culprit_hint)
    if evs is None:
        return None
    resets = [e for e in evs if e["a"] == "reset"]
    inc = [e for e in resets if e.get("inc")]
    cov = ctx.cov.setdefault("rebind", {"scripts": 0, "pairs": 0, "inconclusive": 0, "per_kind": {}})
    cov["scripts"] += len(resets)
    cov["pairs"] += sum(1 for e in evs if e["a"] == "obs" and e["r"] == "fresh")
    cov["inconclusive"] += len(inc)
    for e in resets:
        cov["per_kind"][e["kind"]] = cov["per_kind"].get(e["kind"], 0) + 1
    if inc:
        ctx.log("re-bind: %d of %d scripts inconclusive (e.g. %s)" % (len(inc), len(resets), inc[0]["inc"]))
    if len(inc) > max(3, len(resets) // 20):
        raise vlib.Infra("re-bind stage: %d of %d scripts could not be ordered (%s)" % (len(inc), len(resets), inc[0]["inc"]))
    return evs


MODELS = (
    ("MC_Rebind.cfg", None, None),
    ("MC_Rebind_reach.cfg", "Invariant Reach is violated",
     "reachability: a suffix with two observations after a first life that left per-instance traces"),
    ("MC_Rebind_neg_rep.cfg", "Invariant TwoRun is violated",
     "negative control: an Unbind that keeps the report pointer / counters breaks the two-run relation"),
    ("MC_Rebind_neg_log.cfg", "Invariant Released is violated",
     "negative control: an Unbind that keeps the per-stream log does not release the state"),
    ("MC_Rebind_neg_noexempt.cfg", "Invariant TwoRun is violated",
     "negative control: the transport-wide counters must be exempt (they differ between the runs by design)"))


def model_job(cfg, expect, note):
    def job(c):
        name = vlib.cfg_variant(c, cfg, {"MaxSteps": 6 if c.quick else 9}) if expect is None else cfg
        vlib.model_check(c, "MC_Rebind.tla", name, workers=1 if c.quick else 2, expect_violation=expect, note=note)
    return job


def run_stage(ctx):
    """Generation first; then the script chunks (one Go test process + one trace validation each) and the (M) runs (tiny
    models, one worker each) share a pool of four."""
    rng = random.Random(ctx.seed * 1000003 + 11)
    beh = vlib.generate(ctx, "Gen_Rebind.tla", "Gen_Rebind.cfg" if ctx.quick else "Gen_Rebind_thorough.cfg", workers=2 if ctx.quick else 4)
    # quick: every enumerated behaviour of the kinds that have an Unbind (exhaustive at the quick constants, so what the stage can
    # see does not depend on the seed); a seeded sample for the kinds recorded as never unbinding (their traces stop at the first
    # mismatch anyway) and, in the thorough tier, of the much larger enumeration
    per_kind = {k: ((40 if k in NO_UNBIND else 100000) if ctx.quick else (300 if k in NO_UNBIND else 2000)) for k in KINDS}
    by_kind = {}
    for b in beh:
        by_kind.setdefault(b["kind"], []).append(b)
    missing = set(KINDS) - set(by_kind)
    if missing:
        raise vlib.Infra("Gen_Rebind produced no behaviour for %s" % sorted(missing))
    scripts = []
    for k in KINDS:
        pool = by_kind[k]
        scripts += [script(b) for b in (pool if len(pool) <= per_kind[k] else rng.sample(pool, per_kind[k]))]
    if not ctx.quick:      # scale: seeded random walks of TLC through the same alphabets, first life of 6 and suffix of 6 steps
        walks = vlib.generate(ctx, "Gen_Rebind.tla", "Gen_Rebind_sim.cfg", simulate=(2500, 14))
        uniq = {json.dumps(b, sort_keys=True): b for b in walks}      # (the simulator prints a walk once per possible last step)
        keys = sorted(uniq)
        scripts += [script(uniq[k]) for k in (keys if len(keys) <= 3500 else rng.sample(keys, 3500))]
    rng.shuffle(scripts)
    nchunks = 3 if ctx.quick else max(3, (len(scripts) + 1199) // 1200)
    size = (len(scripts) + nchunks - 1) // nchunks
    totals = {"scripts": 0, "pairs": 0, "inconclusive": 0, "per_kind": {}}

    def chunk_job(i):
        def job(c):
            try:
                run_batch(c, scripts[i * size:(i + 1) * size], "G-rebind-%d" % i)
            finally:
                r = c.cov.get("rebind", {})
                for k in ("scripts", "pairs", "inconclusive"):
                    totals[k] += r.get(k, 0)
                for k, n in r.get("per_kind", {}).items():
                    totals["per_kind"][k] = totals["per_kind"].get(k, 0) + n
        return job
    vlib.run_parallel(ctx, [chunk_job(i) for i in range(nchunks)] + [model_job(*m) for m in MODELS], max_workers=4)
    ctx.cov["rebind"] = totals
    ctx.log("re-bind (P5): %d scripts, %d observation pairs compared, %d inconclusive" % (
        totals["scripts"], totals["pairs"], totals["inconclusive"]))
    ctx.assumptions += [
        "re-bind: both runs use the same controlled clock values (report receiver/sender, rfc8888, stats take the injected clock); "
        "rtpfb, twcc sender and cc read time.Now and are compared on time-free observations only",
        "re-bind: tick loops are stepped (verif tick gates of nack generator / receiver report, injected tickers of sender report / "
        "rfc8888, counted passes of intervalpli); the TWCC sender runs on its real 1 ms ticker and is observed in aggregate; "
        "a script whose steps cannot be ordered within 3 s is inconclusive and not compared",
        "re-bind: per-instance quantities exempt from the comparison are listed in spec/Rebind.tla (RTX sequence numbers, RTCP sender "
        "SSRCs, transport-wide TWCC state, rtpfb history counter and wall-clock times, estimator state of cc)"]


def is_rebind_replay(scripts):
    return bool(scripts) and all(isinstance(s, dict) and s.get("rebind") for s in scripts)

"""C12, second stage: exact container-size conformance (spec/Sizes.tla, Trace_Sizes.tla, MC_Sizes.tla, Gen_Sizes.tla).

In-package probes (harness/<pkg>/zz_verif_size_test.go + harness/sizes/zz_verif_sizelib_test.go.tpl) drive the real objects /
interceptors through scripts (workload segments x configuration x lifecycle pattern: enumerated by TLC from Gen_Sizes plus
seeded long histories) and log the REAL container sizes (len of maps / slices / lists, ring capacities, list walks, read through
unexported fields) next to the configuration and the lifecycle events; TLC (Trace_Sizes) checks every sample against the named
bounds / exact sizes of Sizes.tla.  `run_sizes(ctx)` is called from checks/c12.py; its verdict counts for C12.

All probed packages are built and run by ONE `go test` invocation (each package writes its own trace file) and the traces are
validated by ONE TLC run."""
import os
import random
import re

import vlib

LIB = os.path.join(vlib.VERIF, "harness", "sizes", "zz_verif_sizelib_test.go.tpl")
# package directory (relative to the repository) -> (package name, trace tag, components probed there)
PKGS = {
    "internal/rtpbuffer": ("rtpbuffer", "rtpbuffer", ["rtpbuf"]),
    "internal/cc": ("cc", "cc", ["cchist"]),
    "pkg/nack": ("nack", "nack", ["nackgen", "nackresp"]),
    "pkg/twcc": ("twcc", "twcc", ["twcc"]),
    "pkg/rfc8888": ("rfc8888", "rfc8888", ["rfc8888", "rfc8888i"]),
    "pkg/rtpfb": ("rtpfb", "rtpfb", ["rtpfb"]),
    "pkg/report": ("report", "report", ["rrecv", "rsend"]),
    "pkg/stats": ("stats", "stats", ["stats"]),
    "pkg/jitterbuffer": ("jitterbuffer", "jitterbuffer", ["jitter"]),
    "pkg/pacing": ("pacing", "pacing", ["pacing"]),
    "pkg/gcc": ("gcc", "gcc", ["gccleaky"]),
    "pkg/flexfec": ("flexfec", "flexfec", ["flexfec"]),
    "pkg/intervalpli": ("intervalpli", "intervalpli", ["pli"]),
    "": ("interceptor", "root", ["attrs"]),
}
COMP_PKG = {c: p for p, (_, _, cs) in PKGS.items() for c in cs}
TEST = "TestVerifSizeExec"


def overlay(ctx):
    m = {}
    for rel, (pkgname, _, _) in PKGS.items():
        m[os.path.join(rel, "zz_verif_size_test.go")] = os.path.join(vlib.VERIF, "harness", rel, "zz_verif_size_test.go")
        m[os.path.join(rel, "zz_verif_sizelib_test.go")] = (LIB, pkgname)
        m[os.path.join(rel, "zz_verif_common_test.go")] = (
            os.path.join(vlib.VERIF, "harness", "common", "zz_verif_common_test.go.tpl"), pkgname)
    return vlib.overlay(ctx, m, name="overlay-sizes.json")


def execute(ctx, scripts, tag):
    """Run the scripts on the real code (all packages in one go test) and validate the concatenated trace with TLC.
    Returns the list of events, or None if the real code crashed (reported as a violation)."""
    if not scripts:
        return []
    inp = ctx.path("C12-sizes-%s.in" % tag)
    outp = ctx.path("C12-sizes-%s.trace" % tag)
    vlib.write_ndjson(inp, scripts)
    used = sorted({COMP_PKG[s["c"]] for s in scripts})
    ov = overlay(ctx)
    env = {"VERIF_IN": inp, "VERIF_OUT": outp, "VERIF_SEED": ctx.seed}
    rc, out = vlib.go_test(ctx, used[0], ov, "^%s$" % TEST, env=env, timeout=1500, extra=["-p", "4"] + ["./" + p if p else "." for p in used[1:]])
    if "VERIF-INFRA" in out:
        raise vlib.Infra("size probe harness error:\n%s" % out[-2500:])
    events, order = [], []
    for rel in used:
        p = "%s.%s" % (outp, PKGS[rel][1])
        evs = vlib.read_ndjson(p) if os.path.exists(p) else []
        mine = [s for s in scripts if COMP_PKG[s["c"]] == rel]
        nres = sum(1 for e in evs if e.get("a") == "reset")
        failed = re.search(r"^(FAIL|---\s*FAIL|panic:).*", out, re.M) and re.search(r"FAIL\s+github.com/pion/interceptor%s\s" % re.escape("/" + rel if rel else ""), out)
        if failed:
            culprit = mine[nres - 1] if 0 < nres <= len(mine) else None
            kind = ("the real code panicked" if "panic:" in out or "fatal error:" in out else
                    "the real code did not return (test timed out)" if "test timed out" in out else "harness-detected failure")
            m = re.search(r"(panic:.*|fatal error:.*)", out) or re.search(r"(--- FAIL.*|VERIF-FAIL.*)", out)
            vlib.report_violation(ctx, "sizes-%s: %s while executing a size-probe script in ./%s%s" % (
                tag, kind, rel, ": " + m.group(1)[:300] if m else ""), {"kind": "sizes", "script": culprit, "go_output": out[-6000:]})
            return None
        if nres != len(mine):
            raise vlib.Infra("size probe of ./%s executed %d of %d scripts without failing:\n%s" % (rel, nres, len(mine), out[-2000:]))
        events += evs
        order += mine
    if rc != 0:
        raise vlib.Infra("go test of the size probes failed without a package verdict:\n%s" % out[-3000:])
    allp = ctx.path("C12-sizes-%s.all" % tag)
    vlib.write_ndjson(allp, events)
    ctx.cov["evaluations"] += len(scripts)
    v = vlib.validate(ctx, "Trace_Sizes.tla", allp, timeout=1500)
    vlib.handle_validation(ctx, v, events, "sizes-" + tag, lambda i: order[i] if i < len(order) else None)
    traces = vlib.split_traces(events)
    ctx.cov["distinct_nontrivial"] += sum(1 for _, evs in traces if sum(1 for e in evs if e["a"] == "size") >= 3)
    ctx.cov.setdefault("size_samples", 0)
    ctx.cov["size_samples"] += sum(1 for e in events if e.get("a") == "size")
    return events


# ------------------------------------------------------------------------------------------ script construction

FILTERED = {"nackgen", "nackresp", "flexfec", "pli"}
LIFECYCLE_ONLY = {"rrecv", "rsend", "stats", "pli", "attrs"}
PACED = {"pacing", "gccleaky"}
BASES = [0, 65400, 32700, 65536 - 37, 12345]


def sample_period(k):
    """Sampling period: the first prime >= k, so that samples are not aligned with the feedback / tick / flood periods."""
    k = max(k, 2)
    while any(k % p == 0 for p in range(2, int(k ** 0.5) + 1)):
        k += 1
    return k


def make_script(rng, beh, full, n0, n, n1, k):
    """A Gen_Sizes behaviour (component, cfg, stream pattern, segments) -> executable script."""
    c, pat = beh["c"], beh["pat"]
    segs = []
    for i, s in enumerate(beh["segs"]):
        ln = n0 if i == 0 else (n1 if i == len(beh["segs"]) - 1 else n)
        segs.append({"wl": s["wl"], "n": ln, "then": s["then"]})
    sc = {"pkg": COMP_PKG[c], "c": c, "cfg": {f: v for f, v in beh["cfg"].items() if v}, "ns": pat["ns"], "dis": pat["dis"],
          "segs": segs, "k": sample_period(k), "full": full, "seed": rng.randrange(1, 1 << 30), "base": rng.choice(BASES), "fb": pat["fb"],
          "tick": pat["tick"], "flood": pat["flood"], "gapus": 1000}
    if c == "twcc":
        sc["gapus"] = rng.choice([500, 2000, 20000])      # 1000 / 250 / 25 packets inside the 500 ms window
    if c == "pacing" and beh["cfg"].get("overload"):
        sc["segs"] = [{"wl": "inorder", "n": 6 * beh["cfg"]["qsize"], "then": "none"}]
        sc["k"] = beh["cfg"]["qsize"]
    return sc


def cover(rng, behs):
    """Each-choice covering subset of the enumerated behaviours, per component: every configuration, every stream pattern,
    every workload kind and every lifecycle action of the component occurs in at least one chosen behaviour (seeded choice)."""
    by = {}
    for b in behs:
        by.setdefault(b["c"], []).append(b)
    chosen = []
    for c in sorted(by):
        pool = by[c]
        rng.shuffle(pool)
        feats = lambda b: {("cfg", repr(sorted(b["cfg"].items()))), ("pat", repr(sorted(b["pat"].items()))),
                           ("wl", b["segs"][1]["wl"]), ("then", b["segs"][1]["then"])}
        need = set().union(*[feats(b) for b in pool])
        mine = []
        while need:
            best = max(pool, key=lambda b: len(feats(b) & need))
            mine.append(best)
            need -= feats(best)
        chosen += mine
    return chosen


def long_scripts(rng, quick):
    """Seeded long histories (samples only): several wraps of the 16-bit space, windows of the largest sizes filled, bursts of
    loss / reordering / duplicates / jumps, Unbind / re-Bind cycles, SSRC floods."""
    S = []
    WL = ["inorder", "loss", "burst", "reorder", "dup", "jump", "mix"]

    def add(c, cfg, total, nseg, **kw):
        thens = kw.pop("thens", ["none", "unbind0", "rebind0", "fresh0", "unbindall"])
        wls = kw.pop("wls", WL)
        segs = [{"wl": rng.choice(wls), "n": total // nseg, "then": rng.choice(thens)} for _ in range(nseg)]
        sc = {"pkg": COMP_PKG[c], "c": c, "cfg": cfg, "ns": 2, "dis": -1, "segs": segs, "k": sample_period(total // 40), "full": False,
              "seed": rng.randrange(1, 1 << 30), "base": rng.choice([65000, 0, 40000]), "fb": 0, "tick": 0, "flood": 0, "gapus": 1000}
        sc.update(kw)
        S.append(sc)
    m = 1 if quick else 8
    add("rtpbuf", {"size": 32768}, 80000 * m, 6, ns=1)
    add("rtpbuf", {"size": 512}, 30000 * m, 6, ns=1)
    add("nackresp", {"size": 32768}, 80000 * m, 6, ns=2, flood=97)
    add("nackresp", {"size": 1024}, 40000 * m, 8, ns=3, dis=2)
    add("nackgen", {"size": 32768, "max": 2}, 80000 * m, 6, ns=2, tick=5000)
    add("nackgen", {"size": 512, "skip": 2, "max": 1}, 40000 * m, 8, ns=3, dis=1, tick=50)
    add("nackgen", {"size": 512, "max": 2, "uiw": 1}, 6000 * m, 12, ns=3, tick=0, wls=["loss", "burst", "mix"],
        thens=["unbind0", "rebind0", "fresh0", "unbindall"])                                          # unbound inside the NACK write
    add("twcc", {}, 80000 * m, 5, ns=1, gapus=100, thens=["none", "drain", "none"])                   # no feedback: clamps at 2^15
    add("twcc", {}, 60000 * m, 8, ns=1, gapus=200, tick=300, thens=["none", "drain", "tick"])
    add("rfc8888", {"maxsize": 1200}, 60000 * m, 8, ns=2, tick=400, thens=["none", "tick"])
    add("rfc8888", {"maxsize": 200}, 30000 * m, 6, ns=3, tick=150, flood=500, thens=["none", "tick"])
    add("rfc8888i", {"maxsize": 1200}, 20000 * m, 6, ns=2)
    add("cchist", {"twcc": 0}, 80000 * m, 6, ns=3, fb=100, flood=7)
    add("cchist", {"twcc": 1}, 80000 * m, 6, ns=1)
    add("rtpfb", {"twcc": 0}, 60000 * m, 8, ns=2, fb=100, thens=["none", "drain", "rebind0", "fresh0"])
    add("rtpfb", {"twcc": 1}, 60000 * m, 6, ns=1, fb=300, wls=["inorder", "loss", "burst"], thens=["none", "drain"])
    add("rtpfb", {"twcc": 1}, 20000 * m, 6, ns=1, fb=200, wls=["dup", "mix", "reorder", "dup"], thens=["none", "drain"])   # numbers sent twice
    add("rtpfb", {"twcc": 0}, 3000, 2, ns=1, fb=0)                                                      # known finding
    add("rtpfb", {"twcc": 0}, 36000 * m, 3, ns=1, fb=6000, wls=["inorder", "loss"], thens=["none"])     # few, very large reports
    add("rtpfb", {"twcc": 1}, 36000 * m, 3, ns=1, fb=6000, wls=["inorder", "loss"], thens=["none"])
    add("rrecv", {}, 70000 * m, 8, ns=3)
    add("rsend", {}, 70000 * m, 8, ns=3)
    add("stats", {}, 20000 * m, 8, ns=3, tick=10)
    add("jitter", {}, 70000 * m, 6, ns=1, wls=["inorder"], thens=["none", "rebind0", "fresh0", "unbindall"])
    add("jitter", {}, 3000, 2, ns=1, wls=["loss", "dup", "reorder"], thens=["none"])                  # known finding
    add("pacing", {"qsize": 16, "rate": 80_000_000}, 1500 * m, 4, ns=2, thens=["none", "drain", "fresh0"])
    add("gccleaky", {"rate": 80_000_000}, 2000 * m, 4, ns=2, flood=31, thens=["none", "drain", "fresh0", "rebind0"])
    add("flexfec", {"nmedia": 5, "nfec": 2}, 40000 * m, 8, ns=3, dis=2, flood=13)
    add("flexfec", {"nmedia": 48, "nfec": 1}, 20000 * m, 6, ns=2)
    add("pli", {}, 400, 40, ns=3, dis=1, wls=["inorder"])
    add("attrs", {}, 20000 * m, 2, ns=1)
    return S


def run_sizes(ctx):
    """The size-conformance stage of C12.  Violations and known-finding hits are recorded in ctx (the caller finishes)."""
    rng = random.Random(ctx.seed * 1000003 + 12)
    q = ctx.quick
    vlib.model_check(ctx, "MC_Sizes.tla", "MC_Sizes.cfg" if q else vlib.cfg_variant(ctx, "MC_Sizes.cfg", {"MaxOps": 8, "Size": 4}),
                     workers=4, note="history machines of Sizes.tla stay within their bounds")
    vlib.model_check(ctx, "MC_Sizes.tla", "MC_Sizes_nofb.cfg", workers=2, expect_violation="Invariant FbBounded is violated",
                     note="negative control: the rtpfb history exceeds any fixed allowance when no feedback arrives")
    behs = vlib.generate(ctx, "Gen_Sizes.tla", "Gen_Sizes.cfg", workers=4)
    # quick: an each-choice covering subset (seeded); thorough: every enumerated behaviour plus deeper random walks (3 segments)
    chosen = cover(rng, behs) if q else behs
    if not q:
        deep = vlib.generate(ctx, "Gen_Sizes.tla", "Gen_Sizes_sim.cfg", simulate=(300, 5))
        rng.shuffle(deep)
        chosen = chosen + deep[:400]
    scripts = []
    for b in chosen:
        short = b["c"] in LIFECYCLE_ONLY or b["c"] in PACED
        n0, n, n1 = (40, 30, 20) if short else (90, 80, 50) if q else (110, 90, 60)
        scripts.append(make_script(rng, b, True, n0, n, n1, 10 if short else 40))
    longs = long_scripts(rng, q)
    ctx.cov.setdefault("size_scripts", {"generated_behaviours": len(behs), "executed_full": len(scripts), "executed_long": len(longs)})
    if q:
        execute(ctx, scripts + longs, "q")
    else:
        rng.shuffle(scripts)
        chunks = [scripts[i::8] for i in range(8)] + [longs]
        samples = {}

        def job(child, part, i):
            execute(child, part, "t%d" % i)
            samples[i] = child.cov.get("size_samples", 0)      # (run_parallel merges the standard counters only)
        vlib.run_parallel(ctx, [lambda child, part=part, i=i: job(child, part, i) for i, part in enumerate(chunks)], max_workers=4)
        ctx.cov["size_samples"] = sum(samples.values())
    ctx.assumptions += [
        "sizes: containers are read through unexported fields under the component's own lock, or while its goroutine is parked in "
        "the probe's callback; the pacing queue (a goroutine-local slice) is observed as accepted minus delivered packets",
        "sizes: workloads keep every packet within 2^15 of the highest number of its stream and stragglers never precede the first "
        "packet after a bind (the code's wrap-aware order then agrees with the ideal order used by Sizes.tla)",
    ]

"""C14 - FlexFEC-03 repair packets recover any single loss in their group.
(M) MC_FlexFec: the specification's own repair packets satisfy every clause for all small batches (payload part) and the
    coverage / mask fields round-trip for ALL (k, n) in 1..110 x 0..110 (mask part); negative control: a skipped
    timestamp XOR is caught by RecoveryOK.
(G) Gen_FlexFec: TLC enumerates batch descriptors over the mask-field and coverage boundaries; the driver makes them
    concrete and the harness pushes them through FlexEncoder03.EncodeFec / FecInterceptor.
(T) Trace_FlexFec: TLC lays out every media packet, parses every repair packet and performs the XOR recovery itself."""
import random

import vlib

META = {
    "level": "model_checking",
    "text": "FlexFec.tla (RTP wire layout, interleaved coverage, FlexFEC-03 header with mask fields as bit-position sets, "
            "bytewise XOR, the recovery procedure) is model checked: for every batch of up to MaxK tiny packets and every "
            "n the specification's repair packets parse back to their cover and XOR-recover every covered packet "
            "byte-for-byte; coverage and mask round trip for all 12 210 (k, n) pairs. TLC-enumerated batch descriptors at "
            "the mask-field boundaries (k around 15, 46, 109; n in {0,1,2,3,k-1,k,k+1,110}; wrapping base numbers; mixed "
            "header shapes and payload lengths; 1-3 successive batches with coverage reuse/rebuild) are executed on the "
            "real FlexEncoder03 and FecInterceptor (also from four goroutines sharing the scratch pool, under the race "
            "detector) and TLC validates every recorded trace by performing mask decoding and XOR recovery itself.",
    "note": "Trusted: the reading of the property in FlexFec.tla (FlexFEC-03 layout as implemented: k-bit set on the last "
            "mask field; padding octets before the count are zero as pion/rtp Marshal writes them - the wire layout is "
            "self-checked against pion/rtp on every run); the harness's canonical packet record. The legacy padding form "
            "(Padding flag with PaddingSize 0, padding inside the payload) cannot be marshalled by pion/rtp v1.10.5 and is "
            "outside the quantifier. Payload contents beyond the sampled byte patterns are not enumerated (XOR is bytewise "
            "uniform). Buffer retention by the interceptor is C13: the harness never reuses or overwrites a buffer.",
    "technique": "TLA+ spec + TLC model checking, TLC-generated batches replayed into the Go code, recorded traces validated by "
                 "TLC (XOR recovery performed in TLC)",
    "design_ref": "DESIGN.md section 7 C14",
}

PKG = "pkg/flexfec"
HARNESS = ["zz_verif_flexfec_test.go"]
RULE = ("scripts = TLC-enumerated batch descriptors of Gen_FlexFec (k x n x base x shape pattern x length pattern; sequences of "
        "1-3 batches relative to the previous one) made concrete with seeded header values and payload bytes; each is executed on "
        "FlexEncoder03.EncodeFec (level enc), FecInterceptor via BindLocalStream (level icpt) or four concurrent streams on one "
        "interceptor under -race (level conc), plus seeded long histories of 12-40 batches with (k, n) changing at random; TLC "
        "validates the recorded packets. distinct_nontrivial = distinct recorded "
        "traces with at least one repair packet, i.e. at least one XOR recovery performed by TLC.")

LENS = [0, 1, 7, 64]
BIG = [1199, 1460, 1500]
NUM_SHAPES = 9
KS = [1, 2, 5, 14, 15, 16, 45, 46, 47, 108, 109, 110]


def b4(v):
    return [(v >> 24) & 255, (v >> 16) & 255, (v >> 8) & 255, v & 255]


def rbytes(rng, n):
    return [rng.randrange(256) for _ in range(n)]


def header(rng, shape):
    """Concrete header fields of a shape class (structure fixed by the class, values seeded)."""
    h = {"m": rng.random() < 0.3, "pt": rng.choice([0, 96, 100, 127, rng.randrange(128)]),
         "ts": rng.choice([b4(rng.randrange(1 << 32)), [255, 255, 255, 255], [0, 0, 0, 0], b4(0x80000000)]),
         "csrc": [], "x": False, "xp": 0, "xs": [], "ps": 0}
    if shape == 1:
        h["m"] = True
        h["pt"] = 127
    elif shape == 2:
        h["ps"] = 1
    elif shape == 3:
        h["ps"] = rng.choice([2, 4, 7, 32])
    elif shape == 4:
        h["csrc"] = [b4(rng.randrange(1 << 32)) for _ in range(rng.choice([1, 2, 15]))]
    elif shape == 5:      # RFC 8285 one-byte
        h["x"], h["xp"] = True, 0xBEDE
        ids = rng.sample(range(1, 15), rng.choice([0, 1, 2, 3]))
        h["xs"] = [{"id": i, "d": rbytes(rng, rng.choice([1, 2, 3, 4, 16]))} for i in ids]
    elif shape == 6:      # RFC 8285 two-byte
        h["x"], h["xp"] = True, 0x1000
        ids = rng.sample(range(1, 256), rng.choice([1, 2]))
        h["xs"] = [{"id": i, "d": rbytes(rng, rng.choice([0, 1, 5, 17, 40]))} for i in ids]
    elif shape == 7:      # RFC 3550 generic extension
        h["x"], h["xp"] = True, rng.choice([0x1234, 0xABAC, 0])
        h["xs"] = rng.choice([[], [{"id": 0, "d": rbytes(rng, rng.choice([0, 4, 8]))}]])
    elif shape == 8:      # everything at once
        h["m"] = True
        h["csrc"] = [b4(rng.randrange(1 << 32)) for _ in range(2)]
        h["x"], h["xp"] = True, 0xBEDE
        h["xs"] = [{"id": 3, "d": rbytes(rng, 2)}, {"id": 9, "d": rbytes(rng, 3)}]
        h["ps"] = rng.choice([1, 5, 255])
    return h


def payload(rng, n):
    if n > 200:
        r = rng.random()
        if r < 0.15:
            return {"plen": n, "pfill": rng.choice([0, 255, 0x80])}
        return {"plen": n, "pseed": rng.randrange(1 << 31)}
    r = rng.random()
    if r < 0.1:
        return {"pl": [255] * n}
    if r < 0.15:
        return {"pl": [0] * n}
    return {"pl": rbytes(rng, n)}


def concrete_batch(rng, d, lens, seq0=None):
    """d = TLC descriptor [k, n, base, sh, ln] -> list of concrete packet descriptions."""
    base = d["base"] if seq0 is None else seq0
    pkts = []
    for i in range(d["k"]):
        p = header(rng, d["sh"][i])
        p["seq"] = (base + i) % 65536
        p.update(payload(rng, lens[d["ln"][i] % len(lens)]))
        pkts.append(p)
    return pkts


def stream(rng, s, fec=True):
    ssrc = rng.choice([b4(rng.randrange(1, 1 << 32)), [255, 255, 255, 255], [0, 0, 0, 1]])
    fs = b4(rng.randrange(1, 1 << 32)) if fec else rng.choice([[0, 0, 0, 0], b4(7)])
    fpt = rng.randrange(1, 128) if fec or fs == [0, 0, 0, 0] else 0
    return {"s": s, "ssrc": ssrc, "fecssrc": fs, "fecpt": fpt, "batches": []}


def lens_for(rng, big):
    if not big:
        return LENS
    ls = [rng.choice(BIG), rng.choice(LENS), rng.choice(BIG), rng.choice(LENS)]
    return ls


def enc_script(rng, beh, big=False):
    st = stream(rng, 1)
    lens = lens_for(rng, big)
    for d in beh:
        st["batches"].append({"n": d["n"], "pkts": concrete_batch(rng, d, lens)})
    return {"level": "enc", "poison": rng.random() < 0.5, "k": 0, "n": 0, "streams": [st]}


def icpt_script(rng, d, nb, big=False, fec=True, level="icpt", nstreams=1, others=None):
    """(k, n) of descriptor d fixed for the interceptor; nb full batches per stream (+ sometimes a trailing partial one)."""
    streams = []
    for s in range(1, nstreams + 1):
        st = stream(rng, s, fec)
        while any(st["ssrc"] == o["ssrc"] for o in streams):
            st = stream(rng, s, fec)
        dd = d if s == 1 or not others else rng.choice(others)
        lens = lens_for(rng, big)
        seq = dd["base"]
        for _ in range(nb):
            st["batches"].append({"n": d["n"], "pkts": concrete_batch(rng, dd, lens, seq)})
            seq = (seq + d["k"]) % 65536
        if d["k"] > 1 and rng.random() < 0.3:
            part = concrete_batch(rng, dd, lens, seq)[:rng.randrange(1, d["k"])]
            st["batches"].append({"n": d["n"], "pkts": part})
        streams.append(st)
    return {"level": level, "poison": rng.random() < 0.5, "k": d["k"], "n": d["n"], "streams": streams}


def long_script(rng, nb, level="enc"):
    """(T) scale: many successive batches through one encoder with (k, n) changing at random (table reuse / rebuild,
    running repair counter, scratch reuse); not TLC-generated."""
    st = stream(rng, 1)
    seq = rng.choice([0, 65000, rng.randrange(65536)])
    k, n = rng.choice([3, 5, 16]), rng.choice([1, 2])
    for _ in range(nb):
        r = rng.random()
        if level == "enc":
            if r < 0.35:
                pass                                  # same shape: coverage reused
            elif r < 0.9:
                k = rng.choice([1, 2, 3, 5, 8, 14, 15, 16, 17, 20])
                n = rng.choice([0, 1, 2, 3, max(k - 1, 0), k, k + 1, 110])
            else:
                k = rng.choice([45, 46, 47, 108, 109, 110])
                n = rng.choice([1, 2, 3, k - 1, k, 110])
        if rng.random() < 0.1:
            seq = (seq + rng.randrange(1, 40000)) % 65536      # the next batch need not continue the previous one
        d = {"k": k, "n": n, "base": seq, "sh": [rng.randrange(NUM_SHAPES) for _ in range(k)],
             "ln": [rng.randrange(len(LENS)) for _ in range(k)]}
        st["batches"].append({"n": n, "pkts": concrete_batch(rng, d, LENS)})
        seq = (seq + k) % 65536
    return {"level": level, "poison": rng.random() < 0.5, "k": k if level != "enc" else 0, "n": n if level != "enc" else 0,
            "streams": [st]}


def wire_script(rng):
    st = stream(rng, 1)
    pkts = []
    for sh in range(NUM_SHAPES):
        for ln in (0, 1, 7, 64):
            p = header(rng, sh)
            p["seq"] = rng.randrange(65536)
            p.update(payload(rng, ln))
            pkts.append(p)
    st["batches"].append({"n": 0, "pkts": pkts})
    return {"level": "wire", "poison": False, "k": 0, "n": 0, "streams": [st]}


def nontrivial(evs):
    for e in evs:
        if e.get("a") == "batch":
            nrep = len(e["out"]) - (len(e["media"]) if e["kind"] == "icpt" else 0)
            if nrep > 0:
                return True
    return False


def run_batch(ctx, scripts, tag, race=False):
    return vlib.run_batch(ctx, tag=tag, scripts=scripts, pkg_rel=PKG, pkgname="flexfec", files=HARNESS,
                          test="TestVerifFlexFecExec", trace_module="Trace_FlexFec.tla", nontrivial=nontrivial, race=race,
                          xss="256m")


def compact_samples(ctx):
    """Evidence samples: keep the shape of a trace, not hundreds of kilobytes of payload bytes."""
    out = []
    for s in ctx.cov["samples"]:
        if not isinstance(s, list):
            out.append(s)
            continue
        evs = []
        for e in s[:4]:
            if e.get("a") != "batch":
                evs.append({k: v for k, v in e.items() if k in ("a", "level")})
                continue
            k = len(e["media"])
            reps = e["out"][k:] if e["kind"] == "icpt" else e["out"]
            evs.append({"a": "batch", "kind": e["kind"], "k": k, "n": e["n"], "full": e["full"],
                        "first_seq": e["media"][0]["seq"] if k else None,
                        "payload_len_padding_by_packet": [[len(m["pl"]), m["ps"]] for m in e["media"][:12]],
                        "repairs": len(reps),
                        "first_repair": ({"seq": reps[0]["seq"], "pt": reps[0]["pt"], "ssrc": reps[0]["ssrc"],
                                          "payload_first_32": reps[0]["pl"][:32], "payload_len": len(reps[0]["pl"])}
                                         if reps else None)})
        out.append(evs)
    ctx.cov["samples"] = out


def gen(ctx, consts):
    cfg = vlib.cfg_variant(ctx, "Gen_FlexFec.cfg", consts)
    return vlib.generate(ctx, "Gen_FlexFec.tla", cfg)


def self_check_wire(ctx, rng):
    """The TLA+ wire layout against pion/rtp Marshal: a disagreement is a specification/library problem, not a verdict."""
    nv = len(ctx.violations)
    run_batch(ctx, [wire_script(rng) for _ in range(2 if ctx.quick else 12)], "wire-selfcheck")
    if len(ctx.violations) > nv:
        what = ctx.violations[-1][0]
        del ctx.violations[nv:]
        raise vlib.Infra("the specification's RTP wire layout disagrees with pion/rtp Marshal: %s" % what)


def run(ctx):
    rng = random.Random(ctx.seed)
    # (M)
    if ctx.quick:
        vlib.model_check(ctx, "MC_FlexFec.tla", vlib.cfg_variant(ctx, "MC_FlexFec.cfg", {
            "MaxK": 4, "MaxN": 4, "MaxLen": 1, "Shapes": "{0, 1, 3}", "Bases": "{65534}"}))
    else:
        # all (k, n) with k <= 6, n <= 6: every batch over payloads of <= 2 bytes from {0, 255}
        vlib.model_check(ctx, "MC_FlexFec.tla", vlib.cfg_variant(ctx, "MC_FlexFec.cfg", {
            "MaxK": 6, "MaxN": 6, "MaxLen": 2, "Shapes": "{0}", "Bases": "{65534}"}), workers=12, timeout=3000)
        # header shapes (padding, CSRC, one-/two-byte extensions) x payloads of <= 3 bytes, k <= 3
        vlib.model_check(ctx, "MC_FlexFec.tla", vlib.cfg_variant(ctx, "MC_FlexFec.cfg", {
            "MaxK": 3, "MaxN": 3, "MaxLen": 3, "Shapes": "{0, 1, 2, 3}", "Bases": "{0, 65534}"}), workers=12, timeout=3000)
        # two shapes, k <= 6
        vlib.model_check(ctx, "MC_FlexFec.tla", vlib.cfg_variant(ctx, "MC_FlexFec.cfg", {
            "MaxK": 6, "MaxN": 6, "MaxLen": 1, "Shapes": "{1, 2}", "Bases": "{0}"}), workers=12, timeout=3000)
    vlib.model_check(ctx, "MC_FlexFec.tla", "MC_FlexFec_mask.cfg",
                     note="coverage and mask fields for ALL k in 1..110, n in 0..110, no payloads")
    vlib.model_check(ctx, "MC_FlexFec.tla", "MC_FlexFec_neg.cfg", workers=2,
                     expect_violation="Invariant RecoveryOK is violated",
                     note="negative control: one timestamp bit not XORed -> recovery clause fails")
    self_check_wire(ctx, rng)

    # (G) single batches: the full boundary grid
    singles = gen(ctx, {"L": 1})
    by_kn = {}
    for b in singles:
        by_kn.setdefault((b[0]["k"], b[0]["n"]), []).append(b[0])
    # (G) 2-3 successive batches through one encoder, later ones relative to the previous (k, n)
    multi = []
    for L, ks in ((2, "{2, 15, 46, 109}"), (3, "{5, 16, 47, 110}")):
        multi += gen(ctx, {"L": L, "Ks": ks, "Bases": "{65530}", "SPs": "{1}", "LPs": "{1}"})

    if ctx.quick:
        n_single, n_multi, n_icpt, n_conc, n_big = 120, 30, 40, 8, 3
    else:
        n_single, n_multi, n_icpt, n_conc, n_big = len(singles), 900, 500, 60, 36
    pick = singles if n_single >= len(singles) else rng.sample(singles, n_single)
    scripts = [enc_script(rng, b) for b in pick]
    scripts += [enc_script(rng, b) for b in rng.sample(multi, min(n_multi, len(multi)))]
    # the interceptor: every (k, n) of the grid at least once in the thorough tier
    kns = sorted(by_kn)
    icpt_kn = kns if not ctx.quick else rng.sample(kns, n_icpt)
    while len(icpt_kn) < n_icpt:
        icpt_kn.append(rng.choice(kns))
    for kn in icpt_kn:
        scripts.append(icpt_script(rng, rng.choice(by_kn[kn]), rng.choice([1, 2, 3]), fec=rng.random() < 0.93))
    # large payloads (scratch buffer limit 1500: 1500-byte payloads take the allocation fallback)
    small_k = [b for b in singles if b[0]["k"] in (2, 5, 15, 16) and b[0]["n"] >= 1]
    for i in range(n_big):
        b = rng.choice(small_k)
        scripts.append(enc_script(rng, b, big=True) if i % 2 == 0 else icpt_script(rng, b[0], 2, big=True))
    # (T) scale: long seeded histories through one encoder / one bound stream
    n_long, len_long = (6, 12) if ctx.quick else (60, 40)
    for i in range(n_long):
        scripts.append(long_script(rng, len_long, "enc" if i % 3 else "icpt"))
    rng.shuffle(scripts)
    chunk = 200 if ctx.quick else 150
    for i in range(0, len(scripts), chunk):
        run_batch(ctx, scripts[i:i + chunk], "G-seq-%d" % (i // chunk))

    # concurrent streams on one interceptor, shared scratch pool, race detector on
    conc = []
    for _ in range(n_conc):
        kn = rng.choice([x for x in kns if x[0] <= 47 and x[1] >= 1])
        conc.append(icpt_script(rng, rng.choice(by_kn[kn]), rng.choice([2, 3]), level="conc", nstreams=4, others=by_kn[kn],
                                big=rng.random() < 0.1))
    run_batch(ctx, conc, "G-conc", race=True)

    ctx.assumptions += [
        "FlexFec.tla is the reading of the property: FlexFEC-03 header as implemented (R = F = 0, k-bit set on the last mask "
        "field, 15/31/63-bit masks = indices 0..108), a batch whose indices cannot all be named must not be accepted",
        "the wire form of a media packet is what pion/rtp v1.10.5 Marshal produces for (header, payload): padding octets before "
        "the count octet are zero; checked against pion/rtp on every run (wire-selfcheck)",
        "padding flag <=> PaddingSize >= 1 (the legacy form with the padding inside the payload cannot be marshalled by "
        "pion/rtp v1.10.5: the encoder then silently drops the repair packet; outside the quantifier)",
        "the first repair sequence number of an encoder is free; the repair timestamp is not constrained by the property",
        "concurrent level: one goroutine per stream; per-stream order of downstream writes is what is validated",
    ]
    compact_samples(ctx)
    return vlib.finish(ctx, "model_checking", RULE)


def replay(ctx, path):
    for sc in vlib.replay_scripts(path):
        run_batch(ctx, [sc], "replay", race=sc.get("level") == "conc")
    compact_samples(ctx)
    return vlib.finish(ctx, "model_checking", RULE)

"""C14 - FlexFEC-03 repair packets recover any single loss in their group.
(M) MC_FlexFec: the specification's own repair packets satisfy every clause for all small batches (payload part) and the
    coverage / mask fields round-trip for ALL (k, n) in 1..110 x 0..110 (mask part); negative control: a skipped
    timestamp XOR is caught by RecoveryOK.
(G) Gen_FlexFec: TLC enumerates batch descriptors over the mask-field and coverage boundaries; the driver makes them
    concrete and the harness pushes them through FlexEncoder03.EncodeFec / FecInterceptor.
(T) Trace_FlexFec: TLC lays out every media packet, parses every repair packet and performs the XOR recovery itself."""
import json
import random
import re

import vlib

META = {
    "level": "model_checking",
    "text": "FlexFec.tla (RTP wire layout, interleaved coverage, FlexFEC-03 header with mask fields as bit-position sets, "
            "bytewise XOR, the recovery procedure) is model checked: for every batch of up to MaxK tiny packets and every "
            "n the specification's repair packets parse back to their cover and XOR-recover every covered packet "
            "byte-for-byte; coverage and mask round trip for all 12 210 (k, n) pairs. TLC-enumerated batch descriptors at "
            "the mask-field boundaries (k around 15, 46, 109; n in {0,1,2,3,k-1,k,k+1,110}; wrapping base numbers; mixed "
            "header shapes and payload lengths; 1-3 successive batches with coverage reuse/rebuild) are executed on the "
            "real FlexEncoder03 and FecInterceptor (also from four goroutines sharing the scratch pool, under the race "
            "detector) and TLC validates every recorded trace by performing mask decoding and XOR recovery itself.",
    "note": "Trusted: the reading of the property in FlexFec.tla (FlexFEC-03 layout as implemented: k-bit set on the last "
            "mask field; padding octets before the count are zero as pion/rtp Marshal writes them - the wire layout is "
            "self-checked against pion/rtp on every run); the harness's canonical packet record. The legacy padding form "
            "(Padding flag with PaddingSize 0, padding inside the payload) cannot be marshalled by pion/rtp v1.10.5 and is "
            "outside the quantifier. Payload contents beyond the sampled byte patterns are not enumerated (XOR is bytewise "
            "uniform). Buffer retention by the interceptor is C13: the harness never reuses or overwrites a buffer.",
    "technique": "TLA+ spec + TLC model checking, TLC-generated batches replayed into the Go code, recorded traces validated by "
                 "TLC (XOR recovery performed in TLC)",
    "design_ref": "DESIGN.md section 7 C14",
}

PKG = "pkg/flexfec"
HARNESS = ["zz_verif_flexfec_test.go"]
RULE = ("scripts = TLC-enumerated batch descriptors of Gen_FlexFec (k x n x base x shape pattern x length pattern; sequences of "
        "1-3 batches relative to the previous one) made concrete with seeded header values and payload bytes; each is executed on "
        "FlexEncoder03.EncodeFec (level enc), FecInterceptor via BindLocalStream (level icpt) or four concurrent streams on one "
        "interceptor under -race (level conc), plus seeded long histories of 12-40 batches with (k, n) changing at random; TLC "
        "validates the recorded packets. distinct_nontrivial = distinct recorded "
        "traces with at least one repair packet, i.e. at least one XOR recovery performed by TLC.")

LENS = [0, 1, 7, 64]
BIG = [1199, 1460, 1500]
NUM_SHAPES = 9
KS = [1, 2, 5, 14, 15, 16, 45, 46, 47, 108, 109, 110]
QUICK_NS = "{0, 1, 2, 3, 4, 5, 7, 8, 14, 15, 16, 17, 30, 31, 32, 45, 46, 47, 48, 63, 64, 65, 107, 108, 109, 110}"


def b4(v):
    return [(v >> 24) & 255, (v >> 16) & 255, (v >> 8) & 255, v & 255]


def rbytes(rng, n):
    return [rng.randrange(256) for _ in range(n)]


def header(rng, shape):
    """Concrete header fields of a shape class (structure fixed by the class, values seeded)."""
    h = {"m": rng.random() < 0.3, "pt": rng.choice([0, 96, 100, 127, rng.randrange(128)]),
         "ts": rng.choice([b4(rng.randrange(1 << 32)), [255, 255, 255, 255], [0, 0, 0, 0], b4(0x80000000)]),
         "csrc": [], "x": False, "xp": 0, "xs": [], "ps": 0}
    if shape == 1:
        h["m"] = True
        h["pt"] = 127
    elif shape == 2:
        h["ps"] = 1
    elif shape == 3:
        h["ps"] = rng.choice([2, 4, 7, 32])
    elif shape == 4:
        h["csrc"] = [b4(rng.randrange(1 << 32)) for _ in range(rng.choice([1, 2, 15]))]
    elif shape == 5:      # RFC 8285 one-byte
        h["x"], h["xp"] = True, 0xBEDE
        ids = rng.sample(range(1, 15), rng.choice([0, 1, 2, 3]))
        h["xs"] = [{"id": i, "d": rbytes(rng, rng.choice([1, 2, 3, 4, 16]))} for i in ids]
    elif shape == 6:      # RFC 8285 two-byte
        h["x"], h["xp"] = True, 0x1000
        ids = rng.sample(range(1, 256), rng.choice([1, 2]))
        h["xs"] = [{"id": i, "d": rbytes(rng, rng.choice([0, 1, 5, 17, 40]))} for i in ids]
    elif shape == 7:      # RFC 3550 generic extension
        h["x"], h["xp"] = True, rng.choice([0x1234, 0xABAC, 0])
        h["xs"] = rng.choice([[], [{"id": 0, "d": rbytes(rng, rng.choice([0, 4, 8]))}]])
    elif shape == 8:      # everything at once
        h["m"] = True
        h["csrc"] = [b4(rng.randrange(1 << 32)) for _ in range(2)]
        h["x"], h["xp"] = True, 0xBEDE
        h["xs"] = [{"id": 3, "d": rbytes(rng, 2)}, {"id": 9, "d": rbytes(rng, 3)}]
        h["ps"] = rng.choice([1, 5, 255])
    return h


def payload(rng, n):
    if n > 200:
        r = rng.random()
        if r < 0.15:
            return {"plen": n, "pfill": rng.choice([0, 255, 0x80])}
        return {"plen": n, "pseed": rng.randrange(1 << 31)}
    r = rng.random()
    if r < 0.1:
        return {"pl": [255] * n}
    if r < 0.15:
        return {"pl": [0] * n}
    return {"pl": rbytes(rng, n)}


def concrete_batch(rng, d, lens, seq0=None):
    """d = TLC descriptor [k, n, base, sh, ln] -> list of concrete packet descriptions."""
    base = d["base"] if seq0 is None else seq0
    pkts = []
    for i in range(d["k"]):
        p = header(rng, d["sh"][i])
        p["seq"] = (base + i) % 65536
        p.update(payload(rng, lens[d["ln"][i] % len(lens)]))
        pkts.append(p)
    return pkts


def stream(rng, s, fec=True):
    ssrc = rng.choice([b4(rng.randrange(1, 1 << 32)), [255, 255, 255, 255], [0, 0, 0, 1]])
    fs = b4(rng.randrange(1, 1 << 32)) if fec else rng.choice([[0, 0, 0, 0], b4(7)])
    fpt = rng.randrange(1, 128) if fec or fs == [0, 0, 0, 0] else 0
    return {"s": s, "ssrc": ssrc, "fecssrc": fs, "fecpt": fpt, "batches": []}


def lens_for(rng, big):
    if not big:
        return LENS
    ls = [rng.choice(BIG), rng.choice(LENS), rng.choice(BIG), rng.choice(LENS)]
    return ls


def enc_script(rng, beh, big=False):
    st = stream(rng, 1)
    lens = lens_for(rng, big)
    for d in beh:
        st["batches"].append({"n": d["n"], "pkts": concrete_batch(rng, d, lens)})
    return {"level": "enc", "poison": rng.random() < 0.5, "k": 0, "n": 0, "streams": [st]}


def icpt_script(rng, d, nb, big=False, fec=True, level="icpt", nstreams=1, others=None):
    """(k, n) of descriptor d fixed for the interceptor; nb full batches per stream (+ sometimes a trailing partial one)."""
    streams = []
    for s in range(1, nstreams + 1):
        st = stream(rng, s, fec)
        while any(st["ssrc"] == o["ssrc"] for o in streams):
            st = stream(rng, s, fec)
        dd = d if s == 1 or not others else rng.choice(others)
        lens = lens_for(rng, big)
        seq = dd["base"]
        for _ in range(nb):
            st["batches"].append({"n": d["n"], "pkts": concrete_batch(rng, dd, lens, seq)})
            seq = (seq + d["k"]) % 65536
        if d["k"] > 1 and rng.random() < 0.3:
            part = concrete_batch(rng, dd, lens, seq)[:rng.randrange(1, d["k"])]
            st["batches"].append({"n": d["n"], "pkts": part})
        streams.append(st)
    return {"level": level, "poison": rng.random() < 0.5, "k": d["k"], "n": d["n"], "streams": streams}


def long_script(rng, nb, level="enc"):
    """(T) scale: many successive batches through one encoder with (k, n) changing at random (table reuse / rebuild,
    running repair counter, scratch reuse); not TLC-generated."""
    st = stream(rng, 1)
    seq = rng.choice([0, 65000, rng.randrange(65536)])
    k, n = rng.choice([3, 5, 16]), rng.choice([1, 2])
    for _ in range(nb):
        r = rng.random()
        if level == "enc":
            if r < 0.35:
                pass                                  # same shape: coverage reused
            elif r < 0.9:
                k = rng.choice([1, 2, 3, 5, 8, 14, 15, 16, 17, 20])
                n = rng.choice([0, 1, 2, 3, max(k - 1, 0), k, k + 1, 110])
            else:
                k = rng.choice([45, 46, 47, 108, 109, 110])
                n = rng.choice([1, 2, 3, k - 1, k, 110])
        if rng.random() < 0.1:
            seq = (seq + rng.randrange(1, 40000)) % 65536      # the next batch need not continue the previous one
        d = {"k": k, "n": n, "base": seq, "sh": [rng.randrange(NUM_SHAPES) for _ in range(k)],
             "ln": [rng.randrange(len(LENS)) for _ in range(k)]}
        st["batches"].append({"n": n, "pkts": concrete_batch(rng, d, LENS)})
        seq = (seq + k) % 65536
    return {"level": level, "poison": rng.random() < 0.5, "k": k if level != "enc" else 0, "n": n if level != "enc" else 0,
            "streams": [st]}


def wire_script(rng):
    st = stream(rng, 1)
    pkts = []
    for sh in range(NUM_SHAPES):
        for ln in (0, 1, 7, 64):
            p = header(rng, sh)
            p["seq"] = rng.randrange(65536)
            p.update(payload(rng, ln))
            pkts.append(p)
    st["batches"].append({"n": 0, "pkts": pkts})
    return {"level": "wire", "poison": False, "k": 0, "n": 0, "streams": [st]}


def nontrivial(evs):
    for e in evs:
        if e.get("a") == "batch":
            nrep = len(e["out"]) - (len(e["media"]) if e["kind"] == "icpt" else 0)
            if nrep > 0:
                return True
    return False


def run_batch(ctx, scripts, tag, race=False):
    return vlib.run_batch(ctx, tag=tag, scripts=scripts, pkg_rel=PKG, pkgname="flexfec", files=HARNESS,
                          test="TestVerifFlexFecExec", trace_module="Trace_FlexFec.tla", nontrivial=nontrivial, race=race,
                          xss="256m")


def compact_samples(ctx):
    """Evidence samples: keep the shape of a trace, not hundreds of kilobytes of payload bytes."""
    out = []
    for s in ctx.cov["samples"]:
        if not isinstance(s, list):
            out.append(s)
            continue
        evs = []
        for e in s[:4]:
            if e.get("a") != "batch":
                evs.append({k: v for k, v in e.items() if k in ("a", "level")})
                continue
            k = len(e["media"])
            reps = e["out"][k:] if e["kind"] == "icpt" else e["out"]
            evs.append({"a": "batch", "kind": e["kind"], "k": k, "n": e["n"], "full": e["full"],
                        "first_seq": e["media"][0]["seq"] if k else None,
                        "payload_len_padding_by_packet": [[len(m["pl"]), m["ps"]] for m in e["media"][:12]],
                        "repairs": len(reps),
                        "first_repair": ({"seq": reps[0]["seq"], "pt": reps[0]["pt"], "ssrc": reps[0]["ssrc"],
                                          "payload_first_32": reps[0]["pl"][:32], "payload_len": len(reps[0]["pl"])}
                                         if reps else None)})
        out.append(evs)
    ctx.cov["samples"] = out


def gen(ctx, consts):
    cfg = vlib.cfg_variant(ctx, "Gen_FlexFec.cfg", consts)
    return vlib.generate(ctx, "Gen_FlexFec.tla", cfg)


def self_check_wire(ctx, rng):
    """The TLA+ wire layout against pion/rtp Marshal: a disagreement is a specification/library problem, not a verdict."""
    nv = len(ctx.violations)
    run_batch(ctx, [wire_script(rng) for _ in range(2 if ctx.quick else 12)], "wire-selfcheck")
    if len(ctx.violations) > nv:
        what = ctx.violations[-1][0]
        del ctx.violations[nv:]
        raise vlib.Infra("the specification's RTP wire layout disagrees with pion/rtp Marshal: %s" % what)


# ------------------------------------------------------------------------------------------------------------------
# Specification growth attached to C14: FlexEncoder20 (RFC 8627 wire format) against FlexFec20.tla.  The property names
# FlexFEC-03 only, so a divergence here is a NOTE (evidence: coverage["growth_notes"]), never a verdict or an exit code.

READING = {   # what the code does, from reading pkg/flexfec/flexfec_encoder.go (attached to a note when its clause fails)
    "ts-recovery": "encodeFlexFecHeader XORs header bytes 4-7 with themselves (flexFecHeader[4] ^= flexFecHeader[4] ...): TS recovery is always 0",
    "fec-header-missing-or-truncated": "encodeFlexFecHeader marshals each whole media packet into a buffer of headerSize (12/16/24) bytes; MarshalTo "
                          "fails with a short buffer for every packet longer than that and the function returns nil: the repair packet "
                          "then consists of the repair payload only; and with a CSRC list / extension / padding the repair payload is "
                          "shorter than the longest protected packet because only Packet.Payload is XORed",
    "r-f-bits": "the version bits of the first header byte are XORed in and never cleared: R is set when an odd number of packets is covered",
    "repair-payload": "encodeFlexFecRepairPayload XORs Packet.Payload only; RFC 8627 protects every byte after the 12-byte fixed header "
                      "(CSRC list, header extension, payload, padding)",
    "fec-csrc-names-stream": "the repair packet's RTP header carries an empty CSRC list; RFC 8627 4.2.1 puts the protected stream's SSRC there",
    "panic(nil pointer dereference)": "n > k: EncodeFec also encodes the empty covers; MediaPacketIterator.First() returns nil for them and "
                                      "encodeFlexFecRepairPayload dereferences it",
    "panic(slice bounds out of range)": "a cover with no index in 15..45 but one >= 46 (mask2 = 0, mask3 > 0) gets a 12+8 = 20-byte header "
                                        "and the 64-bit mask is written at [16:24]",
    "repair-count": "EncodeFec returns numFecPackets packets, including packets for empty covers, and checks neither consecutiveness nor "
                    "the batch size",
}
CLAUSES20 = ["fec-ssrc-pt", "fec-seq", "fec-rtp-header", "fec-csrc-names-stream", "fec-header-missing-or-truncated", "r-f-bits",
             "p-x-cc-m-pt-recovery", "length-recovery", "ts-recovery", "sn-base", "k-bits-header-size", "mask", "repair-payload",
             "single-loss-recovery", "repair-count", "media-modified", "media-first-unmodified", "panic"]
TINY = [[0, 0, 0, 0], [0, 1, 0, 4], [0, 0, 1, 4]]


def growth_scripts(rng, singles, multi, n_enc, n_multi, n_icpt):
    out = []
    small = [b for b in singles if b[0]["k"] <= 47]
    pool = [rng.choice(small) if rng.random() < 0.7 else rng.choice(singles) for _ in range(n_enc)]
    pool += [rng.choice(multi) for _ in range(n_multi)]
    for beh in pool:
        r = rng.random()
        beh = [dict(d) for d in beh]
        if r < 0.35:        # bare 12-byte packets: the only ones whose FEC header FlexEncoder20 manages to build
            for d in beh:
                d["sh"] = [rng.choice([0, 0, 1]) for _ in d["sh"]]
            lens = TINY[0]
        elif r < 0.6:
            for d in beh:
                d["sh"] = [rng.choice([0, 1]) for _ in d["sh"]]
            lens = rng.choice(TINY[1:])
        else:
            lens = rng.choice(TINY + [LENS])
        st = stream(rng, 1)
        for d in beh:
            st["batches"].append({"n": d["n"], "pkts": concrete_batch(rng, d, lens)})
        out.append({"level": "enc20", "poison": False, "k": 0, "n": 0, "streams": [st]})
    for _ in range(n_icpt):
        d = dict(rng.choice(small)[0])
        sc = icpt_script(rng, d, rng.choice([1, 2, 3]), level="icpt20")
        if rng.random() < 0.5:
            for st in sc["streams"]:
                for b in st["batches"]:
                    for pk in b["pkts"]:
                        pk.update({"csrc": [], "x": False, "xp": 0, "xs": [], "ps": 0, "pl": []})
                        pk.pop("plen", None)
        out.append(sc)
    return out


_NOTE20 = re.compile(r'<<\s*"NOTE20",\s*(\d+),\s*(\d+),\s*"(.*?)"\s*>>', re.S)
_PAIR = re.compile(r'<<\\?"([a-z0-9-]+)\\?",\s*(\d+)>>')


def growth_run(ctx, scripts, tag, agg):
    """Execute FlexEncoder20 scripts, let TLC evaluate every clause of FlexFec20 on the recorded packets, aggregate."""
    inp, outp = ctx.path("C14-%s.in" % tag), ctx.path("C14-%s.trace" % tag)
    vlib.write_ndjson(inp, scripts)
    ov = vlib.overlay(ctx, vlib.harness_files(PKG, "flexfec", HARNESS), name="overlay-%s.json" % tag)
    rc, out = vlib.go_test(ctx, PKG, ov, "^TestVerifFlexFecExec$", env={"VERIF_IN": inp, "VERIF_OUT": outp, "VERIF_SEED": ctx.seed})
    if rc != 0 or "VERIF-INFRA" in out:
        agg["aborted"].append("%s: harness run failed: %s" % (tag, " ".join(out[-400:].split())))
        return
    events = vlib.read_ndjson(outp)
    v = vlib.validate(ctx, "Trace_FlexFec20.tla", outp, xss="256m")
    script_of, si = {}, -1
    for i, e in enumerate(events):
        if e.get("a") == "reset":
            si += 1
        script_of[i + 1] = si
    consumed = max(v.hw - 1, 0)
    for i, e in enumerate(events[:consumed]):
        if e.get("a") == "batch":
            agg["batches"] += 1
            agg["repairs"] += len(e["out"]) - (len(e["media"]) if e["kind"] == "icpt" and e["panic"] == "" else 0)
    agg["traces"] += sum(1 for e in events[:consumed] if e.get("a") == "reset")
    agg["events"] += consumed
    if not v.accepted:
        agg["aborted"].append("%s: TLC stopped at event %d of %d: %s" % (tag, v.hw, v.n, vlib.tlc_error(v.out)))
    for m in _NOTE20.finditer(v.out):
        l, nrep = int(m.group(1)), int(m.group(2))
        e = events[l - 1]
        agg["batches_with_notes"] += 1
        for c, cnt in _PAIR.findall(m.group(3)):
            if c == "panic":        # keep the kinds of crash apart
                c = "panic(%s)" % ("nil pointer dereference" if "nil pointer" in e["panic"] else
                                   "slice bounds out of range" if "slice bounds" in e["panic"] or "out of range" in e["panic"]
                                   else "other")
            a = agg["clauses"].setdefault(c, {"batches": 0, "repair_packets": 0, "example": None})
            a["batches"] += 1
            a["repair_packets"] += int(cnt)
            ex = {"kind": e["kind"], "k": len(e["media"]), "n": e["n"], "repairs_observed": nrep,
                  "wire_lengths": sorted({12 + len(x["pl"]) + x["ps"] + 4 * len(x["csrc"]) + (4 if x["x"] else 0) for x in e["media"]})[:6]}
            if e.get("panic"):
                ex["panic"] = e["panic"][:160]
            if a["example"] is None or (ex["k"], ex["n"]) < (a["example"]["k"], a["example"]["n"]):
                a["example"] = ex
                a["example_script"] = scripts[script_of[l]] if ex["k"] <= 3 else None
    ctx.log("(growth) %s: %d scripts, %d events, %d batches with notes" % (tag, len(scripts), consumed, agg["batches_with_notes"]))


def growth(ctx, rng, singles, multi):
    agg = {"batches": 0, "repairs": 0, "traces": 0, "events": 0, "batches_with_notes": 0, "clauses": {}, "aborted": []}
    notes = []
    try:
        vlib.model_check(ctx, "MC_FlexFec20.tla", "MC_FlexFec20.cfg" if ctx.quick else vlib.cfg_variant(
            ctx, "MC_FlexFec20.cfg", {"MaxK": 4, "MaxN": 4, "MaxLen": 1, "Shapes": "{0, 1, 2, 3}", "Bases": "{0, 65534}"}),
            workers=4 if ctx.quick else 12, timeout=3000, note="growth: RFC 8627 repair packet, payload part")
        if not ctx.quick:
            vlib.model_check(ctx, "MC_FlexFec20.tla", "MC_FlexFec20_mask.cfg",
                             note="growth: RFC 8627 masks for ALL k in 1..110, n in 0..110")
            vlib.model_check(ctx, "MC_FlexFec20.tla", "MC_FlexFec20_neg.cfg", workers=2,
                             expect_violation="Invariant RecoveryOK20 is violated", note="growth: negative control")
        sizes = (45, 6, 10) if ctx.quick else (1100, 200, 200)
        scripts = growth_scripts(rng, singles, multi, *sizes)
        chunk = 100 if ctx.quick else 250
        for i in range(0, len(scripts), chunk):
            growth_run(ctx, scripts[i:i + chunk], "growth20-%d" % (i // chunk), agg)
    except vlib.Infra as e:       # the growth part never decides C14
        agg["aborted"].append("inconclusive: %s" % " ".join(str(e).split())[:500])
    for c, a in sorted(agg["clauses"].items(), key=lambda kv: -kv[1]["batches"]):
        ex = a["example"]
        text = ("FlexEncoder20 (RFC 8627) diverges from FlexFec20.tla: clause %s fails in %d of %d batches (%d repair packets); "
                "smallest example %s k=%d n=%d" % (c, a["batches"], agg["batches"], a["repair_packets"], ex["kind"], ex["k"], ex["n"]))
        if ex.get("panic"):
            text += " panic: %s" % ex["panic"]
        note = {"clause": c, "batches_failing": a["batches"], "repair_packets_failing": a["repair_packets"],
                "batches_evaluated": agg["batches"], "example": ex, "text": text}
        if c in READING:
            note["reading"] = READING[c]
        if a.get("example_script"):
            note["example_script"] = a["example_script"]
        notes.append(note)
        print("NOTE: growth C14/%s" % text, flush=True)
    for t in agg["aborted"]:
        notes.append({"clause": "(growth run incomplete)", "text": t})
        print("NOTE: growth C14/FlexEncoder20 run incomplete: %s" % t, flush=True)
    ctx.cov["growth_notes"] = notes
    ctx.cov["growth_summary"] = {
        "what": "FlexEncoder20 (pkg/flexfec/flexfec_encoder.go, RFC 8627 format) against spec/FlexFec20.tla; behaviour C14 does not "
                "state - divergences are notes, not verdicts",
        "traces_validated": agg["traces"], "events": agg["events"], "batches": agg["batches"],
        "repair_packets_observed": agg["repairs"], "batches_with_notes": agg["batches_with_notes"],
        "clauses_holding_wherever_evaluated": sorted(set(CLAUSES20) - {c.split("(")[0] for c in agg["clauses"]}),
        "clauses_note": "field clauses are evaluated on repair packets long enough to hold FEC header + longest protected packet",
    }
    return notes


def run(ctx):
    rng = random.Random(ctx.seed)
    # (M)
    if ctx.quick:
        vlib.model_check(ctx, "MC_FlexFec.tla", vlib.cfg_variant(ctx, "MC_FlexFec.cfg", {
            "MaxK": 4, "MaxN": 4, "MaxLen": 1, "Shapes": "{0, 1, 3}", "Bases": "{65534}"}))
    else:
        # all (k, n) with k <= 6, n <= 6: every batch over payloads of <= 2 bytes from {0, 255}
        vlib.model_check(ctx, "MC_FlexFec.tla", vlib.cfg_variant(ctx, "MC_FlexFec.cfg", {
            "MaxK": 6, "MaxN": 6, "MaxLen": 2, "Shapes": "{0}", "Bases": "{65534}"}), workers=12, timeout=3000)
        # header shapes (padding, CSRC, one-/two-byte extensions) x payloads of <= 3 bytes, k <= 3
        vlib.model_check(ctx, "MC_FlexFec.tla", vlib.cfg_variant(ctx, "MC_FlexFec.cfg", {
            "MaxK": 3, "MaxN": 3, "MaxLen": 3, "Shapes": "{0, 1, 2, 3}", "Bases": "{0, 65534}"}), workers=12, timeout=3000)
        # two shapes, k <= 6
        vlib.model_check(ctx, "MC_FlexFec.tla", vlib.cfg_variant(ctx, "MC_FlexFec.cfg", {
            "MaxK": 6, "MaxN": 6, "MaxLen": 1, "Shapes": "{1, 2}", "Bases": "{0}"}), workers=12, timeout=3000)
    if ctx.quick:   # every k, n at the coverage / mask-field boundaries (ALL n in the thorough tier)
        vlib.model_check(ctx, "MC_FlexFec.tla", vlib.cfg_variant(ctx, "MC_FlexFec_mask.cfg", {"MaskNs": QUICK_NS}),
                         note="coverage and mask fields for all k in 1..110, n at the boundaries, no payloads")
    else:
        vlib.model_check(ctx, "MC_FlexFec.tla", "MC_FlexFec_mask.cfg",
                         note="coverage and mask fields for ALL k in 1..110, n in 0..110, no payloads")
    if not ctx.quick:
        vlib.model_check(ctx, "MC_FlexFec.tla", "MC_FlexFec_neg.cfg", workers=2,
                         expect_violation="Invariant RecoveryOK is violated",
                         note="negative control: one timestamp bit not XORed -> recovery clause fails")
    self_check_wire(ctx, rng)

    # (G) single batches: the full boundary grid
    singles = gen(ctx, {"L": 1})
    singles.sort(key=json.dumps)      # TLC's workers print in a varying order: keep the seeded selection reproducible
    by_kn = {}
    for b in singles:
        by_kn.setdefault((b[0]["k"], b[0]["n"]), []).append(b[0])
    # (G) 2-3 successive batches through one encoder, later ones relative to the previous (k, n)
    multi = []
    for L, ks in ((2, "{15, 109}"), (3, "{5, 110}")) if ctx.quick else ((2, "{2, 15, 46, 109}"), (3, "{5, 16, 47, 110}")):
        multi += gen(ctx, {"L": L, "Ks": ks, "Bases": "{65530}", "SPs": "{1}", "LPs": "{1}"})

    multi.sort(key=json.dumps)
    if ctx.quick:
        n_single, n_multi, n_icpt, n_conc, n_big = 120, 30, 40, 8, 3
    else:
        n_single, n_multi, n_icpt, n_conc, n_big = len(singles), 900, 500, 60, 36
    pick = singles if n_single >= len(singles) else rng.sample(singles, n_single)
    scripts = [enc_script(rng, b) for b in pick]
    scripts += [enc_script(rng, b) for b in rng.sample(multi, min(n_multi, len(multi)))]
    # the interceptor: every (k, n) of the grid at least once in the thorough tier
    kns = sorted(by_kn)
    icpt_kn = kns if not ctx.quick else rng.sample(kns, n_icpt)
    while len(icpt_kn) < n_icpt:
        icpt_kn.append(rng.choice(kns))
    for kn in icpt_kn:
        scripts.append(icpt_script(rng, rng.choice(by_kn[kn]), rng.choice([1, 2, 3]), fec=rng.random() < 0.93))
    # large payloads (scratch buffer limit 1500: 1500-byte payloads take the allocation fallback)
    small_k = [b for b in singles if b[0]["k"] in (2, 5, 15, 16) and b[0]["n"] >= 1]
    for i in range(n_big):
        b = rng.choice(small_k)
        scripts.append(enc_script(rng, b, big=True) if i % 2 == 0 else icpt_script(rng, b[0], 2, big=True))
    # (T) scale: long seeded histories through one encoder / one bound stream
    n_long, len_long = (6, 12) if ctx.quick else (60, 40)
    for i in range(n_long):
        scripts.append(long_script(rng, len_long, "enc" if i % 3 else "icpt"))
    rng.shuffle(scripts)
    chunk = 200 if ctx.quick else 150
    for i in range(0, len(scripts), chunk):
        run_batch(ctx, scripts[i:i + chunk], "G-seq-%d" % (i // chunk))

    # concurrent streams on one interceptor, shared scratch pool, race detector on
    conc = []
    for _ in range(n_conc):
        kn = rng.choice([x for x in kns if x[0] <= 47 and x[1] >= 1])
        conc.append(icpt_script(rng, rng.choice(by_kn[kn]), rng.choice([2, 3]), level="conc", nstreams=4, others=by_kn[kn],
                                big=rng.random() < 0.1))
    run_batch(ctx, conc, "G-conc", race=True)

    # specification growth (RFC 8627 encoder): notes only
    growth(ctx, rng, singles, multi)

    ctx.assumptions += [
        "FlexFec.tla is the reading of the property: FlexFEC-03 header as implemented (R = F = 0, k-bit set on the last mask "
        "field, 15/31/63-bit masks = indices 0..108), a batch whose indices cannot all be named must not be accepted",
        "the wire form of a media packet is what pion/rtp v1.10.5 Marshal produces for (header, payload): padding octets before "
        "the count octet are zero; checked against pion/rtp on every run (wire-selfcheck)",
        "padding flag <=> PaddingSize >= 1 (the legacy form with the padding inside the payload cannot be marshalled by "
        "pion/rtp v1.10.5: the encoder then silently drops the repair packet; outside the quantifier)",
        "the first repair sequence number of an encoder is free; the repair timestamp is not constrained by the property",
        "concurrent level: one goroutine per stream; per-stream order of downstream writes is what is validated",
    ]
    compact_samples(ctx)
    return vlib.finish(ctx, "model_checking", RULE)


def replay(ctx, path):
    for sc in vlib.replay_scripts(path):
        if sc.get("level", "").endswith("20"):      # growth scripts: notes only
            agg = {"batches": 0, "repairs": 0, "traces": 0, "events": 0, "batches_with_notes": 0, "clauses": {}, "aborted": []}
            growth_run(ctx, [sc], "growth20-replay", agg)
            for c, a in sorted(agg["clauses"].items()):
                print("NOTE: growth C14/FlexEncoder20 clause %s fails (%d repair packets) %s" % (c, a["repair_packets"], json.dumps(a["example"])))
            continue
        run_batch(ctx, [sc], "replay", race=sc.get("level") == "conc")
    compact_samples(ctx)
    return vlib.finish(ctx, "model_checking", RULE)

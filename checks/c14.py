"""C14 - FlexFEC-03 repair packets recover any single loss in their group.
(M) MC_FlexFec: the specification's own repair packets satisfy every clause for all small batches (payload part) and the
    coverage / mask fields round-trip for ALL (k, n) in 1..110 x 0..110 (mask part); negative control: a skipped
    timestamp XOR is caught by RecoveryOK.
(G) Gen_FlexFec: TLC enumerates batch descriptors over the mask-field and coverage boundaries; the driver makes them
    concrete and the harness pushes them through FlexEncoder03.EncodeFec / FecInterceptor.
(T) Trace_FlexFec: TLC lays out every media packet, parses every repair packet and performs the XOR recovery itself.
Growth (notes only, never a verdict): FlexEncoder20 against FlexFec20.tla; the FlexFEC-03 DECODER and the round trip real encoder ->
    scripted lossy channel -> real decoder against FlexFecDec.tla (MC_/Gen_/Trace_FlexFecDec, harness zz_verif_fecdec_test.go), run
    concurrently with the checks proper.  An encoder suspect found by the round trip goes through the C14 path (Trace_FlexFec)."""
import json
import random
import re

import vlib

META = {
    "level": "model_checking",
    "text": "FlexFec.tla (RTP wire layout, interleaved coverage, FlexFEC-03 header with mask fields as bit-position sets, "
            "bytewise XOR, the recovery procedure) is model checked: for every batch of up to MaxK tiny packets and every "
            "n the specification's repair packets parse back to their cover and XOR-recover every covered packet "
            "byte-for-byte; coverage and mask round trip for all 12 210 (k, n) pairs. TLC-enumerated batch descriptors at "
            "the mask-field boundaries (k around 15, 46, 109; n in {0,1,2,3,k-1,k,k+1,110}; wrapping base numbers; mixed "
            "header shapes and payload lengths; 1-3 successive batches with coverage reuse/rebuild) are executed on the "
            "real FlexEncoder03 and FecInterceptor (also from four goroutines sharing the scratch pool, under the race "
            "detector) and TLC validates every recorded trace by performing mask decoding and XOR recovery itself.",
    "note": "Trusted: the reading of the property in FlexFec.tla (FlexFEC-03 layout as implemented: k-bit set on the last "
            "mask field; padding octets before the count are zero as pion/rtp Marshal writes them - the wire layout is "
            "self-checked against pion/rtp on every run); the harness's canonical packet record. The legacy padding form "
            "(Padding flag with PaddingSize 0, padding inside the payload) cannot be marshalled by pion/rtp v1.10.5 and is "
            "outside the quantifier. Payload contents beyond the sampled byte patterns are not enumerated (XOR is bytewise "
            "uniform). Buffer retention by the interceptor is C13: the harness never reuses or overwrites a buffer.",
    "technique": "TLA+ spec + TLC model checking, TLC-generated batches replayed into the Go code, recorded traces validated by "
                 "TLC (XOR recovery performed in TLC)",
    "design_ref": "DESIGN.md section 7 C14",
}

PKG = "pkg/flexfec"
HARNESS = ["zz_verif_flexfec_test.go"]
RULE = ("scripts = TLC-enumerated batch descriptors of Gen_FlexFec (k x n x base x shape pattern x length pattern; sequences of "
        "1-3 batches relative to the previous one) made concrete with seeded header values and payload bytes; each is executed on "
        "FlexEncoder03.EncodeFec (level enc), FecInterceptor via BindLocalStream (level icpt) or four concurrent streams on one "
        "interceptor under -race (level conc), plus seeded long histories of 12-40 batches with (k, n) changing at random; TLC "
        "validates the recorded packets. distinct_nontrivial = distinct recorded "
        "traces with at least one repair packet, i.e. at least one XOR recovery performed by TLC.")

LENS = [0, 1, 7, 64]
BIG = [1199, 1460, 1500]
NUM_SHAPES = 9
KS = [1, 2, 5, 14, 15, 16, 45, 46, 47, 108, 109, 110]
QUICK_NS = "{0, 1, 2, 3, 4, 5, 7, 8, 14, 15, 16, 17, 30, 31, 32, 45, 46, 47, 48, 63, 64, 65, 107, 108, 109, 110}"


def b4(v):
    return [(v >> 24) & 255, (v >> 16) & 255, (v >> 8) & 255, v & 255]


def rbytes(rng, n):
    return [rng.randrange(256) for _ in range(n)]


def header(rng, shape):
    """Concrete header fields of a shape class (structure fixed by the class, values seeded)."""
    h = {"m": rng.random() < 0.3, "pt": rng.choice([0, 96, 100, 127, rng.randrange(128)]),
         "ts": rng.choice([b4(rng.randrange(1 << 32)), [255, 255, 255, 255], [0, 0, 0, 0], b4(0x80000000)]),
         "csrc": [], "x": False, "xp": 0, "xs": [], "ps": 0}
    if shape == 1:
        h["m"] = True
        h["pt"] = 127
    elif shape == 2:
        h["ps"] = 1
    elif shape == 3:
        h["ps"] = rng.choice([2, 4, 7, 32])
    elif shape == 4:
        h["csrc"] = [b4(rng.randrange(1 << 32)) for _ in range(rng.choice([1, 2, 15]))]
    elif shape == 5:      # RFC 8285 one-byte
        h["x"], h["xp"] = True, 0xBEDE
        ids = rng.sample(range(1, 15), rng.choice([0, 1, 2, 3]))
        h["xs"] = [{"id": i, "d": rbytes(rng, rng.choice([1, 2, 3, 4, 16]))} for i in ids]
    elif shape == 6:      # RFC 8285 two-byte
        h["x"], h["xp"] = True, 0x1000
        ids = rng.sample(range(1, 256), rng.choice([1, 2]))
        h["xs"] = [{"id": i, "d": rbytes(rng, rng.choice([0, 1, 5, 17, 40]))} for i in ids]
    elif shape == 7:      # RFC 3550 generic extension
        h["x"], h["xp"] = True, rng.choice([0x1234, 0xABAC, 0])
        h["xs"] = rng.choice([[], [{"id": 0, "d": rbytes(rng, rng.choice([0, 4, 8]))}]])
    elif shape == 8:      # everything at once
        h["m"] = True
        h["csrc"] = [b4(rng.randrange(1 << 32)) for _ in range(2)]
        h["x"], h["xp"] = True, 0xBEDE
        h["xs"] = [{"id": 3, "d": rbytes(rng, 2)}, {"id": 9, "d": rbytes(rng, 3)}]
        h["ps"] = rng.choice([1, 5, 255])
    return h


def payload(rng, n):
    if n > 200:
        r = rng.random()
        if r < 0.15:
            return {"plen": n, "pfill": rng.choice([0, 255, 0x80])}
        return {"plen": n, "pseed": rng.randrange(1 << 31)}
    r = rng.random()
    if r < 0.1:
        return {"pl": [255] * n}
    if r < 0.15:
        return {"pl": [0] * n}
    return {"pl": rbytes(rng, n)}


def concrete_batch(rng, d, lens, seq0=None):
    """d = TLC descriptor [k, n, base, sh, ln] -> list of concrete packet descriptions."""
    base = d["base"] if seq0 is None else seq0
    pkts = []
    for i in range(d["k"]):
        p = header(rng, d["sh"][i])
        p["seq"] = (base + i) % 65536
        p.update(payload(rng, lens[d["ln"][i] % len(lens)]))
        pkts.append(p)
    return pkts


def stream(rng, s, fec=True):
    ssrc = rng.choice([b4(rng.randrange(1, 1 << 32)), [255, 255, 255, 255], [0, 0, 0, 1]])
    fs = b4(rng.randrange(1, 1 << 32)) if fec else rng.choice([[0, 0, 0, 0], b4(7)])
    fpt = rng.randrange(1, 128) if fec or fs == [0, 0, 0, 0] else 0
    return {"s": s, "ssrc": ssrc, "fecssrc": fs, "fecpt": fpt, "batches": []}


def lens_for(rng, big):
    if not big:
        return LENS
    ls = [rng.choice(BIG), rng.choice(LENS), rng.choice(BIG), rng.choice(LENS)]
    return ls


def enc_script(rng, beh, big=False):
    st = stream(rng, 1)
    lens = lens_for(rng, big)
    for d in beh:
        st["batches"].append({"n": d["n"], "pkts": concrete_batch(rng, d, lens)})
    return {"level": "enc", "poison": rng.random() < 0.5, "k": 0, "n": 0, "streams": [st]}


def icpt_script(rng, d, nb, big=False, fec=True, level="icpt", nstreams=1, others=None):
    """(k, n) of descriptor d fixed for the interceptor; nb full batches per stream (+ sometimes a trailing partial one)."""
    streams = []
    for s in range(1, nstreams + 1):
        st = stream(rng, s, fec)
        while any(st["ssrc"] == o["ssrc"] for o in streams):
            st = stream(rng, s, fec)
        dd = d if s == 1 or not others else rng.choice(others)
        lens = lens_for(rng, big)
        seq = dd["base"]
        for bi in range(nb):
            st["batches"].append({"n": d["n"], "pkts": concrete_batch(rng, dd, lens, seq)})
            if level == "icpt" and d["k"] > 2 and bi + 1 < nb and rng.random() < 0.25:
                # the application skips a number inside this batch (the encoder refuses a batch that is not consecutive and
                # nothing is stated about it) - the batches AFTER it are consecutive again and must be protected as ever
                pk = st["batches"][-1]["pkts"]
                j = rng.randrange(1, len(pk))
                for x in pk[j:]:
                    x["seq"] = (x["seq"] + 1) % 65536
                seq = (seq + 1) % 65536
            elif level == "icpt" and nstreams == 1 and rng.random() < 0.3:
                # the next writer refuses ONE of the packets it is given during this batch (a media packet - sometimes the one
                # that completes the batch - or a repair packet): the others must still be sent
                st["batches"][-1]["failat"] = rng.choice([1, d["k"], d["k"], d["k"] + 1, d["k"] + d["n"]])
            seq = (seq + d["k"]) % 65536
        if d["k"] > 1 and rng.random() < 0.3:
            part = concrete_batch(rng, dd, lens, seq)[:rng.randrange(1, d["k"])]
            st["batches"].append({"n": d["n"], "pkts": part})
            if level == "icpt" and rng.random() < 0.6:     # the stream is bound again with the partial batch pending
                seq = (seq + rng.choice([len(part), d["k"], 300])) % 65536
                st["batches"].append({"n": d["n"], "pkts": concrete_batch(rng, dd, lens, seq), "rebind": True})
        streams.append(st)
    return {"level": level, "poison": rng.random() < 0.5, "k": d["k"], "n": d["n"], "streams": streams}


def long_script(rng, nb, level="enc"):
    """(T) scale: many successive batches through one encoder with (k, n) changing at random (table reuse / rebuild,
    running repair counter, scratch reuse); not TLC-generated."""
    st = stream(rng, 1)
    seq = rng.choice([0, 65000, rng.randrange(65536)])
    k, n = rng.choice([3, 5, 16]), rng.choice([1, 2])
    for _ in range(nb):
        r = rng.random()
        if level == "enc":
            if r < 0.35:
                pass                                  # same shape: coverage reused
            elif r < 0.9:
                k = rng.choice([1, 2, 3, 5, 8, 14, 15, 16, 17, 20])
                n = rng.choice([0, 1, 2, 3, max(k - 1, 0), k, k + 1, 110])
            else:
                k = rng.choice([45, 46, 47, 108, 109, 110])
                n = rng.choice([1, 2, 3, k - 1, k, 110])
        if rng.random() < 0.1:
            seq = (seq + rng.randrange(1, 40000)) % 65536      # the next batch need not continue the previous one
        d = {"k": k, "n": n, "base": seq, "sh": [rng.randrange(NUM_SHAPES) for _ in range(k)],
             "ln": [rng.randrange(len(LENS)) for _ in range(k)]}
        st["batches"].append({"n": n, "pkts": concrete_batch(rng, d, LENS)})
        seq = (seq + k) % 65536
    return {"level": level, "poison": rng.random() < 0.5, "k": k if level != "enc" else 0, "n": n if level != "enc" else 0,
            "streams": [st]}


def wire_script(rng):
    st = stream(rng, 1)
    pkts = []
    for sh in range(NUM_SHAPES):
        for ln in (0, 1, 7, 64):
            p = header(rng, sh)
            p["seq"] = rng.randrange(65536)
            p.update(payload(rng, ln))
            pkts.append(p)
    st["batches"].append({"n": 0, "pkts": pkts})
    return {"level": "wire", "poison": False, "k": 0, "n": 0, "streams": [st]}


def nontrivial(evs):
    for e in evs:
        if e.get("a") == "batch":
            nrep = len(e["out"]) - (len(e["media"]) if e["kind"] == "icpt" else 0)
            if nrep > 0:
                return True
    return False


def run_batch(ctx, scripts, tag, race=False):
    return vlib.run_batch(ctx, tag=tag, scripts=scripts, pkg_rel=PKG, pkgname="flexfec", files=HARNESS,
                          test="TestVerifFlexFecExec", trace_module="Trace_FlexFec.tla", nontrivial=nontrivial, race=race,
                          xss="256m")


def compact_samples(ctx):
    """Evidence samples: keep the shape of a trace, not hundreds of kilobytes of payload bytes."""
    out = []
    for s in ctx.cov["samples"]:
        if not isinstance(s, list):
            out.append(s)
            continue
        evs = []
        for e in s[:4]:
            if e.get("a") != "batch":
                evs.append({k: v for k, v in e.items() if k in ("a", "level")})
                continue
            k = len(e["media"])
            reps = e["out"][k:] if e["kind"] == "icpt" else e["out"]
            evs.append({"a": "batch", "kind": e["kind"], "k": k, "n": e["n"], "full": e["full"],
                        "first_seq": e["media"][0]["seq"] if k else None,
                        "payload_len_padding_by_packet": [[len(m["pl"]), m["ps"]] for m in e["media"][:12]],
                        "repairs": len(reps),
                        "first_repair": ({"seq": reps[0]["seq"], "pt": reps[0]["pt"], "ssrc": reps[0]["ssrc"],
                                          "payload_first_32": reps[0]["pl"][:32], "payload_len": len(reps[0]["pl"])}
                                         if reps else None)})
        out.append(evs)
    ctx.cov["samples"] = out


def gen(ctx, consts):
    cfg = vlib.cfg_variant(ctx, "Gen_FlexFec.cfg", consts)
    return vlib.generate(ctx, "Gen_FlexFec.tla", cfg)


def self_check_wire(ctx, rng):
    """The TLA+ wire layout against pion/rtp Marshal: a disagreement is a specification/library problem, not a verdict."""
    nv = len(ctx.violations)
    run_batch(ctx, [wire_script(rng) for _ in range(2 if ctx.quick else 12)], "wire-selfcheck")
    if len(ctx.violations) > nv:
        what = ctx.violations[-1][0]
        del ctx.violations[nv:]
        raise vlib.Infra("the specification's RTP wire layout disagrees with pion/rtp Marshal: %s" % what)


# ------------------------------------------------------------------------------------------------------------------
# Specification growth attached to C14: FlexEncoder20 (RFC 8627 wire format) against FlexFec20.tla.  The property names
# FlexFEC-03 only, so a divergence here is a NOTE (evidence: coverage["growth_notes"]), never a verdict or an exit code.

READING = {   # what the code does, from reading pkg/flexfec/flexfec_encoder.go (attached to a note when its clause fails)
    "ts-recovery": "encodeFlexFecHeader XORs header bytes 4-7 with themselves (flexFecHeader[4] ^= flexFecHeader[4] ...): TS recovery is always 0",
    "fec-header-missing-or-truncated": "encodeFlexFecHeader marshals each whole media packet into a buffer of headerSize (12/16/24) bytes; MarshalTo "
                          "fails with a short buffer for every packet longer than that and the function returns nil: the repair packet "
                          "then consists of the repair payload only; and with a CSRC list / extension / padding the repair payload is "
                          "shorter than the longest protected packet because only Packet.Payload is XORed",
    "r-f-bits": "the version bits of the first header byte are XORed in and never cleared: R is set when an odd number of packets is covered",
    "repair-payload": "encodeFlexFecRepairPayload XORs Packet.Payload only; RFC 8627 protects every byte after the 12-byte fixed header "
                      "(CSRC list, header extension, payload, padding)",
    "fec-csrc-names-stream": "the repair packet's RTP header carries an empty CSRC list; RFC 8627 4.2.1 puts the protected stream's SSRC there",
    "panic(nil pointer dereference)": "n > k: EncodeFec also encodes the empty covers; MediaPacketIterator.First() returns nil for them and "
                                      "encodeFlexFecRepairPayload dereferences it",
    "panic(slice bounds out of range)": "a cover with no index in 15..45 but one >= 46 (mask2 = 0, mask3 > 0) gets a 12+8 = 20-byte header "
                                        "and the 64-bit mask is written at [16:24]",
    "repair-count": "EncodeFec returns numFecPackets packets, including packets for empty covers, and checks neither consecutiveness nor "
                    "the batch size",
}
CLAUSES20 = ["fec-ssrc-pt", "fec-seq", "fec-rtp-header", "fec-csrc-names-stream", "fec-header-missing-or-truncated", "r-f-bits",
             "p-x-cc-m-pt-recovery", "length-recovery", "ts-recovery", "sn-base", "k-bits-header-size", "mask", "repair-payload",
             "single-loss-recovery", "repair-count", "media-modified", "media-first-unmodified", "panic"]
TINY = [[0, 0, 0, 0], [0, 1, 0, 4], [0, 0, 1, 4]]


def growth_scripts(rng, singles, multi, n_enc, n_multi, n_icpt):
    out = []
    small = [b for b in singles if b[0]["k"] <= 47]
    pool = [rng.choice(small) if rng.random() < 0.7 else rng.choice(singles) for _ in range(n_enc)]
    pool += [rng.choice(multi) for _ in range(n_multi)]
    for beh in pool:
        r = rng.random()
        beh = [dict(d) for d in beh]
        if r < 0.35:        # bare 12-byte packets: the only ones whose FEC header FlexEncoder20 manages to build
            for d in beh:
                d["sh"] = [rng.choice([0, 0, 1]) for _ in d["sh"]]
            lens = TINY[0]
        elif r < 0.6:
            for d in beh:
                d["sh"] = [rng.choice([0, 1]) for _ in d["sh"]]
            lens = rng.choice(TINY[1:])
        else:
            lens = rng.choice(TINY + [LENS])
        st = stream(rng, 1)
        for d in beh:
            st["batches"].append({"n": d["n"], "pkts": concrete_batch(rng, d, lens)})
        out.append({"level": "enc20", "poison": False, "k": 0, "n": 0, "streams": [st]})
    for _ in range(n_icpt):
        d = dict(rng.choice(small)[0])
        sc = icpt_script(rng, d, rng.choice([1, 2, 3]), level="icpt20")
        if rng.random() < 0.5:
            for st in sc["streams"]:
                for b in st["batches"]:
                    for pk in b["pkts"]:
                        pk.update({"csrc": [], "x": False, "xp": 0, "xs": [], "ps": 0, "pl": []})
                        pk.pop("plen", None)
        out.append(sc)
    return out


_NOTE20 = re.compile(r'<<\s*"NOTE20",\s*(\d+),\s*(\d+),\s*"(.*?)"\s*>>', re.S)
_PAIR = re.compile(r'<<\\?"([a-z0-9-]+)\\?",\s*(\d+)>>')


def growth_run(ctx, scripts, tag, agg):
    """Execute FlexEncoder20 scripts, let TLC evaluate every clause of FlexFec20 on the recorded packets, aggregate."""
    inp, outp = ctx.path("C14-%s.in" % tag), ctx.path("C14-%s.trace" % tag)
    vlib.write_ndjson(inp, scripts)
    ov = vlib.overlay(ctx, vlib.harness_files(PKG, "flexfec", HARNESS), name="overlay-%s.json" % tag)
    rc, out = vlib.go_test(ctx, PKG, ov, "^TestVerifFlexFecExec$", env={"VERIF_IN": inp, "VERIF_OUT": outp, "VERIF_SEED": ctx.seed})
    if rc != 0 or "VERIF-INFRA" in out:
        agg["aborted"].append("%s: harness run failed: %s" % (tag, " ".join(out[-400:].split())))
        return
    events = vlib.read_ndjson(outp)
    v = vlib.validate(ctx, "Trace_FlexFec20.tla", outp, xss="256m")
    script_of, si = {}, -1
    for i, e in enumerate(events):
        if e.get("a") == "reset":
            si += 1
        script_of[i + 1] = si
    consumed = max(v.hw - 1, 0)
    for i, e in enumerate(events[:consumed]):
        if e.get("a") == "batch":
            agg["batches"] += 1
            agg["repairs"] += len(e["out"]) - (len(e["media"]) if e["kind"] == "icpt" and e["panic"] == "" else 0)
    agg["traces"] += sum(1 for e in events[:consumed] if e.get("a") == "reset")
    agg["events"] += consumed
    if not v.accepted:
        agg["aborted"].append("%s: TLC stopped at event %d of %d: %s" % (tag, v.hw, v.n, vlib.tlc_error(v.out)))
    for m in _NOTE20.finditer(v.out):
        l, nrep = int(m.group(1)), int(m.group(2))
        e = events[l - 1]
        agg["batches_with_notes"] += 1
        for c, cnt in _PAIR.findall(m.group(3)):
            if c == "panic":        # keep the kinds of crash apart
                c = "panic(%s)" % ("nil pointer dereference" if "nil pointer" in e["panic"] else
                                   "slice bounds out of range" if "slice bounds" in e["panic"] or "out of range" in e["panic"]
                                   else "other")
            a = agg["clauses"].setdefault(c, {"batches": 0, "repair_packets": 0, "example": None})
            a["batches"] += 1
            a["repair_packets"] += int(cnt)
            ex = {"kind": e["kind"], "k": len(e["media"]), "n": e["n"], "repairs_observed": nrep,
                  "wire_lengths": sorted({12 + len(x["pl"]) + x["ps"] + 4 * len(x["csrc"]) + (4 if x["x"] else 0) for x in e["media"]})[:6]}
            if e.get("panic"):
                ex["panic"] = e["panic"][:160]
            if a["example"] is None or (ex["k"], ex["n"]) < (a["example"]["k"], a["example"]["n"]):
                a["example"] = ex
                a["example_script"] = scripts[script_of[l]] if ex["k"] <= 3 else None
    ctx.log("(growth) %s: %d scripts, %d events, %d batches with notes" % (tag, len(scripts), consumed, agg["batches_with_notes"]))


def growth(ctx, rng, singles, multi):
    agg = {"batches": 0, "repairs": 0, "traces": 0, "events": 0, "batches_with_notes": 0, "clauses": {}, "aborted": []}
    notes = []
    try:
        vlib.model_check(ctx, "MC_FlexFec20.tla", "MC_FlexFec20.cfg" if ctx.quick else vlib.cfg_variant(
            ctx, "MC_FlexFec20.cfg", {"MaxK": 4, "MaxN": 4, "MaxLen": 1, "Shapes": "{0, 1, 2, 3}", "Bases": "{0, 65534}"}),
            workers=4 if ctx.quick else 12, timeout=3000, note="growth: RFC 8627 repair packet, payload part")
        if not ctx.quick:
            vlib.model_check(ctx, "MC_FlexFec20.tla", "MC_FlexFec20_mask.cfg",
                             note="growth: RFC 8627 masks for ALL k in 1..110, n in 0..110")
            vlib.model_check(ctx, "MC_FlexFec20.tla", "MC_FlexFec20_neg.cfg", workers=2,
                             expect_violation="Invariant RecoveryOK20 is violated", note="growth: negative control")
        sizes = (45, 6, 10) if ctx.quick else (1100, 200, 200)
        scripts = growth_scripts(rng, singles, multi, *sizes)
        chunk = 100 if ctx.quick else 250
        for i in range(0, len(scripts), chunk):
            growth_run(ctx, scripts[i:i + chunk], "growth20-%d" % (i // chunk), agg)
    except vlib.Infra as e:       # the growth part never decides C14
        agg["aborted"].append("inconclusive: %s" % " ".join(str(e).split())[:500])
    for c, a in sorted(agg["clauses"].items(), key=lambda kv: -kv[1]["batches"]):
        ex = a["example"]
        text = ("FlexEncoder20 (RFC 8627) diverges from FlexFec20.tla: clause %s fails in %d of %d batches (%d repair packets); "
                "smallest example %s k=%d n=%d" % (c, a["batches"], agg["batches"], a["repair_packets"], ex["kind"], ex["k"], ex["n"]))
        if ex.get("panic"):
            text += " panic: %s" % ex["panic"]
        note = {"clause": c, "batches_failing": a["batches"], "repair_packets_failing": a["repair_packets"],
                "batches_evaluated": agg["batches"], "example": ex, "text": text}
        if c in READING:
            note["reading"] = READING[c]
        if a.get("example_script"):
            note["example_script"] = a["example_script"]
        notes.append(note)
        print("NOTE: growth C14/%s" % text, flush=True)
    for t in agg["aborted"]:
        notes.append({"clause": "(growth run incomplete)", "text": t})
        print("NOTE: growth C14/FlexEncoder20 run incomplete: %s" % t, flush=True)
    ctx.cov["growth_notes"] = notes
    ctx.cov["growth_summary"] = {
        "what": "FlexEncoder20 (pkg/flexfec/flexfec_encoder.go, RFC 8627 format) against spec/FlexFec20.tla; behaviour C14 does not "
                "state - divergences are notes, not verdicts",
        "traces_validated": agg["traces"], "events": agg["events"], "batches": agg["batches"],
        "repair_packets_observed": agg["repairs"], "batches_with_notes": agg["batches_with_notes"],
        "clauses_holding_wherever_evaluated": sorted(set(CLAUSES20) - {c.split("(")[0] for c in agg["clauses"]}),
        "clauses_note": "field clauses are evaluated on repair packets long enough to hold FEC header + longest protected packet",
    }
    return notes


# ------------------------------------------------------------------------------------------------------------------
# Specification growth attached to C14: the FlexFEC-03 DECODER (pkg/flexfec/flexfec_decoder_03.go, unexported, documented as
# work in progress / testing only) and the round trip encoder -> lossy channel -> decoder against FlexFecDec.tla.
# Divergences of the decoder are NOTEs (coverage["growth_notes"], coverage["growth_decoder"]), never a verdict.  Only if the
# SPECIFICATION's own recovery cannot decode what the real encoder produced (ENCSUSPECT) the script's batches are sent through
# the C14 path proper (level "enc", Trace_FlexFec), which alone decides.

DEC_HARNESS = HARNESS + ["zz_verif_fecdec_test.go"]
DEC_READING = {   # what the code does, from reading flexfec_decoder_03.go (attached to a note when its tag / class is involved)
    "AliasHazard": "insertFECPacket stores &d.recoveredPackets[i] - a pointer INTO the slice - for every protected packet it finds "
                   "buffered; insertMediaPacket / attemptRecovery later append an older packet and sort.Slice the same backing array, "
                   "which moves other packets under those pointers: the repair packet then XORs the wrong packets (wrong bytes returned "
                   "as a recovered packet) or takes a present packet for the missing one",
    "LinearDiscard": "insertPacket measures the repair-number distance as abs(int(a)-int(b)) > 0x3fff, not modulo 2^16: when the repair "
                     "numbers wrap 65535 -> 0 every buffered repair packet is 'far' and is dropped, packets they could still recover are lost",
    "GapNoReset": "DecodeFec tests for a big gap only while len(recoveredPackets) == maxMediaPackets (100) although the buffer grows to 192 "
                  "(discardOldRecoveredPackets): at any other fill level a jump in the media numbers leaves the old packets and repair packets behind",
    "hang": "attemptRecovery logs the error of recoverPacket but still appends the (zero) packet and counts a recovery; the repair packet keeps "
            "missing one packet, so the for loop never terminates (the harness abandons the call after 2000 logged errors)",
    "invented": "attemptRecovery appends the zero rtp.Packet{} to its result when recoverPacket fails",
}
DEC_KS_QUICK = "{2, 5, 16, 47}"
DEC_TINY = [0, 1, 2, 3]


def dec_script(rng, plans, lens, fec0=0):
    """TLC batch plans (Gen_FlexFecDec) -> concrete round-trip script for TestVerifFecDecExec."""
    st = stream(rng, 1)
    media, encs, steps, batches = [], [], [], []
    seq = 0
    rows_used = any(d["rows"] for d in plans)
    for bi, d in enumerate(plans):
        seq = (seq + d["gap"]) % 65536          # the first plan's gap is the base number
        at = len(media)
        media += concrete_batch(rng, {"k": d["k"], "base": seq, "sh": d["sh"], "ln": d["ln"]}, lens, seq)
        col = len(encs)
        encs.append({"e": 0, "at": at, "k": d["k"], "n": d["n"], "skip": d["fgap"] + (fec0 if bi == 0 else 0)})
        rows = []
        if d["rows"]:
            for x in range(0, d["k"], d["rows"]):
                rows.append(len(encs))
                # encoder 1 numbers its repair packets 5000 ahead of encoder 0 (same repair SSRC: the numbers must not collide)
                first = not any(e["e"] == 1 for e in encs)
                encs.append({"e": 1, "at": at + x, "k": min(d["rows"], d["k"] - x), "n": 1, "skip": (fec0 + 5000) if first else 0})
        batches.append((at, col, rows))
        for s in d["steps"]:
            b_at, b_col, b_rows = batches[bi - s["b"]]
            if s["t"] == "m":
                steps.append({"t": "m", "i": b_at + s["i"], "c": 0, "j": 0, "mut": []})
            elif s["t"] == "f":
                steps.append({"t": "f", "i": 0, "c": b_col, "j": s["i"], "mut": s["mut"]})
            elif s["t"] == "g":
                steps.append({"t": "f", "i": 0, "c": b_rows[s["i"]], "j": 0, "mut": s["mut"]})
            else:
                steps.append({"t": "x", "i": 0, "c": 0, "j": 0, "mut": []})
        seq = (seq + d["k"]) % 65536
    return {"level": "dec", "poison": rng.random() < 0.3, "ssrc": st["ssrc"], "fecssrc": st["fecssrc"], "fecpt": st["fecpt"],
            "media": media, "encs": encs, "steps": steps,
            "plan": [{k: d[k] for k in ("k", "n", "gap", "fgap", "rows", "lp", "op")} for d in plans], "rows_used": rows_used}


def dec_long_script(rng, small, nplans, fec0, clean=False):
    """Seeded long stream: nplans TLC plans (k <= 6, no header error cases) chained, with big gaps in the media numbers (150: the
    reset rule; 20000) and in the repair numbers (17000 > 0x3fff: half-space discard); > 100 repair and > 192 media packets.
    clean: only plans whose repair packets arrive before their media packets and repair numbers that do not wrap - the arrival
    patterns on which the decoder AS FOUND agrees with the specification, so that the run gets as far as the buffer limits;
    such a run starts with exactly 100 loss-free media packets followed by a gap of 150 (the reset rule fires)."""
    plans = []
    pool = [d for d in small if d["op"] == 1 and d["rows"] == 0] if clean else small
    probe = [d for d in pool if d["k"] == 5 and d["lp"] == 0]
    for i in range(nplans):
        d = dict(rng.choice(probe if clean and i < 20 else [x for x in probe if x["n"] <= 2] if clean and i == 20 else pool))
        if clean:
            d["gap"] = rng.choice([0, 65400, 30000]) if i == 0 else (150 if i in (20, 45) else 20000 if i == 30 else 0)
        else:
            d["gap"] = rng.choice([0, 65400, 30000]) if i == 0 else (150 if i % 23 == 11 else 20000 if i == 30 else 0)
        d["fgap"] = 17000 if i == 24 else 0
        d["steps"] = list(d["steps"])
        plans.append(d)
    if clean:
        # probes of the buffer limits: a packet whose column lost two (lp 4) arrives 2..70 batches late - the column's repair
        # packet recovers the other one iff it is still among the newest 100; a lost repair packet (lp 5) arrives late - it
        # recovers its lost packet iff the rest of its column is still among the newest 192 media packets
        for i, d in enumerate(plans):
            back = rng.choice([2, 25, 45, 70])
            if i + back >= nplans:
                continue
            if d["lp"] == 4 and d["k"] > d["n"]:
                plans[i + back]["steps"].insert(0, {"t": "m", "b": back, "i": 0, "mut": []})
            elif d["lp"] == 5:
                plans[i + back]["steps"].insert(0, {"t": "f", "b": back, "i": 0, "mut": []})
    return dec_script(rng, plans, DEC_TINY, 0 if clean else fec0)


def dec_enc_script(sc):
    """The batches of a round-trip script as a level "enc" script of the C14 path proper (one stream per encoder)."""
    streams = {}
    for e in sc["encs"]:
        st = streams.setdefault(e["e"], {"s": e["e"] + 1, "ssrc": sc["ssrc"], "fecssrc": sc["fecssrc"], "fecpt": sc["fecpt"], "batches": []})
        st["batches"].append({"n": e["n"], "pkts": sc["media"][e["at"]:e["at"] + e["k"]]})
    return {"level": "enc", "poison": sc["poison"], "k": 0, "n": 0, "streams": [streams[k] for k in sorted(streams)]}


_NOTEDEC = re.compile(r'<<\s*"NOTEDEC",\s*(\d+),\s*"\{(.*?)\}",\s*"\{(.*?)\}"\s*>>', re.S)
_ENCSUS = re.compile(r'<<\s*"ENCSUSPECT",\s*(\d+),\s*"(.*?)"\s*>>', re.S)
_DEV = re.compile(r'<<\s*"DEV",\s*(\d+),\s*"\{(.*?)\}"\s*>>', re.S)
_WORD = re.compile(r'[A-Za-z][A-Za-z-]*')


def dec_new_agg():
    return {"scripts": 0, "traces": 0, "events": 0, "calls": 0, "calls_media": 0, "calls_repair": 0, "calls_header_error_case": 0,
            "recovered_compared": 0, "traces_full": 0, "traces_diverged": 0, "enc_suspects": [], "kinds": {}, "aborted": [],
            "dev_traces": {}}


def dec_run(ctx, scripts, tag, agg):
    """Execute round-trip scripts on the real encoder + decoder, let TLC validate every DecodeFec call, aggregate."""
    inp, outp = ctx.path("C14-%s.in" % tag), ctx.path("C14-%s.trace" % tag)
    vlib.write_ndjson(inp, scripts)
    ov = vlib.overlay(ctx, vlib.harness_files(PKG, "flexfec", DEC_HARNESS), name="overlay-%s.json" % tag)
    rc, out = vlib.go_test(ctx, PKG, ov, "^TestVerifFecDecExec$", env={"VERIF_IN": inp, "VERIF_OUT": outp, "VERIF_SEED": ctx.seed})
    if rc != 0 or "VERIF-INFRA" in out:
        agg["aborted"].append("%s: harness run failed: %s" % (tag, " ".join(out[-400:].split())))
        return
    events = vlib.read_ndjson(outp)
    v = vlib.validate(ctx, "Trace_FlexFecDec.tla", outp, xss="256m")
    consumed = max(v.hw - 1, 0)
    if not v.accepted:
        agg["aborted"].append("%s: TLC stopped at event %d of %d: %s" % (tag, v.hw, v.n, vlib.tlc_error(v.out)))
    script_of, si = {}, -1
    for i, e in enumerate(events):
        if e.get("a") == "reset":
            si += 1
        script_of[i + 1] = si
    stop = {}                     # script index -> (line, kind) where TLC stopped comparing
    for m in _NOTEDEC.finditer(v.out):
        line = int(m.group(1))
        stop[script_of[line]] = (line, "note", tuple(sorted(_WORD.findall(m.group(2)))), tuple(sorted(_WORD.findall(m.group(3)))))
    for m in _ENCSUS.finditer(v.out):
        line = int(m.group(1))
        stop[script_of[line]] = (line, "enc", (), ())
    agg["scripts"] += len(scripts)
    for m in _DEV.finditer(v.out):          # first time a predicate of FlexFecDec held in a trace
        for tagname in _WORD.findall(m.group(2)):
            agg["dev_traces"][tagname] = agg["dev_traces"].get(tagname, 0) + 1
    for i, e in enumerate(events[:consumed]):
        a = e.get("a")
        si = script_of[i + 1]
        if a == "reset":
            agg["traces"] += 1
        if a != "recv" or e["t"] == "-":
            continue
        if si in stop and i + 1 > stop[si][0]:
            continue
        agg["calls"] += 1
        kind = "calls_media" if e["t"] == "m" else "calls_repair" if e["t"] == "f" else "calls_other"
        agg[kind] = agg.get(kind, 0) + 1
        if e["mutated"]:
            agg["calls_header_error_case"] += 1
        if not (si in stop and i + 1 == stop[si][0]):
            agg["recovered_compared"] += len(e["out"])
    agg["events"] += consumed
    agg["traces_full"] += sum(1 for s in range(len(scripts)) if s not in stop)
    for si, (line, kind, classes, devs) in sorted(stop.items()):
        sc = scripts[si]
        if kind == "enc":
            agg["enc_suspects"].append(sc)
            continue
        agg["traces_diverged"] += 1
        e = events[line - 1]
        key = (classes, tuple(d for d in devs if d in ("AliasHazard", "LinearDiscard", "GapNoReset", "WideSpan", "HeaderErrorCase")))
        a = agg["kinds"].setdefault(key, {"traces": 0, "example": None, "example_script": None})
        a["traces"] += 1
        size = len(sc["steps"])
        if a["example"] is None or size < a["example"]["steps"]:
            a["example"] = {"steps": size, "media_packets": len(sc["media"]), "plan": sc["plan"][:4], "failing_call": sum(
                1 for j in range([x for x in range(line, 0, -1) if events[x - 1].get("a") == "reset"][0], line + 1)
                if events[j - 1].get("a") == "recv"),
                "delivered": ({"t": "m", "seq": e["seq"]} if e["t"] == "m" else {"t": e["t"], "repair_seq": e["seq"]}),
                "returned": [{"seq": o["seq"], "len": len(o["raw"])} for o in e["out"]][:6], "err": e["err"][:160]}
            a["example_script"] = sc if size <= 40 else None
            a["example_full"] = sc
    ctx.log("(growth) %s: %d scripts, %d events, %d diverging traces, %d encoder suspects" % (
        tag, len(scripts), consumed, sum(1 for x in stop.values() if x[1] == "note"), sum(1 for x in stop.values() if x[1] == "enc")))


def dec_save_replays(ctx, agg):
    """One replay file per kind of divergence (bin/check C14 --replay <file> prints the note again)."""
    if getattr(ctx, "replay_mode", False):
        return
    for (classes, devs), a in list(agg["kinds"].items())[:12]:
        if a.get("example_full"):
            a["replay"] = vlib.save_replay(ctx, {"property": "C14", "kind": "growth-decoder (note, not a verdict)", "seed": ctx.seed,
                                                 "what": "fecDecoder diverges from FlexFecDec.tla: %s after %s" % ("+".join(classes), ", ".join(devs)),
                                                 "script": a["example_full"]})


def dec_notes(agg):
    notes = []
    total = max(agg["traces"], 1)
    for (classes, devs), a in sorted(agg["kinds"].items(), key=lambda kv: -kv[1]["traces"]):
        ex = a["example"]
        text = ("fecDecoder (flexfec_decoder_03.go) diverges from FlexFecDec.tla: %s in %d of %d round-trip traces%s; smallest example: "
                "%d media packets, plan %s, DecodeFec call #%d (%s) returned %s%s" % (
                    "+".join(classes) or "(no class)", a["traces"], total,
                    (" [after " + ", ".join(devs) + "]") if devs else "", ex["media_packets"],
                    json.dumps(ex["plan"], separators=(",", ":")), ex["failing_call"], json.dumps(ex["delivered"], separators=(",", ":")),
                    json.dumps(ex["returned"], separators=(",", ":")), (" " + ex["err"]) if ex["err"] else ""))
        note = {"component": "fecDecoder", "clause": "+".join(classes), "after": list(devs), "traces_diverging": a["traces"],
                "traces_evaluated": agg["traces"], "example": ex, "text": text}
        rd = [DEC_READING[k] for k in list(devs) + list(classes) if k in DEC_READING]
        if rd:
            note["reading"] = rd
        if a["example_script"]:
            note["example_script"] = a["example_script"]
        if a.get("replay"):
            note["replay"] = a["replay"]
            note["text"] += "; replay=%s" % a["replay"]
        notes.append(note)
    for t in agg["aborted"]:
        notes.append({"component": "fecDecoder", "clause": "(growth run incomplete)",
                      "text": "fecDecoder round-trip growth run incomplete: %s" % t})
    return notes


def dec_growth(ctx, rng):
    """The decoder growth: (M) design, (G) round-trip scripts, (exec + T) on the real encoder and decoder.  Returns (agg, notes)."""
    agg = dec_new_agg()
    try:
        if ctx.quick:
            vlib.model_check(ctx, "MC_FlexFecDec.tla", vlib.cfg_variant(ctx, "MC_FlexFecDec.cfg", {"Bases": "{65534}", "FBases": "{65535}"}),
                             workers=2, note="growth: decoder design, one batch, all k <= 4, n <= 3, every loss subset / arrival order / "
                                             "duplication, media and repair numbers wrapping")
        else:
            vlib.model_check(ctx, "MC_FlexFecDec.tla", vlib.cfg_variant(ctx, "MC_FlexFecDec.cfg", {"MaxK": 5, "MaxN": 4}), workers=4,
                             timeout=1200, note="growth: decoder design, one batch, all k <= 5, n <= 4, every loss subset / order / duplication")
            vlib.model_check(ctx, "MC_FlexFecDec.tla", vlib.cfg_variant(ctx, "MC_FlexFecDec.cfg", {
                "MaxK": 3, "MaxN": 2, "NB": 2, "Bases": "{65534}", "FBases": "{65535}"}),
                             workers=4, timeout=1200, note="growth: decoder design, two successive batches through one decoder")
            vlib.model_check(ctx, "MC_FlexFecDec.tla", "MC_FlexFecDec_lim.cfg", workers=4, timeout=1200,
                             note="growth: decoder design with scaled-down buffer limits (reset 3, 2 repair, keep 4, half space 15 of 64)")
            for inv in ("NoReset", "NoHalf", "NoFecFull", "NoMedFull", "NoGapNoReset"):
                vlib.model_check(ctx, "MC_FlexFecDec.tla", _dec_reach_cfg(ctx, inv), workers=2,
                                 expect_violation="Invariant %s is violated" % inv, note="growth: reachability control (limit mechanism fires)")
        vlib.model_check(ctx, "MC_FlexFecDec.tla", "MC_FlexFecDec_neg.cfg", workers=2,
                         expect_violation="Invariant NoWrongRecovery is violated",
                         note="growth: negative control - recovery attempted with two packets missing")
        # (G)
        if ctx.quick:
            singles = vlib.generate(ctx, "Gen_FlexFecDec.tla", vlib.cfg_variant(ctx, "Gen_FlexFecDec.cfg", {
                "Ks": DEC_KS_QUICK, "Bases": "{65530}"}), workers=2)
            multi = vlib.generate(ctx, "Gen_FlexFecDec.tla", vlib.cfg_variant(ctx, "Gen_FlexFecDec.cfg", {
                "Ks": "{2, 5}", "L": 2, "Bases": "{65530}", "OPs": "{0, 3, 4}", "LPs": "{1, 3, 5}"}), workers=2)
        else:
            singles = vlib.generate(ctx, "Gen_FlexFecDec.tla", "Gen_FlexFecDec.cfg", workers=4)
            multi = vlib.generate(ctx, "Gen_FlexFecDec.tla", vlib.cfg_variant(ctx, "Gen_FlexFecDec.cfg", {
                "Ks": "{2, 5, 16}", "L": 2, "Bases": "{65530}", "OPs": "{0, 1, 3, 4, 6}", "LPs": "{1, 3, 5, 7}"}), workers=4)
            multi += vlib.generate(ctx, "Gen_FlexFecDec.tla", vlib.cfg_variant(ctx, "Gen_FlexFecDec.cfg", {
                "Ks": "{4}", "L": 3, "Bases": "{65530}", "OPs": "{0, 4}", "LPs": "{3, 7}"}), workers=4)
        singles.sort(key=json.dumps)      # TLC's workers print in a varying order: keep the seeded selection reproducible
        multi.sort(key=json.dumps)
        small = [b[0] for b in singles if b[0]["k"] <= 6 and b[0]["op"] != 7]
        n_single, n_multi, n_long, len_long = (70, 16, 2, 80) if ctx.quick else (850, 200, 10, 120)
        # every (loss pattern, arrival order) pair at least once, the rest sampled
        by_lo = {}
        for b in singles:
            by_lo.setdefault((b[0]["lp"], b[0]["op"]), []).append(b)
        pick = [rng.choice(by_lo[k]) for k in sorted(by_lo)]
        pick = pick[:n_single] + rng.sample(singles, max(0, min(n_single - len(pick), len(singles))))
        scripts = []
        for b in pick:
            big = b[0]["k"] <= 5 and rng.random() < 0.04
            scripts.append(dec_script(rng, b, lens_for(rng, True) if big else LENS, rng.choice([0, 0, 0, 64530, 64534])))
        scripts += [dec_script(rng, b, LENS, rng.choice([0, 64530])) for b in rng.sample(multi, min(n_multi, len(multi)))]
        scripts += [dec_long_script(rng, small, len_long, rng.choice([0, 64500, 40000]), clean=i % 2 == 0) for i in range(n_long)]
        rng.shuffle(scripts)
        chunk = 400 if ctx.quick else 320
        for i in range(0, len(scripts), chunk):
            dec_run(ctx, scripts[i:i + chunk], "growthdec-%d" % (i // chunk), agg)
        dec_save_replays(ctx, agg)
    except vlib.Infra as e:       # the growth part never decides C14
        agg["aborted"].append("inconclusive: %s" % " ".join(str(e).split())[:500])
    return agg, dec_notes(agg)


def _dec_reach_cfg(ctx, inv):
    src = open(ctx.path("spec", "MC_FlexFecDec_reach.cfg")).read()
    name = "MC_FlexFecDec_reach_%s.cfg" % inv
    with open(ctx.path("spec", name), "w") as f:
        f.write(re.sub(r"INVARIANTS \w+", "INVARIANTS " + inv, src))
    return name


def dec_publish(ctx, agg, notes):
    """Notes and counts of the decoder growth into the evidence; encoder suspects through the C14 path proper."""
    if agg["traces"]:
        print("NOTE: growth C14/fecDecoder round trip (FlexFecDec.tla): %d of %d traces diverge in %d kinds (%d DecodeFec calls compared, "
              "%d recovered packets byte-identical to the original); the decoder is WIP/testing-only: notes, not verdicts" % (
                  agg["traces_diverged"], agg["traces"], len(agg["kinds"]), agg["calls"], agg["recovered_compared"]), flush=True)
    for n in notes[:8]:
        print("NOTE: growth C14/%s" % n["text"], flush=True)
    if len(notes) > 8:
        print("NOTE: growth C14/fecDecoder: %d more kinds of divergence in %d traces (all in coverage.growth_notes)" % (
            len(notes) - 8, sum(n.get("traces_diverging", 0) for n in notes[8:])), flush=True)
    for sc in agg["enc_suspects"][:6]:
        ctx.log("decoder growth: the specification's own recovery does not reproduce the original for a script: sending its batches "
                "through the C14 path (Trace_FlexFec)")
        run_batch(ctx, [dec_enc_script(sc)], "dec-encsuspect")
    ctx.cov["growth_notes"] = ctx.cov.get("growth_notes", []) + notes
    ctx.cov["growth_decoder"] = {
        "what": "fecDecoder (pkg/flexfec/flexfec_decoder_03.go, documented as WIP / testing only) and the round trip FlexEncoder03 -> "
                "lossy channel -> fecDecoder against spec/FlexFecDec.tla; behaviour C14 does not state - divergences are notes, not verdicts",
        "scripts": agg["scripts"], "traces_validated": agg["traces"], "events": agg["events"],
        "decode_calls_compared": agg["calls"], "of_which_media": agg["calls_media"], "of_which_repair": agg["calls_repair"],
        "of_which_header_error_cases": agg["calls_header_error_case"],
        "recovered_packets_compared_byte_for_byte": agg["recovered_compared"],
        "traces_agreeing_to_the_end": agg["traces_full"], "traces_diverging": agg["traces_diverged"],
        "encoder_suspects_sent_to_c14_path": len(agg["enc_suspects"]),
        "traces_in_which_a_spec_predicate_held_before_any_divergence": dict(sorted(agg["dev_traces"].items())),
        "divergence_kinds": [{"classes": list(k[0]), "after": list(k[1]), "traces": a["traces"]} for k, a in
                             sorted(agg["kinds"].items(), key=lambda kv: -kv[1]["traces"])],
    }


def dec_start(ctx):
    """Run the decoder growth concurrently with the C14 checks proper (own scratch context, own seeded stream)."""
    import threading
    child = vlib.Ctx(ctx.pid, ctx.tier, ctx.seed)
    child.replay_mode = getattr(ctx, "replay_mode", False)
    box = {}

    def work():
        try:
            box["res"] = dec_growth(child, random.Random(ctx.seed * 7919 + 14))
        except Exception as e:      # noqa: BLE001 - growth must never take the check down
            agg = dec_new_agg()
            agg["aborted"].append("inconclusive: %s: %s" % (type(e).__name__, " ".join(str(e).split())[:400]))
            box["res"] = (agg, dec_notes(agg))
    th = threading.Thread(target=work, daemon=True)
    th.start()
    return th, child, box


def dec_join(ctx, handle):
    th, child, box = handle
    th.join()
    for k in ("states", "transitions", "behaviours_generated"):
        ctx.cov[k] += child.cov[k]
    ctx.cov["model_runs"] += child.cov["model_runs"]
    agg, notes = box["res"]
    dec_publish(ctx, agg, notes)


def run(ctx):
    rng = random.Random(ctx.seed)
    dec = dec_start(ctx)      # growth: FlexFEC-03 decoder round trip, concurrently (notes only)
    # (M)
    if ctx.quick:
        vlib.model_check(ctx, "MC_FlexFec.tla", vlib.cfg_variant(ctx, "MC_FlexFec.cfg", {
            "MaxK": 4, "MaxN": 4, "MaxLen": 1, "Shapes": "{0, 1, 3}", "Bases": "{65534}"}))
    else:
        # all (k, n) with k <= 6, n <= 6: every batch over payloads of <= 2 bytes from {0, 255}
        vlib.model_check(ctx, "MC_FlexFec.tla", vlib.cfg_variant(ctx, "MC_FlexFec.cfg", {
            "MaxK": 6, "MaxN": 6, "MaxLen": 2, "Shapes": "{0}", "Bases": "{65534}"}), workers=12, timeout=3000)
        # header shapes (padding, CSRC, one-/two-byte extensions) x payloads of <= 3 bytes, k <= 3
        vlib.model_check(ctx, "MC_FlexFec.tla", vlib.cfg_variant(ctx, "MC_FlexFec.cfg", {
            "MaxK": 3, "MaxN": 3, "MaxLen": 3, "Shapes": "{0, 1, 2, 3}", "Bases": "{0, 65534}"}), workers=12, timeout=3000)
        # two shapes, k <= 6
        vlib.model_check(ctx, "MC_FlexFec.tla", vlib.cfg_variant(ctx, "MC_FlexFec.cfg", {
            "MaxK": 6, "MaxN": 6, "MaxLen": 1, "Shapes": "{1, 2}", "Bases": "{0}"}), workers=12, timeout=3000)
    if ctx.quick:   # every k, n at the coverage / mask-field boundaries (ALL n in the thorough tier)
        vlib.model_check(ctx, "MC_FlexFec.tla", vlib.cfg_variant(ctx, "MC_FlexFec_mask.cfg", {"MaskNs": QUICK_NS}),
                         note="coverage and mask fields for all k in 1..110, n at the boundaries, no payloads")
    else:
        vlib.model_check(ctx, "MC_FlexFec.tla", "MC_FlexFec_mask.cfg",
                         note="coverage and mask fields for ALL k in 1..110, n in 0..110, no payloads")
    if not ctx.quick:
        vlib.model_check(ctx, "MC_FlexFec.tla", "MC_FlexFec_neg.cfg", workers=2,
                         expect_violation="Invariant RecoveryOK is violated",
                         note="negative control: one timestamp bit not XORed -> recovery clause fails")
    self_check_wire(ctx, rng)

    # (G) single batches: the full boundary grid
    singles = gen(ctx, {"L": 1})
    singles.sort(key=json.dumps)      # TLC's workers print in a varying order: keep the seeded selection reproducible
    by_kn = {}
    for b in singles:
        by_kn.setdefault((b[0]["k"], b[0]["n"]), []).append(b[0])
    # (G) 2-3 successive batches through one encoder, later ones relative to the previous (k, n)
    multi = []
    for L, ks in ((2, "{15, 109}"), (3, "{5, 110}")) if ctx.quick else ((2, "{2, 15, 46, 109}"), (3, "{5, 16, 47, 110}")):
        multi += gen(ctx, {"L": L, "Ks": ks, "Bases": "{65530}", "SPs": "{1}", "LPs": "{1}"})

    multi.sort(key=json.dumps)
    if ctx.quick:
        n_single, n_multi, n_icpt, n_conc, n_big = 120, 30, 40, 8, 3
    else:
        n_single, n_multi, n_icpt, n_conc, n_big = len(singles), 900, 500, 60, 36
    pick = singles if n_single >= len(singles) else rng.sample(singles, n_single)
    scripts = [enc_script(rng, b) for b in pick]
    scripts += [enc_script(rng, b) for b in rng.sample(multi, min(n_multi, len(multi)))]
    # the interceptor: every (k, n) of the grid at least once in the thorough tier
    kns = sorted(by_kn)
    icpt_kn = kns if not ctx.quick else rng.sample(kns, n_icpt)
    while len(icpt_kn) < n_icpt:
        icpt_kn.append(rng.choice(kns))
    for kn in icpt_kn:
        scripts.append(icpt_script(rng, rng.choice(by_kn[kn]), rng.choice([1, 2, 3]), fec=rng.random() < 0.93))
    # large payloads (scratch buffer limit 1500: 1500-byte payloads take the allocation fallback)
    small_k = [b for b in singles if b[0]["k"] in (2, 5, 15, 16) and b[0]["n"] >= 1]
    for i in range(n_big):
        b = rng.choice(small_k)
        scripts.append(enc_script(rng, b, big=True) if i % 2 == 0 else icpt_script(rng, b[0], 2, big=True))
    # (T) scale: long seeded histories through one encoder / one bound stream
    n_long, len_long = (6, 12) if ctx.quick else (60, 40)
    for i in range(n_long):
        scripts.append(long_script(rng, len_long, "enc" if i % 3 else "icpt"))
    rng.shuffle(scripts)
    chunk = 200 if ctx.quick else 150
    for i in range(0, len(scripts), chunk):
        run_batch(ctx, scripts[i:i + chunk], "G-seq-%d" % (i // chunk))

    # concurrent streams on one interceptor, shared scratch pool, race detector on
    conc = []
    for _ in range(n_conc):
        kn = rng.choice([x for x in kns if x[0] <= 47 and x[1] >= 1])
        conc.append(icpt_script(rng, rng.choice(by_kn[kn]), rng.choice([2, 3]), level="conc", nstreams=4, others=by_kn[kn],
                                big=rng.random() < 0.1))
    run_batch(ctx, conc, "G-conc", race=True)

    # specification growth (RFC 8627 encoder): notes only
    growth(ctx, rng, singles, multi)
    # specification growth (FlexFEC-03 decoder, round trip): notes only; an encoder suspect goes through run_batch above
    dec_join(ctx, dec)

    ctx.assumptions += [
        "FlexFec.tla is the reading of the property: FlexFEC-03 header as implemented (R = F = 0, k-bit set on the last mask "
        "field, 15/31/63-bit masks = indices 0..108), a batch whose indices cannot all be named must not be accepted",
        "the wire form of a media packet is what pion/rtp v1.10.5 Marshal produces for (header, payload): padding octets before "
        "the count octet are zero; checked against pion/rtp on every run (wire-selfcheck)",
        "padding flag <=> PaddingSize >= 1 (the legacy form with the padding inside the payload cannot be marshalled by "
        "pion/rtp v1.10.5: the encoder then silently drops the repair packet; outside the quantifier)",
        "the first repair sequence number of an encoder is free; the repair timestamp is not constrained by the property",
        "concurrent level: one goroutine per stream; per-stream order of downstream writes is what is validated",
    ]
    compact_samples(ctx)
    return vlib.finish(ctx, "model_checking", RULE)


def replay(ctx, path):
    for sc in vlib.replay_scripts(path):
        if sc.get("level") == "dec":                # decoder growth scripts: notes only
            agg = dec_new_agg()
            dec_run(ctx, [sc], "growthdec-replay", agg)
            dec_publish(ctx, agg, dec_notes(agg))
            continue
        if sc.get("level", "").endswith("20"):      # growth scripts: notes only
            agg = {"batches": 0, "repairs": 0, "traces": 0, "events": 0, "batches_with_notes": 0, "clauses": {}, "aborted": []}
            growth_run(ctx, [sc], "growth20-replay", agg)
            for c, a in sorted(agg["clauses"].items()):
                print("NOTE: growth C14/FlexEncoder20 clause %s fails (%d repair packets) %s" % (c, a["repair_packets"], json.dumps(a["example"])))
            continue
        run_batch(ctx, [sc], "replay", race=sc.get("level") == "conc")
    compact_samples(ctx)
    return vlib.finish(ctx, "model_checking", RULE)

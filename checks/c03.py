"""C03 - NACK generator requests exactly the packets that are missing.
(M) MC_NackGen  (G) Gen_NackGen scripts -> real receiveLog / GeneratorInterceptor  (T) Trace_NackGen."""
import json
import random

import vlib

META = {
    "level": "model_checking",
    "text": "NackGen.tla is model checked exhaustively at scaled constants (all histories of <= 6-8 actions, two streams); "
            "TLC enumerates every boundary-alphabet behaviour at the real 2^16 modulus and the behaviours plus seeded random "
            "histories are executed on the real receiveLog and GeneratorInterceptor; every recorded trace must be a behaviour "
            "of the specification (each NACK set compared with the specification's set after every tick).",
    "note": "Trusted: the reading of the property in NackGen.tla; tick stepping through the verif gate (real 200us ticker); "
            "pion/rtcp NackPairs expansion. Schedules of concurrent readers vs. the loop are not enumerated here (C10).",
    "technique": "TLA+ spec + TLC model checking, TLC-generated behaviours replayed into the Go code, recorded traces validated by TLC",
    "design_ref": "DESIGN.md section 7 C03",
}

PKG = "pkg/nack"
HARNESS = ["zz_verif_nackgen_test.go"]
RULE = ("scripts = TLC-enumerated boundary-alphabet behaviours of Gen_NackGen at the real modulus (every sequence of L actions "
        "relative to the window edges, per configuration) + seeded random histories (loss bursts, reordering, duplicates, jumps, "
        "wrap, unbind/rebind, several SSRCs); each is executed on the real receiveLog and/or GeneratorInterceptor (ticks stepped "
        "through the verif gate) and the recorded trace is validated by TLC against Trace_NackGen. distinct_nontrivial = number "
        "of distinct recorded traces that contain at least one non-empty NACK/missing output.")


def random_script(rng, level, size, skip, mx, n):
    steps = []
    ssrcs = [1, 2, 3]
    pos = {}
    for s in ssrcs:
        b = {"a": "bind", "s": s, "nack": s != 3 or rng.random() < 0.5}
        if level == "icpt" and rng.random() < 0.5:      # other shapes of the negotiated feedback list
            b["fb"] = rng.choice(["plifirst", "nackfirst", "plionly", "other"])
        steps.append(b)
        pos[s] = rng.choice([0, 65500, 32760, rng.randrange(65536)])
    pending = {s: [] for s in ssrcs}
    for _ in range(n):
        r = rng.random()
        s = rng.choice(ssrcs[:2]) if rng.random() < 0.9 else ssrcs[2]
        if r < 0.70:
            pos[s] += 1
            q = rng.random()
            if q < 0.12:               # lost (maybe delivered late)
                if rng.random() < 0.6:
                    pending[s].append(pos[s])
                continue
            if q < 0.15:               # loss burst / jump
                pos[s] += rng.choice([2, 5, size // 2, size - 1, size, size + 1, 2 * size, 3000, 32766, 32767])
            steps.append({"a": "recv", "s": s, "w": pos[s] % 65536})
            if rng.random() < 0.05:
                steps.append({"a": "recv", "s": s, "w": pos[s] % 65536})   # duplicate
        elif r < 0.82 and pending[s]:
            w = pending[s].pop(rng.randrange(len(pending[s])))
            steps.append({"a": "recv", "s": s, "w": w % 65536})            # late arrival (maybe far outside the window)
        elif r < 0.84:
            steps.append({"a": "recv", "s": s, "w": (pos[s] - rng.choice([size - 1, size, size + 1, 2 * size, 40000])) % 65536})
        elif r < 0.96:
            steps.append({"a": "tick"})
        elif r < 0.97 and level == "icpt":
            # the stream is unbound, ANOTHER stream is bound afterwards, and stragglers are still read through the reader of
            # the unbound binding (numbers around the new stream's position): they must not touch any stream
            k = ssrcs.index(s)
            s2 = s + 10 if s + 10 < 60 else s
            if s2 != s:
                steps += [{"a": "unbind", "s": s}, {"a": "tick"}, {"a": "bind", "s": s2, "nack": True}]
                ssrcs[k] = s2
                pos[s2], pending[s2] = rng.choice([pos[s], rng.randrange(65536)]), []
                for d in (0, 1, 2, 4):
                    pos[s2] += 1
                    steps.append({"a": "recv", "s": s2, "w": (pos[s2] + d) % 65536})
                pos[s2] += 4
                for d in rng.sample([-6, -5, -3, -1, 1, 3, 40], 3):
                    steps.append({"a": "recv", "s": s, "w": (pos[s2] + d) % 65536, "stale": True})
                steps.append({"a": "tick"})
        elif r < 0.985:
            if rng.random() < 0.7:
                steps.append({"a": "unbind", "s": s})
                steps.append({"a": "tick"})
            steps.append({"a": "bind", "s": s, "nack": True})       # (without the unbind: bound again while bound - starts fresh)
            pending[s] = []
        else:
            steps.append({"a": "tick"})
            steps.append({"a": "tick"})
    steps.append({"a": "tick"})
    if level == "icpt" and rng.random() < 0.5:          # reads whose wrapped reader fails: passed up, nothing recorded
        extra = []
        for st in steps:
            extra.append(st)
            if st["a"] == "recv" and not st.get("stale") and rng.random() < 0.06:
                extra.append({"a": "recv", "s": st["s"], "w": (st["w"] + rng.choice([1, 2, 9, 300, 40000])) % 65536, "rfail": True})
        steps = extra
    if level == "icpt" and rng.random() < 0.5:          # the RTCP writer refuses the writes of some ticks
        steps = [dict(st, wfail=True) if st["a"] == "tick" and rng.random() < 0.2 else st for st in steps]
    sc = {"level": level, "size": size, "skip": skip, "max": mx, "steps": steps}
    if level == "icpt":
        sc["rev"] = rng.random() < 0.5                 # the options in the opposite order: the same configuration
        sc["twin"] = rng.random() < 0.3                # a second interceptor of the same factory with traffic of its own
    if level == "icpt" and rng.random() < 0.3:          # GeneratorStreamsFilter replaces the default feedback-list test
        sc["filt"] = rng.choice(["all", "odd", "none"])
    return sc


def cycle_script(rng, level, size, mx):
    """A number whose NACK count reached the limit is recovered; the stream then runs loss-free for a whole 2^16 cycle (ticks
    in between see nothing missing); the SAME wire number is lost again and must be requested again, `mx` times."""
    base = rng.choice([100, 65000, 33000])
    steps = [{"a": "bind", "s": 1, "nack": True}, {"a": "bind", "s": 2, "nack": True}]
    for i in range(5):
        steps.append({"a": "recv", "s": 1, "w": (base + i) % 65536})
    steps.append({"a": "recv", "s": 1, "w": (base + 6) % 65536})            # base + 5 is lost
    steps += [{"a": "tick"}] * (mx + 1)
    steps.append({"a": "recv", "s": 1, "w": (base + 5) % 65536})            # ... and recovered
    steps += [{"a": "tick"}, {"a": "recv", "s": 2, "w": 7}, {"a": "tick"}]
    for i in range(7, 65536 + 5):
        steps.append({"a": "recv", "s": 1, "w": (base + i) % 65536})
        if i % 9000 == 0:
            steps.append({"a": "tick"})
    steps.append({"a": "recv", "s": 1, "w": (base + 65536 + 6) % 65536})    # the same wire number is lost again
    steps += [{"a": "tick"}] * (mx + 2)
    return {"level": level, "size": size, "skip": 0, "max": mx, "steps": steps}


def full_window_script(rng, level, size):
    """The window completely in use: the oldest number of the window is missing (lastConsecutive = highest - size) and stays
    so while the stream advances - every number in between is still to be requested."""
    base = rng.choice([0, 65000, 33000])
    steps = [{"a": "bind", "s": 1, "nack": True}]

    def obs():
        steps.append({"a": "tick"} if level == "icpt" else {"a": "missing", "s": 1})
    for w in (0, 20000 % size + size // 2, size, size + 3, size + 4):
        steps.append({"a": "recv", "s": 1, "w": (base + w) % 65536})
        obs()
    for w in range(size + 5, size + 40):
        if w % 7:
            steps.append({"a": "recv", "s": 1, "w": (base + w) % 65536})
    obs()
    steps.append({"a": "recv", "s": 1, "w": (base + 2 * size - 1) % 65536})
    obs()
    return {"level": level, "size": size, "skip": 0, "max": 0, "steps": steps}


def run_batch(ctx, scripts, tag):
    return vlib.run_batch(ctx, tag=tag, scripts=scripts, pkg_rel=PKG, pkgname="nack", files=HARNESS,
                          test="TestVerifNackGenExec", trace_module="Trace_NackGen.tla",
                          nontrivial=lambda evs: any(e["a"] in ("tick", "missing") and e["out"] for e in evs))


def gen_scripts(ctx, size, skip, mx, base, L):
    cfg = vlib.cfg_variant(ctx, "Gen_NackGen.cfg", {"Size": size, "Skip": skip, "MaxN": mx, "Base": base, "L": L})
    beh = vlib.generate(ctx, "Gen_NackGen.tla", cfg)
    return [{"level": "log", "size": size, "skip": skip, "max": mx, "steps": b} for b in beh]


def run(ctx):
    rng = random.Random(ctx.seed)
    # (M)
    if ctx.quick:
        vlib.model_check(ctx, "MC_NackGen.tla", vlib.cfg_variant(ctx, "MC_NackGen.cfg", {"MaxSteps": 5}))
        vlib.model_check(ctx, "MC_NackGen.tla", vlib.cfg_variant(ctx, "MC_NackGen_nolimit.cfg", {"MaxSteps": 6}))
    else:
        vlib.model_check(ctx, "MC_NackGen.tla", vlib.cfg_variant(ctx, "MC_NackGen.cfg", {"MaxSteps": 7}), timeout=3000)
        vlib.model_check(ctx, "MC_NackGen.tla", vlib.cfg_variant(ctx, "MC_NackGen_nolimit.cfg", {"MaxSteps": 8}), timeout=3000)
    # implementation-shaped layer: bitmap ring + cursors refine NackGen for every history (negative controls: the two
    # window tests as they were before the repairs)
    for cfg in ("MC_NackGenRing.cfg", "MC_NackGenRing_skip.cfg", "MC_NackGenRing_half.cfg"):
        vlib.model_check(ctx, "MC_NackGenRing.tla", vlib.cfg_variant(ctx, cfg, {"MaxSteps": 5 if ctx.quick else 7}), workers=4, timeout=3000)
    vlib.model_check(ctx, "MC_NackGenRing.tla", "MC_NackGenRing_neg_alias.cfg", workers=2, expect_violation="Invariant Refines is violated",
                     note="negative control: a packet older than the window sets an aliased bitmap slot")
    vlib.model_check(ctx, "MC_NackGenRing.tla", "MC_NackGenRing_neg_span.cfg", workers=2, expect_violation="Invariant Refines is violated",
                     note="negative control: span test >= M/2 hides a full-span gap at Size = M/2")
    # (G) systematic, pure receiveLog
    if ctx.quick:
        confs = [(64, 0, 0, 65530, 3), (64, 1, 2, 0, 3), (128, 3, 1, 32760, 2)]
    else:
        confs = [(64, 0, 0, 65530, 4), (64, 1, 2, 0, 4), (128, 3, 1, 32760, 4), (512, 0, 0, 65000, 3),
                 (8192, 2, 0, 60000, 3), (32768, 0, 0, 100, 3), (32768, 1, 3, 65535, 3)]
    icpt_sample = []
    for (size, skip, mx, base, L) in confs:
        scripts = gen_scripts(ctx, size, skip, mx, base, L)
        run_batch(ctx, scripts, "G-log-%d-%d-%d" % (size, skip, mx))
        k = 150 if ctx.quick else 600
        for sc in rng.sample(scripts, min(k, len(scripts))):
            sc2 = dict(sc)
            sc2["level"] = "icpt"
            if rng.random() < 0.15:
                sc2["filt"] = rng.choice(["all", "odd"])
            icpt_sample.append(sc2)
    # (G) the same behaviours through the interceptor (stream filter, per-SSRC maps, tick loop, max-nack counters)
    run_batch(ctx, icpt_sample, "G-icpt")
    # (T) seeded random long histories
    nlog, nic, length = (40, 12, 400) if ctx.quick else (400, 120, 1500)
    sizes = [64, 128, 512] if ctx.quick else [64, 128, 256, 512, 1024, 2048]
    rs = []
    for i in range(nlog):
        rs.append(random_script(rng, "log", rng.choice(sizes), rng.choice([0, 0, 1, 3]), rng.choice([0, 0, 1, 2]), length))
    for i in range(nic):
        rs.append(random_script(rng, "icpt", rng.choice(sizes), rng.choice([0, 1, 3]), rng.choice([0, 1, 2, 3]), length // 2))
    big = [(8192, 300), (32768, 120)] if ctx.quick else [(4096, 1500), (8192, 1000), (16384, 600), (32768, 400)]
    for size, n in big:
        rs.append(random_script(rng, "log", size, rng.choice([0, 2]), 0, n))
        rs.append(random_script(rng, "icpt", size, rng.choice([0, 2]), rng.choice([0, 2]), n))
    for size in (32768, 8192, 64):       # the window completely in use (every run, not left to the sample)
        rs.append(full_window_script(rng, "log", size))
        rs.append(full_window_script(rng, "icpt", size))
    # windows larger than the default with MORE than the default window skipped, the options in either order
    for size, skip in ((1024, 600), (2048, 1500), (1024, 1023)) if ctx.quick else ((1024, 600), (2048, 1500), (1024, 1023), (4096, 513), (8192, 8000)):
        for rev in (False, True):
            sc = random_script(rng, "icpt", size, skip, rng.choice([0, 2]), 700)
            sc["rev"] = rev
            rs.append(sc)
    run_batch(ctx, [vlib.remap_ids(sc, rng.choice(vlib.SSRC_TABLES)) for sc in rs], "T-random")
    # (T) a whole sequence-number cycle without loss between two losses of the same wire number
    run_batch(ctx, [cycle_script(rng, "icpt", 64, rng.choice([1, 2]))] + ([] if ctx.quick else [cycle_script(rng, "icpt", 512, 3)]),
              "T-cycle")
    ctx.assumptions += [
        "the TLA+ module NackGen is the reading of the property (window = the `size` numbers up to the highest received; "
        "a wire number denotes the true number nearest to the highest, ties late; packets outside the window have no effect)",
        "interceptor-level ticks are stepped through the verif gate at the top of the ticker case; the real ticker interval is 200us",
        "Go toolchain go1.24.0 from the module cache, pion/rtcp v1.2.17 NackPairs expansion trusted",
    ]
    return vlib.finish(ctx, "model_checking", RULE)


def replay(ctx, path):
    run_batch(ctx, vlib.replay_scripts(path), "replay")
    return vlib.finish(ctx, "model_checking", RULE)

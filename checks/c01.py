"""C01 - media transparency of any chain of pass-through interceptors.
(M) MC_Chain: composition model (fold order, faults at the transport, injections interleaved at every hop).
(G) Gen_Chain: TLC enumerates chains (ordered selections of the 16 non-buffering member kinds) and traffic programs
    with fault positions; each is executed on the real Registry/Chain with recording endpoints.
(T) Trace_Chain validates every recorded trace.
(T, repotests) the executions of the repository's OWN test suite (every interceptor behind internal/test.MockStream) are recorded
    through the MockStream hooks and validated by Trace_Mock.tla (checks/c01_repotests.py): a failed transparency clause is a C01
    violation, failed clauses of other properties (C03-C08, C11, C14, C15, C17, C18) are NOTE lines."""
import json
import random

import c01_repotests
import vlib

META = {
    "level": "model_checking",
    "text": "Chain.tla (members as behaviour classes, one hop per step, injections and transport faults at every position, "
            "Close fan-out) is model checked exhaustively for all chains of length <= 3; TLC enumerates every ordered chain of "
            "up to two of the 16 real non-buffering interceptors, every 2-3 step traffic program with faults on every order of "
            "a rich chain, and seeded random longer chains/programs; each program runs on the real Registry.Build chain and "
            "the recorded trace (what reached the transport per call, return values, read results, injected feedback, "
            "Unbind/Close counts, Close errors) is validated by TLC. In addition the repository's own test suite is run once with a "
            "recorder on internal/test.MockStream and every execution of an interceptor in it is validated by TLC against the "
            "transparency clauses (Trace_Mock.tla, re-using Trace_Chain's operators).",
    "note": "Trusted: harness endpoints and packet classification (application packets are recognised by header identity, "
            "injected ones by arriving outside the call). Non-buffering members only (jitterbuffer, pacing, cc with the leaky "
            "bucket pacer excluded as the property says). Option settings are a table of settings that construct. "
            "'Not accounted in feedback' is checked as: injected RR/NACK/TWCC/CCFB name only numbers explainable by successful reads.",
    "technique": "TLA+ composition model checked with TLC; TLC-generated programs executed on the Go chain; recorded traces validated by TLC",
    "design_ref": "DESIGN.md section 7 C01",
}

RULE = ("program = (chain of member kinds with options, stream configuration, steps with transport faults). Chains: every ordered "
        "selection of <= 2 of 16 kinds (TLC), all orders of a 4-member rich chain x every L-step program (TLC), seeded random chains "
        "of length 3..8. distinct_nontrivial = distinct recorded traces with at least one application packet on the wire and one fault or injection.")

KINDS = ["noop", "probe", "nackgen", "nackresp", "rrecv", "rsend", "twccsend", "twcchdr", "rfc8888", "rtpfb", "stats",
         "pdrecv", "pdsend", "pli", "flexfec", "cc"]
ALPHA = ["wok", "wfail", "rok", "rfail", "cwok", "cwfail", "crnack", "crsr", "crfail"]


def member(rng, k, idx):
    o = {}
    if k == "probe":
        o = {"id": idx + 1, "closeerr": rng.choice([0, 1])}
    elif k == "nested":
        o = {"n": rng.choice([2, 3])}
    elif k == "nackgen":
        o = {"size": rng.choice([64, 512]), "skip": rng.choice([0, 1]), "max": rng.choice([0, 2]), "ivl": 1}
    elif k == "nackresp":
        o = {"size": rng.choice([8, 1024])}
    elif k in ("rrecv", "rsend", "twccsend", "rfc8888", "pli"):
        o = {"ivl": rng.choice([1, 2])}
        if k == "rsend":
            o["latest"] = rng.choice([0, 1])
    elif k == "flexfec":
        o = {"k": rng.choice([2, 3]), "n": 1}
    return {"k": k, "o": o}


def build_script(rng, chain, prog):
    members = [member(rng, k, i) for i, k in enumerate(chain)]
    twcc = rng.choice([7, 7, 0])
    L = {"a": "bindl", "s": 1, "nack": True, "twcc": twcc, "rtx": rng.random() < 0.5, "fec": rng.random() < 0.6}
    R = {"a": "bindm", "s": 2, "nack": True, "twcc": rng.choice([7, 7, 0]), "pli": True}
    steps = [{"a": "bindw"}, {"a": "bindr"}, L, R]
    locs, rems = [1], [2]
    if rng.random() < 0.5:       # a second local stream that negotiated differently (transport-cc / RTX / FEC / NACK)
        steps.append({"a": "bindl", "s": 3, "nack": rng.random() < 0.5, "twcc": 0 if twcc else 7, "rtx": rng.random() < 0.5,
                      "fec": rng.random() < 0.4})
        locs.append(3)
    if rng.random() < 0.4:       # a second remote stream
        steps.append({"a": "bindm", "s": 4, "nack": rng.random() < 0.5, "twcc": rng.choice([7, 0]), "pli": rng.random() < 0.5})
        rems.append(4)
    wseq = {1: rng.choice([100, 65000, 30000]), 3: rng.choice([7, 65530])}
    rseq = {2: rng.choice([200, 40000]), 4: rng.choice([9, 65533])}
    tw, ident = 500, 0
    sent = {1: [], 3: []}
    for a in prog:
        ident += 1
        ln, shape = rng.choice([0, 1, 7, 40, 200, 1200, 1460]), rng.choice([0, 0, 1, 2, 3, 5, 6, 7, 8, 9, 10, 11])
        ls, rs = rng.choice(locs), rng.choice(rems)
        if a in ("wok", "wfail"):
            wseq[ls] += 1
            steps.append({"a": "wrtp", "s": ls, "w": wseq[ls] % 65536, "id": ident, "len": ln, "shape": shape, "fail": a == "wfail"})
            if a == "wok":
                sent[ls].append(wseq[ls] % 65536)
        elif a == "rok":
            rseq[rs] += 1
            tw += 1
            steps.append({"a": "rrtp", "s": rs, "w": rseq[rs] % 65536, "id": ident, "len": ln, "shape": rng.choice([0, 1, 3]),
                          "tw": tw, "fail": False})
            if rng.random() < 0.3:      # leave a gap so that NACK/feedback generators have something to say
                rseq[rs] += 1
                tw += 1
        elif a == "rfail":               # the failed packet would be a jump ahead if it were accounted
            steps.append({"a": "rrtp", "s": rs, "w": (rseq[rs] + 7) % 65536, "id": ident, "len": ln, "shape": 0,
                          "tw": tw + 7, "fail": True})
        elif a in ("cwok", "cwfail"):
            steps.append({"a": "wrtcp", "s": rs, "kind": rng.choice(["pli", "sr", "nack"]), "nums": [5, 6], "id": ident,
                          "fail": a == "cwfail"})
        elif a == "crnack":
            nums = [rng.choice(sent[ls])] if sent[ls] else [wseq[ls] % 65536]
            steps.append({"a": "rrtcp", "s": ls, "kind": "nack", "nums": nums + [(wseq[ls] + 9) % 65536], "id": ident, "fail": False})
        elif a == "crsr":
            steps.append({"a": "rrtcp", "s": rs, "kind": "sr", "id": ident, "fail": False})
        elif a == "crfail":
            steps.append({"a": "rrtcp", "s": ls, "kind": "nack", "nums": [wseq[ls] % 65536], "id": ident, "fail": True})
        if rng.random() < 0.35:
            steps.append({"a": "wait", "ms": rng.choice([1, 3, 6])})
    steps += [{"a": "wait", "ms": 5}] + [{"a": "unbindl", "s": x} for x in locs] + [{"a": "unbindm", "s": x} for x in rems] + [{"a": "close"}]
    return {"members": members, "steps": steps, "settle": 10}


NEG_CHAINS = [[k] for k in KINDS] + [["cc", "twcchdr"], ["nackresp", "twcchdr"], ["twcchdr", "nackresp"], ["nackresp", "flexfec"],
                                     ["flexfec", "nackresp"], ["cc", "nackresp", "twcchdr"], ["rtpfb", "twcchdr"], ["stats", "cc", "twcchdr"],
                                     ["twccsend", "rfc8888", "nackgen", "rrecv"]]


def negotiation_script(rng, chain):
    """Streams that negotiated differently (transport-cc / RTX / FEC / NACK) side by side on one chain, bound one after the
    other with traffic on the earlier streams after every later bind, an unbind and a re-bind with another negotiation."""
    members = [member(rng, k, i) for i, k in enumerate(chain)]
    cc_alone = "cc" in chain and "twcchdr" not in chain[chain.index("cc"):]       # (known finding C01.CcNeedsTwccExt otherwise)

    def neg(twcc=None):
        t = rng.choice([0, 7]) if twcc is None else twcc
        return {"nack": rng.random() < 0.6, "twcc": 0 if cc_alone else t, "rtx": rng.random() < 0.5, "fec": rng.random() < 0.5}
    first = neg()
    cfg = {1: first, 3: neg(0 if first["twcc"] else 7), 5: neg()}
    steps = [{"a": "bindw"}, {"a": "bindr"}, {"a": "bindm", "s": 2, "nack": True, "twcc": 7, "pli": True}]
    wseq = {1: rng.choice([100, 65533]), 3: rng.choice([7, 30000]), 5: 65000}
    ident = [0]

    def write(s, n=1, shape=None):
        for _ in range(n):
            ident[0] += 1
            wseq[s] += 1
            steps.append({"a": "wrtp", "s": s, "w": wseq[s] % 65536, "id": ident[0], "len": rng.choice([0, 1, 40, 1200]),
                          "shape": rng.choice([0, 0, 1, 2, 3, 5, 6, 7, 8, 9, 10, 11]) if shape is None else shape, "fail": False})

    def nack(s):
        ident[0] += 1
        steps.append({"a": "rrtcp", "s": s, "kind": "nack", "nums": [wseq[s] % 65536, (wseq[s] - 1) % 65536], "id": ident[0], "fail": False})

    def read():
        ident[0] += 1
        steps.append({"a": "rrtp", "s": 2, "w": (200 + ident[0]) % 65536, "id": ident[0], "len": 30, "shape": 0, "tw": 500 + ident[0],
                      "fail": False})
    steps.append(dict({"a": "bindl", "s": 1}, **cfg[1]))
    write(1, 2)
    read()
    steps.append(dict({"a": "bindl", "s": 3}, **cfg[3]))
    write(1)
    write(3, 2)
    nack(1)
    steps.append(dict({"a": "bindl", "s": 5}, **cfg[5]))
    for s in rng.sample([1, 3, 5], 3):
        write(s)
    nack(3)
    read()
    for s in (1, 3, 5):          # every packet shape on every stream, whatever it negotiated (in every run, not left to the sample)
        for shape in (10, 11, 9, 7, 6, 3, 2, 1):
            write(s, shape=shape)
    steps.append({"a": "unbindl", "s": 3})
    write(1)
    write(5)
    steps.append(dict({"a": "bindl", "s": 3}, **neg(cfg[3]["twcc"] if rng.random() < 0.5 else None)))
    write(3, 2)
    write(1)
    nack(5)
    # the transport fails the chain's OWN feedback for a while (reports, NACKs, PLIs written by the interceptors): the
    # application's packets still pass, in both directions, while it fails and after it has recovered
    steps += [{"a": "wait", "ms": 3}, {"a": "failw", "ms": 1}, {"a": "wait", "ms": 5}]
    for _ in range(3):
        read()
    for s in (1, 3, 5):
        write(s)
    steps += [{"a": "failw", "ms": 0}, {"a": "wait", "ms": 3}]
    read()
    read()
    write(1)
    steps += [{"a": "wait", "ms": 3}, {"a": "unbindl", "s": 1}, {"a": "unbindl", "s": 3}, {"a": "unbindl", "s": 5},
              {"a": "unbindm", "s": 2}, {"a": "close"}]
    return {"members": members, "steps": steps, "settle": 10}


def nontrivial(evs):
    app = any(e["a"] == "wire" and e.get("app") for e in evs)
    other = any((e["a"] == "wire" and not e.get("app")) or e.get("fail") for e in evs)
    return app and other


def run_batch(ctx, scripts, tag):
    return vlib.run_batch(ctx, tag=tag, scripts=scripts, pkg_rel="", pkgname="interceptor_test",
                          files=["zz_verif_univ_test.go", "common:zz_verif_pkt_test.go.tpl"],
                          test="TestVerifUnivExec", trace_module="Trace_Chain.tla", nontrivial=nontrivial,
                          race=True, go_timeout=1500)


def random_prog(rng, n):
    return [rng.choice(ALPHA + ["wok", "wok", "rok", "rok"]) for _ in range(n)]


def run(ctx):
    rng = random.Random(ctx.seed)
    vlib.model_check(ctx, "MC_Chain.tla", "MC_Chain.cfg" if ctx.quick else "MC_Chain_deep.cfg", timeout=3000)
    # (G) every ordered chain of <= 2 members, each with a seeded traffic program
    chains = vlib.generate(ctx, "Gen_Chain.tla", "Gen_Chain.cfg", workers=4)
    scripts = [build_script(rng, c["chain"], random_prog(rng, 8)) for c in chains]
    if ctx.quick:
        scripts = rng.sample(scripts, 140)
    # a Chain as a member of the chain (its Close reports several errors) with failing members after it
    for chain in (["nested", "probe", "probe"], ["probe", "nested", "probe"], ["nested", "nested", "probe"], ["noop", "nested", "probe", "nackgen"]):
        sc = build_script(rng, chain, random_prog(rng, 4))
        for m in sc["members"]:
            if m["k"] == "probe":
                m["o"]["closeerr"] = 1
        scripts.append(sc)
    run_batch(ctx, scripts, "G-chains")
    # (G) every L-step program on every order of a rich chain
    L = 2 if ctx.quick else 3
    cfg = vlib.cfg_variant(ctx, "Gen_Chain_prog.cfg", {"L": L})
    progs = vlib.generate(ctx, "Gen_Chain.tla", cfg, workers=4)
    scripts = [build_script(rng, p["chain"], ["wok", "rok"] + p["prog"] + ["wok"]) for p in progs]
    if ctx.quick:
        scripts = rng.sample(scripts, 160)
    elif len(scripts) > 4000:
        scripts = rng.sample(scripts, 4000)
    run_batch(ctx, scripts, "G-programs")
    # (G) streams with different negotiation side by side, on every member alone and on the chains where members cooperate
    reps = 1 if ctx.quick else 6
    run_batch(ctx, [negotiation_script(rng, c) for c in NEG_CHAINS for _ in range(reps)], "G-negotiation")
    # the parse cache every member of a chain shares for one packet (attributes.go)
    vlib.model_check(ctx, "MC_Attributes.tla", "MC_Attributes.cfg", workers=2)
    seqs = vlib.generate(ctx, "Gen_Attributes.tla", vlib.cfg_variant(ctx, "Gen_Attributes.cfg", {"L": 4 if ctx.quick else 6}), workers=4)
    vlib.run_batch(ctx, tag="G-attributes", scripts=seqs, pkg_rel="", pkgname="interceptor", files=["zz_verif_attr_test.go"],
                   test="TestVerifAttrExec", trace_module="Trace_Attributes.tla",
                   nontrivial=lambda evs: any(e["a"] == "get" and e["err"] for e in evs))
    # (T) seeded random long chains
    n = 60 if ctx.quick else 600
    scripts = []
    for _ in range(n):
        chain = rng.sample(KINDS, rng.randrange(3, 9))
        if rng.random() < 0.3:
            chain.insert(rng.randrange(len(chain) + 1), "probe")
        scripts.append(build_script(rng, chain, random_prog(rng, rng.randrange(6, 16))))
    # the wire carries SSRCs that differ only in their low or only in their high half
    tbl = [None] + [{1: t[1], 2: t[2], 3: t[3], 4: t[9]} for t in vlib.SSRC_TABLES if t]
    scripts = [vlib.remap_ids(sc, rng.choice(tbl), keys=("s",)) for sc in scripts]
    run_batch(ctx, scripts, "T-random")
    # (T) the executions of the repository's own tests (MockStream hooks + Trace_Mock.tla)
    c01_repotests.run_stage(ctx)
    ctx.assumptions += [
        "application packets are recognised at the transport by header identity (all non-buffering members forward the caller's header object)",
        "feedback members run with 1-2 ms real tickers; the feedback checks are monotone (they hold for any tick timing)",
    ]
    return vlib.finish(ctx, "model_checking", RULE)


def replay(ctx, path):
    rep = json.load(open(path))
    if rep.get("kind") == "repotests":
        c01_repotests.replay(ctx, rep)
    else:
        run_batch(ctx, vlib.replay_scripts(path), "replay")
    return vlib.finish(ctx, "model_checking", RULE)

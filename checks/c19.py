"""C19 - Stream statistics equal a recount of the observed traffic.
(M) MC_Stats  (G) Gen_Stats scripts -> real stats.recorder / stats.Interceptor  (T) Trace_Stats."""
import hashlib
import json
import os
import random
import re

import vlib

META = {
    "level": "model_checking",
    "text": "Stats.tla (per-SSRC recount of RTP/RTCP traffic over an abstract RTCP syntax) is model checked exhaustively at "
            "scaled constants against a declarative recount over the complete event log (all histories of <= 3-5 events, "
            "two bound SSRCs and a foreign one) plus per-SSRC isolation; TLC enumerates every sequence of L events over a "
            "state-relative alphabet at the real 2^16 modulus and those behaviours, random walks over the same alphabet and "
            "seeded long mixed histories are executed on the real recorder and on the Interceptor (Bind*, SetNowFunc, Getter); "
            "every recorded Get result must be explained by the specification (integers exactly, float/time fields within 2 us). "
            "Specification growth (composition, no verdict of its own): RttLoop.tla composes SenderReport.tla, ReceiverReport.tla, "
            "Stats.tla and the middle form of Ntp.tla into the RTCP round-trip-time loop (A: sender reports + statistics, B: receiver "
            "reports, a network with arbitrary delays, re-ordering and loss, B's clock offset free) and is model checked for the "
            "end-to-end property 'reported RTT = d1 + d2 within [-u, 2u), u = 2^-16 s, or no measurement' with negative controls; "
            "TLC-enumerated and seeded scenarios at the real constants are executed on the REAL report.SenderInterceptor + "
            "stats.Interceptor and report.ReceiverInterceptor wired back to back (harness/zz_verif_rttloop_test.go) and every hop's "
            "logged output is validated by TLC (Trace_RttLoop). Only a disagreement between the statistics and Stats.tla's own "
            "expectation for the LOGGED LSR/DLSR is a C19 verdict; a wrong SR time, LSR or DLSR is a NOTE naming the hop.",
    "note": "Trusted: the reading of the property in Stats.tla; pion/rtcp and pion/rtp marshalling; the harness' exact integer NTP "
            "conversion. Inbound jitter is not compared (not stated). Remote-outbound sender figures and the set of sender reports "
            "an LSR may echo follow the code's DestinationSSRC matching (not stated by the property). Concurrency is C10. "
            "RTT loop: both clocks run at the same rate on whole milliseconds; the statistics interceptor is registered before the "
            "sender-report interceptor (otherwise it never sees the sender reports); the DLRR side of B is scripted (the library "
            "has no RRTR/DLRR generator), its delay value is computed by TLC from ReceiverReport.tla.",
    "technique": "TLA+ spec + TLC model checking, TLC-generated behaviours replayed into the Go code, recorded traces validated by TLC",
    "design_ref": "DESIGN.md section 7 C19",
}

PKG = "pkg/stats"
HARNESS = ["zz_verif_stats_test.go"]
RULE = ("scripts = TLC-enumerated behaviours of Gen_Stats at the real modulus (every sequence of L events over a 28-letter alphabet "
        "relative to the specification state: sequence-number distances to the last packet incl. the half-range edge and the floor "
        "at zero, references to the newest/oldest/unknown remembered SR and RRTR time, mixed compounds addressed to the stream under "
        "test, a second bound stream and a foreign SSRC) + TLC random walks over the same alphabet + seeded random long histories "
        "(loss, duplicates, reordering, wrap, late bind, 3 bound SSRCs + foreign ones, compounds of 1-5 packets in any order); each "
        "is executed on the real recorder ('rec') or through the Interceptor ('icpt') and every Get result is validated by TLC "
        "against Trace_Stats. distinct_nontrivial = number of distinct recorded traces (hashed without the level, so a script "
        "run on both levels counts once) in which some Get shows more than packet/byte counting: a non-zero loss figure, a "
        "NACK/PLI/FIR counter, an applied remote report or a round-trip measurement. Growth (coverage.growth.rttloop, "
        "growth_notes; runs beside the above): scenarios of the RTT loop enumerated by TLC from Gen_RttLoop at the real constants + "
        "seeded and hand-written ones, executed on the real sender-report + statistics and receiver-report interceptors wired back "
        "to back, every hop validated by Trace_RttLoop.")

ZERO = dict(s=0, p=0, w=0, hl=0, pl=0, now=0, rate=0, d="", pk=[])


def step(a, **kw):
    e = dict(ZERO)
    e["a"] = a
    e.update(kw)
    return e


def rep(s, lost=0, frac=0, hi=0, jit=0, lsr=-1, dlsr=0):
    return dict(s=s, lost=lost, frac=frac, hi=hi, jit=jit, lsr=lsr, dlsr=dlsr)


def pkt(t, ss=0, ms=0, n=0, ntp=-1, pc=0, oc=0, rp=()):
    return dict(t=t, ss=ss, ms=ms, n=n, ntp=ntp, pc=pc, oc=oc, rp=list(rp))


HEADER_LENS = [12, 12, 12, 16, 20, 24, 72, 80, 84, 92]
RATES = [8000, 48000, 90000]
FOREIGN = [9, 77]


def random_script(rng, level, n):
    """A long mixed history.  Only *chooses* traffic (which SR time an LSR echoes etc.); nothing here predicts a counter."""
    bound = [1, 2, 3]
    late = rng.choice([None, 3, 3, 2])           # bound only in the middle of the history
    steps = []
    dirs = {}
    now = rng.choice([0, 1, 1000])

    def bind(s):
        order = rng.choice([["l", "r"], ["r", "l"], ["l"], ["r"]])
        rate = rng.choice(RATES)
        dirs[s] = set(order)
        for d in order:
            steps.append(step("bind", s=s, rate=rate if rng.random() < 0.9 else rng.choice(RATES), d=d))

    for s in bound:
        if s != late:
            bind(s)
    if not any("r" in dirs[s] for s in dirs):
        s = rng.choice(list(dirs))
        dirs[s].add("r")
        steps.append(step("bind", s=s, rate=90000, d="r"))
    if not any("l" in dirs[s] for s in dirs):
        s = rng.choice(list(dirs))
        dirs[s].add("l")
        steps.append(step("bind", s=s, rate=90000, d="l"))
    inseq = {s: rng.choice([0, 1, 3, 65530, 65535, 32760, rng.randrange(65536)]) for s in bound}
    outseq = {s: rng.choice([0, 65535, 65000, rng.randrange(65536)]) for s in bound}
    sent = {s: 0 for s in bound}
    sr_times = {s: [] for s in bound + FOREIGN}
    rrtr_times = []
    everyone = bound + FOREIGN

    def target():
        return rng.choice(bound) if rng.random() < 0.8 else rng.choice(FOREIGN)

    def echo(times):
        r = rng.random()
        if not times or r < 0.1:
            return rng.choice([-1, -1, max(now - 3, 0), 12345])
        if r < 0.6:
            return times[-1]
        if r < 0.85:
            return rng.choice(times[-5:])
        return rng.choice(times)             # possibly evicted

    def delay():
        return rng.choice([0, 1, 7, 655, 1024, 1025, 6554, 65536, 131072, rng.randrange(1, 131073)])

    def reports(k):
        out = []
        for _ in range(k):
            s = target()
            hi = (outseq.get(s, 0) + sent.get(s, 0) + rng.choice([-1, 0, 0, 1, 65536, 131072, -70000])) if s in outseq else 5
            out.append(rep(s, lost=rng.choice([0, 0, 1, 3, 200, 70000, 16777215]), frac=rng.choice([0, 1, 64, 128, 255, rng.randrange(256)]),
                           hi=max(hi, 0), jit=rng.choice([0, 1, 90, 900, 4800, 99999]), lsr=echo(sr_times.get(s, [])), dlsr=delay()))
        return out

    def feedback(ss_pool):
        t = rng.choice(["nack", "nack", "pli", "fir"])
        ss = rng.choice(ss_pool)
        if t == "nack":
            return pkt("nack", ss=ss, ms=target(), n=rng.choice([1, 1, 2, 17, 40]))
        if t == "pli":
            return pkt("pli", ss=ss, ms=target())
        ents = [rep(target()) for _ in range(rng.choice([1, 1, 2, 3]))]
        ms = rng.choice([0, 0, ents[0]["s"], target()])
        return pkt("fir", ss=ss, ms=ms, rp=ents)

    for i in range(n):
        now += rng.choice([0, 0, 1, 1, 2, 5, 20])
        if late is not None and i == n // 2:
            bind(late)
            late = None
        if level == "icpt" and i in (n // 3, 2 * n // 3) and rng.random() < 0.6:
            # a stream is unbound and bound again (a replaced track): the statistics stay a recount of everything observed
            s = rng.choice([x for x in dirs if dirs[x]])
            d = rng.choice(sorted(dirs[s]))
            steps.append(step("unbind", s=s, rate=rng.choice(RATES), d=d))
            if rng.random() < 0.8 or sum(1 for x in dirs if d in dirs[x]) < 2:
                steps.append(step("bind", s=s, rate=rng.choice(RATES), d=d))
            else:
                dirs[s].discard(d)
        r = rng.random()
        readers = [s for s in dirs if "r" in dirs[s]]
        writers = [s for s in dirs if "l" in dirs[s]]
        if r < 0.33:
            s = rng.choice(readers)
            q = rng.random()
            if q < 0.70:
                inseq[s] += 1
            elif q < 0.78:
                inseq[s] += rng.choice([2, 3, 5, 30])
            elif q < 0.84:
                pass                                                     # duplicate
            elif q < 0.93:
                w = (inseq[s] - rng.choice([1, 2, 3, 10])) % 65536       # late / reordered, the head does not move
                steps.append(step("irtp", s=s, p=s, w=w, hl=rng.choice(HEADER_LENS), pl=rng.choice([0, 1, 100, 1200]), now=now))
                continue
            else:
                inseq[s] += rng.choice([100, 3000, 32767, 32768, 32769, 40000, 65535])
            p = s if rng.random() < 0.96 else rng.choice([x for x in everyone if x != s])
            steps.append(step("irtp", s=s, p=p, w=inseq[s] % 65536, hl=rng.choice(HEADER_LENS), pl=rng.choice([0, 1, 100, 1200]), now=now))
        elif r < 0.52:
            s = rng.choice(writers)
            p = s if rng.random() < 0.96 else rng.choice([x for x in everyone if x != s])
            w = (outseq[s] + sent[s]) % 65536
            if p == s:
                sent[s] += 1
            steps.append(step("ortp", s=s, p=p, w=w, hl=rng.choice(HEADER_LENS), pl=rng.choice([0, 1, 100, 1200]), now=now))
        elif r < 0.72:
            pk = []
            for _ in range(rng.choice([1, 1, 2, 3, 4, 5])):
                q = rng.random()
                if q < 0.30:
                    pk.append(pkt("rr", ss=rng.choice(FOREIGN), rp=reports(rng.choice([0, 1, 1, 2, 3]))))
                elif q < 0.45:
                    pk.append(pkt("sr", ss=rng.choice(everyone), ntp=max(now - rng.choice([0, 1, 5]), 0), pc=rng.randrange(100000),
                                  oc=rng.randrange(10000000), rp=reports(rng.choice([0, 0, 1, 2]))))
                elif q < 0.65:
                    subs = [rep(target(), lsr=echo(rrtr_times), dlsr=delay()) for _ in range(rng.choice([0, 1, 1, 2, 3]))]
                    pk.append(pkt("xr", ss=rng.choice(everyone), n=rng.randrange(4), ntp=rng.choice([-1, -1, now]), rp=subs))
                else:
                    pk.append(feedback(everyone))
            steps.append(step("ircp", now=now, pk=pk))
        elif r < 0.88:
            pk = []
            for _ in range(rng.choice([1, 1, 2, 3, 4])):
                q = rng.random()
                if q < 0.30:
                    ss = rng.choice(bound) if rng.random() < 0.85 else rng.choice(FOREIGN)
                    t = now if rng.random() < 0.9 else max(now - 1, 0)
                    rp = reports(rng.choice([0, 0, 0, 1, 2]))
                    pk.append(pkt("sr", ss=ss, ntp=t, pc=sent.get(ss, 0), oc=100 * sent.get(ss, 0), rp=rp))
                    for s in {ss} | {x["s"] for x in rp}:
                        sr_times.setdefault(s, []).append(t)
                elif q < 0.40:
                    pk.append(pkt("rr", ss=rng.choice(bound), rp=reports(rng.choice([0, 1, 2]))))
                elif q < 0.62:
                    has = rng.random() < 0.85
                    subs = [rep(target(), lsr=echo(rrtr_times), dlsr=delay()) for _ in range(rng.choice([0, 0, 1]))]
                    pk.append(pkt("xr", ss=rng.choice(everyone), n=rng.randrange(4), ntp=now if has else -1, rp=subs))
                    if has:
                        rrtr_times.append(now)
                else:
                    pk.append(feedback(bound))
            steps.append(step("orcp", now=now, pk=pk))
            srs = [x for x in pk if x.get("t") == "sr" and x.get("ss") in bound] if level == "icpt" else []
            if srs and rng.random() < 0.5:
                # the remote end answers at once: the RR that echoes this SR is read while the transport is still inside the
                # Write of the SR (slow transport, reader on another goroutine) - the SR counts as sent all the same
                now += rng.choice([1, 20, 500])
                x = srs[-1]
                echo_rr = pkt("rr", ss=rng.choice(FOREIGN), rp=[rep(x["ss"], lost=0, frac=0, hi=5, jit=0, lsr=x["ntp"], dlsr=delay())])
                steps.append(dict(step("ircp", now=now, pk=[echo_rr]), inw=True))
                steps.append(step("get", s=x["ss"]))
        else:
            steps.append(step("get", s=rng.choice(everyone)))
    for s in everyone[:4]:
        steps.append(step("get", s=s))
    return {"level": level, "steps": steps}


def nontrivial(evs):
    """Some Get shows more than plain packet/byte counting: a loss figure, a feedback counter, an applied remote report
    or a round-trip measurement."""
    for e in evs:
        if e["a"] == "get" and not e["nil"]:
            o = e["out"]
            if (o["ipl"] or o["inack"] or o["ipli"] or o["ifir"] or o["onack"] or o["opli"] or o["ofir"]
                    or o["rn"] or o["sm"] or o["sn"] or o["rpl"] or o["rfrac"]):
                return True
    return False


CHUNK = 5000   # scripts per Go run / TLC validation (the validator holds the whole trace in memory)
SEEN = set()   # hashes of the distinct non-trivial recorded traces of this run (level-independent: reset event excluded)


def run_batch(ctx, scripts, tag):
    for i in range(0, len(scripts), CHUNK):
        part = scripts[i:i + CHUNK]
        events = vlib.run_batch(ctx, tag=tag if len(scripts) <= CHUNK else "%s-%d" % (tag, i // CHUNK), scripts=part,
                                pkg_rel=PKG, pkgname="stats", files=HARNESS, test="TestVerifStatsExec",
                                trace_module="Trace_Stats.tla")
        for _, evs in vlib.split_traces(events or []):
            if nontrivial(evs):
                SEEN.add(hashlib.sha1(json.dumps(evs[1:], sort_keys=True).encode()).hexdigest())


def gen_scripts(ctx, base, obase, pre, L, level="rec", simulate=None):
    if simulate:
        cfg = vlib.cfg_variant(ctx, "Gen_Stats_sim.cfg", {"Base": base, "OBase": obase, "Pre": pre, "L": L})
        beh = vlib.generate(ctx, "Gen_Stats.tla", cfg, simulate=(simulate, 2 * L + 2))
    else:
        cfg = vlib.cfg_variant(ctx, "Gen_Stats.cfg", {"Base": base, "OBase": obase, "Pre": pre, "L": L})
        beh = vlib.generate(ctx, "Gen_Stats.tla", cfg)
    return [{"level": level, "steps": b} for b in beh]


def as_level(scripts, level):
    return [dict(sc, level=level) for sc in scripts]


# ------------------------------------------------------------------------------------------ specification growth
# The RTCP round-trip-time loop as one specification (spec/RttLoop.tla): the four hop specifications (SenderReport, ReceiverReport,
# Stats, the middle form of Ntp) composed, model checked for the end-to-end property, and bound to the real interceptors wired
# back to back (harness/zz_verif_rttloop_test.go, validated by spec/Trace_RttLoop.tla).  Growth never decides on its own:
#   hop "C19"  the statistics disagree with Stats.tla's OWN single-hop expectation for the logged LSR/DLSR (LastRR/DLRR) - that is
#              what C19 states, so it goes through C19's verdict path (VIOLATION + replay);
#   hop "C07" / "C06" / "LOOP"  the SR's NTP time, B's LSR/DLSR, or the end-to-end figure looks wrong while the statistics are
#              consistent with what they were given: a NOTE naming the hop, so that the right property's check can be strengthened;
#   hop "HARNESS"  the recorded forms are inconsistent with each other: infrastructure (exit 2).

RL_FILES = ["zz_verif_rttloop_test.go"]
RL_HOP_TEXT = {
    "C07": "the NTP time of a sender report written by report.SenderInterceptor is not the one SenderReport.tla states for the "
           "clock reading of the tick (C07 / C20 matter)",
    "C06": "LSR / DLSR of a receiver report written by report.ReceiverInterceptor are not what ReceiverReport.tla accepts for the "
           "sender report B was handed and B's clock (C06 matter)",
    "LOOP": "every hop's output was accepted by its own specification but the reported round-trip time is not d1 + d2 within the "
            "wire resolution (the composition RttLoop.tla itself is wrong: check MC_RttLoop)",
    "CRASH": "the real interceptors panicked / did not return while carrying a well-formed RTCP loop",
}
_RL = re.compile(r'<<\s*"RTTLOOP",\s*(\d+),\s*"([A-Z0-9]+)"')


def rl_step(a, i=0, ta=0, tb=0, v=0, h=0):
    return dict(a=a, i=i, ta=ta, tb=tb, v=v, h=h)


def rl_random_script(rng):
    """A seeded scenario: only CHOOSES traffic and instants (arbitrary millisecond values, several reports in flight, re-ordering,
    loss, both report pairs mixed).  The DLRR value of a dxr step is B's extended-report side, which the library does not have:
    Trace_RttLoop checks it against ReceiverReport.tla before using it."""
    wrapin = rng.choice([rng.randrange(1, 65536), rng.randrange(1, 8), 30000])
    off = rng.choice([0, -3000, 86400000, rng.randrange(-10 ** 9, 10 ** 9)])
    now = rng.choice([0, 0, 17, 400])
    steps, undelivered, inflight, xr_at = [], [], [], []
    nsr = nrr = 0
    for _ in range(rng.randrange(6, 40)):
        now += rng.choice([0, 1, 1, 2, 7, 15, 16, 20, 100, 250, 999, 1000, 1001, rng.randrange(3000), rng.randrange(20000)])
        if now > 40000:      # (the totals of a scenario stay far below 2^31 us)
            break
        acts = ["sr"] * 3 + ["rr"] * 3 + ["xr"]
        acts += ["dsr"] * 4 if undelivered else []
        acts += ["drr"] * 4 + ["lose"] if inflight else []
        acts += ["dxr"] * 2 if xr_at else []
        a = rng.choice(acts)
        if a == "sr":
            nsr += 1
            undelivered.append(nsr)
            steps.append(rl_step("sr", nsr, ta=now))
        elif a == "dsr":
            i = undelivered.pop(rng.choice([0, 0, -1, rng.randrange(len(undelivered))]))
            steps.append(rl_step("dsr", i, tb=now + off))
        elif a == "rr":
            nrr += 1
            inflight.append(nrr)
            steps.append(rl_step("rr", nrr, tb=now + off))
        elif a == "drr":
            j = inflight.pop(rng.choice([0, 0, -1, rng.randrange(len(inflight))]))
            steps.append(rl_step("drr", j, ta=now))
        elif a == "lose":
            inflight.pop(rng.randrange(len(inflight)))
        elif a == "xr":
            xr_at.append(now)
            steps.append(rl_step("xr", len(xr_at), ta=now))
        else:
            i = rng.choice([len(xr_at), len(xr_at), max(1, len(xr_at) - 4), max(1, len(xr_at) - 5), rng.randrange(1, len(xr_at) + 1)])
            room = now - xr_at[i - 1]
            h = min(room, rng.choice([0, 1, 15, 16, 999, 1000, 1001, rng.randrange(room + 1)]))
            steps.append(rl_step("dxr", i, ta=now, v=h * 65536 // 1000, h=h))
    while inflight and rng.random() < 0.8:
        now += rng.choice([0, 1, 30, 1000])
        steps.append(rl_step("drr", inflight.pop(0), ta=now))
    return {"wrapin": wrapin, "steps": steps}


def rl_special_scripts():
    """Hand-written corner scenarios the alphabets do not reach."""
    w = 65536000          # the middle form repeats after this many ms
    return [
        # two remembered SRs exactly 65536 s apart: the RR names the first, on the wire it names both (aliasing; no LOOP claim)
        {"wrapin": 30000, "steps": [rl_step("sr", 1, ta=0), rl_step("dsr", 1, tb=5), rl_step("rr", 1, tb=10),
                                    rl_step("sr", 2, ta=w), rl_step("drr", 1, ta=w + 10)]},
        # an SR stamped in the very millisecond of the zero, one before, one after; each echoed
        {"wrapin": 3, "steps": [rl_step("sr", 1, ta=2999), rl_step("sr", 2, ta=3000), rl_step("sr", 3, ta=3001),
                                rl_step("dsr", 1, tb=3010), rl_step("rr", 1, tb=3020), rl_step("drr", 1, ta=3030),
                                rl_step("dsr", 2, tb=3040), rl_step("rr", 2, tb=3050), rl_step("drr", 2, ta=3060),
                                rl_step("dsr", 3, tb=3070), rl_step("rr", 3, tb=3080), rl_step("drr", 3, ta=3090)]},
        # a hold of half an hour (DLSR near 1.2e8 units), both pairs
        {"wrapin": 900, "steps": [rl_step("sr", 1, ta=0), rl_step("dsr", 1, tb=40), rl_step("xr", 1, ta=50),
                                  rl_step("rr", 1, tb=1800040), rl_step("drr", 1, ta=1800100),
                                  rl_step("dxr", 1, ta=1800200, v=1800000 * 65536 // 1000, h=1800000)]},
        # registration order: behind the sender-report interceptor the statistics never see an SR leave - the loop stays open
        {"wrapin": 30000, "sf": 1, "steps": [rl_step("sr", 1, ta=0), rl_step("dsr", 1, tb=5), rl_step("rr", 1, tb=1005),
                                             rl_step("drr", 1, ta=1010), rl_step("xr", 1, ta=1020),
                                             rl_step("dxr", 1, ta=1100, v=50 * 65536 // 1000, h=50)]},
        # the same RR delivered twice (duplication on the network): two measurements
        {"wrapin": 30000, "steps": [rl_step("sr", 1, ta=0), rl_step("dsr", 1, tb=7), rl_step("rr", 1, tb=1007),
                                    rl_step("drr", 1, ta=1010), rl_step("drr", 1, ta=1500)]},
    ]


def rl_cov(ctx):
    return ctx.cov.setdefault("growth", {"rttloop": {"scripts": 0, "events": 0, "reports_reaching_A": 0, "measurements": 0,
                                                     "no_measurement": 0, "diverging_traces": {}}})["rttloop"]


def rl_batch(ctx, scripts, tag):
    """Execute RTT-loop scripts on the real interceptors and validate every hop with Trace_RttLoop.  Returns the hops that diverged."""
    if not scripts:
        return set()
    safe = re.sub(r"[^A-Za-z0-9_.-]", "_", tag)
    inp, outp = ctx.path("%s-%s.in" % (ctx.pid, safe)), ctx.path("%s-%s.trace" % (ctx.pid, safe))
    vlib.write_ndjson(inp, scripts)
    ov = vlib.overlay(ctx, vlib.harness_files("", "interceptor_test", RL_FILES), name="overlay-%s.json" % safe)
    rc, out = vlib.go_test(ctx, "", ov, "^TestVerifRttLoopExec$", env={"VERIF_IN": inp, "VERIF_OUT": outp, "VERIF_SEED": ctx.seed},
                           timeout=900)
    if "VERIF-INFRA" in out:
        raise vlib.Infra("harness error in TestVerifRttLoopExec:\n%s" % out[-2500:])
    events = vlib.read_ndjson(outp) if os.path.exists(outp) else []
    g = rl_cov(ctx)
    g["scripts"] += len(scripts)
    notes = ctx.cov.setdefault("growth_notes", [])
    hops = set()

    def note(hop, what, script, extra):
        hops.add(hop)
        g["diverging_traces"][hop] = g["diverging_traces"].get(hop, 0) + 1
        if any(n.startswith("growth/rttloop-%s:" % hop) for n in notes):
            return
        rp = "(replay run)" if getattr(ctx, "replay_mode", False) else vlib.save_replay(
            ctx, dict(extra, property=ctx.pid, kind="rttloop-" + hop, what=what, script=script, seed=ctx.seed))
        notes.append("growth/rttloop-%s: %s; first: %s; replay=%s" % (hop, RL_HOP_TEXT[hop], what[:900], rp))

    if rc != 0:
        nres = sum(1 for e in events if e.get("a") == "reset")
        culprit = scripts[nres - 1] if 0 < nres <= len(scripts) else None
        m = re.search(r"(panic:.*|fatal error:.*|test timed out.*|--- FAIL.*)", out)
        note("CRASH", (m.group(1)[:300] if m else "go test failed"), culprit, {"go_output": out[-6000:]})
        return hops
    v = vlib.validate(ctx, "Trace_RttLoop.tla", outp, timeout=1800)
    if v.hw != v.n + 1 or "Error:" in v.out:
        raise vlib.Infra("RTT-loop trace validator did not consume the trace (%s):\n%s" % (tag, v.out[-2500:]))
    g["events"] += v.n
    traces = vlib.split_traces(events)
    for _, evs in traces:
        last = 0, 0
        for e in evs:
            if e["a"] in ("drr", "dxr") and e.get("out"):
                g["reports_reaching_A"] += 1
                cur = e["out"]["rn"], e["out"]["sm"]
                g["measurements" if cur != last else "no_measurement"] += 1
                last = cur
    seen_traces = set()
    for m in _RL.finditer(v.out):
        line, hop = int(m.group(1)), m.group(2)
        txt = v.out[m.start():m.start() + 3000]
        end = txt.find("\n<<", 3)
        txt = " ".join((txt[:end] if end > 0 else txt).split())[:1200]
        idx = max(i for i, (start, _) in enumerate(traces) if start + 1 <= line)
        if idx in seen_traces:
            continue
        seen_traces.add(idx)
        tr, off = traces[idx][1], line - 1 - traces[idx][0]
        what = "event #%d %s; TLC: %s" % (off, json.dumps(tr[off])[:400], txt)
        if hop == "HARNESS":
            raise vlib.Infra("RTT-loop harness logged inconsistent forms (%s): %s" % (tag, what))
        if hop == "C19":
            # the single-hop expectation of Stats.tla, fed with the LSR/DLSR that were on the wire, disagrees with the code
            hops.add(hop)
            g["diverging_traces"][hop] = g["diverging_traces"].get(hop, 0) + 1
            if len([1 for w_, _ in ctx.violations if w_.startswith("RTT loop")]) < 6:
                vlib.report_violation(ctx, "RTT loop (%s): the statistics after a report disagree with Stats.tla fed with the logged "
                                      "LSR/DLSR: %s" % (tag, what),
                                      {"kind": "rttloop", "script": scripts[idx], "trace": tr[:off + 1], "failing_event_index": off,
                                       "tlc": txt})
        else:
            note(hop, what, scripts[idx], {"trace": tr[:off + 1], "failing_event_index": off, "tlc": txt})
    ctx.log("(T) %s: %d RTT-loop traces / %d events validated in %.1fs, diverging hops: %s" % (
        tag, len(traces), v.n, v.wall, sorted(hops) or "none"))
    if traces:
        vlib.add_samples(ctx, [traces[len(traces) // 2][1][:12]], 1)
    return hops


def rl_print_notes(ctx):
    for note in ctx.cov.get("growth_notes", []):
        print("NOTE: property=%s %s" % (ctx.pid, note), flush=True)


def rtt_loop(ctx, rng):
    quick = ctx.quick
    mc = "MC_RttLoop.tla"

    def cfg(**kw):
        return vlib.cfg_variant(ctx, "MC_RttLoop.cfg", {k: str(v).replace("'", '"') for k, v in kw.items()})
    # (M) the composition has the end-to-end property
    vlib.model_check(ctx, mc, "MC_RttLoop.cfg", workers=4,
                     note="RR pair, K=1, 2 SRs / 1 RR in flight, DLSR +-1, wrap after 2 s: LoopOK, Separate, Aligned")
    vlib.model_check(ctx, mc, cfg(Variant='"dlsr_ms"', K=2, DlsrTol="FALSE"), workers=2,
                     expect_violation="Invariant LoopOK is violated", note="negative control: DLSR in milliseconds")
    if not quick:
        vlib.model_check(ctx, mc, "MC_RttLoop_offs.cfg", workers=4, note="three clock offsets")
        vlib.model_check(ctx, mc, cfg(Path='"xr"'), workers=4, note="RRTR / DLRR pair")
        vlib.model_check(ctx, mc, cfg(MaxRep=2, Dts="{0, 1000}", MaxT=9000), workers=4, note="2 SRs / 2 RRs, re-ordered RRs, DLSR +-1")
        vlib.model_check(ctx, mc, cfg(K=2, MaxOut=3, DlsrTol="FALSE", MaxT=9000), workers=4, timeout=1800,
                         note="3 SRs in flight, K=2 (eviction), exact DLSR: also Tight (error in [0, u))")
        vlib.model_check(ctx, mc, cfg(K=2, MaxOut=3, MaxRep=2, Dts="{0, 1000}", DlsrTol="FALSE", MaxT=3000), workers=4,
                         note="3 SRs / 2 RRs in flight, K=2")
        vlib.model_check(ctx, mc, cfg(K=2, MaxOut=3, MaxRep=2, Dts="{0, 1000}", WrapIns="{1}", MaxT=2000), workers=4,
                         note="3 SRs / 2 RRs, wrap after 1 s, DLSR +-1")
        vlib.model_check(ctx, mc, cfg(Path='"xr"', K=2, MaxOut=3, MaxRep=2, Dts="{0, 1000}", DlsrTol="FALSE", MaxT=3000), workers=4,
                         note="RRTR / DLRR pair, 3 / 2 in flight")
        for var, what in (("wrong_sr", "the delay is taken against the newest remembered SR instead of the one LSR names"),
                          ("no_trunc", "A compares LSR with untruncated seconds (no middle-form modulus)")):
            vlib.model_check(ctx, mc, cfg(Variant='"%s"' % var, K=2, DlsrTol="FALSE"), workers=2,
                             expect_violation="Invariant LoopOK is violated", note="negative control: " + what)
        for inv in ("NegAcrossWrap", "NegEvicted", "NegOlder"):
            vlib.model_check(ctx, mc, "MC_RttLoop_%s.cfg" % inv, workers=2, expect_violation="Invariant %s is violated" % inv,
                             note="reachability control")
    # (G) scenarios enumerated by TLC at the real constants + seeded scenarios, executed on the real interceptors, (T) validated
    beh = vlib.generate(ctx, "Gen_RttLoop.tla", vlib.cfg_variant(ctx, "Gen_RttLoop.cfg", {"Suite": '"quick"' if quick else '"thorough"'}),
                        workers=4)
    rnd = [rl_random_script(rng) for _ in range(150 if quick else 4000)] + rl_special_scripts()
    chunk = 25000
    allsc = beh + rnd
    for i in range(0, len(allsc), chunk):
        rl_batch(ctx, allsc[i:i + chunk], "GROW-rttloop" if len(allsc) <= chunk else "GROW-rttloop-%d" % (i // chunk))
    ctx.assumptions += [
        "RTT loop (growth): A's and B's clocks advance at the same rate on whole milliseconds (their offset is free); the statistics "
        "interceptor is registered before the sender-report interceptor (the other order, in which the statistics never see a sender "
        "report leave and no round-trip time is ever measured from receiver reports, is specified and executed once, sf = 1); tolerance 2 us per measurement (C20 grants ToTime(ToNTP(t)) "
        "1 us, the harness rounds to 1 us), n x 2 us on the total of n measurements; loops shorter than 35 min (32-bit microseconds)",
    ]


def main_flow(ctx):
    rng = random.Random(ctx.seed)
    # (M) the specification against the declarative recount, plus reachability controls
    if ctx.quick:
        vlib.model_check(ctx, "MC_Stats.tla", vlib.cfg_variant(ctx, "MC_Stats.cfg", {"MaxSteps": 3}))
        vlib.model_check(ctx, "MC_Stats.tla", "MC_Stats_NegEvict.cfg", expect_violation="Invariant NegEvict is violated")
    else:
        vlib.model_check(ctx, "MC_Stats.tla", vlib.cfg_variant(ctx, "MC_Stats.cfg", {"MaxSteps": 5}), timeout=3000)
        for neg in ("NegRtt", "NegLoss", "NegEvict"):
            vlib.model_check(ctx, "MC_Stats.tla", "MC_Stats_%s.cfg" % neg, expect_violation="Invariant %s is violated" % neg)
    # (G) systematic
    if ctx.quick:
        l2 = gen_scripts(ctx, 65534, 65535, 0, 2) + gen_scripts(ctx, 1, 0, 4, 2)
        run_batch(ctx, l2, "G-rec-L2")
        run_batch(ctx, as_level(rng.sample(l2, 500), "icpt"), "G-icpt-L2")
        l3 = gen_scripts(ctx, 32767, 3, 4, 3)
        pick = rng.sample(l3, 1400)
        run_batch(ctx, pick[:900], "G-rec-L3-sample")
        run_batch(ctx, as_level(pick[900:], "icpt"), "G-icpt-L3-sample")
    else:
        for base, obase, pre in [(65534, 65535, 0), (1, 0, 4), (32767, 3, 4)]:
            l3 = gen_scripts(ctx, base, obase, pre, 3)
            run_batch(ctx, l3, "G-rec-L3-%d" % base)
            run_batch(ctx, as_level(rng.sample(l3, 4000), "icpt"), "G-icpt-L3-%d" % base)
        # TLC's simulator prints every successor of the last step: num walks of 6 random letters x all 28 last letters
        walks = gen_scripts(ctx, 65530, 65534, 0, 7, simulate=300) + gen_scripts(ctx, 2, 1, 3, 7, simulate=300)
        rng.shuffle(walks)
        run_batch(ctx, walks[:len(walks) * 2 // 3], "G-rec-walks")
        run_batch(ctx, as_level(walks[len(walks) * 2 // 3:], "icpt"), "G-icpt-walks")
    # (T) seeded random long histories
    nrec, nic, length = (36, 24, 340) if ctx.quick else (500, 300, 500)
    rs = [random_script(rng, "rec", length) for _ in range(nrec)] + [random_script(rng, "icpt", length) for _ in range(nic)]
    run_batch(ctx, rs, "T-random")


def run(ctx):
    # the property's own check and the growth part are independent: they run side by side (own scratch directories, own random
    # streams, so the scripts of the property's check do not depend on the growth part) and are merged by vlib.run_parallel
    kids = []

    def job(fn):
        def go(child):
            kids.append(child)
            fn(child)
        return go
    try:
        vlib.run_parallel(ctx, [job(main_flow), job(lambda c: rtt_loop(c, random.Random(ctx.seed * 1000003 + 12)))], max_workers=2)
    finally:
        for child in kids:
            for k, v in child.cov.get("growth", {}).items():
                ctx.cov.setdefault("growth", {})[k] = v
            ctx.cov.setdefault("growth_notes", []).extend(child.cov.get("growth_notes", []))
            ctx.assumptions += child.assumptions
    rl_print_notes(ctx)
    ctx.assumptions += [
        "the TLA+ module Stats is the reading of the property (a recount per bound SSRC; NACK/PLI addressed by media SSRC, FIR by "
        "its entries; remote figures from the most recent reception report / DLRR sub-block naming the SSRC; RTT = arrival - "
        "delay - echoed time when the echoed SR / RRTR time is among the last 5 written; one measurement per valid block)",
        "sequence numbers are unwrapped as specified for C20 (nearest to the previous packet, floor at zero)",
        "clocks are on whole milliseconds below 2^31 us; the harness converts to NTP with exact integer arithmetic, so the only "
        "errors are the code's ToTime / DLSR truncations (<= 2 ns per measurement) and the harness' rounding to 1 us: tolerance 2 us",
        "bytes sent/received include the RTP header (pinned by the repository's tests); inbound jitter is not compared",
        "Go toolchain go1.24.0 from the module cache, pion/rtcp v1.2.17 and pion/rtp v1.10.5 marshalling trusted",
    ]
    return vlib.finish(ctx, "model_checking", RULE, extra_cov={"distinct_nontrivial": len(SEEN)})


def replay(ctx, path):
    scripts = vlib.replay_scripts(path)
    loop = [sc for sc in scripts if "wrapin" in sc]
    rest = [sc for sc in scripts if "wrapin" not in sc]
    if rest:
        run_batch(ctx, rest, "replay")
    if loop:
        rl_batch(ctx, loop, "replay-rttloop")
        rl_print_notes(ctx)
    return vlib.finish(ctx, "model_checking", RULE)

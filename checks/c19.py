"""C19 - Stream statistics equal a recount of the observed traffic.
(M) MC_Stats  (G) Gen_Stats scripts -> real stats.recorder / stats.Interceptor  (T) Trace_Stats."""
import hashlib
import json
import random

import vlib

META = {
    "level": "model_checking",
    "text": "Stats.tla (per-SSRC recount of RTP/RTCP traffic over an abstract RTCP syntax) is model checked exhaustively at "
            "scaled constants against a declarative recount over the complete event log (all histories of <= 3-5 events, "
            "two bound SSRCs and a foreign one) plus per-SSRC isolation; TLC enumerates every sequence of L events over a "
            "state-relative alphabet at the real 2^16 modulus and those behaviours, random walks over the same alphabet and "
            "seeded long mixed histories are executed on the real recorder and on the Interceptor (Bind*, SetNowFunc, Getter); "
            "every recorded Get result must be explained by the specification (integers exactly, float/time fields within 2 us).",
    "note": "Trusted: the reading of the property in Stats.tla; pion/rtcp and pion/rtp marshalling; the harness' exact integer NTP "
            "conversion. Inbound jitter is not compared (not stated). Remote-outbound sender figures and the set of sender reports "
            "an LSR may echo follow the code's DestinationSSRC matching (not stated by the property). Concurrency is C10.",
    "technique": "TLA+ spec + TLC model checking, TLC-generated behaviours replayed into the Go code, recorded traces validated by TLC",
    "design_ref": "DESIGN.md section 7 C19",
}

PKG = "pkg/stats"
HARNESS = ["zz_verif_stats_test.go"]
RULE = ("scripts = TLC-enumerated behaviours of Gen_Stats at the real modulus (every sequence of L events over a 28-letter alphabet "
        "relative to the specification state: sequence-number distances to the last packet incl. the half-range edge and the floor "
        "at zero, references to the newest/oldest/unknown remembered SR and RRTR time, mixed compounds addressed to the stream under "
        "test, a second bound stream and a foreign SSRC) + TLC random walks over the same alphabet + seeded random long histories "
        "(loss, duplicates, reordering, wrap, late bind, 3 bound SSRCs + foreign ones, compounds of 1-5 packets in any order); each "
        "is executed on the real recorder ('rec') or through the Interceptor ('icpt') and every Get result is validated by TLC "
        "against Trace_Stats. distinct_nontrivial = number of distinct recorded traces (hashed without the level, so a script "
        "run on both levels counts once) in which some Get shows more than packet/byte counting: a non-zero loss figure, a "
        "NACK/PLI/FIR counter, an applied remote report or a round-trip measurement.")

ZERO = dict(s=0, p=0, w=0, hl=0, pl=0, now=0, rate=0, d="", pk=[])


def step(a, **kw):
    e = dict(ZERO)
    e["a"] = a
    e.update(kw)
    return e


def rep(s, lost=0, frac=0, hi=0, jit=0, lsr=-1, dlsr=0):
    return dict(s=s, lost=lost, frac=frac, hi=hi, jit=jit, lsr=lsr, dlsr=dlsr)


def pkt(t, ss=0, ms=0, n=0, ntp=-1, pc=0, oc=0, rp=()):
    return dict(t=t, ss=ss, ms=ms, n=n, ntp=ntp, pc=pc, oc=oc, rp=list(rp))


HEADER_LENS = [12, 12, 12, 16, 20, 24, 72, 80, 84, 92]
RATES = [8000, 48000, 90000]
FOREIGN = [9, 77]


def random_script(rng, level, n):
    """A long mixed history.  Only *chooses* traffic (which SR time an LSR echoes etc.); nothing here predicts a counter."""
    bound = [1, 2, 3]
    late = rng.choice([None, 3, 3, 2])           # bound only in the middle of the history
    steps = []
    dirs = {}
    now = rng.choice([0, 1, 1000])

    def bind(s):
        order = rng.choice([["l", "r"], ["r", "l"], ["l"], ["r"]])
        rate = rng.choice(RATES)
        dirs[s] = set(order)
        for d in order:
            steps.append(step("bind", s=s, rate=rate if rng.random() < 0.9 else rng.choice(RATES), d=d))

    for s in bound:
        if s != late:
            bind(s)
    if not any("r" in dirs[s] for s in dirs):
        s = rng.choice(list(dirs))
        dirs[s].add("r")
        steps.append(step("bind", s=s, rate=90000, d="r"))
    if not any("l" in dirs[s] for s in dirs):
        s = rng.choice(list(dirs))
        dirs[s].add("l")
        steps.append(step("bind", s=s, rate=90000, d="l"))
    inseq = {s: rng.choice([0, 1, 3, 65530, 65535, 32760, rng.randrange(65536)]) for s in bound}
    outseq = {s: rng.choice([0, 65535, 65000, rng.randrange(65536)]) for s in bound}
    sent = {s: 0 for s in bound}
    sr_times = {s: [] for s in bound + FOREIGN}
    rrtr_times = []
    everyone = bound + FOREIGN

    def target():
        return rng.choice(bound) if rng.random() < 0.8 else rng.choice(FOREIGN)

    def echo(times):
        r = rng.random()
        if not times or r < 0.1:
            return rng.choice([-1, -1, max(now - 3, 0), 12345])
        if r < 0.6:
            return times[-1]
        if r < 0.85:
            return rng.choice(times[-5:])
        return rng.choice(times)             # possibly evicted

    def delay():
        return rng.choice([0, 1, 7, 655, 1024, 1025, 6554, 65536, 131072, rng.randrange(1, 131073)])

    def reports(k):
        out = []
        for _ in range(k):
            s = target()
            hi = (outseq.get(s, 0) + sent.get(s, 0) + rng.choice([-1, 0, 0, 1, 65536, 131072, -70000])) if s in outseq else 5
            out.append(rep(s, lost=rng.choice([0, 0, 1, 3, 200, 70000, 16777215]), frac=rng.choice([0, 1, 64, 128, 255, rng.randrange(256)]),
                           hi=max(hi, 0), jit=rng.choice([0, 1, 90, 900, 4800, 99999]), lsr=echo(sr_times.get(s, [])), dlsr=delay()))
        return out

    def feedback(ss_pool):
        t = rng.choice(["nack", "nack", "pli", "fir"])
        ss = rng.choice(ss_pool)
        if t == "nack":
            return pkt("nack", ss=ss, ms=target(), n=rng.choice([1, 1, 2, 17, 40]))
        if t == "pli":
            return pkt("pli", ss=ss, ms=target())
        ents = [rep(target()) for _ in range(rng.choice([1, 1, 2, 3]))]
        ms = rng.choice([0, 0, ents[0]["s"], target()])
        return pkt("fir", ss=ss, ms=ms, rp=ents)

    for i in range(n):
        now += rng.choice([0, 0, 1, 1, 2, 5, 20])
        if late is not None and i == n // 2:
            bind(late)
            late = None
        r = rng.random()
        readers = [s for s in dirs if "r" in dirs[s]]
        writers = [s for s in dirs if "l" in dirs[s]]
        if r < 0.33:
            s = rng.choice(readers)
            q = rng.random()
            if q < 0.70:
                inseq[s] += 1
            elif q < 0.78:
                inseq[s] += rng.choice([2, 3, 5, 30])
            elif q < 0.84:
                pass                                                     # duplicate
            elif q < 0.93:
                w = (inseq[s] - rng.choice([1, 2, 3, 10])) % 65536       # late / reordered, the head does not move
                steps.append(step("irtp", s=s, p=s, w=w, hl=rng.choice(HEADER_LENS), pl=rng.choice([0, 1, 100, 1200]), now=now))
                continue
            else:
                inseq[s] += rng.choice([100, 3000, 32767, 32768, 32769, 40000, 65535])
            p = s if rng.random() < 0.96 else rng.choice([x for x in everyone if x != s])
            steps.append(step("irtp", s=s, p=p, w=inseq[s] % 65536, hl=rng.choice(HEADER_LENS), pl=rng.choice([0, 1, 100, 1200]), now=now))
        elif r < 0.52:
            s = rng.choice(writers)
            p = s if rng.random() < 0.96 else rng.choice([x for x in everyone if x != s])
            w = (outseq[s] + sent[s]) % 65536
            if p == s:
                sent[s] += 1
            steps.append(step("ortp", s=s, p=p, w=w, hl=rng.choice(HEADER_LENS), pl=rng.choice([0, 1, 100, 1200]), now=now))
        elif r < 0.72:
            pk = []
            for _ in range(rng.choice([1, 1, 2, 3, 4, 5])):
                q = rng.random()
                if q < 0.30:
                    pk.append(pkt("rr", ss=rng.choice(FOREIGN), rp=reports(rng.choice([0, 1, 1, 2, 3]))))
                elif q < 0.45:
                    pk.append(pkt("sr", ss=rng.choice(everyone), ntp=max(now - rng.choice([0, 1, 5]), 0), pc=rng.randrange(100000),
                                  oc=rng.randrange(10000000), rp=reports(rng.choice([0, 0, 1, 2]))))
                elif q < 0.65:
                    subs = [rep(target(), lsr=echo(rrtr_times), dlsr=delay()) for _ in range(rng.choice([0, 1, 1, 2, 3]))]
                    pk.append(pkt("xr", ss=rng.choice(everyone), n=rng.randrange(4), ntp=rng.choice([-1, -1, now]), rp=subs))
                else:
                    pk.append(feedback(everyone))
            steps.append(step("ircp", now=now, pk=pk))
        elif r < 0.88:
            pk = []
            for _ in range(rng.choice([1, 1, 2, 3, 4])):
                q = rng.random()
                if q < 0.30:
                    ss = rng.choice(bound) if rng.random() < 0.85 else rng.choice(FOREIGN)
                    t = now if rng.random() < 0.9 else max(now - 1, 0)
                    rp = reports(rng.choice([0, 0, 0, 1, 2]))
                    pk.append(pkt("sr", ss=ss, ntp=t, pc=sent.get(ss, 0), oc=100 * sent.get(ss, 0), rp=rp))
                    for s in {ss} | {x["s"] for x in rp}:
                        sr_times.setdefault(s, []).append(t)
                elif q < 0.40:
                    pk.append(pkt("rr", ss=rng.choice(bound), rp=reports(rng.choice([0, 1, 2]))))
                elif q < 0.62:
                    has = rng.random() < 0.85
                    subs = [rep(target(), lsr=echo(rrtr_times), dlsr=delay()) for _ in range(rng.choice([0, 0, 1]))]
                    pk.append(pkt("xr", ss=rng.choice(everyone), n=rng.randrange(4), ntp=now if has else -1, rp=subs))
                    if has:
                        rrtr_times.append(now)
                else:
                    pk.append(feedback(bound))
            steps.append(step("orcp", now=now, pk=pk))
        else:
            steps.append(step("get", s=rng.choice(everyone)))
    for s in everyone[:4]:
        steps.append(step("get", s=s))
    return {"level": level, "steps": steps}


def nontrivial(evs):
    """Some Get shows more than plain packet/byte counting: a loss figure, a feedback counter, an applied remote report
    or a round-trip measurement."""
    for e in evs:
        if e["a"] == "get" and not e["nil"]:
            o = e["out"]
            if (o["ipl"] or o["inack"] or o["ipli"] or o["ifir"] or o["onack"] or o["opli"] or o["ofir"]
                    or o["rn"] or o["sm"] or o["sn"] or o["rpl"] or o["rfrac"]):
                return True
    return False


CHUNK = 5000   # scripts per Go run / TLC validation (the validator holds the whole trace in memory)
SEEN = set()   # hashes of the distinct non-trivial recorded traces of this run (level-independent: reset event excluded)


def run_batch(ctx, scripts, tag):
    for i in range(0, len(scripts), CHUNK):
        part = scripts[i:i + CHUNK]
        events = vlib.run_batch(ctx, tag=tag if len(scripts) <= CHUNK else "%s-%d" % (tag, i // CHUNK), scripts=part,
                                pkg_rel=PKG, pkgname="stats", files=HARNESS, test="TestVerifStatsExec",
                                trace_module="Trace_Stats.tla")
        for _, evs in vlib.split_traces(events or []):
            if nontrivial(evs):
                SEEN.add(hashlib.sha1(json.dumps(evs[1:], sort_keys=True).encode()).hexdigest())


def gen_scripts(ctx, base, obase, pre, L, level="rec", simulate=None):
    if simulate:
        cfg = vlib.cfg_variant(ctx, "Gen_Stats_sim.cfg", {"Base": base, "OBase": obase, "Pre": pre, "L": L})
        beh = vlib.generate(ctx, "Gen_Stats.tla", cfg, simulate=(simulate, 2 * L + 2))
    else:
        cfg = vlib.cfg_variant(ctx, "Gen_Stats.cfg", {"Base": base, "OBase": obase, "Pre": pre, "L": L})
        beh = vlib.generate(ctx, "Gen_Stats.tla", cfg)
    return [{"level": level, "steps": b} for b in beh]


def as_level(scripts, level):
    return [dict(sc, level=level) for sc in scripts]


def run(ctx):
    rng = random.Random(ctx.seed)
    # (M) the specification against the declarative recount, plus reachability controls
    if ctx.quick:
        vlib.model_check(ctx, "MC_Stats.tla", vlib.cfg_variant(ctx, "MC_Stats.cfg", {"MaxSteps": 3}))
        vlib.model_check(ctx, "MC_Stats.tla", "MC_Stats_NegEvict.cfg", expect_violation="Invariant NegEvict is violated")
    else:
        vlib.model_check(ctx, "MC_Stats.tla", vlib.cfg_variant(ctx, "MC_Stats.cfg", {"MaxSteps": 5}), timeout=3000)
        for neg in ("NegRtt", "NegLoss", "NegEvict"):
            vlib.model_check(ctx, "MC_Stats.tla", "MC_Stats_%s.cfg" % neg, expect_violation="Invariant %s is violated" % neg)
    # (G) systematic
    if ctx.quick:
        l2 = gen_scripts(ctx, 65534, 65535, 0, 2) + gen_scripts(ctx, 1, 0, 4, 2)
        run_batch(ctx, l2, "G-rec-L2")
        run_batch(ctx, as_level(rng.sample(l2, 500), "icpt"), "G-icpt-L2")
        l3 = gen_scripts(ctx, 32767, 3, 4, 3)
        pick = rng.sample(l3, 1400)
        run_batch(ctx, pick[:900], "G-rec-L3-sample")
        run_batch(ctx, as_level(pick[900:], "icpt"), "G-icpt-L3-sample")
    else:
        for base, obase, pre in [(65534, 65535, 0), (1, 0, 4), (32767, 3, 4)]:
            l3 = gen_scripts(ctx, base, obase, pre, 3)
            run_batch(ctx, l3, "G-rec-L3-%d" % base)
            run_batch(ctx, as_level(rng.sample(l3, 4000), "icpt"), "G-icpt-L3-%d" % base)
        # TLC's simulator prints every successor of the last step: num walks of 6 random letters x all 28 last letters
        walks = gen_scripts(ctx, 65530, 65534, 0, 7, simulate=300) + gen_scripts(ctx, 2, 1, 3, 7, simulate=300)
        rng.shuffle(walks)
        run_batch(ctx, walks[:len(walks) * 2 // 3], "G-rec-walks")
        run_batch(ctx, as_level(walks[len(walks) * 2 // 3:], "icpt"), "G-icpt-walks")
    # (T) seeded random long histories
    nrec, nic, length = (36, 24, 340) if ctx.quick else (500, 300, 500)
    rs = [random_script(rng, "rec", length) for _ in range(nrec)] + [random_script(rng, "icpt", length) for _ in range(nic)]
    run_batch(ctx, rs, "T-random")
    ctx.assumptions += [
        "the TLA+ module Stats is the reading of the property (a recount per bound SSRC; NACK/PLI addressed by media SSRC, FIR by "
        "its entries; remote figures from the most recent reception report / DLRR sub-block naming the SSRC; RTT = arrival - "
        "delay - echoed time when the echoed SR / RRTR time is among the last 5 written; one measurement per valid block)",
        "sequence numbers are unwrapped as specified for C20 (nearest to the previous packet, floor at zero)",
        "clocks are on whole milliseconds below 2^31 us; the harness converts to NTP with exact integer arithmetic, so the only "
        "errors are the code's ToTime / DLSR truncations (<= 2 ns per measurement) and the harness' rounding to 1 us: tolerance 2 us",
        "bytes sent/received include the RTP header (pinned by the repository's tests); inbound jitter is not compared",
        "Go toolchain go1.24.0 from the module cache, pion/rtcp v1.2.17 and pion/rtp v1.10.5 marshalling trusted",
    ]
    return vlib.finish(ctx, "model_checking", RULE, extra_cov={"distinct_nontrivial": len(SEEN)})


def replay(ctx, path):
    run_batch(ctx, vlib.replay_scripts(path), "replay")
    return vlib.finish(ctx, "model_checking", RULE)

"""C13 - caller-owned buffers are not retained or modified after a call returns.
(M) MC_Ownership: cells / Call / Ret / Scribble / Emit; NonInterference holds when the interceptor copies during the call
    and fails (negative control) when it keeps a reference.
(G/T) every script is executed twice on the real chain (fresh allocation per packet vs. one payload slice, header object
    and read buffer reused and overwritten right after each call returns); Trace_Ownership requires the emissions derived
    from packet contents (retransmissions, FEC repair packets, paced packets, dumps) to agree. Both runs are under -race."""
import random

import vlib

META = {
    "level": "model_checking",
    "text": "Ownership.tla states the discipline (emissions are a function of the contents at call time); TLC checks it for the "
            "copying design and refutes it for the retaining design (negative control). Seeded programs over every interceptor "
            "that emits or stores packet-derived data (NACK responder with and without RTX, FlexFEC, pacing, cc with the leaky "
            "bucket pacer, packet dumps, jitter buffer) and chains of them are run twice - fresh buffers vs. reused and "
            "scribbled buffers - under the race detector, and TLC requires both emission lists to be equal.",
    "note": "Trusted: the harness's emission recorder (transport-side writers and dump formatter callbacks) and its quiescence "
            "wait (emission count stable for 40 ms, cap 2 s). Sequence numbers of injected RTX/FEC streams are random per run and "
            "are not compared. DisableCopy and direct JitterBuffer.Push are the documented exceptions and are not exercised. "
            "Programs are seeded random, not TLC-enumerated (the state space is the packet contents).",
    "technique": "TLA+ ownership model checked with TLC (with a negative control); two-run relational conformance of the Go code validated by TLC; Go race detector",
    "design_ref": "DESIGN.md section 7 C13",
}

RULE = ("script = chain of emitting/storing interceptors x packet history (header shapes, payload 0..1460) x NACK requests; executed twice "
        "(fresh / reused+scribbled); distinct_nontrivial = scripts whose fresh run produced at least one content-derived emission.")

SINGLE = [["nackresp"], ["flexfec"], ["pdsend"], ["pdrecv"], ["pacing"], ["ccleaky"], ["jitter"], ["stats"], ["rsend"], ["twccsend"],
          ["rfc8888"], ["rtpfb"]]
COMBOS = [["nackresp", "flexfec"], ["flexfec", "nackresp"], ["pdsend", "flexfec", "nackresp"], ["pacing", "nackresp"],
          ["nackresp", "pacing"], ["pdrecv", "jitter"], ["flexfec", "pdsend"], ["ccleaky", "pdsend"], ["pacing", "flexfec", "pdsend"]]


def script(rng, kinds, n):
    text = rng.choice([0, 1])        # packet dumps with a text formatter only / with a binary formatter
    members = [{"k": k, "o": {"ivl": 1, "size": 64, "k": rng.choice([2, 3]), "n": 1, "rate": 50_000_000, "text": text}} for k in kinds]
    steps = [{"a": "bindw"}, {"a": "bindr"},
             {"a": "bindl", "s": 1, "nack": True, "twcc": 0, "rtx": rng.random() < 0.5, "fec": True},
             {"a": "bindm", "s": 2, "nack": True, "twcc": 0, "pli": False}]
    w, r, ident, sent = rng.choice([10, 65530]), 500, 0, []
    for _ in range(n):
        ident += 1
        q = rng.random()
        if q < 0.6:
            w += 1
            lens = [0, 1, 5, 40, 300, 1200, 1460]
            lens += [1461, 1461, 2000, 4000]     # (the responder refuses payloads above 1460 bytes: it must then not keep them either)
            steps.append({"a": "wrtp", "s": 1, "w": w % 65536, "id": ident, "len": rng.choice(lens),
                          "shape": rng.choice([0, 0, 2, 3, 3, 4, 4, 5, 5, 6]), "fail": False})
            sent.append(w % 65536)
        elif q < 0.8:
            r += 1
            steps.append({"a": "rrtp", "s": 2, "w": r, "id": ident, "len": rng.choice([0, 3, 50, 900]), "shape": rng.choice([0, 3]),
                          "tw": -1, "fail": False})
        elif sent:
            steps.append({"a": "rrtcp", "s": 1, "kind": "nack", "nums": rng.sample(sent, min(len(sent), rng.choice([1, 2, 3]))),
                          "id": ident, "fail": False})
            steps.append({"a": "wait", "ms": 2})
    steps += [{"a": "wait", "ms": 10}, {"a": "close"}]
    return {"members": members, "steps": steps, "both": True, "settle": 30}


def script_sizes(rng, kinds):
    """Every payload size around the responder's pooled 1460-byte buffers is written, then ALL of them are requested again:
    whatever the responder kept (or refused to keep) must not be the caller's memory."""
    members = [{"k": k, "o": {"ivl": 1, "size": 64, "k": 3, "n": 1, "rate": 50_000_000, "text": 0}} for k in kinds]
    steps = [{"a": "bindw"}, {"a": "bindr"},
             {"a": "bindl", "s": 1, "nack": True, "twcc": 0, "rtx": rng.random() < 0.5, "fec": True},
             {"a": "bindm", "s": 2, "nack": True, "twcc": 0, "pli": False}]
    w, sent = rng.choice([20, 65530]), []
    for i, ln in enumerate([1459, 1460, 1461, 1462, 1500, 2000, 4000, 100, 1461]):
        w += 1
        steps.append({"a": "wrtp", "s": 1, "w": w % 65536, "id": i + 1, "len": ln, "shape": rng.choice([0, 3, 5]), "fail": False})
        sent.append(w % 65536)
        if i % 3 == 1:           # a packet whose padding count exceeds its payload (refused when RTX is negotiated) in between
            w += 1
            steps.append({"a": "wrtp", "s": 1, "w": w % 65536, "id": 100 + i, "len": 50, "shape": 4, "fail": False})
            sent.append(w % 65536)
    steps += [{"a": "rrtcp", "s": 1, "kind": "nack", "nums": sent[:5], "id": 50, "fail": False}, {"a": "wait", "ms": 3},
              {"a": "rrtcp", "s": 1, "kind": "nack", "nums": sent[5:], "id": 51, "fail": False},
              {"a": "wait", "ms": 10}, {"a": "close"}]
    return {"members": members, "steps": steps, "both": True, "settle": 30}


def script_refused(rng, kinds):
    """The error path of the responder's packet factory, often: with RTX negotiated a packet whose padding count exceeds its
    payload is refused; whatever the factory does with the refused packet (pools!) must not hand the caller's header or buffer
    to a later packet.  A pool gives an object back only some of the time (per-P slots, drops under the race detector), so
    the refusal is repeated with ordinary packets in between, and everything is requested again at the end."""
    members = [{"k": k, "o": {"ivl": 1, "size": 64, "k": 3, "n": 1, "rate": 50_000_000, "text": 0}} for k in kinds]
    steps = [{"a": "bindw"}, {"a": "bindr"},
             {"a": "bindl", "s": 1, "nack": True, "twcc": 0, "rtx": True, "fec": True},
             {"a": "bindm", "s": 2, "nack": True, "twcc": 0, "pli": False}]
    w, sent, ident = rng.choice([20, 65500]), [], 0
    for i in range(16):
        w += 1
        ident += 1
        steps.append({"a": "wrtp", "s": 1, "w": w % 65536, "id": ident, "len": rng.choice([30, 50, 200]), "shape": 4, "fail": False})
        for _ in range(3):
            w += 1
            ident += 1
            steps.append({"a": "wrtp", "s": 1, "w": w % 65536, "id": ident, "len": rng.choice([0, 10, 100, 1460, 1461]),
                          "shape": rng.choice([0, 3, 5]), "fail": False})
            sent.append(w % 65536)
        if i % 4 == 3:
            steps += [{"a": "rrtcp", "s": 1, "kind": "nack", "nums": sent[-12:], "id": 200 + i, "fail": False}, {"a": "wait", "ms": 3}]
    steps += [{"a": "wait", "ms": 10}, {"a": "close"}]
    return {"members": members, "steps": steps, "both": True, "settle": 30}


def script_dump_close(rng, kinds):
    """Asynchronous consumers and Close: the packet dump looks at a packet some milliseconds after it was handed over (slow
    formatter / sink); meanwhile the interceptor is closed from another goroutine.  Whenever the application's call comes
    back, the memory is the application's again - also when it comes back BECAUSE of the Close."""
    members = [{"k": k, "o": {"ivl": 1, "size": 64, "k": 3, "n": 1, "rate": 50_000_000, "text": rng.choice([0, 1]), "slowdump": 12}}
               for k in kinds]
    steps = [{"a": "bindw"}, {"a": "bindr"},
             {"a": "bindl", "s": 1, "nack": True, "twcc": 0, "rtx": False, "fec": False},
             {"a": "bindm", "s": 2, "nack": True, "twcc": 0, "pli": False},
             {"a": "wrtp", "s": 1, "w": 7, "id": 1, "len": 100, "shape": 5, "fail": False},
             {"a": "rrtp", "s": 2, "w": 8, "id": 2, "len": 100, "shape": 3, "tw": -1, "fail": False},
             {"a": "par", "par": [
                 {"a": "seq", "rep": 1, "seq": [{"a": "wrtp", "s": 1, "w": 9, "id": 3, "len": 300, "shape": 5, "fail": False}]},
                 {"a": "seq", "rep": 1, "seq": [{"a": "rrtp", "s": 2, "w": 10, "id": 4, "len": 300, "shape": 3, "tw": -1, "fail": False}]},
                 {"a": "seq", "rep": 1, "seq": [{"a": "wait", "ms": 4}, {"a": "close"}]}]},
             {"a": "wait", "ms": 30}]
    return {"members": members, "steps": steps, "both": True, "settle": 40}


def script_jitter(rng, kinds):
    """The jitter buffer interceptor returns EARLIER packets: playout starts after 50 packets; then a packet is missing at the
    playout head (reads fail while later packets keep arriving and are buffered), the missing packet arrives late and
    playout resumes - everything returned afterwards was buffered across many reads of the application's buffer."""
    members = [{"k": k, "o": {"text": rng.choice([0, 1])}} for k in kinds]
    steps = [{"a": "bindw"}, {"a": "bindr"}, {"a": "bindm", "s": 2, "nack": True, "twcc": 0, "pli": False}]
    r, ident = rng.choice([600, 65500]), 0

    def read(num):
        nonlocal ident
        ident += 1
        steps.append({"a": "rrtp", "s": 2, "w": num % 65536, "id": ident, "len": rng.choice([1, 3, 50, 900]),
                      "shape": rng.choice([0, 3, 5]), "tw": -1, "fail": False})
    for _ in range(rng.choice([50, 52, 55])):
        r += 1
        read(r)
    for _ in range(rng.choice([1, 2])):            # stalls
        r += 1
        missing = r
        # the playout head is about 50 packets behind the newest one: it reaches the gap after ~50 more reads and stalls there
        for _ in range(50 + rng.choice([3, 8, 20])):
            r += 1
            read(r)
        read(missing)
        for _ in range(rng.choice([30, 70])):       # plays out what was buffered during the stall
            r += 1
            read(r)
    steps += [{"a": "wait", "ms": 5}, {"a": "close"}]
    return {"members": members, "steps": steps, "both": True, "settle": 30}


def run_batch(ctx, scripts, tag):
    return vlib.run_batch(ctx, tag=tag, scripts=scripts, pkg_rel="", pkgname="interceptor_test",
                          files=["zz_verif_univ_test.go", "common:zz_verif_pkt_test.go.tpl"],
                          test="TestVerifUnivExec", trace_module="Trace_Ownership.tla",
                          nontrivial=lambda evs: any(e["a"] == "cmp" and e["fresh"] for e in evs),
                          race=True, go_timeout=2400)


def run(ctx):
    rng = random.Random(ctx.seed)
    vlib.model_check(ctx, "MC_Ownership.tla", "MC_Ownership_copy.cfg", workers=4)
    vlib.model_check(ctx, "MC_Ownership.tla", "MC_Ownership_ref.cfg", workers=2,
                     expect_violation="Invariant NonInterference is violated",
                     note="negative control: an interceptor that keeps a reference emits what the caller wrote later")
    reps, n = (3, 14) if ctx.quick else (40, 30)
    scripts = []
    for kinds in SINGLE + COMBOS:
        for _ in range(reps):
            scripts.append(script(rng, kinds, n))
    if not ctx.quick:
        for _ in range(200):
            scripts.append(script(rng, rng.sample(["nackresp", "flexfec", "pdsend", "pdrecv", "pacing", "stats", "rsend"],
                                                  rng.randrange(2, 5)), 40))
    for kinds in (["nackresp"], ["nackresp", "flexfec"], ["pacing", "nackresp"], ["pdsend", "nackresp"], ["nackresp", "ccleaky"]):
        scripts.append(script_sizes(rng, kinds))
    for kinds in (["nackresp"], ["nackresp", "flexfec"], ["pdsend", "nackresp"]):
        scripts.append(script_refused(rng, kinds))
    for kinds in (["pdsend"], ["pdrecv"], ["pdsend", "pdrecv"], ["pdsend", "nackresp"]):
        scripts.append(script_dump_close(rng, kinds))
    for kinds in (["jitter"], ["pdrecv", "jitter"], ["jitter", "stats"]):
        for _ in range(2 if ctx.quick else 20):
            scripts.append(script_jitter(rng, kinds))
    run_batch(ctx, scripts, "T-two-run")
    ctx.assumptions += ["emissions are collected at the transport-side writers and the dump formatter; quiescence = emission count stable for 40 ms",
                        "RTX / FEC sequence numbers are random per run and excluded from the comparison"]
    return vlib.finish(ctx, "model_checking", RULE)


def replay(ctx, path):
    run_batch(ctx, vlib.replay_scripts(path), "replay")
    return vlib.finish(ctx, "model_checking", RULE)

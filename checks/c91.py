"""C91 - stand-alone driver for the specification-growth part (checks/growth_pli_dump.py); not a listed property.
`bin/check C91 --tier quick|thorough` runs IntervalPli and PacketDump against the tree named by VERIF_REPO.
VERIF_GROWTH_ONLY=IntervalPli|PacketDump restricts the run to one component; VERIF_GROWTH_PROBES=1 also runs the
expectation probes (PROBE: lines).  Exit 0 also when NOTE lines are printed:
a divergence from a growth specification is a note, never a violation (exit 2 = infrastructure, as everywhere)."""
import os

import growth_pli_dump as growth
import vlib

META = None     # not registered in the manifest

RULE = ("growth specifications IntervalPli and PacketDump: TLC-enumerated scripts (every sequence of L calls / every filter "
        "configuration x packet sequence) and seeded random walks executed on the real interceptors; every recorded trace validated "
        "by TLC; distinct_nontrivial = distinct traces with at least one written compound / one dump")


def run(ctx):
    notes = growth.run_growth(ctx, only=os.environ.get("VERIF_GROWTH_ONLY") or None)
    ctx.replay_mode = not os.environ.get("VERIF_GROWTH_EVIDENCE")     # no evidence/C91.json unless asked for
    print("GROWTH notes=%d" % len(notes), flush=True)
    if os.environ.get("VERIF_GROWTH_PROBES"):       # expectation probes (see growth_pli_dump.PROBES); never affect the verdict
        growth.run_probes(ctx)
    return vlib.finish(ctx, "model_checking", RULE)


def replay(ctx, path):
    notes = growth.replay_growth(ctx, path)
    print("GROWTH notes=%d" % len(notes), flush=True)
    return vlib.finish(ctx, "model_checking", RULE)

"""C02 - no untrusted packet can crash or wedge an interceptor.
(G) TLC enumerates the structured-inconsistency shape space of PacketShapes.tla (RTCP compounds whose declared counts,
    lengths and run lengths disagree with the bytes present; RTP headers whose CSRC/extension/padding fields disagree
    with the packet length); the shapes are serialised to bytes here and delivered through every Bind*Reader path of every
    interceptor (and a chain of all of them) after a prior history, interleaved with well-formed probe packets; outgoing
    packets of 0..65535 bytes are written through every BindLocalStream writer.
(T) Trace_Robust validates the recorded traces; a crash of the test process is attributed to the running script."""
import random

import vlib

META = {
    "level": "exploration",
    "text": "The structured family of malformed / inconsistent packets that the property singles out is written as an explicit "
            "TLA+ shape space and enumerated completely by TLC (about 2.9k RTCP and 7k RTP shapes, plus seeded byte-level "
            "variants of each); every shape is delivered to every interceptor's reader paths after a prior history, with "
            "well-formed probes in between, and every outgoing size class through every writer path; TLC validates the "
            "recorded call results (returned, no panic, reported bytes <= given, probes handled).",
    "note": "This family of technique cannot do coverage-guided byte mutation: unstructured byte strings are covered only by the "
            "boundary cases and seeded perturbations (truncation, bit flips) of the enumerated shapes. A panic in a background "
            "goroutine kills the harness process and is reported with the script that was running (script-level replay).",
    "technique": "TLA+ shape space enumerated by TLC, serialised and injected into the Go code; recorded call results validated by TLC",
    "design_ref": "DESIGN.md section 7 C02",
}

RULE = ("input = shape of PacketShapes.tla (TLC-enumerated, complete) serialised to bytes, optionally perturbed (seeded truncation / bit flip), "
        "delivered to each reader path of each interceptor kind after a prior history; distinct_nontrivial = distinct (member set, raw input) pairs executed "
        "whose bytes are not a well-formed packet of that type as built by pion/rtcp.")


def u16(x):
    return [(x >> 8) & 255, x & 255]


def u32(x):
    return [(x >> 24) & 255, (x >> 16) & 255, (x >> 8) & 255, x & 255]


def hdr(fmt, pt, body, lenfield="ok", pbit=False):
    total = 4 + len(body)
    while total % 4:
        body = body + [0]
        total += 1
    words = total // 4 - 1
    if lenfield == "small":
        words = max(0, words - 1)
    elif lenfield == "large":
        words += 2
    return [0x80 | (0x20 if pbit else 0) | (fmt & 31), pt] + u16(words) + body


def rl(sym, run):
    return u16((sym << 13) | (run & 0x1FFF))


def sv1(bits):
    v = 0x8000
    for i, b in enumerate(bits[:14]):
        v |= (b & 1) << (13 - i)
    return u16(v)


def sv2(syms):
    v = 0xC000
    for i, s in enumerate(syms[:7]):
        v |= (s & 3) << (12 - 2 * i)
    return u16(v)


def ser_twcc(sh, rng):
    c = sh["count"]
    name = sh["chunks"]
    syms = []
    chunks = []
    if name == "rl-recv":
        chunks, syms = rl(1, c), [1] * c
    elif name == "rl-lost":
        chunks, syms = rl(0, c), [0] * c
    elif name == "rl-over":
        chunks, syms = rl(1, c + 5), [1] * (c + 5)
    elif name == "rl-max":
        chunks, syms = rl(2, 8191), [2] * 8191
    elif name == "sv1":
        chunks, syms = sv1([1] * 14), [1] * 14
    elif name == "sv2":
        s = [1, 2, 0, 1, 2, 1, 0]
        chunks, syms = sv2(s), s
    elif name == "sv2-reserved":
        s = [3, 1, 3, 2, 0, 3, 1]
        chunks, syms = sv2(s), s
    elif name == "sv1+rl":
        chunks, syms = sv1([1, 0] * 7) + rl(2, c), [1, 0] * 7 + [2] * c
    recv = [s for s in syms[:max(c, 0)] if s in (1, 2)] if name not in ("none",) else []
    mode = sh["deltas"]
    if mode == "lt":
        recv = recv[:-1]
    elif mode == "gt":
        recv = recv + [1, 2]
    elif mode == "none":
        recv = []
    deltas = []
    for s in recv:
        if mode == "large" or s == 2:
            deltas += u16(rng.choice([300, 0x7FFF, 0x8000, 0xFFFF]))
        else:
            deltas += [rng.choice([0, 1, 255])]
    body = u32(7) + u32(1) + u16(sh["base"]) + u16(c) + [0, 0, 5] + [rng.randrange(256)] + chunks + deltas
    return hdr(15, 205, body)


def ser_ccfb(sh, rng):
    body = u32(7)
    for b in range(sh["blocks"]):
        ssrc = 1 if sh["known"] else 0x12345678 + b
        n = sh["nrep"]
        actual = {"eq": min(n, 64), "fewer": max(min(n, 64) - 1, 0), "none": 0}[sh["actual"]]
        blk = u32(ssrc) + u16(sh["begin"]) + u16(n)
        for i in range(actual):
            blk += u16(0x8000 | rng.choice([0, 100, 0x1FFE, 0x1FFF]))
        while len(blk) % 4:
            blk += [0]
        body += blk
    body += u32(0x00010000)
    return hdr(11, 205, body)


def rblock(ssrc):
    return u32(ssrc) + [10, 0, 0, 5] + u32(0x00010064) + u32(33) + u32(0x12340000) + u32(0x00008000)


def ser_report(sh, rng):
    body = u32(2 if sh["t"] == "sr" else 7)
    if sh["t"] == "sr":
        body += u32(0xE0000000) + u32(0x80000000) + u32(90000) + u32(5) + u32(500)
    for i in range(sh["actual"]):
        body += rblock(1 if i == 0 else 2)
    return hdr(sh["rc"], 200 if sh["t"] == "sr" else 201, body, sh["lenfield"])


def ser_xr(sh, rng):
    body = u32(7)
    kind = sh["block"]
    if kind == "dlrr":
        content = []
        for i in range(sh["sub"]):
            content += u32(1 if i % 2 == 0 else 2) + u32(0x12340000) + u32(0x00010000)
        bt = 5
    elif kind == "rrtr":
        content, bt = u32(0xE0000000) + u32(0x80000000), 4
    elif kind == "unknown":
        content, bt = u32(0xDEADBEEF) * sh["sub"], 99
    else:
        content, bt = [], 5
    words = len(content) // 4
    if sh["blen"] == "small":
        words = max(0, words - 1)
    elif sh["blen"] == "large":
        words += 3
    body += [bt, 0] + u16(words) + content
    return hdr(0, 207, body)


def ser_fb(sh, rng):
    media = {"known": 1, "foreign": 0x0BADF00D, "zero": 0}[sh["ssrc"]]
    if sh["t"] == "nack":
        body = u32(7) + u32(media)
        for i in range(sh["items"]):
            body += u16(rng.choice([0, 100, 65535])) + u16(rng.choice([0, 0xFFFF, 0x8001]))
        return hdr(1, 205, body, sh["lenfield"])
    if sh["t"] == "pli":
        return hdr(1, 206, u32(7) + u32(media), sh["lenfield"])
    body = u32(7) + u32(0)
    for i in range(sh["items"]):
        body += u32(media if i == 0 else 2) + [i, 0, 0, 0]
    return hdr(4, 206, body, sh["lenfield"])


def ser_raw(sh, rng):
    k, n = sh["kind"], sh["n"]
    pli = hdr(1, 206, u32(7) + u32(2))
    return {
        "empty": [], "one": [0x80], "three": [0x80, 200, 0], "hdr-only": [0x8F, 205, 0, 0],
        "zeros": [0] * n, "ones": [255] * n,
        "len-zero": [0x80, 200, 0, 0] + u32(2) + [1] * 20,
        "len-huge": [0x81, 205, 0xFF, 0xFF] + u32(7) + u32(1) + [0] * n,
        "ver0": [0x01, 205, 0, 2] + u32(7) + u32(1),
        "pad-bit": [0xA1, 206, 0, 2] + u32(7) + u32(2)[:3] + [200 if n else 0],
        "garbage-tail": pli + [rng.randrange(256) for _ in range(n)],
    }[k]


def ser_rtcp(sh, rng):
    f = {"twcc": ser_twcc, "ccfb": ser_ccfb, "sr": ser_report, "rr": ser_report, "xr": ser_xr, "nack": ser_fb, "pli": ser_fb,
         "fir": ser_fb, "raw": ser_raw}[sh["t"]]
    b = f(sh, rng)
    t = sh.get("trunc", 0)
    if t:
        b = b[:max(0, len(b) - t)]
    return b


def ser_rtp(sh, rng, seq):
    cc = sh["cc"]
    actual = cc if sh["ccactual"] == "eq" else max(cc - 1, 0)
    x = sh["x"]
    pad = sh["pad"]
    b0 = 0x80 | (0x20 if pad != "none" else 0) | (0x10 if x != "none" else 0) | cc
    b = [b0, 96] + u16(seq) + u32(1000 + seq) + u32(2)
    for i in range(actual):
        b += u32(100 + i)
    if x == "one-ok":
        b += u16(0xBEDE) + u16(1) + [(7 << 4) | 1, (seq >> 8) & 255, seq & 255, 0]
    elif x == "two-ok":
        b += u16(0x1000) + u16(1) + [7, 2, (seq >> 8) & 255, seq & 255]
    elif x == "len-over":
        b += u16(0xBEDE) + u16(10) + [(7 << 4) | 1, 0, 1, 0]
    elif x == "len-zero":
        b += u16(0xBEDE) + u16(0)
    elif x == "id0":
        b += u16(0xBEDE) + u16(1) + [0x01, 9, 9, 0]
    elif x == "id15":
        b += u16(0xBEDE) + u16(1) + [0xF1, 9, 9, 0]
    elif x == "profile-other":
        b += u16(0x1234) + u16(1) + [1, 2, 3, 4]
    elif x == "one-short":      # the negotiated id (7) with ONE byte of data where two are expected
        b += u16(0xBEDE) + u16(1) + [(7 << 4) | 0, seq & 255, 0, 0]
    elif x == "two-short":      # two-byte form, one byte of data
        b += u16(0x1000) + u16(1) + [7, 1, seq & 255, 0]
    elif x == "two-empty":      # two-byte form, no data at all
        b += u16(0x1000) + u16(1) + [7, 0, 0, 0]
    elif x == "one-long":       # sixteen bytes of data under the negotiated id
        b += u16(0xBEDE) + u16(5) + [(7 << 4) | 15] + [seq & 255] * 16 + [0, 0, 0]
    b += [(i * 7 + seq) & 255 for i in range(sh["plen"])]
    if pad == "ok":
        b += [0, 0, 0, 4]
    elif pad == "zero":
        b += [0]
    elif pad == "over":
        b += [200]
    if sh["cut"]:
        b = b[:max(0, len(b) - sh["cut"])]
    return b


def perturb(b, rng):
    b = list(b)
    q = rng.random()
    if q < 0.4 and b:
        b = b[:rng.randrange(len(b))]
    elif q < 0.8 and b:
        for _ in range(rng.choice([1, 2, 4])):
            i = rng.randrange(len(b))
            b[i] ^= 1 << rng.randrange(8)
    else:
        b = b + [rng.randrange(256) for _ in range(rng.choice([1, 3, 4, 17]))]
    return b[:1400]


RTCP_TARGETS = [["nackresp"], ["rrecv"], ["rtpfb"], ["stats"], ["pdrecv"], ["cc"], ["ccleaky"], ["nackgen"], ["pli"]]
RTP_TARGETS = [["nackgen"], ["rrecv"], ["twccsend"], ["rfc8888"], ["stats"], ["pdrecv"], ["jitter"],
               # members that only log a parse error, followed by members that trust the cached header
               ["stats", "pdrecv"], ["stats", "nackgen"], ["stats", "rrecv"], ["stats", "twccsend"], ["stats", "rfc8888"], ["stats", "jitter"]]
OUT_TARGETS = [["nackresp"], ["rsend"], ["twcchdr"], ["rtpfb"], ["stats"], ["pdsend"], ["flexfec"], ["cc"], ["ccleaky"], ["pacing"]]
ALL_CHAIN = ["nackgen", "nackresp", "rrecv", "rsend", "twccsend", "twcchdr", "rfc8888", "rtpfb", "stats", "pdrecv", "pdsend", "pli", "flexfec", "cc"]


def prefix(rng, kinds, twcc, rtx=None):
    members = [{"k": k, "o": {"ivl": 1, "size": 64, "k": 2, "n": 1, "rate": 20_000_000}} for k in kinds]
    steps = [{"a": "bindw"}, {"a": "bindr"},
             {"a": "bindl", "s": 1, "nack": True, "twcc": twcc, "rtx": (rng.random() < 0.5) if rtx is None else rtx, "fec": True},
             {"a": "bindm", "s": 2, "nack": True, "twcc": 7, "pli": True}]
    # an arbitrary prior history
    for i in range(rng.randrange(0, 8)):
        if rng.random() < 0.5:
            steps.append({"a": "wrtp", "s": 1, "w": 100 + i, "id": i + 1, "len": 30, "shape": 0, "fail": False})
        else:
            steps.append({"a": "rrtp", "s": 2, "w": 500 + 2 * i, "id": i + 1, "len": 30, "shape": 0, "tw": 500 + 2 * i, "fail": False})
    return members, steps


def script_in(rng, kinds, raws, which):
    twcc = 7 if "twcchdr" in kinds or "cc" not in kinds and "ccleaky" not in kinds else 0
    members, steps = prefix(rng, kinds, twcc)
    seq = 700
    if "jitter" in kinds:      # bring the jitter buffer into its emitting state first
        for i in range(60):
            steps.append({"a": "rrtp", "s": 2, "w": 600 + i, "id": i, "len": 12, "shape": 0, "tw": -1, "fail": False})
    for i, raw in enumerate(raws):
        steps.append({"a": "rrtcp" if which == "rtcp" else "rrtp", "s": 2, "raw": raw, "id": i, "fail": False})
        if i % 6 == 5:
            seq += 1
            steps.append({"a": "rrtcp", "s": 2, "kind": "sr", "id": i, "fail": False})
            if "jitter" not in kinds:
                steps.append({"a": "rrtp", "s": 2, "w": seq, "id": i, "len": 12, "shape": 0, "tw": seq, "fail": False})
    steps += [{"a": "wait", "ms": 3}, {"a": "close"}]
    return {"members": members, "steps": steps, "watch": 3000, "settle": 5}


def script_flood(rng, kinds, n):
    """Untrusted SSRCs: n well-formed packets with n distinct SSRCs on one remote stream, then time for the tickers."""
    members, steps = prefix(rng, kinds, 7)
    for i in range(n):
        raw = [0x80, 96] + u16(i) + u32(1000 + i) + u32(0x10000 + i * 7) + [i & 255] * 10
        steps.append({"a": "rrtp", "s": 2, "raw": raw, "id": i, "fail": False})
    steps += [{"a": "wait", "ms": 30}, {"a": "rrtp", "s": 2, "w": 9000, "id": 1, "len": 12, "shape": 0, "tw": 9000, "fail": False},
              {"a": "wait", "ms": 10}, {"a": "close"}]
    return {"members": members, "steps": steps, "watch": 3000, "settle": 5}


def script_pause(rng, kinds, n, pause_ms):
    """A stream that pauses: n in-order packets (more than the smallest capacity of any per-packet map of the receive side),
    time for the feedback tickers, a silence longer than every history window of the receive side (500 ms: TWCC arrival
    times), then the stream resumes - with the next number, then with a late one and a jump."""
    members, steps = prefix(rng, kinds, 7)
    base = rng.choice([1000, 65400])
    for i in range(n):
        steps.append({"a": "rrtp", "s": 2, "w": (base + i) % 65536, "id": i, "len": 20, "shape": 0, "tw": (base + i) % 65536, "fail": False})
    steps += [{"a": "wait", "ms": 20}, {"a": "wait", "ms": pause_ms}]
    for j, d in enumerate([0, 1, -3, 2, 700, 701]):
        w = (base + n + d) % 65536
        steps.append({"a": "rrtp", "s": 2, "w": w, "id": n + j, "len": 20, "shape": 0, "tw": w, "fail": False})
    steps += [{"a": "wait", "ms": 20}, {"a": "rrtp", "s": 2, "w": (base + n + 702) % 65536, "id": n + 9, "len": 20, "shape": 0,
                                       "tw": (base + n + 702) % 65536, "fail": False}, {"a": "wait", "ms": 5}, {"a": "close"}]
    return {"members": members, "steps": steps, "watch": 3000, "settle": 5}


def script_out(rng, kinds, rtx=None):
    twcc = 7 if "twcchdr" in kinds else 0
    members, steps = prefix(rng, kinds, twcc, rtx)
    w = 300
    for ln in [0, 1, 1459, 1460, 1461, 1500, 65535, 2, 1460]:
        for shape in ([0, 3] if ln > 1461 else [0, 1, 2, 3]):
            w += 1
            steps.append({"a": "wrtp", "s": 1, "w": w, "id": w, "len": ln, "shape": shape, "fail": False})
    # every wire size around the pooled 1460 / 1500-byte buffers, reached through payload length x header size
    for ln in range(1404, 1512, 3):
        for shape in (0, 8, 9):
            w += 1
            steps.append({"a": "wrtp", "s": 1, "w": w, "id": w, "len": ln + (w % 3), "shape": shape, "fail": False})
    steps.append({"a": "rrtcp", "s": 1, "kind": "nack", "nums": [w, w - 1, w - 3, 301], "id": 1, "fail": False})
    steps += [{"a": "wait", "ms": 30}, {"a": "wrtp", "s": 1, "w": w + 1, "id": 9999, "len": 10, "shape": 0, "fail": False},
              {"a": "wait", "ms": 10}, {"a": "close"}]
    return {"members": members, "steps": steps, "watch": 3000, "settle": 20}


def deep_feedback(rng):
    """Well-formed feedback about packets that were really sent, with adversarial CONTENT: identical arrival times, arrival
    times running backwards, the largest deltas, reference times jumping to either end of their range, repeated and
    overlapping feedback, everything lost - the inputs that reach the stages behind the feedback parsers."""
    raws = []
    for base in (0, 3, 12):
        for ref in ([0, 0, 5], [0, 0, 0], [0xFF, 0xFF, 0xFF], [0x80, 0, 0], [0, 0, 4]):
            for pattern in ("zero", "max", "neg", "posneg", "firstbig", "lost"):
                n = rng.choice([2, 5, 9])
                if pattern == "lost":
                    chunks, deltas = rl(0, n), []
                elif pattern in ("zero", "max"):
                    chunks, deltas = rl(1, n), [0 if pattern == "zero" else 255] * n
                elif pattern == "firstbig":
                    chunks, deltas = sv2(([2] + [1] * 6)[:7]), u16(0x7FFF) + [0] * 6
                    n = 7
                else:
                    chunks = rl(2, n)
                    deltas = []
                    for i in range(n):
                        deltas += u16(0x8000 if pattern == "neg" or i % 2 else 0x7FFF)
                body = u32(7) + u32(1) + u16(base) + u16(n) + ref + [rng.randrange(256)] + chunks + deltas
                raws.append(hdr(15, 205, body))
    for begin in (100, 103, 65530):
        for rts in (0, 0x00050000, 0xFFFFFFFF, 0x80000000):
            for pattern in ("same", "desc", "unknown", "late", "lost"):
                n = rng.choice([2, 4, 7])
                blk = u32(1) + u16(begin) + u16(n)
                for i in range(n):
                    ato = {"same": 100, "desc": 0x1FF0 - 200 * i, "unknown": 0x1FFF, "late": 0x1FFE, "lost": 0}[pattern]
                    blk += u16((0 if pattern == "lost" else 0x8000) | (rng.randrange(4) << 13) | (ato & 0x1FFF))
                while len(blk) % 4:
                    blk += [0]
                raws.append(hdr(11, 205, u32(7) + blk + u32(rts)))
    rng.shuffle(raws)
    return raws


def script_deep(rng, kinds, raws):
    """A prior history of real sends (transport-wide numbers 0.., RTP numbers 101..) and then adversarial feedback about them."""
    twcc = 7 if "twcchdr" in kinds else 0
    members = [{"k": k, "o": {"ivl": 1, "size": 64, "k": 2, "n": 1, "rate": 20_000_000}} for k in kinds]
    steps = [{"a": "bindw"}, {"a": "bindr"},
             {"a": "bindl", "s": 1, "nack": True, "twcc": twcc, "rtx": False, "fec": False},
             {"a": "bindm", "s": 2, "nack": True, "twcc": 7, "pli": False}]
    w = 100
    for i, raw in enumerate(raws):
        if i % 4 == 0:          # keep sending: the feedback is about packets still in the sender's history
            for _ in range(6):
                w += 1
                steps.append({"a": "wrtp", "s": 1, "w": w % 65536, "id": w, "len": rng.choice([30, 1200]), "shape": 0, "fail": False})
            steps.append({"a": "wait", "ms": 1})
        steps.append({"a": "rrtcp", "s": 2, "raw": raw, "id": i, "fail": False})
        if rng.random() < 0.2:
            steps.append({"a": "rrtcp", "s": 2, "raw": raw, "id": i, "fail": False})     # the same feedback again
    steps += [{"a": "wait", "ms": 20}, {"a": "wrtp", "s": 1, "w": (w + 1) % 65536, "id": 9999, "len": 10, "shape": 0, "fail": False},
              {"a": "rrtcp", "s": 2, "kind": "sr", "id": 1, "fail": False}, {"a": "wait", "ms": 5}, {"a": "close"}]
    return {"members": members, "steps": steps, "watch": 3000, "settle": 20}


DEEP_TARGETS = [["cc", "twcchdr"], ["ccleaky", "twcchdr"], ["rtpfb", "twcchdr"], ["cc"], ["ccleaky"], ["rtpfb"], ["stats", "cc", "twcchdr"]]


def run_batch(ctx, scripts, tag):
    return vlib.run_batch(ctx, culprit_hint=vlib.univ_culprit_hint, tag=tag, scripts=scripts, pkg_rel="", pkgname="interceptor_test",
                          files=["zz_verif_univ_test.go", "common:zz_verif_pkt_test.go.tpl"],
                          test="TestVerifUnivExec", trace_module="Trace_Robust.tla",
                          nontrivial=lambda evs: any(e.get("raw") for e in evs), race=False, go_timeout=2400)


def chunks(xs, n):
    return [xs[i:i + n] for i in range(0, len(xs), n)]


def run(ctx):
    rng = random.Random(ctx.seed)
    rtcp_shapes = vlib.generate(ctx, "Gen_PacketShapes.tla", vlib.cfg_variant(ctx, "Gen_PacketShapes.cfg", {"Which": '"rtcp"'}), workers=2)
    rtp_shapes = vlib.generate(ctx, "Gen_PacketShapes.tla", vlib.cfg_variant(ctx, "Gen_PacketShapes.cfg", {"Which": '"rtp"'}), workers=2)
    rtcp_shapes.sort(key=lambda s: sorted(s.items()).__repr__())
    rtp_shapes.sort(key=lambda s: sorted(s.items()).__repr__())
    rtcp_raw = [ser_rtcp(s, rng) for s in rtcp_shapes]
    rtp_raw = [ser_rtp(s, rng, 900 + i % 5000) for i, s in enumerate(rtp_shapes)]
    nper = 1 if ctx.quick else 4
    rtcp_all = rtcp_raw + [perturb(b, rng) for b in rtcp_raw for _ in range(nper)]
    rtp_all = rtp_raw + [perturb(b, rng) for b in rtp_raw for _ in range(nper)]
    # compound packets: two or three shapes back to back
    for _ in range(300 if ctx.quick else 3000):
        rtcp_all.append((rng.choice(rtcp_raw) + rng.choice(rtcp_raw) + (rng.choice(rtcp_raw) if rng.random() < 0.3 else []))[:1400])
    if ctx.quick:
        rtp_all = rng.sample(rtp_all, 4000)
    distinct = 0
    scripts = []
    for kinds in RTCP_TARGETS + [ALL_CHAIN]:
        pool = rtcp_all if (not ctx.quick or kinds in (["rtpfb"], ["cc"], ["stats"], ["nackresp"], ["rrecv"], ALL_CHAIN)) else rng.sample(rtcp_all, 2500)
        for ch in chunks(pool, 120):
            scripts.append(script_in(rng, kinds, ch, "rtcp"))
        distinct += len({tuple(b) for b in pool})
    for kinds in RTP_TARGETS + [ALL_CHAIN]:
        pool = rtp_all if not ctx.quick else rng.sample(rtp_all, 2500)
        for ch in chunks(pool, 120):
            scripts.append(script_in(rng, kinds, ch, "rtp"))
        distinct += len({tuple(b) for b in pool})
    for kinds in OUT_TARGETS + [ALL_CHAIN]:
        for rtx in (True, False):        # (with and without RFC 4588 retransmission negotiated: both, not one at random)
            scripts.append(script_out(rng, kinds, rtx))
    for kinds in [["rfc8888"], ["rrecv"], ["nackgen"], ["stats"], ["twccsend"], ALL_CHAIN]:
        scripts.append(script_flood(rng, kinds, 400 if ctx.quick else 3000))
    for kinds in [["twccsend"], ["rfc8888"], ["nackgen"], ["rrecv"], ["jitter"], ["stats"], ALL_CHAIN]:
        scripts.append(script_pause(rng, kinds, 300, 560))
        if not ctx.quick:
            scripts.append(script_pause(rng, kinds, 1500, 1100))
    deep = deep_feedback(rng)
    for kinds in DEEP_TARGETS:
        for ch in chunks(deep if not ctx.quick else rng.sample(deep, 80), 40):
            scripts.append(script_deep(rng, kinds, ch))
    rng.shuffle(scripts)
    for i, ch in enumerate(chunks(scripts, 150)):
        run_batch(ctx, ch, "G-shapes-%d" % i)
    ctx.cov["distinct_nontrivial"] = distinct
    ctx.cov["shapes_enumerated"] = len(rtcp_shapes) + len(rtp_shapes)
    ctx.cov["exhaustive_shape_space"] = True
    ctx.assumptions += ["serialisers in checks/c02.py map a shape to bytes (hand-written, no pion/rtcp Marshal)",
                        "a call that has not returned after 3 s counts as wedged"]
    return vlib.finish(ctx, "exploration", RULE)


def replay(ctx, path):
    run_batch(ctx, vlib.replay_scripts(path), "replay")
    return vlib.finish(ctx, "exploration", RULE)

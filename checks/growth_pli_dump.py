"""Specification growth: functional specifications for two components that no listed property describes, bound to the code.

  pkg/intervalpli  IntervalPli.tla   MC_/Gen_/Trace_IntervalPli   harness/pkg/intervalpli/zz_verif_pli_test.go
  pkg/packetdump   PacketDump.tla    MC_/Gen_/Trace_PacketDump    harness/pkg/packetdump/zz_verif_dump_test.go

`run_growth(ctx)` is called from a property check (C11); stand-alone driver: checks/c91.py (`bin/check C91`).
A divergence of the real code from these specifications is NOT a violation of a listed property: it is returned as a list of
note strings and printed as `NOTE:` lines.  Infrastructure problems raise vlib.Infra as usual.

Each component runs on a child context (own scratch copy of spec/, own counters) so that nothing it finds reaches
ctx.violations; the two components run concurrently.  Counters and model runs are merged into the caller's evidence."""
import json
import random
import threading

import vlib

PLI = dict(pkg_rel="pkg/intervalpli", pkgname="intervalpli", files=["zz_verif_pli_test.go"], test="TestVerifPliExec",
           trace_module="Trace_IntervalPli.tla")
DUMP = dict(pkg_rel="pkg/packetdump", pkgname="packetdump", files=["zz_verif_dump_test.go"], test="TestVerifDumpExec",
            trace_module="Trace_PacketDump.tla")
ASSUMPTIONS = [
    "growth/IntervalPli: the loop is stepped through the verif gate at the top of its ticker case (real 100us ticker); the number of "
    "requests taken per loop pass is read from len(immediatePLINeeded) while the loop is parked; calls that would block for ever "
    "(second forced request without a loop, C11.ForcePLIBlocksWithoutLoop) and a second BindRTCPWriter are not generated",
    "growth/PacketDump: the logger goroutine is held in the harness's RTP/compound filter callback until the call has returned and "
    "the caller's header/payload/read buffer have been overwritten; completion barrier = one more RTP packet with a sentinel SSRC "
    "that the harness's filter rejects (not part of the trace); RTCP packet objects are not modified by the harness after the call",
]


def _walks(c, beh, num):
    """TLC's simulator evaluates the leaf invariant on EVERY successor of the last-but-one state, so a walk is printed once per
    possible last step; keep `num` of them (seeded)."""
    if not num or len(beh) <= num:
        return beh
    return random.Random(c.seed * 7919 + len(beh)).sample(beh, num)


# ------------------------------------------------------------------------------------------ IntervalPli

def pli_nontrivial(evs):
    return any(e.get("w") for e in evs if e["a"] in ("run", "close"))


def pli_batch(c, scripts, tag):
    return vlib.run_batch(c, tag="growth-pli-" + tag, scripts=scripts, nontrivial=pli_nontrivial, go_timeout=600, **PLI)


def pli_gen(c, warms, L, periodic, simulate=None):
    base = "Gen_IntervalPli_sim.cfg" if simulate else "Gen_IntervalPli.cfg"
    cfg = vlib.cfg_variant(c, base, {"Warms": "{%s}" % ", ".join(str(w) for w in warms), "L": L, "Periodic": "TRUE" if periodic else "FALSE"})
    beh = vlib.generate(c, "Gen_IntervalPli.tla", cfg, workers=4, simulate=(simulate, L + 1) if simulate else None)
    beh = _walks(c, beh, simulate)
    return [{"level": "gate" if periodic else "noint", "steps": b} for b in beh]


def run_pli(c):
    rng = random.Random(c.seed)
    q = c.quick
    # (M)
    vlib.model_check(c, "MC_IntervalPli.tla", vlib.cfg_variant(c, "MC_IntervalPli.cfg", {"MaxSteps": 6 if q else 8}), workers=4, timeout=1800)
    vlib.model_check(c, "MC_IntervalPli.tla", vlib.cfg_variant(c, "MC_IntervalPli_noint.cfg", {"MaxSteps": 5 if q else 8}), workers=4, timeout=1800)
    vlib.model_check(c, "MC_IntervalPli.tla", "MC_IntervalPli_neg_nounbind.cfg", workers=2,
                     expect_violation="Invariant RegisteredIsSupported is violated",
                     note="negative control: Unbind that leaves the stream registered (the defect repaired by b202ca0)")
    # (G) every sequence of L calls/ticks over three SSRCs from four starting points (0 fresh, 1 loop running, 2 loop running and
    # two streams registered, 3 a request pending before there is a loop); gated ticker and no ticker
    plan = [((0, 3), 3, True), ((0, 1, 3), 2, False)] if q else \
           [((0,), 4, True), ((1, 2, 3), 3, True), ((0, 2, 3), 3, False)]
    scripts = []
    for warms, L, periodic in plan:
        scripts += pli_gen(c, warms, L, periodic)
    # (T) seeded random walks of the generator (long histories)
    scripts += pli_gen(c, (0, 2, 3), 30 if q else 80, True, simulate=(300 if q else 2500))
    scripts += pli_gen(c, (1, 3), 30 if q else 80, False, simulate=(100 if q else 800))
    rng.shuffle(scripts)
    chunk = 60000
    for i in range(0, len(scripts), chunk):
        pli_batch(c, scripts[i:i + chunk], "G%d" % (i // chunk))


# ------------------------------------------------------------------------------------------ PacketDump

def dump_nontrivial(evs):
    return any(e.get("wr") for e in evs if e["a"] == "calls")


def dump_batch(c, scripts, tag):
    return vlib.run_batch(c, tag="growth-dump-" + tag, scripts=scripts, nontrivial=dump_nontrivial, go_timeout=600, **DUMP)


def sset(*xs):
    return "{" + ", ".join('"%s"' % x for x in xs) + "}"


ALL3 = {"RF": ("all", "none", "even"), "CF": ("all", "none", "hasfb"), "PF": ("all", "none", "fb")}
FMT4 = ("text", "bin", "both", "def")


def dump_gen(c, L, alpha, simulate=None, **sets):
    consts = {"DIR": sset("s", "r"), "L": L, "Alpha": '"%s"' % alpha}
    for k in ("RF", "CF", "PF", "RFMT", "CFMT"):
        consts[k] = sset(*sets[k])
    base = "Gen_PacketDump_sim.cfg" if simulate else "Gen_PacketDump.cfg"
    cfg = vlib.cfg_variant(c, base, consts)
    beh = vlib.generate(c, "Gen_PacketDump.tla", cfg, workers=4, simulate=(simulate, L + 1) if simulate else None)
    beh = _walks(c, beh, simulate)
    res = []
    for b in beh:
        sc = dict(b["cfg"])
        sc["steps"] = b["steps"]
        res.append(sc)
    return res


def run_dump(c):
    rng = random.Random(c.seed)
    q = c.quick
    # (M) the logger protocol for every configuration of the cfg file
    vlib.model_check(c, "MC_PacketDump.tla", vlib.cfg_variant(c, "MC_PacketDump.cfg", {"MaxCalls": 2 if q else 3}), workers=4, timeout=1800)
    vlib.model_check(c, "MC_PacketDump.tla", "MC_PacketDump_neg_unordered.cfg", workers=2, expect_violation="Invariant OrderOK is violated",
                     note="negative control: a buffered hand-off drained in any order breaks 'order of dumps = order of calls'")
    rtcp_side = dict(RF=("all",), RFMT=("bin",), CF=ALL3["CF"], PF=ALL3["PF"], CFMT=FMT4)
    rtp_side = dict(RF=ALL3["RF"], RFMT=FMT4, CF=("hasfb",), PF=("fb",), CFMT=("both",))
    everything = dict(RF=ALL3["RF"], RFMT=FMT4, CF=ALL3["CF"], PF=ALL3["PF"], CFMT=FMT4)
    scripts = []
    # (G) every RTCP-side configuration x every compound of 1-3 packets over {rr, sdes, pli, nack}
    scripts += dump_gen(c, 1, "full", **rtcp_side)
    if q:
        # every RTP-side configuration x every sequence of 2 steps over singles, bursts and Close
        scripts += dump_gen(c, 2, "small", **rtp_side)
        scripts += dump_gen(c, 2, "small", RF=("even",), RFMT=("text",), CF=("all", "hasfb"), PF=("none", "fb"), CFMT=("text", "bin", "both"))
    else:
        scripts += dump_gen(c, 3, "small", **rtp_side)
        scripts += dump_gen(c, 3, "small", RF=("all",), RFMT=("bin",), CF=("hasfb",), PF=("none", "fb"), CFMT=FMT4)
        scripts += dump_gen(c, 2, "small", **everything)        # all 2592 configurations
        scripts += dump_gen(c, 2, "full", RF=("even",), RFMT=("both",), CF=("hasfb",), PF=("fb",), CFMT=("both", "text"))
    # (T) seeded random walks over all configurations and the full alphabet
    scripts += dump_gen(c, 25 if q else 60, "full", simulate=(150 if q else 1500), **everything)
    scripts += dump_gen(c, 12 if q else 30, "small", simulate=(150 if q else 1500), **everything)
    rng.shuffle(scripts)
    chunk = 60000
    for i in range(0, len(scripts), chunk):
        dump_batch(c, scripts[i:i + chunk], "G%d" % (i // chunk))


# ------------------------------------------------------------------------------------------ driver

COMPONENTS = [("IntervalPli", run_pli), ("PacketDump", run_dump)]


def _child(ctx):
    c = vlib.Ctx(ctx.pid, ctx.tier, ctx.seed)
    c.t0 = ctx.t0
    return c


def _merge(ctx, c):
    for k in ("states", "transitions", "traces_validated_against_impl", "events_validated", "behaviours_generated", "evaluations",
              "distinct_nontrivial"):
        ctx.cov[k] += c.cov[k]
    ctx.cov["model_runs"] += c.cov["model_runs"]
    vlib.add_samples(ctx, c.cov["samples"], 1)


def _notes(name, c):
    res = []
    for what, path in c.violations:
        res.append("growth %s: the code diverges from the growth specification: %s replay=%s" % (name, what, path))
    return res


def run_growth(ctx, only=None):
    """Runs both growth specifications against the real code.  Returns the list of notes (empty = the code behaves as specified)."""
    results = {}

    def work(name, fn):
        c = _child(ctx)
        try:
            fn(c)
            results[name] = (c, None)
        except BaseException as e:      # noqa: B902  re-raised in the caller's thread
            results[name] = (c, e)

    threads = []
    for name, fn in COMPONENTS:
        if only and name != only:
            continue
        t = threading.Thread(target=work, args=(name, fn))
        t.start()
        threads.append(t)
    for t in threads:
        t.join()
    notes = []
    for name, _ in COMPONENTS:
        if name not in results:
            continue
        c, err = results[name]
        if err is not None:
            if isinstance(err, vlib.Infra):
                raise vlib.Infra("growth %s: %s" % (name, err))
            raise err
        _merge(ctx, c)
        notes += _notes(name, c)
        ctx.log("growth %s: %d traces / %d events validated, %d note(s)" % (
            name, c.cov["traces_validated_against_impl"], c.cov["events_validated"], len(c.violations)))
    for a in ASSUMPTIONS:
        if a not in ctx.assumptions:
            ctx.assumptions.append(a)
    for n in notes:
        print("NOTE: " + n, flush=True)
    ctx.notes += notes
    return notes


# ------------------------------------------------------------------------------------------ expectation probes

def _pkt(t, a, b=0, pl=()):
    return {"t": t, "a": a, "b": b, "pl": list(pl)}


def _dump_script(steps, **cfg):
    sc = {"dir": "s", "rf": "all", "cf": "all", "pf": "all", "rfmt": "text", "cfmt": "text"}
    sc.update(cfg)
    sc["steps"] = steps + [{"a": "close", "calls": []}]
    return sc


def _ev(a, s=0, fb=(), ss=()):
    return {"a": a, "s": s, "fb": list(fb), "ss": list(ss)}


PLI_FB = [{"t": "nack", "p": "pli"}]
PROBES = [
    # (name, component, what a user would expect, script) - each is validated with the Strict trace configuration
    ("packetdump-both-formatters", DUMP, "NewInterceptor fails with ErrBothBinaryAndDeprecatedFormat when a text AND a binary RTP formatter are set",
     _dump_script([{"a": "calls", "calls": [{"a": "rtp", "p": [_pkt("rtp", 96, 1, (1, 2, 3))]}]}], rfmt="both")),
    ("packetdump-both-rtcp-formatters", DUMP, "NewInterceptor fails with ErrBothBinaryAndDeprecatedFormat when a text AND a binary RTCP formatter are set",
     _dump_script([{"a": "calls", "calls": [{"a": "rtcp", "p": [_pkt("rr", 1)]}]}], cfmt="both", dir="r")),
    ("packetdump-rtcp-slice-reuse", DUMP, "an RTCP dump shows the compound as it was when Write was called, also when the caller reuses its slice afterwards",
     _dump_script([{"a": "calls", "calls": [{"a": "rtcp", "p": [_pkt("pli", 1), _pkt("rr", 2)], "reuse": True}]}], cfmt="bin")),
    ("intervalpli-unbind-local", PLI, "UnbindLocalStream(ssrc) does not stop the PLIs of the REMOTE stream with the same SSRC",
     {"level": "gate", "steps": [_ev("bindw"), _ev("bind", 1, PLI_FB), _ev("unbindl", 1), _ev("tick"), _ev("close")]}),
]


def run_probes(ctx):
    """Hand-written scripts about behaviour a user may not expect, validated with the Strict trace configurations.  Not part of
    run_growth (the growth specifications follow the code there).  Returns [(name, expectation, diverges, detail)]."""
    res = []
    for name, comp, expect, script in PROBES:
        c = _child(ctx)
        c.replay_mode = True
        vlib.run_batch(c, tag="growth-probe-" + name, scripts=[script], go_timeout=300,
                       trace_cfg=comp["trace_module"].replace(".tla", "_strict.cfg"), **comp)
        detail = c.violations[0][0] if c.violations else ""
        res.append((name, expect, bool(c.violations), detail))
        print("PROBE: %s: expectation '%s': %s" % (name, expect, ("the code DIVERGES: " + detail[:300]) if c.violations else "the code agrees"), flush=True)
    return res


def replay_growth(ctx, path):
    """Re-executes the script of a stored growth replay on the current tree; returns the notes."""
    rep = json.load(open(path))
    kind = rep.get("kind", "")
    c = _child(ctx)
    c.replay_mode = True
    scripts = vlib.replay_scripts(path)
    if kind.startswith("growth-pli"):
        pli_batch(c, scripts, "replay")
        name = "IntervalPli"
    elif kind.startswith("growth-dump"):
        dump_batch(c, scripts, "replay")
        name = "PacketDump"
    else:
        raise vlib.Infra("%s is not a growth replay (kind=%r)" % (path, kind))
    notes = _notes(name, c)
    for n in notes:
        print("NOTE: " + n, flush=True)
    return notes

"""C07 - Sender reports count what was sent and map RTP time to wall time.
(M) MC_SenderReport  (G) Gen_SenderReport scripts -> real SenderInterceptor  (T) Trace_SenderReport."""
import random

import vlib

META = {
    "level": "model_checking",
    "text": "SenderReport.tla (packet/octet counters modulo 2^32, timestamp reference = first packet of the frame of the newest "
            "packet sent, RTP time = reference advanced by elapsed time x clock rate, NTP of the report instant) is model "
            "checked exhaustively at scaled constants against a packet-by-packet recount (both option settings, counter "
            "wrap, no backward move of the reference); TLC enumerates every boundary-alphabet behaviour at the real "
            "constants per clock rate / option setting / timestamp base and these plus seeded random send histories "
            "(reordering, multi-packet frames, sequence and timestamp wrap, payload 0..1460, several streams, rebind, "
            "octet-counter wrap) are executed on the real SenderInterceptor through its public interface with injected "
            "clock and ticker; every sender report of every recorded trace must be the one the specification computes.",
    "note": "Trusted: the reading of the property in SenderReport.tla; millisecond clocks; pion/rtcp types. NTP is compared on "
            "the seconds (exact) and the top 20 bits of the fraction (+-2, derived); exact 64-bit NTP conversion is C20. "
            "RTP time is accepted as the exact floor or one less (float64 product). The RTP time of a report sent before "
            "any packet is not constrained (the property does not say).",
    "technique": "TLA+ spec + TLC model checking, TLC-generated behaviours replayed into the Go code, recorded traces validated by TLC",
    "design_ref": "DESIGN.md section 7 C07",
}

PKG = "pkg/report"
HARNESS = ["zz_verif_sr_test.go"]
RULE = ("scripts = TLC-enumerated boundary-alphabet behaviours of Gen_SenderReport at the real constants (every sequence of L "
        "actions: sequence number relative to the newest sent incl. the 2^16 wrap, timestamp equal/above/below the reference, "
        "payload 0/1/1460, elapsed 0/33/1000 ms, a packet on another stream, a report tick) for each clock rate, both settings "
        "of use-latest-packet and timestamp bases 0 (first timestamp 0), 2^32-3000 (wrap) and 2^31 + seeded random histories "
        "(out-of-order sends, multi-packet frames, jumps, duplicates, rebind, three streams, bursts that wrap the octet counter); "
        "each is executed on the real SenderInterceptor (SenderNow + SenderTicker) and the recorded trace is validated by TLC "
        "against Trace_SenderReport. distinct_nontrivial = number of distinct recorded traces with at least one sender report "
        "of a stream that has sent packets.")


def wrap(latest, tsb, tsmid, steps):
    return {"latest": latest, "tsb": tsb, "tsmid": tsmid, "steps": steps}


def ev(a, s=0, w=0, ts=0, ln=0, t=0, k=1, rate=0):
    return {"a": a, "s": s, "w": w, "ts": ts, "len": ln, "t": t, "k": k, "rate": rate}


class Stream:
    def __init__(self, rng, s, rate):
        self.s, self.rate = s, rate
        self.sent = 0
        self.last = 0                                                      # newest sequence number (tracked like the spec)
        self.pos = rng.choice([0, 65530, 32766, 65535, rng.randrange(65536)])
        self.ts = rng.choice([0, 0, -3000, 90000])                         # media clock (true RTP time offset)


def random_script(rng, n, wrap_octets=False):
    g = rng.choice([1, 1, 1, 10])
    rates = [90000, 48000, 8000, 1000, 16000] + ([44100] if g == 10 else [])
    latest = rng.random() < 0.5
    steps = []
    now = rng.choice([0, 0, 7, 1000])
    now -= now % g
    streams = {}
    for s in (1, 2, 3):
        streams[s] = Stream(rng, s, rng.choice(rates))
        steps.append(ev("bind", s=s, rate=streams[s].rate))

    def send(st, w, ts, ln, k=1):
        d = (w - st.last) % 65536
        newer = st.sent == 0 or latest or 0 < d < 32768
        if k > 1 and not newer:
            k = 1
        if newer:
            st.last = (w + k - 1) % 65536
        st.sent += k
        steps.append(ev("rtp", s=st.s, w=w % 65536, ts=ts, ln=ln, t=now, k=k))
        if rng.random() < 0.08:       # the next writer refuses the packet(s): written on the stream all the same
            steps[-1]["wfail"] = True
        if rng.random() < 0.15:       # packets with the padding bit: the octet count is about the payload handed to Write
            steps[-1]["pad"] = rng.choice([4, 8, 255, -1])

    for _ in range(n):
        now += rng.choice([0, 0, 0, g, 2 * g, 10, 30, 40] + ([1000, 5000] if rng.random() < 0.1 else []))
        st = streams[rng.choice([1, 1, 1, 2, 2, 3])]
        r = rng.random()
        ln = rng.choice([0, 1, 100, 1200, 1459, 1460])
        if r < 0.55:
            # next packet; a new frame advances the media clock (sometimes backwards or not at all)
            q = rng.random()
            if q < 0.5:
                st.ts += st.rate // 1000 * rng.choice([20, 33, 40])
            elif q < 0.55:
                st.ts += rng.choice([-3000, -1, 1, 1 << 20])
            st.pos += 1 if rng.random() < 0.95 else rng.choice([2, 5, 1000, 32767, 32768, 40000])
            send(st, st.pos % 65536, st.ts, ln)
        elif r < 0.70:
            # out of order / duplicate: an older sequence number, with its own (older or newer) timestamp
            back = rng.choice([0, 1, 1, 2, 5, 100, 32767, 32768])
            send(st, (st.pos - back) % 65536, st.ts - rng.choice([0, 0, 3000, -3000, 90 * back]), ln)
        elif r < 0.74:
            # a large frame written in one go
            k = rng.choice([2, 3, 10, 50])
            st.ts += 3000
            send(st, (st.pos + 1) % 65536, st.ts, ln, k=k)
            st.pos += k
        elif r < 0.94:
            back = 0
            if rng.random() < 0.12:      # the report instant lies BEFORE the newest packet was sent (a packet written while
                back = rng.choice([g, 5 * g, 40, 1000])     # the tick was in progress; a clock that stepped back)
            steps.append(ev("report", t=max(now - back, 0)))
        elif r < 0.97:
            steps.append(ev("report", t=now))
            steps.append(ev("unbind", s=st.s))
            steps.append(ev("report", t=now))
            old = st
            streams[st.s] = Stream(rng, st.s, rng.choice(rates))
            steps.append(ev("bind", s=st.s, rate=streams[st.s].rate))
            if rng.random() < 0.6:       # writes that were in flight when the stream was removed go through the writer of the
                for d in (1, 2):         # OLD binding (the SSRC is bound again by now): counted nowhere
                    steps.append(dict(ev("rtp", s=old.s, w=(old.pos + d) % 65536, ts=old.ts + 90 * d, ln=700, t=now), stale=True))
                steps.append(ev("report", t=now))
        elif r < 0.98:
            # the SSRC is bound again while it is still bound (renegotiation: new clock rate): the new binding starts fresh
            steps.append(ev("report", t=now))
            streams[st.s] = Stream(rng, st.s, rng.choice(rates))
            steps.append(ev("bind", s=st.s, rate=streams[st.s].rate))
        else:
            now += rng.choice([100, 999, 60000])
            steps.append(ev("report", t=now))
    if wrap_octets:
        # 2^32 payload octets on stream 1: ~100 bursts of 30000 packets of 1460 bytes, reports in between
        st = streams[1]
        left = (1 << 32) + 5000000
        while left > 0:
            k = rng.choice([30000, 29999, 12345])
            st.ts += 3000
            now += 40
            send(st, (st.pos + 1) % 65536, st.ts, 1460, k=k)
            st.pos += k
            left -= k * 1460
            if rng.random() < 0.3:
                now += 5
                steps.append(ev("report", t=now))
    now += 1000
    steps.append(ev("report", t=now))
    if rng.random() < 0.5:          # the RTCP writer refuses the reports of some ticks
        steps = [dict(st, wfail=True) if st["a"] == "report" and rng.random() < 0.25 else st for st in steps]
    return wrap(latest, rng.choice([0, 0, -3000, -1, 12345]), rng.choice([0, 0, 1]), steps)


def nontrivial(evs):
    return any(e["a"] == "report" and any(b["pkts"] > 0 for b in e["out"]) for e in evs)


CHUNK = 12000   # scripts per Go/TLC round (TLC loads a whole trace file into memory)


def run_batch(ctx, scripts, tag):
    """vlib.run_batch in chunks; returns the concatenated event list (None if a chunk could not be executed)."""
    allev = []
    for n, i in enumerate(range(0, len(scripts), CHUNK)):
        evs = vlib.run_batch(ctx, tag=tag if len(scripts) <= CHUNK else "%s.%d" % (tag, n), scripts=scripts[i:i + CHUNK],
                             pkg_rel=PKG, pkgname="report", files=HARNESS, test="TestVerifSRExec", trace_module="Trace_SenderReport.tla",
                             nontrivial=nontrivial, xss="512m")
        if evs is None:
            return None
        allev += evs
    return allev


def gen_scripts(ctx, base, L, alpha, rate, latest, tsb, tsmid):
    cfg = vlib.cfg_variant(ctx, "Gen_SenderReport.cfg", {"Base": base, "L": L, "Alpha": alpha, "Rate": rate,
                                                         "Latest": "TRUE" if latest else "FALSE"})
    beh = vlib.generate(ctx, "Gen_SenderReport.tla", cfg)
    return [wrap(latest, tsb, tsmid, b) for b in beh]


def run(ctx):
    rng = random.Random(ctx.seed)
    # (M)
    steps = 4 if ctx.quick else 5
    for cfg in ("MC_SenderReport.cfg", "MC_SenderReport_latest.cfg"):
        vlib.model_check(ctx, "MC_SenderReport.tla", vlib.cfg_variant(ctx, cfg, {"MaxSteps": steps}), timeout=3000)
    vlib.model_check(ctx, "MC_SenderReport.tla", "MC_SenderReport_reach.cfg",
                     expect_violation="Invariant ReachWrap is violated",
                     note="negative control: the wrap of the octet counter is reachable in the model")
    # (G) systematic: (seq base, L, alphabet, clock rate, use-latest, ts base, ts mid)
    if ctx.quick:
        confs = [(65534, 2, 1, 90000, False, 0, 0), (65534, 2, 1, 48000, True, -3000, 0),
                 (10, 4, 2, 8000, False, -3000, 0), (65535, 4, 2, 90000, True, 0, 1)]
    else:
        confs = [(65534, 3, 1, 90000, False, 0, 0), (65534, 3, 1, 48000, True, -3000, 0), (65534, 3, 1, 8000, False, -3000, 0),
                 (10, 3, 1, 90000, True, 0, 0), (10, 5, 2, 8000, False, -3000, 0), (65535, 5, 2, 90000, True, 0, 1),
                 (32767, 5, 2, 48000, False, 0, 0), (65534, 2, 1, 44100, False, -1, 0), (65534, 2, 1, 1000, True, 0, 1)]
    for (base, L, alpha, rate, latest, tsb, tsmid) in confs:
        scripts = gen_scripts(ctx, base, L, alpha, rate, latest, tsb, tsmid)
        run_batch(ctx, scripts, "G-%d-%d-%d-%d-%s-%d" % (base, L, alpha, rate, "latest" if latest else "inorder", tsb))
    # (T) seeded random long histories
    n, length = (40, 600) if ctx.quick else (400, 3000)
    rs = [vlib.remap_ids(random_script(rng, length), rng.choice(vlib.SSRC_TABLES)) for _ in range(n)]
    rs.append(random_script(rng, 200, wrap_octets=True))
    if not ctx.quick:
        rs += [random_script(rng, 200, wrap_octets=True) for _ in range(3)]
        rs += [random_script(rng, 30000) for _ in range(4)]
    evs = run_batch(ctx, rs, "T-random")
    if evs is not None and not ctx.violations:
        hi = max([b["oct"][0] for e in evs if e["a"] == "report" for b in e["out"]] or [0])
        pk = max([b["pkts"] for e in evs if e["a"] == "report" for b in e["out"]] or [0])
        if pk * 1460 < (1 << 32):
            raise vlib.Infra("the octet-wrap history did not send 2^32 octets (highest packet count seen: %d)" % pk)
        ctx.cov["max_packet_count_observed"] = pk
        ctx.cov["max_octet_count_high_half_observed"] = hi
    ctx.assumptions += [
        "the TLA+ module SenderReport is the reading of the property (newest = half-range rule on the sequence number, or "
        "the last packet written with use-latest-packet; the reference moves only when the newest packet's timestamp "
        "differs from the reference, and is set by the first packet whatever its timestamp)",
        "clocks are integer milliseconds from a whole-second epoch (2026-01-01); elapsed*rate stays below 2^31",
        "NTP: seconds exact, top 20 bits of the fraction within +-2 (float64 resolution near 2^32 s is 2^-21 s); RTP time: "
        "exact floor or one less; nothing required of the RTP time of a report sent before the first packet",
        "ticks are fired through the injected SenderTicker channel and the end of the tick body is observed at the next "
        "evaluation of Ticker.Ch(); no real timers are involved",
        "Go toolchain go1.24.0 from the module cache, pion/rtcp and pion/rtp trusted",
    ]
    return vlib.finish(ctx, "model_checking", RULE)


def replay(ctx, path):
    run_batch(ctx, vlib.replay_scripts(path), "replay")
    return vlib.finish(ctx, "model_checking", RULE)

"""C20 - Sequence-number unwrapping and NTP conversion are exact and monotone.

Unwrapper half (TLC):  (M) MC_Unwrap at M = 16/32/64   (G) Gen_Unwrap input chains -> real Unwrapper
                       (T) Trace_Unwrap: stateful chains and complete 65536-entry tables per start state.
NTP half (Apalache):   samples recorded from the real ToNTP/ToTime/ToNTP32/ToTime32 are written as literal rows of a
                       generated module that EXTENDS spec/Ntp.tla; Apalache evaluates every clause for every row over
                       unbounded integers (TLC's integers are 32-bit)."""
import concurrent.futures
import glob
import json
import os
import random
import re
import shutil
import subprocess
import time

import vlib

META = {
    "level": "model_checking",
    "text": "Unwrap.tla is model checked exhaustively at moduli 16/32/64 (every state below K*M, every input, every non-negative "
            "true stream with steps < M/2: non-negative, congruent, within M/2 of the previous result whenever such a value "
            "exists, exact reconstruction) and, in IndUnwrap.tla, the same clauses are ONE inductive invariant that Apalache "
            "discharges at the real modulus 65536 for every non-negative state (no bound on the history; base case, step, "
            "a non-inductiveness control and four reachability controls). The real Unwrapper is bound to it by complete tables: for each start state (reached "
            "by a recorded input chain) Unwrap(v) is recorded for ALL 65536 inputs and TLC checks every (state, input) pair "
            "against the specification at the real modulus; plus TLC-enumerated boundary-alphabet chains and seeded random "
            "chains validated statefully.",
    "note": "The NTP half is NOT model checking: it is sampled validation against the ideal unbounded-integer specification "
            "Ntp.tla, evaluated by Apalache on samples recorded from the real code (dense around second boundaries, float64 "
            "binade edges, 65536-s window edges, pairs closer than 1 ms, random); float64 semantics are not modelled, an "
            "anomaly between samples would be missed. Unwrapper states are explored below 2^31 only (TLC integers); the "
            "thorough tier covers states below 2^17 at the stride recorded in the evidence. Trusted: the reading of the "
            "property in Unwrap.tla / Ntp.tla (floor at zero, derived tolerances), TLC, Apalache 0.58 constant evaluation.",
    "technique": "TLA+ spec + TLC model checking, TLC-generated behaviours replayed into the Go code, recorded traces/tables "
                 "validated by TLC; Apalache for the unbounded inductive invariant of the unwrapper and the 64-bit NTP clauses",
    "design_ref": "DESIGN.md section 7 C20",
}

M = 65536
H = M // 2
PKG_U, NAME_U, FILES_U, TEST_U = "internal/sequencenumber", "sequencenumber", ["zz_verif_unwrap_test.go"], "TestVerifUnwrapExec"
PKG_N, NAME_N, FILES_N, TEST_N = "internal/ntp", "ntp", ["zz_verif_ntp_test.go"], "TestVerifNtpExec"
TAG_WINDOW = "C20.WindowEdgeRoundsUp"
# TLC allocates heavily while quantifying over 65536 inputs per table; a fixed young generation avoids the page-fault storm
# of the adaptive sizing (measured: 300 tables 36 s -> 15 s per process).
TLC_JAVA_OPTS = "-XX:ParallelGCThreads=2 -Xmn1g -XX:-UseAdaptiveSizePolicy"

RULE = ("unwrapper: (1) tables - for every listed start state L (reached on a fresh Unwrapper by the recorded input chain, "
        "every intermediate result validated) Unwrap(v) is recorded for all 65536 v as maximal runs of constant result-v and TLC "
        "checks UnwrapVal(L, v) = v + c for every v of every run and that the runs partition 0..65535; (2) chains - every "
        "sequence of L inputs over the boundary alphabet of Gen_Unwrap (relative to the specification state) from several bases, "
        "TLC random walks of the same generator and seeded random chains, every result validated statefully by Trace_Unwrap. "
        "NTP: seeded samples (t, t2, ref) executed on the real functions, every clause of Ntp.tla evaluated by Apalache per "
        "sample. distinct_nontrivial = number of distinct recorded unwrapper traces that contain a table with >= 2 runs or a "
        "result different from its input, plus the number of distinct NTP samples whose round trip is not the identity or whose "
        "pair (t, t2) maps to two different 64-bit values.")


# ------------------------------------------------------------------------------------------ parallel helper

def child(ctx, name, k):
    """A context that shares ctx.spec (read-mostly) but has its own scratch directory, counters and coverage, so that
    vlib.run_batch / vlib.model_check can run in several threads.  Merged back with merge()."""
    c = object.__new__(vlib.Ctx)
    c.pid, c.tier, c.seed, c.t0 = ctx.pid, ctx.tier, ctx.seed, ctx.t0
    c.scratch = ctx.path("sub-%s" % name)
    os.makedirs(c.scratch, exist_ok=True)
    c.spec = ctx.spec
    c.cov = {"states": 0, "transitions": 0, "traces_validated_against_impl": 0, "events_validated": 0,
             "behaviours_generated": 0, "evaluations": 0, "distinct_nontrivial": 0, "samples": [], "model_runs": [],
             "known_finding_hits": {}}
    c.assumptions, c.violations, c.known_hits, c.notes = [], [], {}, []
    c._mc_n = 1000 * (k + 1)          # cfg_variant names / metadirs never collide between children
    c.extra = {}
    c.name = name
    if getattr(ctx, "replay_mode", False):
        c.replay_mode = True
    return c


def merge(ctx, ch):
    for k in ("states", "transitions", "traces_validated_against_impl", "events_validated", "behaviours_generated",
              "evaluations", "distinct_nontrivial"):
        ctx.cov[k] += ch.cov[k]
    ctx.cov["model_runs"] += ch.cov["model_runs"]
    for s in ch.cov["samples"]:
        if len(ctx.cov["samples"]) < 10:
            ctx.cov["samples"].append(s)
    ctx.violations += ch.violations
    for t, n in ch.known_hits.items():
        vlib.note_known(ctx, t, n)
    ctx.notes += ch.notes
    for k, v in ch.extra.items():
        if isinstance(v, (int, float)) and isinstance(ctx.extra.get(k, 0), (int, float)):
            ctx.extra[k] = ctx.extra.get(k, 0) + v
        elif isinstance(v, list):
            ctx.extra.setdefault(k, []).extend(v)
        else:
            ctx.extra[k] = v


def run_parallel(ctx, jobs, width):
    """jobs: [(name, fn(child_ctx))]; runs them in a thread pool (the work is in subprocesses), merges in job order.
    An infrastructure error in any job makes the whole check inconclusive."""
    kids = [child(ctx, name, ctx._kid_n + i) for i, (name, _) in enumerate(jobs)]
    ctx._kid_n += len(jobs)
    errs = []
    with concurrent.futures.ThreadPoolExecutor(max_workers=width) as ex:
        futs = [ex.submit(fn, kid) for (_, fn), kid in zip(jobs, kids)]
        for (name, _), f in zip(jobs, futs):
            try:
                f.result()
            except vlib.Infra as e:
                errs.append(vlib.Infra("[%s] %s" % (name, e)))
            except Exception as e:          # noqa: BLE001 - reported as inconclusive by bin/check
                errs.append(vlib.Infra("[%s] internal error %r" % (name, e)))
    for kid in kids:
        merge(ctx, kid)
    if errs:
        raise errs[0]


# ------------------------------------------------------------------------------------------ unwrapper

def walk(targets):
    """Inputs that bring a fresh Unwrapper to each target state in turn (ascending), with a table marker (-1) at each.
    Only forward steps below M/2 are used, which the specification reconstructs exactly; if the code under test moves
    differently TLC rejects the recorded feed event itself."""
    ins, cur = [], None
    for t in sorted(set(targets)):
        if cur is None:
            cur = t if t < M else M - 1
            ins.append(cur)
        while t - cur > H - 1:
            cur += H - 1
            ins.append(cur % M)
        if t != cur:
            ins.append(t % M)
            cur = t
        ins.append(-1)
    return ins


def unwrap_nontrivial(evs):
    return any((e["a"] == "table" and len(e["runs"]) >= 2) or (e["a"] == "feed" and e["r"] != e["v"]) for e in evs)


def unwrap_batch(ch, scripts, tag, tlc_timeout=3000):
    t = time.time()
    evs = vlib.run_batch(ch, tag=tag, scripts=scripts, pkg_rel=PKG_U, pkgname=NAME_U, files=FILES_U, test=TEST_U,
                         trace_module="Trace_Unwrap.tla", nontrivial=unwrap_nontrivial, tlc_timeout=tlc_timeout,
                         go_timeout=1800)
    if evs:
        nt = sum(1 for e in evs if e["a"] == "table")
        ch.extra["unwrap_tables"] = ch.extra.get("unwrap_tables", 0) + nt
        ch.extra["unwrap_state_input_pairs"] = ch.extra.get("unwrap_state_input_pairs", 0) + nt * M
        ch.extra["unwrap_feed_events"] = ch.extra.get("unwrap_feed_events", 0) + sum(1 for e in evs if e["a"] == "feed")
        if nt:
            ch.extra.setdefault("table_batches", []).append(
                {"batch": tag, "tables": nt, "wall_s": round(time.time() - t, 1)})
    return evs


def boundary_states(rng):
    low = [0, 1, 32767, 32768, 32769, 65535, 65536, 65537, 98303, 98304, 131071, 131072]
    mid = []
    for k in (3, 17, 1000):
        for d in (-32768, -32767, -1, 0, 1, 32767, 32768):
            mid.append(k * M + d)
    mid += [rng.randrange(2 * M, 1000 * M) for _ in range(3)]
    high = [2 ** 30 - 1, 2 ** 30, 2 ** 30 + 32768]
    return low, mid, high


def random_chain(rng, n, style):
    """Seeded random input chain.  The residue of the Unwrapper state always equals the last input (congruence), so steps
    relative to the previous input are steps relative to the specification state."""
    v = rng.choice([0, 5, 32768, 65530, rng.randrange(M)])
    ins = [v]
    for _ in range(n - 1):
        r = rng.random()
        if style == "back":          # hovers around the floor at zero
            if r < 0.45:
                d = -rng.randrange(1, 6)
            elif r < 0.75:
                d = rng.randrange(1, 6)
            elif r < 0.85:
                d = -rng.choice([H - 2, H - 1, H, 1000, 20000])
            elif r < 0.95:
                d = rng.choice([H - 2, H - 1, H, H + 1, H + 2])
            else:
                d = rng.randrange(M)
        else:
            if r < 0.55:
                d = rng.randrange(1, 6)
            elif r < 0.65:
                d = -rng.randrange(1, 6)
            elif r < 0.80:
                d = rng.choice([H - 2, H - 1, H, H + 1, H + 2])
            elif r < 0.90:
                d = rng.randrange(M)
            elif r < 0.95:
                d = 0
            else:
                d = rng.randrange(20000, H)
        v = (v + d) % M
        ins.append(v)
    return {"kind": "random-" + style, "in": ins}


def job_mc(ch):
    if ch.quick:
        for m in (16, 32, 64):
            vlib.model_check(ch, "MC_Unwrap.tla", vlib.cfg_variant(ch, "MC_Unwrap.cfg", {"M": m, "K": 4}), workers=4)
    else:
        for m, k in ((16, 16), (32, 16), (64, 16), (128, 6)):
            vlib.model_check(ch, "MC_Unwrap.tla", vlib.cfg_variant(ch, "MC_Unwrap.cfg", {"M": m, "K": k}), workers=4,
                             timeout=3000)
    # negative control: "within M/2 always" is not satisfiable together with non-negativity (previous 5, input M-6)
    vlib.model_check(ch, "MC_Unwrap.tla", "MC_Unwrap_neg.cfg", workers=2, expect_violation="Invariant NearAlways is violated",
                     note="negative control: the unguarded clause must fail (floor at zero)")


IND_RUNS = (   # (init, invariant, length, expected exit: 0 = holds, 12 = counterexample, state in which it must be violated)
    ("Init", "IndInv", 0, 0, None), ("IndInit", "IndInv", 1, 0, None),
    ("IndInitNeg", "IndInvNeg", 1, 12, 1),
    ("IndInit", "NoHuge", 1, 12, 1), ("IndInit", "NoBackwardTrue", 1, 12, 1), ("IndInit", "NoFloor", 1, 12, 1),
    ("IndInit", "NoTie", 1, 12, 1))


def _ind_one(ch, k, init, inv, length, want, state, timeout=900):
    wd = ch.path("apalache-ind-%d" % k)
    os.makedirs(wd, exist_ok=True)
    for f in ("Unwrap.tla", "IndUnwrap.tla"):
        shutil.copy(os.path.join(ch.spec, f), os.path.join(wd, f))
    env = dict(os.environ)
    env.pop("JAVA_TOOL_OPTIONS", None)
    env["TMPDIR"] = wd
    env.setdefault("JVM_ARGS", "-Xmx2g")
    cmd = ["timeout", str(timeout), "apalache-mc", "check", "--cinit=CInit", "--init=" + init, "--inv=" + inv,
           "--length=%d" % length, "--out-dir=" + os.path.join(wd, "out"), "IndUnwrap.tla"]
    t = time.time()
    try:
        p = subprocess.run(cmd, cwd=wd, env=env, stdout=subprocess.PIPE, stderr=subprocess.STDOUT, text=True)
    except OSError as e:
        raise vlib.Infra("cannot run apalache-mc: %s" % e)
    rec = {"module": "IndUnwrap.tla", "mode": "apalache check --init=%s --inv=%s --length=%d (M = 65536, unbounded state)" % (init, inv, length),
           "wall_s": round(time.time() - t, 1), "exit": p.returncode, "expected_exit": want}
    ch.cov["model_runs"].append(rec)
    if p.returncode != want:
        raise vlib.Infra("IndUnwrap: --init=%s --inv=%s gave exit %d, expected %d (the specification's own lemma, not the code):\n%s"
                         % (init, inv, p.returncode, want, p.stdout[-2500:]))
    if state is not None and ("State %d: state invariant 0 violated" % state) not in p.stdout:
        raise vlib.Infra("IndUnwrap: control %s was not violated in state %d:\n%s" % (inv, state, p.stdout[-2500:]))
    return rec


def high_module(rows):
    """rows: ("climb", n, r) | ("row", prev, v, r); row 0 is a corrupted copy of the first real row (negative control)."""
    lines = ["---- MODULE UnwrapHighRun ----",
             "(* generated by checks/c20.py: rows recorded from the real Unwrapper at states beyond 2^31 (TLC integers are 32-bit;",
             "   Apalache evaluates the same operator UnwrapVal of Unwrap.tla over unbounded integers).  A climb of n forward steps of",
             "   H - 1 from 0 is a true stream: the result is n * (H - 1) (clause Exact of IndUnwrap). *)",
             "EXTENDS Unwrap", "VARIABLE", "  \\* @type: Int;", "  i", "CInit == M = 65536",
             "\\* @type: (Int, Int, Int, Int) => Bool;",
             "RowOk(k, p, v, r) == i = k => UnwrapVal([init |-> TRUE, last |-> p], v) = r",
             "\\* @type: (Int, Int, Int) => Bool;",
             "ClimbOk(k, n, r) == i = k => r = n * (H - 1)"]
    groups = []
    for g in range(0, len(rows), 50):
        groups.append("G%d" % (g // 50))
        lines.append("%s ==" % groups[-1])
        for k, row in enumerate(rows[g:g + 50]):
            if row[0] == "climb":
                lines.append("  /\\ ClimbOk(%d, %d, %d)" % (g + k, row[1], row[2]))
            else:
                lines.append("  /\\ RowOk(%d, %d, %d, %d)" % (g + k, row[1], row[2], row[3]))
    lines += ["Init == i \\in 0 .. %d" % (len(rows) - 1), "Next == UNCHANGED i", "View == i",
              "Inv == " + " /\\ ".join(groups), "===="]
    return "\n".join(lines) + "\n"


def job_high(ch):
    """The real Unwrapper at states around 2^31, 2^32, 2^33 (thorough: 2^40, 2^47): reached by climbing with the largest
    forward step, then probed on copies and walked back and forth across the boundary; judged by Apalache."""
    rng = random.Random(ch.seed * 7919 + 3)
    targets = [2 ** 31, 2 ** 32, 2 ** 33] + ([] if ch.quick else [2 ** 40, 2 ** 47])
    scripts = []
    for tg in targets:
        climb = tg // 32767 - 3
        probe = [0, 1, 2, 32766, 32767, 32768, 32769, 40000, 65534, 65535, 100, rng.randrange(65536), rng.randrange(65536)]
        walk = [32767, 32767, 32767, 32767]                       # across the boundary ...
        for _ in range(60):
            walk.append(rng.choice([32767, 32767, 1, 0, 65535, 65000, 32769, 32769, 32768, 100, 20000, 45000, rng.randrange(65536)]))
        walk += [32769] * 6 + [32767] * 8                          # ... back below it and across again
        scripts.append({"kind": "high", "in": [], "climb": climb, "probe": probe, "walk": walk})
    inp, outp = ch.path("C20-high.in"), ch.path("C20-high.trace")
    vlib.write_ndjson(inp, scripts)
    ov = vlib.overlay(ch, vlib.harness_files(PKG_U, NAME_U, FILES_U), name="overlay-high.json")
    rc, out = vlib.go_test(ch, PKG_U, ov, "^%s$" % TEST_U, env={"VERIF_IN": inp, "VERIF_OUT": outp, "VERIF_SEED": ch.seed})
    if "VERIF-INFRA" in out:
        raise vlib.Infra("harness error in %s:\n%s" % (TEST_U, out[-2500:]))
    if rc != 0:
        if "panic:" in out or "fatal error:" in out:
            vlib.report_violation(ch, "high states: the real Unwrapper panicked", {"kind": "unwrap-high", "scripts": scripts,
                                                                                  "go_output": out[-4000:]})
            return
        raise vlib.Infra("go test %s failed:\n%s" % (TEST_U, out[-2500:]))
    evs = [e for e in vlib.read_ndjson(outp) if e.get("a") in ("climb", "row")]
    rows, origin = [], []
    k = -1
    for e in vlib.read_ndjson(outp):
        if e.get("a") == "reset":
            k += 1
        elif e.get("a") == "climb":
            rows.append(("climb", e["n"], e["r"]))
            origin.append(k)
        elif e.get("a") == "row":
            rows.append(("row", e["p"], e["v"], e["r"]))
            origin.append(k)
    if len(rows) != sum(1 + len(s["probe"]) + len(s["walk"]) for s in scripts):
        raise vlib.Infra("high-state harness recorded %d rows" % len(rows))
    first = next(r for r in rows if r[0] == "row")
    ctrl = ("row", first[1], first[2], first[3] + 65536)
    allrows = [ctrl] + rows
    wd = ch.path("apalache-high")
    os.makedirs(wd, exist_ok=True)
    shutil.copy(os.path.join(ch.spec, "Unwrap.tla"), os.path.join(wd, "Unwrap.tla"))
    with open(os.path.join(wd, "UnwrapHighRun.tla"), "w") as f:
        f.write(high_module(allrows))
    env = dict(os.environ)
    env.pop("JAVA_TOOL_OPTIONS", None)
    env["TMPDIR"] = wd
    env.setdefault("JVM_ARGS", "-Xmx3g")
    cmd = ["timeout", "900", "apalache-mc", "check", "--cinit=CInit", "--length=0", "--init=Init", "--next=Next", "--inv=Inv",
           "--view=View", "--max-error=%d" % APALACHE_MAX_ERR, "--out-dir=" + os.path.join(wd, "out"), "UnwrapHighRun.tla"]
    t0 = time.time()
    p = subprocess.run(cmd, cwd=wd, env=env, stdout=subprocess.PIPE, stderr=subprocess.STDOUT, text=True)
    rec = {"module": "Unwrap.tla", "mode": "apalache check --length=0 (rows recorded at states beyond 2^31)", "rows": len(rows),
           "wall_s": round(time.time() - t0, 1), "exit": p.returncode}
    ch.cov["model_runs"].append(rec)
    if p.returncode not in (0, 12):
        raise vlib.Infra("Apalache failed on the high-state rows (exit %d):\n%s" % (p.returncode, p.stdout[-2500:]))
    bad = set()
    for fn in sorted(glob.glob(os.path.join(wd, "out", "*", "*", "violation*.itf.json"))):
        if os.path.basename(fn) == "violation.itf.json":
            continue
        iv = json.load(open(fn))["states"][0]["i"]
        bad.add(int(iv["#bigint"]) if isinstance(iv, dict) else int(iv))
    if 0 not in bad:
        raise vlib.Infra("Apalache did not report the negative-control row of the high-state rows:\n%s" % p.stdout[-2500:])
    bad.discard(0)
    ch.cov["evaluations"] += len(rows)
    ch.extra["unwrap_high"] = {"targets": ["2^%d" % (tg.bit_length() - 1) for tg in targets], "rows": len(rows),
                               "divergent": len(bad), "wall_s": rec["wall_s"]}
    for idx in sorted(bad)[:3]:
        row = allrows[idx]
        sc = scripts[origin[idx - 1]]
        vlib.report_violation(
            ch, "high states: the real Unwrapper diverges from Unwrap.tla at %s" % (
                "climb of %d steps: result %d, expected %d" % (row[1], row[2], row[1] * 32767) if row[0] == "climb"
                else "previous result %d, input %d: result %d" % (row[1], row[2], row[3])),
            {"kind": "unwrap-high", "script": sc, "row": list(row)})
    ch.log("(A) high states: %d rows around %s in %.1fs, %d divergent" % (
        len(rows), ", ".join("2^%d" % (tg.bit_length() - 1) for tg in targets), rec["wall_s"], len(bad)))


def job_inductive(ch):
    """Unbounded counterpart of job_mc: the clauses as ONE inductive invariant at the real modulus, discharged by Apalache/Z3
    for every non-negative state (base case + step), with a non-inductiveness control and four reachability controls."""
    t0 = time.time()
    with concurrent.futures.ThreadPoolExecutor(max_workers=4) as ex:
        futs = [ex.submit(_ind_one, ch, k, *r) for k, r in enumerate(IND_RUNS)]
        for f in futs:
            f.result()
    ch.extra["unwrap_inductive"] = {"modulus": M, "runs": len(IND_RUNS), "wall_s": round(time.time() - t0, 1),
                                    "proved": "IndInv (Congruent, FirstIsInput, Near, FloorAtZero, Idempotent, Exact, NonNegative) "
                                              "is inductive for every state with last >= 0"}
    ch.log("(A) IndUnwrap: inductive invariant at M = %d, %d Apalache runs, %.1fs" % (M, len(IND_RUNS), time.time() - t0))


_TRACE_ML = re.compile(r'<<\s*"TRACE",\s*"(\[[0-9,\s]*\])"\s*>>')


def generate_walks(ch, module, cfg, num, depth, timeout=900):
    """vlib.generate(simulate=...) for behaviours whose PrintT line is longer than TLC's 80-column pretty printer allows:
    TLC wraps `<<"TRACE", "[...]">>` over several lines, which vlib.generate's line-anchored pattern does not match.
    Same TLC invocation (vlib._run_tlc: timeout, own metadir, scratch spec copy), multi-line parse."""
    rc, out, dt = vlib._run_tlc(ch, module, cfg, 1, timeout=timeout,
                                extra=["-simulate", "num=%d" % num, "-depth", str(depth), "-seed", str(ch.seed)])
    if rc == 124:
        raise vlib.Infra("TLC timeout generating walks from %s" % module)
    res = [json.loads(m.group(1)) for m in _TRACE_ML.finditer(out)]
    if not res:
        raise vlib.Infra("generator %s/%s produced no walk:\n%s" % (module, cfg, out[-3000:]))
    gen, dist = vlib.tlc_stats(out)
    ch.cov["behaviours_generated"] += len(res)
    ch.cov["model_runs"].append({"module": module, "cfg": cfg, "mode": "simulate", "behaviours": len(res), "states": dist,
                                 "transitions": gen, "wall_s": round(dt, 1)})
    ch.log("(G) %s/%s: %d random walks of %d inputs %.1fs" % (module, cfg, len(res), depth, dt))
    return res


def gen_scripts(ch, base, pre, depth, simulate=None):
    cfg = vlib.cfg_variant(ch, "Gen_Unwrap.cfg", {"Base": base, "Pre": pre, "L": depth})
    if simulate:
        beh = generate_walks(ch, "Gen_Unwrap.tla", cfg, simulate[0], simulate[1])
    else:
        beh = vlib.generate(ch, "Gen_Unwrap.tla", cfg, workers=2)
    return [{"kind": "gen", "in": b} for b in beh]


def job_gen(ch):
    if ch.quick:
        confs = [(0, 0, 3), (5, 0, 3), (32768, 0, 2), (65530, 0, 3), (5, 3, 2)]
        sim = [(65530, 0, 40, 30)]
    else:
        confs = [(0, 0, 4), (5, 0, 4), (32768, 0, 4), (65530, 0, 4), (5, 3, 4), (65530, 2, 3)]
        sim = [(65530, 0, 300, 20), (5, 0, 300, 20), (32768, 3, 300, 10)]
    scripts = []
    for base, pre, depth in confs:
        scripts += gen_scripts(ch, base, pre, depth)
    for base, pre, depth, num in sim:
        # every walk is printed once per successor of its last state (about 16 leaves per walk)
        scripts += gen_scripts(ch, base, pre, depth, simulate=(num, depth + pre + 2))
    # one TLC validation run per <= 200 000 events (measured: 250 000 events validate in 5 s; a single trace of several
    # million events makes TLC crawl and trips over its periodic checkpoint)
    part, n, k = [], 0, 0
    for sc in scripts + [None]:
        if sc is None or n + len(sc["in"]) + 1 > 200000:
            if part:
                unwrap_batch(ch, part, "G-chains-%d" % k)
                k += 1
            part, n = [], 0
        if sc is not None:
            part.append(sc)
            n += len(sc["in"]) + 1


def job_random(rng_seed, nchains, length):
    def run(ch):
        rng = random.Random(rng_seed)
        scripts = [random_chain(rng, length, "back" if i % 3 == 0 else "fwd") for i in range(nchains)]
        unwrap_batch(ch, scripts, "T-random-%d" % (rng_seed % 1000))
    return run


def job_tables(tag, targets_list, fresh=False):
    def run(ch):
        scripts = [{"kind": "walk", "in": walk(t)} for t in targets_list]
        if fresh:
            scripts.append({"kind": "walk", "in": [-1]})      # the table of the not yet initialised Unwrapper
        unwrap_batch(ch, scripts, tag)
    return run


def unwrap_jobs(ctx, rng):
    jobs = [("mc", job_mc), ("inductive", job_inductive), ("high", job_high), ("gen", job_gen)]
    low, mid, high = boundary_states(rng)
    if ctx.quick:
        jobs.append(("tab-low", job_tables("T-tables-low", [low], fresh=True)))
        jobs.append(("tab-mid", job_tables("T-tables-mid", [mid])))
        jobs.append(("tab-high", job_tables("T-tables-2^30", [high])))
        jobs.append(("rand", job_random(rng.randrange(10 ** 9), 60, 300)))
        ctx.extra["table_states"] = {"boundary": len(low) + len(mid) + len(high) + 1}
    else:
        stride = int(os.environ.get("VERIF_C20_STRIDE", "3"))
        procs = int(os.environ.get("VERIF_C20_PROCS", str(max(2, min(8, vlib.NCPU // 2)))))
        offset = ctx.seed % stride
        top = 2 * M + 64
        states = set(range(offset, top, stride))
        for b in (0, H, M, M + H, 2 * M):                      # dense around every breakpoint
            states.update(x for x in range(b - 48, b + 49) if x >= 0)
        states = sorted(states)
        per = (len(states) + procs - 1) // procs
        for i in range(procs):
            seg = states[i * per:(i + 1) * per]
            if seg:
                jobs.append(("tab-%02d" % i, job_tables("T-tables-%02d" % i, [seg], fresh=(i == 0))))
        strat = []
        for k in (2, 3, 5, 10, 100, 1000, 4000, 16383, 16384, 30000):
            for d in (-32768, -32767, -1, 0, 1, 32767, 32768):
                strat.append(k * M + d)
        strat += [rng.randrange(2 * M, 2 ** 30) for _ in range(40)]
        jobs.append(("tab-strat", job_tables("T-tables-strat", [low + mid + high + strat])))
        for j in range(4):
            jobs.append(("rand%d" % j, job_random(rng.randrange(10 ** 9), 25, 10000)))
        ctx.extra["table_states"] = {"below_2^17_stride": stride, "below_2^17_offset": offset, "below_2^17_count": len(states),
                                     "dense_neighbourhoods": "+-48 around 0, 32768, 65536, 98304, 131072",
                                     "stratified_up_to_2^31": len(set(low + mid + high + strat)), "tlc_processes": procs}
    return jobs


# ------------------------------------------------------------------------------------------ NTP (Apalache)

NS = 10 ** 9
EPOCH = 2208988800
T_MAX = 2082758400 * NS            # 2036-01-01T00:00:00Z (the NTP era ends 2036-02-07)
WIN = 65536 * NS
APALACHE_MAX_ERR = 40
ROWS_PER_GROUP = 25                # the Snowcat type checker is superlinear in the size of one operator body


def window_start(t):
    """Start (unix ns) of the 65536-s NTP window that contains instant t - used only to place references."""
    return (((t // NS + EPOCH) // 65536) * 65536 - EPOCH) * NS


def _to_ntp_ieee(t):
    """ToNTP as the code computes it (IEEE double arithmetic, which Python floats are); used ONLY to place samples."""
    sec = float(t) / 1000000000 + 2208988800.0
    ip = int(sec)
    return (ip << 32) | int((sec - float(ip)) * 4294967295.0)


def algebraic_instants(rng, k):
    """Instants whose 64-bit NTP value n makes n * 10^9 land within 2^31 of a multiple of 2^64 (on either side): where an
    exact 64 x 64 -> 128 bit conversion (instead of the float path) would carry - or forget to carry - into its high word.
    ToNTP's results have the form sec * 2^32 + 2048 j - 1; for a given second at most one j qualifies (about 1 in 1000)."""
    found = []
    tries = 0
    while len(found) < k and tries < 600000:
        tries += 1
        sec = rng.randrange(EPOCH, EPOCH + T_MAX // NS)
        c = ((sec * NS) % (1 << 32)) << 32
        for lo, hi in (((1 << 64) - c - (1 << 31), (1 << 64) - c - 1), ((1 << 64) - c, (1 << 64) - c + (1 << 31) - 1)):
            f0 = -(-lo // NS)
            for f in range(f0, hi // NS + 1):
                if 0 < f < (1 << 32) and f % 2048 == 2047:
                    n = (sec << 32) | f
                    t0 = (sec - EPOCH) * NS + ((f + 1) // 2048) * NS // (1 << 21)
                    for d in range(-640, 641, 64):
                        if 0 <= t0 + d <= T_MAX and _to_ntp_ieee(t0 + d) == n:
                            found.append(t0 + d)
                            break
    return found


def ntp_samples(rng, n):
    """Seeded instants 1970..2036: [t, t2, ref] with |t2 - t| < 1 ms."""
    out = []
    small = [0, 1, 2, 3, 100, 119, 120, 238, 239, 256, 476, 477, 500, 953, 954, 999, 1000, 1001, 15258, 15259, 30518]

    def clamp(x):
        return min(max(x, 0), T_MAX)

    def pick_ref(t, mode):
        w0 = window_start(t)
        if mode == "self":
            return t
        if mode == "near":
            return clamp(min(max(t + rng.randrange(-5 * NS, 5 * NS), w0), w0 + WIN - 1))
        if mode == "window":
            return clamp(w0 + rng.randrange(WIN))
        if mode == "edge":
            return clamp(w0 + rng.choice([0, 1, WIN - 1, WIN - 2, WIN - 1001]))
        return clamp(t + rng.choice([-1, 1]) * rng.randrange(WIN, 40 * WIN))          # another window: clause is vacuous

    def add(t, ref_mode=None):
        t = clamp(t)
        r = rng.random()
        if r < 0.25:
            d = rng.choice(small[:12])
        elif r < 0.6:
            d = rng.randrange(0, 2000)
        else:
            d = rng.randrange(0, 999999)
        t2 = clamp(t + (d if rng.random() < 0.7 else -d))
        mode = ref_mode or rng.choice(["self", "near", "near", "window", "window", "edge", "other"])
        out.append([t, t2, pick_ref(t, mode)])

    fixed = [0, 1, 999999999, NS, T_MAX, T_MAX - 1, (2 ** 31 - 1) * NS, 2 ** 31 * NS, 2 ** 53, 2 ** 53 + 1, 2 ** 60, 2 ** 60 - 1]
    for t in fixed:
        add(t)
    for t in algebraic_instants(rng, max(8, n // 12)):        # (see algebraic_instants)
        out.append([t, t, t])
    while len(out) < n:
        k = rng.random()
        if k < 0.22:                                  # uniform, nanosecond granularity
            add(rng.randrange(0, T_MAX))
        elif k < 0.47:                                # around second boundaries
            add(rng.randrange(0, T_MAX // NS) * NS + rng.choice([1, -1]) * rng.choice(small))
        elif k < 0.60:                                # float64 binade edges of UnixNano (2^53..2^60) and of the seconds (2^k s)
            if rng.random() < 0.5:
                add(2 ** rng.randrange(53, 61) + rng.randrange(-3000, 3000))
            else:
                add(2 ** rng.randrange(16, 31) * NS + rng.randrange(-3000, 3000))
        elif k < 0.72:                                # binary fractions of a second: edges of the 32-bit fraction
            sec = rng.randrange(0, T_MAX // NS)
            j = rng.randrange(1, 17)
            add(sec * NS + (rng.randrange(1, 2 ** j) * NS) // 2 ** j + rng.choice([-2, -1, 0, 1, 2]))
        elif k < 0.90:                                # edges of the 65536-s windows of the 32-bit form
            kk = rng.randrange(EPOCH // 65536 + 1, (EPOCH + T_MAX // NS) // 65536)
            b = (kk * 65536 - EPOCH) * NS
            add(b + rng.choice([1, -1]) * rng.choice(small), rng.choice(["self", "near", "window", "window", "edge"]))
        else:                                         # edges of the 16-bit fraction of the middle form (k / 65536 s)
            sec = rng.randrange(0, T_MAX // NS)
            add(sec * NS + (rng.randrange(0, 65536) * NS) // 65536 + rng.choice([-1, 0, 1, 2]))
    return out[:n]


def ntp_module(name, rows, wk, ctrl):
    """The generated constant module: literal rows Chk(k, wk, t, n, back, t2, n2, m, ref, back32, nref), in groups.  Row 0 is the
    negative control."""
    def row(k, e):
        return "  /\\ Chk(%d, %s, %d, %d, %d, %d, %d, %d, %d, %d, %d)" % (
            k, "TRUE" if wk else "FALSE", e["t"], e["n"], e["back"], e["t2"], e["n2"], e["m"], e["ref"], e["back32"], e["nref"])
    lines = ["---- MODULE %s ----" % name,
             "(* generated by checks/c20.py: samples recorded from internal/ntp; row 0 is a deliberately corrupted copy of",
             "   row 1 (negative control: Apalache must report it) *)",
             "EXTENDS Ntp",
             "Control ==", row(0, ctrl)]
    groups = ["Control"]
    for g in range(0, len(rows), ROWS_PER_GROUP):
        gname = "G%d" % (g // ROWS_PER_GROUP)
        groups.append(gname)
        lines.append("%s ==" % gname)
        for j, e in enumerate(rows[g:g + ROWS_PER_GROUP]):
            lines.append(row(g + j + 1, e))
    lines.append("Init == i \\in 0 .. %d /\\ c \\in Clauses" % len(rows))
    lines.append("Inv == " + " /\\ ".join(groups))
    lines.append("====")
    return "\n".join(lines) + "\n"


def apalache_rows(ch, tag, rows, timeout=900):
    """Run Apalache on one chunk of recorded rows.  Returns [(row index 0-based, clause)] of divergences.  Any outcome other
    than 'no error' / 'invariant violated with parsable counterexamples' is an infrastructure error."""
    wd = ch.path("apalache-%s" % tag)
    os.makedirs(wd, exist_ok=True)
    shutil.copy(os.path.join(ch.spec, "Ntp.tla"), os.path.join(wd, "Ntp.tla"))
    ctrl = dict(rows[0])
    ctrl["n"] += 10000                       # 2.3 us off the recorded value: NearIdeal (and possibly Monotone) must fail
    name = "NtpRun"
    with open(os.path.join(wd, name + ".tla"), "w") as f:
        f.write(ntp_module(name, rows, TAG_WINDOW in vlib.known_tags(ch.pid), ctrl))
    env = dict(os.environ)
    env.pop("JAVA_TOOL_OPTIONS", None)
    env["TMPDIR"] = wd
    env.setdefault("JVM_ARGS", "-Xmx3g")
    cmd = ["timeout", str(timeout), "apalache-mc", "check", "--length=0", "--init=Init", "--next=Next", "--inv=Inv",
           "--view=View", "--max-error=%d" % APALACHE_MAX_ERR, "--out-dir=" + os.path.join(wd, "out"), name + ".tla"]
    t = time.time()
    try:
        p = subprocess.run(cmd, cwd=wd, env=env, stdout=subprocess.PIPE, stderr=subprocess.STDOUT, text=True)
    except OSError as e:
        raise vlib.Infra("cannot run apalache-mc: %s" % e)
    dt = time.time() - t
    out = p.stdout
    rec = {"module": "Ntp.tla", "mode": "apalache check --length=0", "rows": len(rows), "wall_s": round(dt, 1), "exit": p.returncode}
    ch.cov["model_runs"].append(rec)
    if p.returncode == 124:
        raise vlib.Infra("Apalache timeout on chunk %s (%d rows)" % (tag, len(rows)))
    if p.returncode not in (0, 12):
        raise vlib.Infra("Apalache failed on chunk %s (exit %d):\n%s" % (tag, p.returncode, out[-2500:]))
    found = []
    for fn in sorted(glob.glob(os.path.join(wd, "out", "*", "*", "violation*.itf.json"))):
        if os.path.basename(fn) == "violation.itf.json":
            continue                         # copy of the first numbered counterexample
        d = json.load(open(fn))
        s = d["states"][0]
        iv = s["i"]
        iv = int(iv["#bigint"]) if isinstance(iv, dict) else int(iv)
        found.append((iv - 1, s["c"]))          # -1 = the control row
    found = sorted(set(found))
    if p.returncode == 0 or (not any(i == -1 for i, _ in found) and len(found) < APALACHE_MAX_ERR):
        # the corrupted control row must always be reported; otherwise Apalache did not evaluate the rows
        raise vlib.Infra("Apalache did not report the negative-control row of chunk %s (exit %d):\n%s" % (tag, p.returncode, out[-2500:]))
    rec["negative_control_hit"] = True
    res = [(i, c) for i, c in found if 0 <= i < len(rows)]
    if len(found) >= APALACHE_MAX_ERR:
        ch.notes.append("chunk %s: Apalache stopped at --max-error=%d counterexamples; more rows may diverge" % (tag, APALACHE_MAX_ERR))
    rec["divergent_rows"] = len(res)
    return res


def ntp_run(ch, samples, tag, chunk, width):
    """Execute the samples on the real code, then let Apalache judge the recorded rows (chunks in parallel)."""
    inp, outp = ch.path("C20-%s.in" % tag), ch.path("C20-%s.trace" % tag)
    script = {"kind": "ntp", "samples": samples}
    vlib.write_ndjson(inp, [script])
    ov = vlib.overlay(ch, vlib.harness_files(PKG_N, NAME_N, FILES_N), name="overlay-%s.json" % tag)
    rc, out = vlib.go_test(ch, PKG_N, ov, "^%s$" % TEST_N, env={"VERIF_IN": inp, "VERIF_OUT": outp, "VERIF_SEED": ch.seed})
    if "VERIF-INFRA" in out:
        raise vlib.Infra("harness error in %s:\n%s" % (TEST_N, out[-2500:]))
    if rc != 0:
        if "panic:" in out or "fatal error:" in out:
            vlib.report_violation(ch, "%s: the real code panicked while converting a sample" % tag,
                                  {"kind": "ntp", "script": script, "go_output": out[-4000:]})
            return
        raise vlib.Infra("go test %s failed:\n%s" % (TEST_N, out[-2500:]))
    rows = [e for e in vlib.read_ndjson(outp) if e.get("a") == "ntp"]
    if len(rows) != len(samples):
        raise vlib.Infra("NTP harness recorded %d rows for %d samples" % (len(rows), len(samples)))
    for e, s in zip(rows, samples):
        if [e["t"], e["t2"], e["ref"]] != s:
            raise vlib.Infra("NTP harness row does not echo its sample: %r vs %r" % (e, s))
    chunks = [(k, rows[k:k + chunk]) for k in range(0, len(rows), chunk)]
    t0 = time.time()
    with concurrent.futures.ThreadPoolExecutor(max_workers=width) as ex:
        futs = [(k, ex.submit(apalache_rows, ch, "%s-%d" % (tag, k), rs)) for k, rs in chunks]
        results = [(k, f.result()) for k, f in futs]
    ch.extra["ntp_samples"] = ch.extra.get("ntp_samples", 0) + len(rows)
    ch.extra["ntp_apalache_runs"] = ch.extra.get("ntp_apalache_runs", 0) + len(chunks)
    ch.extra["ntp_apalache_wall_s"] = round(ch.extra.get("ntp_apalache_wall_s", 0) + time.time() - t0, 1)
    ch.extra["ntp_clause_evaluations"] = ch.extra.get("ntp_clause_evaluations", 0) + 5 * len(rows)
    ch.cov["evaluations"] += len(rows)
    # non-trivial = the float64 path visibly rounded (round trip is not the identity) or the pair maps to distinct values
    ch.cov["distinct_nontrivial"] += len({(e["t"], e["n"]) for e in rows if e["back"] != e["t"] or e["n"] != e["n2"]})
    vlib.add_samples(ch, [rows[len(rows) // 2]], 1)
    bad_rows = {}
    known = 0
    for k, res in results:
        for i, clause in res:
            if clause.startswith("known:"):
                known += 1
                vlib.note_known(ch, clause[len("known:"):])
                if "known_example" not in ch.extra:
                    ch.extra["known_example"] = {"sample": samples[k + i], "observed": rows[k + i]}
            else:
                bad_rows.setdefault(k + i, []).append(clause)
    ch.extra["ntp_known_finding_rows"] = ch.extra.get("ntp_known_finding_rows", 0) + known
    for idx in sorted(bad_rows)[:3]:
        e = rows[idx]
        vlib.report_violation(
            ch, "NTP %s: sample t=%d t2=%d ref=%d violates clause(s) %s of Ntp.tla: n=%d back=%d n2=%d m=%d back32=%d" % (
                tag, e["t"], e["t2"], e["ref"], ",".join(sorted(bad_rows[idx])), e["n"], e["back"], e["n2"], e["m"], e["back32"]),
            {"kind": "ntp", "script": {"kind": "ntp", "samples": [samples[idx]]}, "observed": e,
             "clauses": sorted(bad_rows[idx])})
    if bad_rows:
        ch.extra["ntp_divergent_rows"] = ch.extra.get("ntp_divergent_rows", 0) + len(bad_rows)
    ch.log("(A) %s: %d samples in %d Apalache run(s), %.1fs, %d divergent, %d known-finding" % (
        tag, len(rows), len(chunks), time.time() - t0, len(bad_rows), known))


def job_ntp(seed, n, chunk, width):
    def run(ch):
        ntp_run(ch, ntp_samples(random.Random(seed), n), "ntp", chunk, width)
    return run


# ------------------------------------------------------------------------------------------ entry points

def _prepare(ctx):
    os.environ.setdefault("JAVA_TOOL_OPTIONS", TLC_JAVA_OPTS)
    ctx._kid_n = 0
    ctx.extra = {}


def _finish(ctx):
    ctx.assumptions += [
        "Unwrap.tla is the reading of the property: the result is the non-negative value congruent to the input within M/2 of "
        "the previous result; tie at exactly M/2 broken as the half-range rule names it; when no such value is non-negative "
        "the result is the input itself (floor at zero) - DESIGN.md C20",
        "table start states are reached by input chains whose every step is validated; a table is taken on a copy of the "
        "Unwrapper struct (value semantics)",
        "the real Unwrapper is compared with the specification exhaustively (complete tables) at states below 2^31 (TLC integers "
        "are 32-bit) and by sampled rows around 2^31, 2^32, 2^33 (thorough: 2^40, 2^47) judged by Apalache; int64 overflow of "
        "lastUnwrapped (2^63) is out of scope",
        "Ntp.tla tolerances: 1 us = 4295 units for the 64-bit value, 1000 ns round trip, 2^-16 s + 1 us for the middle form; "
        "instants 1970-01-01 .. 2036-01-01; Apalache 0.58 evaluates the literal rows (constant simplification / Z3)",
        "NTP half is sampled: a float64 anomaly between samples would be missed",
        "Go toolchain go1.24.0 from the module cache (float64 -> uint32 conversion is compiler-defined for out-of-range values; "
        "none occurs in 1970..2036)",
    ]
    extra = dict(ctx.extra)
    extra["engines"] = ["tlc", "apalache", "go-harness"]
    tb = [b for b in extra.get("table_batches", []) if b["tables"] >= 10 and b["wall_s"] > 0]
    if tb:
        # measured on this run (includes JVM start, trace parsing and the Go execution of the batch)
        extra["tlc_pairs_per_s_per_process"] = int(sum(b["tables"] * M / b["wall_s"] for b in tb) / len(tb))
    return vlib.finish(ctx, "model_checking", RULE, extra_cov=extra)


def run(ctx):
    _prepare(ctx)
    rng = random.Random(ctx.seed)
    jobs = unwrap_jobs(ctx, rng)
    if ctx.quick:
        jobs.insert(1, ("ntp", job_ntp(rng.randrange(10 ** 9), 300, 300, 1)))
        width = 7
    else:
        jobs.insert(1, ("ntp", job_ntp(rng.randrange(10 ** 9), 6000, 500, 3)))
        width = int(os.environ.get("VERIF_C20_PROCS", str(max(2, min(8, vlib.NCPU // 2))))) + 2
    run_parallel(ctx, jobs, width)
    return _finish(ctx)


def replay(ctx, path):
    _prepare(ctx)
    rep = json.load(open(path))
    if rep.get("kind") == "ntp" or (rep.get("script") or {}).get("kind") == "ntp":
        samples = [list(s) for s in rep["script"]["samples"]]
        run_parallel(ctx, [("replay-ntp", lambda ch: ntp_run(ch, samples, "replay", 300, 1))], 1)
    elif rep.get("kind") == "unwrap-high":       # the high-state stage is deterministic in the seed: run it again as a whole
        run_parallel(ctx, [("replay-high", job_high)], 1)
    else:
        scripts = vlib.replay_scripts(path)
        run_parallel(ctx, [("replay", lambda ch: unwrap_batch(ch, scripts, "replay"))], 1)
    return _finish(ctx)

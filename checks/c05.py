"""C05 - TWCC feedback reports exactly what was received, in valid wire form.
(M) MC_Twcc  (G) Gen_Twcc scripts -> real twcc.Recorder  (T) Trace_Twcc on everything the real code returned
(Recorder level with exact arrival times, SenderInterceptor level with bracketed real clocks)."""
import random

import vlib

META = {
    "level": "model_checking",
    "text": "Twcc.tla (abstract recorder over unwrapped numbers and integer microsecond clocks; Build specified relationally "
            "by a TLA+ chunk decoder and the acceptance clauses W1-W3, T1, T2, C1, R1, K1) is model checked exhaustively at "
            "scaled constants together with an implementation-shaped machine (refinement, satisfiability of the relational "
            "Build, agreement of the definitional and the linear decoder, negative controls). TLC enumerates every "
            "boundary-alphabet behaviour at the real constants (2^16 numbers, 2^15 history, 500 ms window, 64 ms / 250 us "
            "units, 24-bit reference); these and seeded random arrival processes are executed on the real twcc.Recorder "
            "(and a sample on the real SenderInterceptor with its own clock and ticker); every packet the code returned is "
            "marshalled, re-parsed with pion/rtcp, logged structurally and decoded and judged by TLC against the "
            "specification state.",
    "note": "Trusted: the reading of the property in Twcc.tla (in particular: culling of reported entries older than 500 ms "
            "exactly when everything has been reported; wire numbers resolved like sequencenumber.Unwrapper - that is C20's "
            "subject); pion/rtcp Marshal/Unmarshal as the wire codec; at interceptor level the harness clock brackets.",
    "technique": "TLA+ spec + TLC model checking, TLC-generated behaviours replayed into the Go code, recorded traces validated by TLC",
    "design_ref": "DESIGN.md section 7 C05, Appendix B.3",
}

PKG = "pkg/twcc"
HARNESS = ["zz_verif_twcc_test.go"]
RULE = ("scripts = TLC-enumerated boundary-alphabet behaviours of Gen_Twcc at the real constants (every sequence of L actions "
        "Record(dn, dt)/Build relative to the highest recorded number and the latest arrival, per warm-up and sub-alphabet, "
        "each combined with time bases at 0, mid-range and across the 24-bit reference wrap) + seeded random arrival "
        "processes (loss bursts, reordering before and after builds, duplicates, jumps across 2^16 and beyond 2^15, gaps "
        "from 0 to minutes) on twcc.Recorder + seeded scripts through SenderInterceptor with its real clock (arrival "
        "bracketed by harness clock readings); every recorded trace is validated by TLC against Trace_Twcc. "
        "distinct_nontrivial = number of distinct recorded traces in which some build returned a packet with a "
        "not-received status, a large-delta status, or more than one packet.")

RB_WRAP = 16777216 - 2          # two 64 ms units below the 24-bit reference wrap
RB_MID = 5000000
RB_OVER = 16777216 + 77         # the absolute reference time no longer fits in 24 bits



def nontrivial(evs):
    for e in evs:
        if e.get("a") != "build":
            continue
        out = e.get("out") or []
        if len(out) > 1:
            return True
        for p in out:
            if p.get("cnt", 0) > len(p.get("d", [])):
                return True
            for c in p.get("ch", []):
                if (c["k"] == 0 and c["s"] == 2) or (c["k"] == 2 and 2 in c["v"]):
                    return True
    return False


def run_batch(ctx, scripts, tag, **kw):
    return vlib.run_batch(ctx, tag=tag, scripts=scripts, pkg_rel=PKG, pkgname="twcc", files=HARNESS,
                          test="TestVerifTwccExec", trace_module="Trace_Twcc.tla", nontrivial=nontrivial, **kw)


def run_chunks(ctx, scripts, tag, size, growth=False):
    for k in range(0, len(scripts), size):
        t = tag if len(scripts) <= size else "%s-%d" % (tag, k // size)
        nv = len(ctx.violations)
        evs = run_batch(ctx, scripts[k:k + size], t, tlc_timeout=3000)
        if growth and evs is not None and len(ctx.violations) == nv:
            growth_pass(ctx, t, evs)


# ------------------------------------------------------------------------------------- specification growth (NOTE)

def growth(ctx):
    return ctx.cov.setdefault("growth_notes", {
        "module": "TwccPacker.tla: exact prediction of chunk list, reference, deltas, symbols and packet split; a divergence "
                  "that satisfies the relational clauses of C05 is a NOTE, never a violation",
        "packets_compared": 0, "divergent_builds": 0, "by_clause": {}, "examples": [], "passes": 0, "problems": []})


def growth_pass(ctx, tag, evs):
    """Second TLC pass (Trace_TwccPacker) over a trace file that Trace_Twcc has accepted."""
    import re
    g = growth(ctx)
    path = ctx.path("%s-%s.trace" % (ctx.pid, re.sub(r"[^A-Za-z0-9_.-]", "_", tag)))
    try:
        v = vlib.validate(ctx, "Trace_TwccPacker.tla", path, timeout=3000)
    except vlib.Infra as e:       # the growth module failing to evaluate is not a verdict about C05 either
        g["problems"].append("%s: %s" % (tag, str(e)[:300]))
        ctx.log("growth pass %s could not be evaluated" % tag)
        return
    g["passes"] += 1
    m = re.search(r'<<"GROWTHCOUNT", (\d+), (\d+)>>', v.out)
    if not m:
        g["problems"].append("%s: no GROWTHCOUNT line" % tag)
        return
    g["divergent_builds"] += int(m.group(1))
    g["packets_compared"] += int(m.group(2))
    for name, n in re.findall(r'<<"GROWTHCLAUSE", "([A-Za-z]+)", (\d+)>>', v.out):
        if int(n):
            g["by_clause"][name] = g["by_clause"].get(name, 0) + int(n)
    for mm in re.finditer(r'<<\s*"GROWTHNOTE",\s*(\d+),\s*\{([^}]*)\}', v.out):
        if len(g["examples"]) >= 5:
            break
        line = int(mm.group(1))
        tr, off = vlib.trace_at(evs, line)
        txt = " ".join(v.out[mm.start():mm.start() + 1500].split())
        nxt = txt.find('<< "GROWTHNOTE"', 10)
        g["examples"].append({"batch": tag, "clauses": [c.strip().strip('"') for c in mm.group(2).split(",")],
                              "event": tr[off] if 0 <= off < len(tr) else None,
                              "trace_prefix": tr[:off][-6:], "tlc": txt[:nxt] if nxt > 0 else txt[:900]})
    ctx.log("(growth) %s: %s packets compared with TwccPacker, %s divergent builds (%.1fs)" % (tag, m.group(2), m.group(1), v.wall))


def growth_report(ctx):
    g = ctx.cov.get("growth_notes")
    if not g:
        return
    if g["divergent_builds"]:
        print("NOTE: property=C05 specification growth: the real packer diverges from TwccPacker.tla in %d build(s) of %d packets "
              "compared, clauses %s; all of them satisfy the relational clauses of C05 (no violation). First example: %s" % (
                  g["divergent_builds"], g["packets_compared"], g["by_clause"],
                  (g["examples"][0]["tlc"][:400] if g["examples"] else "-")), flush=True)
    for pr in g["problems"]:
        print("NOTE: property=C05 specification growth pass not evaluated: %s" % pr, flush=True)


def gen_scripts(ctx, consts, rbs, simulate=None, rng=None):
    cfg = vlib.cfg_variant(ctx, "Gen_Twcc.cfg", consts)
    beh = vlib.generate(ctx, "Gen_Twcc.tla", cfg, simulate=simulate)
    if simulate and len(beh) > simulate[0]:
        # in -simulate mode TLC evaluates the Leaf constraint on every successor of the last state of a walk, so each
        # walk is printed once per alphabet letter; keep a seeded sample of the requested size
        ctx.cov["behaviours_generated"] -= len(beh) - simulate[0]
        beh = rng.sample(beh, simulate[0])
    res = []
    for i, b in enumerate(beh):
        res.append({"lvl": "rec", "rb": rbs[i % len(rbs)], "steps": b})
    return res


# ---------------------------------------------------------------------------------------------- random histories

def random_script(rng, n, style):
    """A seeded arrival process for twcc.Recorder. `pos` is the sender's true counter; what the recorder makes of the
    wire residues (jumps beyond 2^15, wrap) is the specification's business, not the generator's."""
    steps = []
    pos = rng.choice([0, 65500, 32700, rng.randrange(65536)])
    t = rng.choice([0, 1000, 499000, 600000, rng.randrange(2000000)])
    tmax = 900000000
    pending = []            # lost numbers that may still arrive late
    since_build = 0
    mean_gap = rng.choice([200, 1000, 5000, 20000]) if style != "slow" else rng.choice([70000, 300000, 2000000])
    build_every = rng.choice([5, 20, 60, 200])

    def rec(num, at):
        steps.append({"a": "rec", "w": num % 65536, "t": max(0, at)})

    def gap():
        r = rng.random()
        if r < 0.08:
            return 0
        if r < 0.12:
            return rng.choice([100, 124, 125, 126, 250, 375, 63750, 63874, 63875, 63900, 64000, 64125])
        if r < 0.14:
            return rng.choice([8190000, 8191750, 8191874, 8191875, 8200000, 499999, 500000, 500001, 501000])
        if r < 0.145 and style != "dense":
            return rng.choice([20000000, 61000000, 130000000])
        return int(rng.expovariate(1.0 / mean_gap))

    for _ in range(n):
        if t > tmax:
            break
        r = rng.random()
        if r < 0.68:
            pos += 1
            q = rng.random()
            if q < 0.10:                                   # lost, maybe late
                if rng.random() < 0.7:
                    pending.append(pos)
                continue
            if q < 0.13:                                   # loss burst
                k = rng.choice([2, 3, 7, 8, 14, 15, 30, 200])
                for j in range(k):
                    if rng.random() < 0.3:
                        pending.append(pos + j)
                pos += k
            elif q < 0.145 and style == "jumps":           # big jump
                pos += rng.choice([8190, 8191, 8192, 8200, 32765, 32766, 32767, 32768, 32769, 40000, 65535, 65536, 70000])
            t += gap()
            at = t
            if rng.random() < 0.06:                        # clock reading taken earlier than the previous one
                at = t - rng.choice([1, 100, 1000, 30000])
            rec(pos, at)
            since_build += 1
            if rng.random() < 0.04:
                rec(pos, t + rng.choice([0, 50, 1000]))    # duplicate
        elif r < 0.80 and pending:                         # late arrival (before or after a build, maybe very late)
            num = pending.pop(rng.randrange(len(pending)))
            t += gap() // 4
            rec(num, t)
            since_build += 1
        elif r < 0.82:                                     # very old / far-away number
            rec(pos - rng.choice([1, 5, 100, 5000, 32766, 32767, 32768, 32769, 40000]), t)
            since_build += 1
        elif r < 0.84:                                     # duplicate of something older
            rec(pos - rng.choice([1, 2, 10]), t + 10)
        elif r < 0.86:
            t += rng.choice([499000, 500000, 501000, 700000, 2000000])
        elif since_build >= build_every or r > 0.985:
            steps.append({"a": "build"})
            since_build = 0
            if rng.random() < 0.1:
                steps.append({"a": "build"})
        if len(pending) > 50:
            pending = pending[-50:]
    steps.append({"a": "build"})
    rb = rng.choice([0, 0, RB_MID, RB_WRAP, 16777215, RB_OVER, rng.randrange(16777216)])
    return {"lvl": "rec", "rb": rb, "steps": steps}


def history_limit_script(rng, received, spacing_us):
    """Fill the whole 2^15 history: `received` packets spread over 32768 + a few hundred numbers, one build at the end
    and one in the middle, then late packets at the far edge of the history."""
    steps = []
    base = rng.choice([0, 65000, 33000])
    span = 32768 + 300
    nums = sorted(rng.sample(range(span), received))
    t = 700000
    for i, k in enumerate(nums):
        t += spacing_us if rng.random() < 0.9 else rng.choice([0, 64000, 300])
        steps.append({"a": "rec", "w": (base + k) % 65536, "t": t})
        if i == received // 2:
            steps.append({"a": "build"})
    steps.append({"a": "build"})
    hi = base + nums[-1]
    for d in [32766, 32767, 32768, 32769, 100, 1]:
        steps.append({"a": "rec", "w": (hi - d) % 65536, "t": t + 10})
    steps.append({"a": "build"})
    steps.append({"a": "rec", "w": (hi + 1) % 65536, "t": t + 600000})
    steps.append({"a": "rec", "w": (hi - 5) % 65536, "t": t + 600100})
    steps.append({"a": "build"})
    return {"lvl": "rec", "rb": rng.choice([0, RB_WRAP]), "steps": steps}


def backwards_script(n, base):
    """n consecutive numbers whose arrival times run backwards by 300 us each: every delta is negative (two bytes)."""
    steps = [{"a": "rec", "w": (base + i) % 65536, "t": 20000000 - i * 300} for i in range(n)]
    steps.append({"a": "build"})
    return {"lvl": "rec", "rb": 0, "steps": steps}


def run_script(n, base, dt, t0=20000000):
    """The same as one trace event (Twcc!RecRun): n consecutive numbers from `base` on a fresh recorder, arrival step dt
    (all times stay below 10^9 us: TLC integers)."""
    return {"lvl": "rec", "rb": 0, "steps": [{"a": "recrun", "w": base, "n": n, "t": t0, "dt": dt}, {"a": "build"}]}


def icpt_script(rng, n):
    """Through SenderInterceptor: t is the pause in microseconds before the packet is read (real clock, 1 ms ticker)."""
    steps = []
    pos = rng.choice([0, 65500, 40000])
    pending = []
    budget = 150000                                       # keep the whole script well below the 500 ms window
    for _ in range(n):
        r = rng.random()
        pause = rng.choice([0, 0, 0, 50, 300, 1200, 2500])
        if budget - pause < 0:
            pause = 0
        budget -= pause + 60
        if r < 0.75:
            pos += 1
            if rng.random() < 0.12:
                pending.append(pos)
                continue
            if rng.random() < 0.03:
                pos += rng.choice([3, 20, 300])
            steps.append({"a": "rec", "w": pos % 65536, "t": pause})
        elif r < 0.87 and pending:
            steps.append({"a": "rec", "w": pending.pop(rng.randrange(len(pending))) % 65536, "t": pause})
        elif r < 0.90:
            steps.append({"a": "rec", "w": pos % 65536, "t": 0})          # duplicate
        elif steps and steps[-1]["a"] == "rec" and budget > 3000:
            steps.append({"a": "build"})
            budget -= 1500
    if steps and steps[-1]["a"] == "rec":
        steps.append({"a": "build"})
    return {"lvl": "icpt", "rb": 0, "steps": steps}


# ---------------------------------------------------------------------------------------------------------- run

NEG = "Invariant Satisfiable is violated"


def binding_selftest(ctx, variants):
    """Demonstrates that the trace validator is bound to what the code returned: a trace recorded from the real Recorder
    is accepted, and each copy with one logged field damaged / one event dropped is rejected by TLC."""
    sc = {"lvl": "rec", "rb": RB_WRAP, "steps": [
        {"a": "rec", "w": 65534, "t": 100000}, {"a": "rec", "w": 65535, "t": 100260}, {"a": "rec", "w": 2, "t": 164000},
        {"a": "build"}, {"a": "rec", "w": 1, "t": 170000}, {"a": "rec", "w": 3, "t": 8400000}, {"a": "build"}]}
    evs = run_batch(ctx, [sc], "selftest")
    if evs is None or ctx.violations:
        return
    res = {}

    def damaged(name, f):
        import copy
        e2 = copy.deepcopy(evs)
        f(e2)
        p = ctx.path("selftest-%s.trace" % name)
        vlib.write_ndjson(p, e2)
        v = vlib.validate(ctx, "Trace_Twcc.tla", p)
        res[name] = "rejected at event %d" % v.hw if not v.accepted else "ACCEPTED"
        if v.accepted:
            raise vlib.Infra("binding selftest: the trace validator accepted a trace with %s" % name)

    builds = [i for i, e in enumerate(evs) if e["a"] == "build"]
    allv = [
        ("delta+2ticks", lambda e: e[builds[0]]["out"][0]["d"].__setitem__(0, e[builds[0]]["out"][0]["d"][0] + 2)),
        ("dropped-record-event", lambda e: e.pop(2)),
        ("fbcount+1", lambda e: e[builds[1]]["out"][0].__setitem__("fb", e[builds[1]]["out"][0]["fb"] + 1)),
        ("statuscount-1", lambda e: e[builds[0]]["out"][0].__setitem__("cnt", e[builds[0]]["out"][0]["cnt"] - 1)),
        ("reference+1", lambda e: e[builds[1]]["out"][-1].__setitem__("ref", (e[builds[1]]["out"][-1]["ref"] + 1) % 16777216)),
        ("wirelen+4", lambda e: e[builds[0]]["out"][0].__setitem__("wl", e[builds[0]]["out"][0]["wl"] + 4)),
    ]
    for name, f in allv[:variants]:
        damaged(name, f)
    ctx.cov["binding_selftest"] = res


def run(ctx):
    rng = random.Random(ctx.seed)
    q = ctx.quick
    # (M) specification: refinement + satisfiability + history invariants; decoder agreement; negative controls
    if q:
        vlib.model_check(ctx, "MC_Twcc.tla", vlib.cfg_variant(ctx, "MC_Twcc.cfg", {"MaxSteps": 4, "Times": "{0, 5, 30}"}))
        vlib.model_check(ctx, "MC_Twcc.tla", vlib.cfg_variant(ctx, "MC_Twcc_agree.cfg", {"MaxSteps": 3, "Times": "{0, 5, 30}"}))
    else:
        vlib.model_check(ctx, "MC_Twcc.tla", vlib.cfg_variant(ctx, "MC_Twcc.cfg", {"MaxSteps": 4}), timeout=3000)
        vlib.model_check(ctx, "MC_Twcc.tla", vlib.cfg_variant(ctx, "MC_Twcc.cfg", {"MaxSteps": 5}), timeout=3000)
        vlib.model_check(ctx, "MC_Twcc.tla", vlib.cfg_variant(ctx, "MC_Twcc.cfg", {"MaxSteps": 6, "Times": "{5, 30}"}), timeout=3000)
        vlib.model_check(ctx, "MC_Twcc.tla", vlib.cfg_variant(ctx, "MC_Twcc.cfg", {"MaxSteps": 4, "RB": 0, "Times": "{0, 3, 9, 11, 26}"}),
                         timeout=3000, note="time base 0: the arrivalTime >= 500 ms guard of the code is exercised")
        vlib.model_check(ctx, "MC_Twcc.tla", vlib.cfg_variant(ctx, "MC_Twcc_agree.cfg", {"MaxSteps": 4}), timeout=3000)
    for mut in ([2] if q else [1, 2, 3, 5, 7]):
        vlib.model_check(ctx, "MC_Twcc.tla", vlib.cfg_variant(ctx, "MC_Twcc_neg.cfg", {"Mut": mut}), expect_violation=NEG,
                         note="negative control: a builder damaged by Dmg(%d) must be rejected by Accept" % mut)

    # (M) growth: the exact chunk packer - every status sequence up to MaxLen decodes back, is well formed, needs at most one
    # chunk per 7 statuses and at most Slack more than the optimum; bulk operator = repeated single steps
    if q:
        vlib.model_check(ctx, "MC_TwccPacker.tla", vlib.cfg_variant(ctx, "MC_TwccPacker.cfg", {"MaxLen": 9}))
        vlib.model_check(ctx, "MC_TwccPacker.tla", vlib.cfg_variant(ctx, "MC_TwccPacker_small.cfg", {"MaxLen": 8}))
    else:
        vlib.model_check(ctx, "MC_TwccPacker.tla", vlib.cfg_variant(ctx, "MC_TwccPacker.cfg", {"MaxLen": 12}), timeout=3000)
        vlib.model_check(ctx, "MC_TwccPacker.tla", vlib.cfg_variant(ctx, "MC_TwccPacker_small.cfg", {"MaxLen": 12, "Slack": 2}),
                         timeout=3000)
        vlib.model_check(ctx, "MC_TwccPacker.tla", vlib.cfg_variant(ctx, "MC_TwccPacker.cfg", {"MaxLen": 9, "Slack": 0}),
                         expect_violation="Invariant NearOptimal is violated",
                         note="the greedy packer is not optimal: Slack = 0 must be refuted")

    # (G) systematic: sub-alphabets keep the exhaustive depth useful; every behaviour gets one of the time bases
    rbs = [0, RB_WRAP, RB_MID, RB_OVER]
    edge_f, edge_b = "{1, 32766, 32767, 32768}", "{1, 32767, 32768}"
    if q:
        gens = [
            ("full", {"L": 2, "WarmBuild": 1, "Base": 65530}),
            ("seq", {"L": 3, "WarmBuild": 1, "Base": 32760, "DNF": "{1, 32766, 32768}", "DNB": edge_b,
                     "DT": "{250, 501000}", "DTB": "{}"}),
            ("mix", {"L": 3, "WarmBuild": 1, "Base": 65500, "DNF": "{0, 1, 8}", "DNB": "{1, 40}", "DT": "{250, 501000}"}),
            ("time", {"L": 3, "WarmBuild": 0, "Base": 65534, "DNF": "{1}", "DNB": "{1}", "T0": 0}),
        ]
    else:
        gens = [
            ("full-wb", {"L": 2, "WarmBuild": 1, "Base": 65530}),
            ("full-nb", {"L": 2, "WarmBuild": 0, "Base": 0, "T0": 0}),
            ("seq3", {"L": 3, "WarmBuild": 1, "Base": 32760, "DT": "{250, 501000}", "DTB": "{}"}),
            ("seq4", {"L": 4, "WarmBuild": 1, "Base": 65000, "DNF": edge_f, "DNB": edge_b, "DT": "{250, 501000}", "DTB": "{}"}),
            ("seq0", {"L": 3, "WarmBuild": 0, "Base": 3, "DT": "{100, 8200000}", "T0": 499000}),
            ("time", {"L": 4, "WarmBuild": 0, "Base": 65534, "DNF": "{1}", "DNB": "{1}", "T0": 0}),
            ("cull", {"L": 5, "WarmBuild": 1, "Base": 65500, "DNF": "{1, 15}", "DNB": "{3, 40}", "DT": "{250, 501000}", "DTB": "{}"}),
            ("edge", {"L": 4, "WarmBuild": 1, "Base": 100, "DNF": edge_f, "DNB": "{1}", "DT": "{250, 501000, 8200000}", "DTB": "{}"}),
        ]
    allg = []
    for name, consts in gens:
        sc = gen_scripts(ctx, consts, rbs)
        for x in sc:
            x["src"] = "G-" + name
        if q:
            allg += sc
        else:
            run_chunks(ctx, sc, "G-" + name, 40000, growth=name in ("full-wb", "full-nb", "seq4", "edge"))
    if q:
        run_batch(ctx, allg, "G")          # (the growth pass over the G traces is part of the thorough tier)
    else:
        sims = gen_scripts(ctx, {"L": 40, "WarmBuild": 1, "Base": 65000}, rbs, simulate=(3000, 60), rng=rng)
        run_chunks(ctx, sims, "G-simulate", 40000, growth=True)

    # (T) seeded random arrival processes on the Recorder
    if q:
        plan = [("dense", 250, 30), ("jumps", 250, 25), ("slow", 120, 10)]
    else:
        plan = [("dense", 1500, 150), ("jumps", 1000, 200), ("slow", 400, 80), ("dense", 6000, 12)]
    rs = []
    for style, n, cnt in plan:
        for _ in range(cnt):
            rs.append(random_script(rng, n, style))
    rs += [history_limit_script(rng, 300, 900)] if q else [
        history_limit_script(rng, 300, 900), history_limit_script(rng, 2500, 150), history_limit_script(rng, 6000, 70000)]
    run_chunks(ctx, rs, "T-random", 100, growth=True)
    # full 2^15 histories as ONE trace event each (the lemma RecRun = iterated RecordStep is checked by MC_TwccRecRun): every
    # delta two bytes (backwards / 70 ms apart: more than 65535 bytes if built as one packet), every delta one byte, wrap
    vlib.model_check(ctx, "MC_TwccRecRun.tla", "MC_TwccRecRun.cfg", workers=2)
    run_chunks(ctx, [run_script(32768, rng.choice([0, 65000]), -300), run_script(32768, 40000, -25000, 900000000),
                     run_script(32768, 65535, 250), run_script(32767, 1, 8200000 // 32767)], "T-full-history", 4, growth=False)
    if not q:
        # one feedback for a full 2^15 history in which every delta needs two bytes (> 65535 bytes if built as one packet)
        run_chunks(ctx, [backwards_script(32768, rng.choice([0, 65000]))], "T-huge", 1, growth=True)

    # (T) through the SenderInterceptor with real clocks and a real ticker
    ic = [icpt_script(rng, rng.choice([40, 80, 150])) for _ in range(12 if q else 150)]
    evs = run_batch(ctx, ic, "T-interceptor")
    if evs is not None:
        inc = sum(1 for e in evs if e.get("a") == "inconclusive")
        ctx.cov["interceptor_traces"] = len(ic)
        ctx.cov["interceptor_traces_inconclusive"] = inc
        ctx.cov["interceptor_builds_with_read_in_flight"] = sum(1 for e in evs if e.get("a") == "build" and e.get("fl"))
        if inc > len(ic) // 2:
            raise vlib.Infra("more than half of the interceptor-level traces were inconclusive (%d of %d)" % (inc, len(ic)))
    binding_selftest(ctx, 2 if q else 6)
    ctx.assumptions += [
        "the TLA+ module Twcc is the reading of the property: `recorded arrival` = first arrival still in the history; the "
        "history loses entries only by the 2^15 limit or by culling entries older than 500 ms when everything has been reported "
        "(no Record since the last Build); a number more than 2^15 behind the newest is not recorded",
        "16-bit wire numbers are resolved to true numbers like sequencenumber.Unwrapper does (nearest to the previous one; the "
        "unwrapper itself is C20's subject)",
        "pion/rtcp v1.2.17 Marshal/Unmarshal is the wire codec: `parses back` means rtcp.Unmarshal of the marshalled bytes yields "
        "the structure that was built",
        "interceptor level: arrival time of a packet lies between harness clock readings taken immediately before the inner "
        "reader returns and after Read returns (minus/plus the NewInterceptor bracket); scripts last < 400 ms so the 500 ms window "
        "cannot matter (otherwise the trace is inconclusive and not judged); when a feedback is written while a read is in flight "
        "the validator accepts either order of that read and the build",
        "Go toolchain go1.24.0 from the module cache",
    ]
    growth_report(ctx)
    return vlib.finish(ctx, "model_checking", RULE)


def replay(ctx, path):
    import json
    rep = json.load(open(path))
    if rep.get("generator", {}).get("kind") == "backwards":      # compact form of a very long script
        scripts = [backwards_script(rep["generator"]["n"], rep["generator"]["base"])]
    else:
        scripts = vlib.replay_scripts(path)
    run_batch(ctx, scripts, "replay", tlc_timeout=3000)
    return vlib.finish(ctx, "model_checking", RULE)

"""Shared machinery for /verif checks: TLC driving (model check / generate / trace validation),
Go harness injection through `go test -overlay`, evidence and verdict handling.

Exit codes used by every check (see DESIGN.md section 5):
  0  property held on everything explored (KNOWN-FINDING lines may be printed)
  1  VIOLATION property=<id> replay=<path>
  2  the check could not decide (infrastructure error, timeout, harness does not build)
"""
import atexit
import hashlib
import json
import os
import re
import shutil
import subprocess
import sys
import tempfile
import time

VERIF = os.path.dirname(os.path.dirname(os.path.abspath(__file__)))
REPO = os.environ.get("VERIF_REPO", "/repo")
GO_CANDIDATES = [
    "/root/go/pkg/mod/golang.org/toolchain@v0.0.1-go1.24.0.linux-amd64/bin/go",
    "/usr/local/bin/go1.26",
]
TLA_CP = "/opt/veriftools/tla/tla2tools.jar:/opt/veriftools/tla/CommunityModules-deps.jar"
NCPU = os.cpu_count() or 4


class Infra(Exception):
    """The check cannot decide (exit 2)."""


def go_bin():
    for c in GO_CANDIDATES:
        if os.path.exists(c):
            return c
    return "go"


def go_env():
    env = dict(os.environ)
    env.update({"GOTOOLCHAIN": "local", "GOFLAGS": "-mod=mod", "GOPROXY": "off"})
    env.pop("GOSUMDB", None)
    return env


class Ctx:
    def __init__(self, pid, tier, seed):
        self.pid = pid
        self.tier = tier
        self.seed = seed
        self.t0 = time.time()
        self.scratch = tempfile.mkdtemp(prefix="verif-%s-" % pid)
        if not os.environ.get("VERIF_KEEP"):
            atexit.register(shutil.rmtree, self.scratch, True)
        self.spec = os.path.join(self.scratch, "spec")
        shutil.copytree(os.path.join(VERIF, "spec"), self.spec)
        self.cov = {
            "states": 0, "transitions": 0, "traces_validated_against_impl": 0,
            "events_validated": 0, "behaviours_generated": 0, "evaluations": 0,
            "distinct_nontrivial": 0, "samples": [], "model_runs": [], "known_finding_hits": {},
        }
        self.assumptions = []
        self.violations = []   # list of (what, replay path)
        self.known_hits = {}   # tag -> count
        self.notes = []
        self._mc_n = 0

    @property
    def quick(self):
        return self.tier == "quick"

    def path(self, *a):
        return os.path.join(self.scratch, *a)

    def log(self, *a):
        print("[%s %6.1fs]" % (self.pid, time.time() - self.t0), *a, flush=True)


# ------------------------------------------------------------------------------------------ TLC

def _run_tlc(ctx, module, cfg, workers, env=None, extra=(), timeout=600, deque=False, xss=None):
    ctx._mc_n += 1
    md = ctx.path("md%d" % ctx._mc_n)
    e = dict(os.environ)
    if env:
        e.update({k: str(v) for k, v in env.items()})
    jopts = []
    if deque:
        jopts.append("-Dtlc2.tool.queue.IStateQueue=StateDeque")
    cmd = ["timeout", str(timeout), "java", "-XX:+UseParallelGC"]
    if xss:
        cmd.append("-Xss%s" % xss)
    covdir = os.environ.get("VERIF_TLC_COVERAGE")      # bin/covaudit: per-expression evaluation counts of trace validators
    if covdir and module.startswith("Trace_"):
        extra = list(extra) + ["-coverage", "1"]
    cmd += jopts + ["-cp", TLA_CP, "tlc2.TLC", "-workers", str(workers), "-metadir", md,
                    "-config", cfg, "-nowarning"] + list(extra) + [module]
    t = time.time()
    p = subprocess.run(cmd, cwd=ctx.spec, env=e, stdout=subprocess.PIPE, stderr=subprocess.STDOUT, text=True)
    shutil.rmtree(md, True)
    if covdir and module.startswith("Trace_"):
        os.makedirs(covdir, exist_ok=True)
        with open(os.path.join(covdir, "%s-%s-%d-%d.cov" % (ctx.pid, module[:-4], os.getpid(), ctx._mc_n)), "w") as f:
            f.write(p.stdout)
    return p.returncode, p.stdout, time.time() - t


def cfg_variant(ctx, base_cfg, consts, name=None):
    """Copy a .cfg in the scratch spec dir, overriding `NAME = value` constant lines."""
    src = os.path.join(ctx.spec, base_cfg)
    lines = open(src).read().splitlines()
    out = []
    seen = set()
    for ln in lines:
        m = re.match(r"^(\s*)([A-Za-z_][A-Za-z0-9_]*)\s*=\s*(.*)$", ln)
        if m and m.group(2) in consts:
            out.append("%s%s = %s" % (m.group(1), m.group(2), consts[m.group(2)]))
            seen.add(m.group(2))
        else:
            out.append(ln)
    missing = set(consts) - seen
    if missing:
        raise Infra("cfg_variant: constants %s not in %s" % (missing, base_cfg))
    ctx._mc_n += 1
    name = name or "%s_v%d.cfg" % (base_cfg[:-4], ctx._mc_n)
    with open(os.path.join(ctx.spec, name), "w") as f:
        f.write("\n".join(out) + "\n")
    return name


_STATS = re.compile(r"(\d+) states generated, (\d+) distinct states found")


def tlc_stats(out):
    m = None
    for m in _STATS.finditer(out):
        pass
    if not m:
        return 0, 0
    return int(m.group(1)), int(m.group(2))


def tlc_error(out):
    """First TLC error line that is not a postcondition (used for infra diagnosis)."""
    for ln in out.splitlines():
        if ln.startswith("Error:") or "Exception" in ln or "java.lang" in ln:
            return ln
    return None


def model_check(ctx, module, cfg=None, workers=None, timeout=900, expect_violation=None, extra=(), note=None):
    """(M) exhaustive TLC run of a MC_* configuration. Any invariant violation of the *specification* is an
    infrastructure error (the design itself would be wrong), never a verdict about the code."""
    cfg = cfg or module.replace(".tla", ".cfg")
    workers = workers or min(NCPU, 8)
    rc, out, dt = _run_tlc(ctx, module, cfg, workers, timeout=timeout, extra=extra)
    gen, dist = tlc_stats(out)
    ok = "Model checking completed. No error has been found." in out
    rec = {"module": module, "cfg": cfg, "states": dist, "transitions": gen, "wall_s": round(dt, 1), "ok": ok}
    if note:
        rec["note"] = note
    if expect_violation is not None:
        hit = expect_violation in out
        rec["negative_control"] = expect_violation
        rec["negative_control_hit"] = hit
        ctx.cov["model_runs"].append(rec)
        if not hit:
            raise Infra("negative control %s/%s did not produce %r:\n%s" % (module, cfg, expect_violation, out[-1500:]))
        return rec
    ctx.cov["model_runs"].append(rec)
    if rc == 124:
        raise Infra("TLC timeout on %s/%s" % (module, cfg))
    if not ok:
        raise Infra("TLC reports an error on the specification itself (%s/%s):\n%s" % (module, cfg, out[-3000:]))
    ctx.cov["states"] += dist
    ctx.cov["transitions"] += gen
    ctx.log("(M) %s/%s: %d distinct states, %d transitions, %.1fs" % (module, cfg, dist, gen, dt))
    return rec


_TRACE_LINE = re.compile(r'^<<"TRACE", "(.*)">>$')


def _unescape(s):
    return s.replace('\\"', '"').replace("\\\\", "\\")


def generate(ctx, module, cfg=None, workers=None, timeout=900, simulate=None, env=None):
    """(G) let TLC enumerate behaviours of a Gen_* module; every line <<"TRACE", json>> printed is one behaviour.
    simulate=(num, depth) switches to random walks seeded from VERIF_SEED."""
    cfg = cfg or module.replace(".tla", ".cfg")
    extra = []
    if simulate:
        num, depth = simulate
        workers = 1
        extra = ["-simulate", "num=%d" % num, "-depth", str(depth), "-seed", str(ctx.seed)]
    workers = workers or min(NCPU, 8)
    rc, out, dt = _run_tlc(ctx, module, cfg, workers, env=env, timeout=timeout, extra=extra)
    res = []
    for ln in out.splitlines():
        m = _TRACE_LINE.match(ln.strip())
        if m:
            res.append(json.loads(_unescape(m.group(1))))
    gen, dist = tlc_stats(out)
    if rc == 124:
        raise Infra("TLC timeout generating from %s" % module)
    if not res:
        raise Infra("generator %s/%s produced no behaviour:\n%s" % (module, cfg, out[-3000:]))
    if not simulate:
        ctx.cov["states"] += dist
        ctx.cov["transitions"] += gen
    ctx.cov["behaviours_generated"] += len(res)
    ctx.cov["model_runs"].append({"module": module, "cfg": cfg, "mode": "simulate" if simulate else "enumerate",
                                  "behaviours": len(res), "states": dist, "transitions": gen, "wall_s": round(dt, 1)})
    ctx.log("(G) %s/%s: %d behaviours (%d states) %.1fs" % (module, cfg, len(res), dist, dt))
    return res


_HW = re.compile(r'^<<"HW", (\d+), (\d+)>>')
_MIS = re.compile(r'^<<"MISMATCH", (\d+)(.*)>>$')
_KD = re.compile(r'^<<"KNOWNDEV", (\d+), "([^"]+)"')


class Validation:
    def __init__(self):
        self.accepted = False
        self.hw = 0
        self.n = 0
        self.mismatch = None     # (line index 1-based, text)
        self.mismatches = []     # all of them, when the trace spec continues after a mismatch (survey mode)
        self.known = []          # [(line, tag)]
        self.out = ""
        self.wall = 0.0


def known_tags(pid):
    """Tags of recorded (not repaired) findings for a property, from the committed KNOWN_FINDINGS.jsonl."""
    tags = {}
    p = os.path.join(VERIF, "KNOWN_FINDINGS.jsonl")
    if os.path.exists(p):
        for ln in open(p):
            ln = ln.strip()
            if not ln or ln.startswith("#") or ln.startswith("fixed:"):
                continue
            r = json.loads(ln)
            if r.get("property") == pid:
                tags[r["tag"]] = r
    return tags


def validate(ctx, module, trace_path, cfg=None, timeout=1800, deque=False, env=None, xss=None):
    """(T) validate one ndjson trace file (many traces separated by reset events) against a Trace_* module."""
    cfg = cfg or module.replace(".tla", ".cfg")
    kpath = ctx.path("known-%s.ndjson" % ctx.pid)
    with open(kpath, "w") as f:
        for t in known_tags(ctx.pid):
            f.write(json.dumps({"tag": t}) + "\n")
    e = {"VERIF_TRACE": trace_path, "VERIF_KNOWN": kpath}
    if env:
        e.update(env)
    rc, out, dt = _run_tlc(ctx, module, cfg, 1, env=e, timeout=timeout, deque=deque, xss=xss)
    v = Validation()
    v.out = out
    v.wall = dt
    for ln in out.splitlines():
        ln = ln.strip()
        m = _HW.match(ln)
        if m:
            v.hw, v.n = int(m.group(1)), int(m.group(2))
        m = _KD.match(ln)
        if m:
            v.known.append((int(m.group(1)), m.group(2)))
    v.mismatches = []
    for mm in re.finditer(r'<<\s*"MISMATCH",\s*(\d+)', out):
        txt = out[mm.start():mm.start() + 4000]
        end = txt.find('<<', 3)
        while end > 0 and not re.match(r'<<\s*"(HW|MISMATCH|KNOWNDEV)"', txt[end:end + 16]):
            end = txt.find('<<', end + 2)
        if end > 0:
            txt = txt[:end]
        v.mismatches.append((int(mm.group(1)), " ".join(txt.split())[:1500]))
    if v.mismatches:
        v.mismatch = v.mismatches[0]
    if rc == 124:
        raise Infra("TLC timeout validating %s with %s" % (trace_path, module))
    if not _HW.search(out.replace("\n<<", "\n<<")) and v.n == 0:
        ei = out.find("Error:")
        raise Infra("trace validator %s did not reach its postcondition:\n%s" % (
            module, out[ei:ei + 2500] if ei >= 0 else out[-3000:]))
    v.accepted = (v.hw == v.n + 1) and "is false" not in out and "Error:" not in out and not v.mismatches
    if not v.accepted and v.hw == v.n + 1 and not v.mismatches:
        raise Infra("trace validator %s consumed the trace but TLC reported an error:\n%s" % (module, out[-3000:]))
    gen, dist = tlc_stats(out)
    ctx.cov["model_runs"].append({"module": module, "mode": "trace-validation", "events": v.n, "consumed": v.hw - 1,
                                  "states": dist, "wall_s": round(dt, 1), "accepted": v.accepted})
    return v


# ------------------------------------------------------------------------------------------ Go

def overlay(ctx, mapping, name="overlay.json"):
    """mapping: {path relative to REPO (must not exist there): absolute source path or (template path, pkgname)}"""
    rep = {}
    for rel, src in mapping.items():
        dst = os.path.join(REPO, rel)
        if os.path.exists(dst):
            raise Infra("overlay target %s exists in the repository; harness files must only add" % dst)
        if isinstance(src, tuple):
            tpl, pkg = src
            gen = ctx.path("gen_" + rel.replace("/", "_"))
            with open(tpl) as f:
                txt = f.read().replace("package PKGNAME", "package " + pkg)
            with open(gen, "w") as f:
                f.write(txt)
            src = gen
        rep[dst] = src
    p = ctx.path(name)
    with open(p, "w") as f:
        json.dump({"Replace": rep}, f)
    return p


def harness_files(pkg_rel, pkgname, files, common=True):
    """Standard overlay mapping for harness files living in /verif/harness/<pkg_rel>/ ."""
    m = {}
    for fn in files:
        if fn.startswith("common:"):       # a shared template from harness/common, package clause substituted
            base = fn[len("common:"):]
            m[os.path.join(pkg_rel, base[:-4] if base.endswith(".tpl") else base)] = (
                os.path.join(VERIF, "harness", "common", base), pkgname)
        else:
            m[os.path.join(pkg_rel, fn)] = os.path.join(VERIF, "harness", pkg_rel, fn)
    if common:
        m[os.path.join(pkg_rel, "zz_verif_common_test.go")] = (
            os.path.join(VERIF, "harness", "common", "zz_verif_common_test.go.tpl"), pkgname)
    return m


def go_test(ctx, pkg_rel, ov, run, env=None, race=False, timeout=900, tags="verif", extra=(), count=1):
    """Build /repo's current working tree + overlay and run one injected test. Returns (rc, output)."""
    cmd = [go_bin(), "test", "-tags", tags, "-overlay", ov, "-run", run, "-count=%d" % count, "-vet=off",
           "-timeout", "%ds" % timeout]
    if race:
        cmd.append("-race")
    cmd += list(extra) + ["./" + pkg_rel if pkg_rel else "."]
    e = go_env()
    if env:
        e.update({k: str(v) for k, v in env.items()})
    t = time.time()
    p = subprocess.run(cmd, cwd=REPO, env=e, stdout=subprocess.PIPE, stderr=subprocess.STDOUT, text=True)
    dt = time.time() - t
    out = p.stdout
    if "[build failed]" in out or "[setup failed]" in out or re.search(r"^# ", out, re.M) and "FAIL" in out and "--- FAIL" not in out and "panic:" not in out:
        raise Infra("harness for ./%s does not build against the current tree:\n%s" % (pkg_rel, out[-3000:]))
    ctx.log("go test ./%s -run %s%s: rc=%d %.1fs" % (pkg_rel, run, " -race" if race else "", p.returncode, dt))
    return p.returncode, out


# ------------------------------------------------------------------------------------------ traces / replays

def write_ndjson(path, rows):
    with open(path, "w") as f:
        for r in rows:
            f.write(json.dumps(r, separators=(",", ":")) + "\n")


def read_ndjson(path):
    res = []
    with open(path) as f:
        for ln in f:
            ln = ln.strip()
            if ln:
                res.append(json.loads(ln))
    return res


def split_traces(events):
    """Split a concatenated event list at reset events -> list of (start index 0-based, [events])."""
    res = []
    cur = None
    for i, e in enumerate(events):
        if e.get("a") == "reset":
            cur = (i, [e])
            res.append(cur)
        elif cur is not None:
            cur[1].append(e)
    return res


def trace_at(events, line1):
    """The trace (list of events) containing 1-based event index line1, and the offset of that event inside it."""
    best = None
    for start, evs in split_traces(events):
        if start + 1 <= line1:
            best = (start, evs)
    if best is None:
        return events, line1 - 1
    return best[1], line1 - 1 - best[0]


def save_replay(ctx, obj):
    os.makedirs(os.path.join(VERIF, "replays"), exist_ok=True)
    blob = json.dumps(obj, sort_keys=True, separators=(",", ":"))
    h = hashlib.sha1(blob.encode()).hexdigest()[:12]
    p = os.path.join(VERIF, "replays", "%s-%s.json" % (ctx.pid, h))
    with open(p, "w") as f:
        json.dump(obj, f, indent=1, sort_keys=True)
    return p


def report_violation(ctx, what, replay_obj):
    replay_obj = dict(replay_obj)
    replay_obj.setdefault("property", ctx.pid)
    replay_obj.setdefault("what", what)
    replay_obj.setdefault("seed", ctx.seed)
    p = save_replay(ctx, replay_obj)
    ctx.violations.append((what, p))
    ctx.log("violation: %s" % what)
    return p


def note_known(ctx, tag, n=1):
    ctx.known_hits[tag] = ctx.known_hits.get(tag, 0) + n


def handle_validation(ctx, v, events, kind, script_of=None, max_samples=3):
    """Turn a Validation into verdict bookkeeping. events = the event list that was validated.
    script_of(trace_events) -> replayable script object for that trace."""
    traces = split_traces(events)
    ctx.cov["events_validated"] += max(v.hw - 1, 0)
    ctx.cov["traces_validated_against_impl"] += len(traces) if v.accepted else sum(1 for s, _ in traces if s + 1 < v.hw)
    for _, tag in v.known:
        note_known(ctx, tag)
    if v.accepted:
        ctx.log("(T) %s: %d traces / %d events accepted in %.1fs (%d known-finding traces)" % (
            kind, len(traces), v.n, v.wall, len(v.known)))
        return True
    lines = [(ln, txt) for ln, txt in v.mismatches] if v.mismatches else [(v.hw, v.mismatch[1] if v.mismatch else None)]
    seen_traces = set()
    for line, txt in lines:
        idx = -1
        for i, (start, _) in enumerate(traces):
            if start + 1 <= line:
                idx = i
        if idx in seen_traces or len(seen_traces) >= 12:
            continue
        seen_traces.add(idx)
        if idx < 0:
            tr, off = events, line - 1
        else:
            tr, off = traces[idx][1], line - 1 - traces[idx][0]
        what = "%s: specification cannot explain event #%d of a recorded trace: %s" % (
            kind, off, (json.dumps(tr[off])[:400] if 0 <= off < len(tr) else "?"))
        rep = {"kind": kind, "trace": tr[:off + 1], "failing_event_index": off, "tlc": txt}
        if script_of and idx >= 0:
            rep["script"] = script_of(idx)
        report_violation(ctx, what, rep)
    return False
    what = rep = None
    report_violation(ctx, what, rep)
    return False


def run_batch(ctx, *, tag, scripts, pkg_rel, pkgname, files, test, trace_module, nontrivial=None, race=False,
              deque=False, go_timeout=900, tlc_timeout=1800, extra_env=None, trace_cfg=None, xss=None, culprit_hint=None):
    """Execute scripts (one JSON object each) on the real code through an injected Go test, then validate the recorded
    ndjson trace (one `reset` event per script, in script order) with a Trace_* module.  Returns the event list or None."""
    if not scripts:
        return []
    safe = re.sub(r"[^A-Za-z0-9_.-]", "_", tag)
    inp = ctx.path("%s-%s.in" % (ctx.pid, safe))
    outp = ctx.path("%s-%s.trace" % (ctx.pid, safe))
    write_ndjson(inp, scripts)
    ov = overlay(ctx, harness_files(pkg_rel, pkgname, files), name="overlay-%s.json" % safe)
    env = {"VERIF_IN": inp, "VERIF_OUT": outp, "VERIF_SEED": ctx.seed}
    if extra_env:
        env.update(extra_env)
    rc, out = go_test(ctx, pkg_rel, ov, "^%s$" % test, env=env, race=race, timeout=go_timeout)
    if "VERIF-INFRA" in out:
        raise Infra("harness error in %s:\n%s" % (test, out[-2500:]))
    events = read_ndjson(outp) if os.path.exists(outp) else []
    ctx.cov["evaluations"] += len(scripts)
    if rc != 0:
        # the real code panicked / deadlocked / raced while executing a script: the culprit is the script whose
        # reset event is the last one flushed to the trace
        nres = sum(1 for e in events if e.get("a") == "reset")
        culprit = scripts[nres - 1] if 0 < nres <= len(scripts) else None
        if culprit_hint:       # a background goroutine of an EARLIER script may have crashed the process
            culprit = culprit_hint(scripts[:max(nres, 0)], out) or culprit
        if "DATA RACE" in out:
            what = "%s: Go race detector report while executing a script" % tag
        elif "panic:" in out or "fatal error:" in out:
            what = "%s: the real code panicked while executing a script" % tag
        elif "test timed out" in out:
            what = "%s: the real code did not return (test timed out) while executing a script" % tag
        else:
            what = "%s: harness-detected failure while executing a script" % tag
        m = re.search(r"(panic:.*|fatal error:.*|WARNING: DATA RACE.*|--- FAIL.*|VERIF-FAIL.*)", out)
        report_violation(ctx, what + (": " + m.group(1)[:300] if m else ""),
                         {"kind": tag, "script": culprit, "go_output": out[-6000:]})
        return None
    v = validate(ctx, trace_module, outp, cfg=trace_cfg, deque=deque, timeout=tlc_timeout, xss=xss)
    traces = split_traces(events)

    handle_validation(ctx, v, events, tag, lambda i: scripts[i] if i < len(scripts) else None)
    ownp = outp + ".own"
    if os.path.exists(ownp) and os.path.getsize(ownp) > 0:
        # objects the code handed out, rendered at hand-out time and again at the end of their script (Handout.tla)
        own = read_ndjson(ownp)
        if any(e.get("a") == "own" for e in own):
            v2 = validate(ctx, "Trace_Handout.tla", ownp, timeout=tlc_timeout)
            handle_validation(ctx, v2, own, tag + " (handed-out objects)", lambda i: scripts[i] if i < len(scripts) else None)
            ctx.cov["handed_out_objects_rechecked"] = ctx.cov.get("handed_out_objects_rechecked", 0) + sum(1 for e in own if e.get("a") == "own")
    if nontrivial is not None:
        seen = set()
        for _, evs in traces:
            if nontrivial(evs):
                seen.add(hashlib.sha1(json.dumps(evs, sort_keys=True).encode()).hexdigest())
        ctx.cov["distinct_nontrivial"] += len(seen)
    if traces:
        add_samples(ctx, [traces[len(traces) // 2][1][:16]], 1)
    return events


UNIV_PKG_KINDS = {"pkg/gcc": {"cc", "ccleaky"}, "pkg/cc": {"cc", "ccleaky"}, "internal/cc": {"cc", "ccleaky"}, "pkg/pacing": {"pacing"},
                  "pkg/nack": {"nackgen", "nackresp"}, "internal/rtpbuffer": {"nackresp"}, "pkg/packetdump": {"pdrecv", "pdsend"},
                  "pkg/twcc": {"twccsend", "twcchdr"}, "pkg/rfc8888": {"rfc8888"}, "pkg/report": {"rrecv", "rsend"},
                  "pkg/stats": {"stats"}, "pkg/intervalpli": {"pli"}, "pkg/flexfec": {"flexfec"}, "pkg/jitterbuffer": {"jitter"},
                  "pkg/rtpfb": {"rtpfb"}}


def univ_culprit_hint(done, out):
    """Universal-harness scripts: a crash or race in a background goroutine is blamed on the latest executed script that
    contains a member of the package named in the report."""
    i = max(out.find("panic:"), out.find("WARNING: DATA RACE"))
    tail = out[i:i + 4000] if i >= 0 else out[-4000:]
    for pkg, kinds in UNIV_PKG_KINDS.items():
        if "github.com/pion/interceptor/" + pkg in tail:
            for sc in reversed(done):
                if kinds & {m["k"] for m in sc["members"]}:
                    return sc
    return None


def run_parallel(ctx, jobs, max_workers=4):
    """Run several independent batches concurrently.  jobs = list of callables taking a child context; every child has its
    own scratch directory; coverage counters, violations, known-finding hits and notes are merged into ctx afterwards."""
    import concurrent.futures

    def one(job):
        child = Ctx(ctx.pid, ctx.tier, ctx.seed)
        child.replay_mode = getattr(ctx, "replay_mode", False)
        try:
            job(child)
            return child, None
        except Infra as e:
            return child, e
    with concurrent.futures.ThreadPoolExecutor(max_workers=max_workers) as ex:
        results = list(ex.map(one, jobs))
    err = None
    for child, e in results:
        for k in ("states", "transitions", "traces_validated_against_impl", "events_validated", "behaviours_generated",
                  "evaluations", "distinct_nontrivial"):
            ctx.cov[k] += child.cov[k]
        ctx.cov["model_runs"] += child.cov["model_runs"]
        for smp in child.cov["samples"]:
            if len(ctx.cov["samples"]) < 8:
                ctx.cov["samples"].append(smp)
        ctx.violations += child.violations
        for t, n in child.known_hits.items():
            note_known(ctx, t, n)
        ctx.notes += child.notes
        err = err or e
    if err:
        raise err


SSRC_TABLES = [None, None,
               {1: 0x00010001, 2: 0x00020001, 3: 0x00030001, 9: 0x00090001},      # equal in the low 16 bits
               {1: 0x00010000, 2: 0x00020000, 3: 0x00030000, 9: 0x00090000},      # low 16 bits all zero
               {1: 0x7FFF0001, 2: 0x7FFF0002, 3: 0x7FFF0003, 9: 0x7FFF0009},      # equal in the high 16 bits
               {1: 0x12345678, 2: 0x12355678, 3: 0x02345678, 9: 0x12345679}]


def remap_ids(obj, table, keys=("s", "ssrc")):
    """Scripts name streams by small numbers; the wire carries the SSRCs of `table` instead (values that differ only in
    their high or only in their low half, so that a truncated or mis-packed key shows).  TLC integers are 32-bit signed:
    every value stays below 2^31."""
    if table is None:
        return obj
    if isinstance(obj, dict):
        return {k: (table.get(v, v) if k in keys and isinstance(v, int) and not isinstance(v, bool) else remap_ids(v, table, keys))
                for k, v in obj.items()}
    if isinstance(obj, list):
        return [remap_ids(x, table, keys) for x in obj]
    return obj


def replay_scripts(path):
    rep = json.load(open(path))
    if rep.get("script"):
        return [rep["script"]]
    if rep.get("scripts"):
        return rep["scripts"]
    raise Infra("replay file %s has no script" % path)


def add_samples(ctx, items, k=3):
    for it in items[:k]:
        if len(ctx.cov["samples"]) < 8:
            ctx.cov["samples"].append(it)


def distinct_count(projections):
    return len({hashlib.sha1(json.dumps(p, sort_keys=True).encode()).hexdigest() for p in projections})


# ------------------------------------------------------------------------------------------ finish

def finish(ctx, level, rule, extra_cov=None, exhaustive=False):
    findings = known_tags(ctx.pid)
    for tag, n in sorted(ctx.known_hits.items()):
        rec = findings.get(tag, {})
        print("KNOWN-FINDING: property=%s %s [tag=%s, %d occurrence(s) this run]" % (
            ctx.pid, rec.get("what", tag), tag, n), flush=True)
    cov = ctx.cov
    cov["rule"] = rule
    cov["exhaustive"] = exhaustive
    cov["known_finding_hits"] = dict(ctx.known_hits)
    if extra_cov:
        cov.update(extra_cov)
    if cov["evaluations"] == 0:
        cov["evaluations"] = cov["traces_validated_against_impl"]
    if not cov["samples"]:
        cov["samples"] = ["(no sample recorded)"]
    ev = {
        "property_id": ctx.pid, "tier": ctx.tier, "seed": ctx.seed, "level": level, "coverage": cov,
        "assumptions": ctx.assumptions, "wall_s": round(time.time() - ctx.t0, 1), "violations": len(ctx.violations),
        "notes": ctx.notes,
    }
    if not getattr(ctx, "replay_mode", False):
        os.makedirs(os.path.join(VERIF, "evidence"), exist_ok=True)
        with open(os.path.join(VERIF, "evidence", "%s.json" % ctx.pid), "w") as f:
            json.dump(ev, f, indent=1)
    if ctx.violations:
        for what, p in ctx.violations[:5]:
            print("VIOLATION property=%s replay=%s" % (ctx.pid, p), flush=True)
        return 1
    print("OK property=%s tier=%s states=%d traces=%d events=%d wall=%.1fs" % (
        ctx.pid, ctx.tier, cov["states"], cov["traces_validated_against_impl"], cov["events_validated"],
        time.time() - ctx.t0), flush=True)
    return 0

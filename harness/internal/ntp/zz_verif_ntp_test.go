//go:build verif

package ntp

import (
	"encoding/json"
	"testing"
	"time"
)

// Script: a list of samples [t, t2, ref] (nanoseconds since the Unix epoch).  For every sample the real
// conversion functions are called and their results recorded (see spec/Ntp.tla for the clauses checked):
//
//	n = ToNTP(t), back = ToTime(n), n2 = ToNTP(t2), m = ToNTP32(t), back32 = ToTime32(m, ref), nref = ToNTP(ref)
type vfNtpScript struct {
	Kind    string     `json:"kind"`
	Samples [][3]int64 `json:"samples"`
}

func TestVerifNtpExec(t *testing.T) {
	in := vfLoad(t)
	out := vfOut(t)
	defer out.Close()
	for _, raw := range in {
		var sc vfNtpScript
		if err := json.Unmarshal(raw, &sc); err != nil {
			t.Fatalf("VERIF-INFRA bad script: %v", err)
		}
		out.Emit(vfM{"a": "reset", "kind": sc.Kind})
		for _, s := range sc.Samples {
			t1 := time.Unix(0, s[0])
			t2 := time.Unix(0, s[1])
			ref := time.Unix(0, s[2])
			n := ToNTP(t1)
			m := ToNTP32(t1)
			out.Emit(vfM{
				"a": "ntp", "t": s[0], "n": n, "back": ToTime(n).UnixNano(),
				"t2": s[1], "n2": ToNTP(t2),
				"m": m, "ref": s[2], "back32": ToTime32(m, ref).UnixNano(), "nref": ToNTP(ref),
			})
		}
	}
}

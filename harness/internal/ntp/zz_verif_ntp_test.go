//go:build verif

package ntp

import (
	"encoding/json"
	"testing"
	"time"
	_ "time/tzdata" // the zones below do not depend on the host's zoneinfo
)

// Script: a list of samples [t, t2, ref] (nanoseconds since the Unix epoch).  For every sample the real
// conversion functions are called and their results recorded (see spec/Ntp.tla for the clauses checked):
//
//	n = ToNTP(t), back = ToTime(n), n2 = ToNTP(t2), m = ToNTP32(t), back32 = ToTime32(m, ref), nref = ToNTP(ref)
type vfNtpScript struct {
	Kind    string     `json:"kind"`
	Samples [][3]int64 `json:"samples"`
}

func TestVerifNtpExec(t *testing.T) {
	in := vfLoad(t)
	out := vfOut(t)
	defer out.Close()
	// the process-local zone is part of the environment the conversions must not depend on: samples rotate through zones
	// whose UTC offset in 1900 (NTP epoch) differs from the one in 1970 (Unix epoch) and from today's
	var zones []*time.Location
	for _, z := range []string{"UTC", "Europe/London", "Asia/Kolkata", "America/New_York", "Europe/Amsterdam"} {
		loc, err := time.LoadLocation(z)
		if err != nil {
			t.Fatalf("VERIF-INFRA zone %s: %v", z, err)
		}
		zones = append(zones, loc)
	}
	saved := time.Local
	defer func() { time.Local = saved }()
	for _, raw := range in {
		var sc vfNtpScript
		if err := json.Unmarshal(raw, &sc); err != nil {
			t.Fatalf("VERIF-INFRA bad script: %v", err)
		}
		out.Emit(vfM{"a": "reset", "kind": sc.Kind})
		for i, s := range sc.Samples {
			time.Local = zones[i%len(zones)]
			t1 := time.Unix(0, s[0])
			t2 := time.Unix(0, s[1])
			ref := time.Unix(0, s[2])
			n := ToNTP(t1)
			m := ToNTP32(t1)
			out.Emit(vfM{
				"a": "ntp", "t": s[0], "n": n, "back": ToTime(n).UnixNano(),
				"t2": s[1], "n2": ToNTP(t2),
				"m": m, "ref": s[2], "back32": ToTime32(m, ref).UnixNano(), "nref": ToNTP(ref),
			})
		}
	}
}

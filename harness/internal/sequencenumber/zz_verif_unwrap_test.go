//go:build verif

package sequencenumber

import (
	"encoding/json"
	"testing"
)

// Script executed against the real Unwrapper; see spec/Trace_Unwrap.tla for the events.
// In is a list of inputs fed to ONE fresh Unwrapper in order; the value -1 means "record the complete table
// of the current state": Unwrap(v) for all 65536 v, each on a copy of the Unwrapper, run-length encoded.
type vfUnwrapScript struct {
	Kind string `json:"kind"` // informational ("walk", "gen", "random", ...); "high": see below
	In   []int  `json:"in"`
	// kind "high": states beyond the 32-bit range.  A fresh Unwrapper is fed 0 and then Climb times the previous input plus
	// 32767 (the largest forward step); from the state reached, Unwrap(last input + d) is recorded on a COPY for every d of
	// Probe, and then statefully for every d of Walk.  Rows: previous result, input, result (validated by Apalache: TLC
	// integers are 32-bit).
	Climb int64 `json:"climb"`
	Probe []int `json:"probe"`
	Walk  []int `json:"walk"`
}

type vfRun struct {
	Lo int   `json:"lo"`
	Hi int   `json:"hi"`
	C  int64 `json:"c"`
}

// vfTable calls Unwrap(v) for every uint16 v on a copy of u and re-encodes the 65536 results losslessly as
// maximal runs of constant (result - v).
func vfTable(u *Unwrapper) []vfRun {
	runs := make([]vfRun, 0, 4)
	for v := 0; v < 65536; v++ {
		cp := *u
		r := cp.Unwrap(uint16(v)) //nolint:gosec // v < 65536
		c := r - int64(v)
		if n := len(runs); n > 0 && runs[n-1].C == c {
			runs[n-1].Hi = v
		} else {
			runs = append(runs, vfRun{Lo: v, Hi: v, C: c})
		}
	}

	return runs
}

func TestVerifUnwrapExec(t *testing.T) {
	in := vfLoad(t)
	out := vfOut(t)
	defer out.Close()
	for _, raw := range in {
		var sc vfUnwrapScript
		if err := json.Unmarshal(raw, &sc); err != nil {
			t.Fatalf("VERIF-INFRA bad script: %v", err)
		}
		out.Emit(vfM{"a": "reset"})
		u := &Unwrapper{}
		if sc.Kind == "high" {
			v := uint16(0)
			r := u.Unwrap(v)
			for k := int64(0); k < sc.Climb; k++ {
				v += 32767
				r = u.Unwrap(v)
			}
			out.Emit(vfM{"a": "climb", "n": sc.Climb, "v": int(v), "r": r})
			for _, d := range sc.Probe {
				cp := *u
				x := v + uint16(d) //nolint:gosec // modulo 2^16 is intended
				out.Emit(vfM{"a": "row", "p": r, "v": int(x), "r": cp.Unwrap(x)})
			}
			for _, d := range sc.Walk {
				x := v + uint16(d) //nolint:gosec
				r2 := u.Unwrap(x)
				out.Emit(vfM{"a": "row", "p": r, "v": int(x), "r": r2})
				v, r = x, r2
			}

			continue
		}
		for _, x := range sc.In {
			switch {
			case x == -1:
				out.Emit(vfM{"a": "table", "runs": vfTable(u)})
			case x >= 0 && x < 65536:
				r := u.Unwrap(uint16(x))
				out.Emit(vfM{"a": "feed", "v": x, "r": r})
			default:
				t.Fatalf("VERIF-INFRA bad input %d in script", x)
			}
		}
	}
}

//go:build verif

package sequencenumber

import (
	"encoding/json"
	"testing"
)

// Script executed against the real Unwrapper; see spec/Trace_Unwrap.tla for the events.
// In is a list of inputs fed to ONE fresh Unwrapper in order; the value -1 means "record the complete table
// of the current state": Unwrap(v) for all 65536 v, each on a copy of the Unwrapper, run-length encoded.
type vfUnwrapScript struct {
	Kind string `json:"kind"` // informational ("walk", "gen", "random", ...)
	In   []int  `json:"in"`
}

type vfRun struct {
	Lo int   `json:"lo"`
	Hi int   `json:"hi"`
	C  int64 `json:"c"`
}

// vfTable calls Unwrap(v) for every uint16 v on a copy of u and re-encodes the 65536 results losslessly as
// maximal runs of constant (result - v).
func vfTable(u *Unwrapper) []vfRun {
	runs := make([]vfRun, 0, 4)
	for v := 0; v < 65536; v++ {
		cp := *u
		r := cp.Unwrap(uint16(v)) //nolint:gosec // v < 65536
		c := r - int64(v)
		if n := len(runs); n > 0 && runs[n-1].C == c {
			runs[n-1].Hi = v
		} else {
			runs = append(runs, vfRun{Lo: v, Hi: v, C: c})
		}
	}

	return runs
}

func TestVerifUnwrapExec(t *testing.T) {
	in := vfLoad(t)
	out := vfOut(t)
	defer out.Close()
	for _, raw := range in {
		var sc vfUnwrapScript
		if err := json.Unmarshal(raw, &sc); err != nil {
			t.Fatalf("VERIF-INFRA bad script: %v", err)
		}
		out.Emit(vfM{"a": "reset"})
		u := &Unwrapper{}
		for _, x := range sc.In {
			switch {
			case x == -1:
				out.Emit(vfM{"a": "table", "runs": vfTable(u)})
			case x >= 0 && x < 65536:
				r := u.Unwrap(uint16(x))
				out.Emit(vfM{"a": "feed", "v": x, "r": r})
			default:
				t.Fatalf("VERIF-INFRA bad input %d in script", x)
			}
		}
	}
}

//go:build verif

package cc

import (
	"encoding/json"
	"testing"
	"time"

	"github.com/pion/interceptor"
	"github.com/pion/interceptor/internal/ntp"
	"github.com/pion/rtcp"
	"github.com/pion/rtp"
)

// Script executed against the real cc.FeedbackAdapter; every step is logged as one trace event with the observed
// outputs (see spec/Trace_FbDecode.tla).  The harness only builds packets from the script's abstract syntax, calls
// the adapter and records what it returned; feedback is marshalled and unmarshalled with pion/rtcp first so that the
// decoder sees (and the trace records) what the wire delivers.
type vfFbChunk struct {
	T    string   `json:"t"` // "rl", "v1", "v2"
	Sym  uint16   `json:"sym"`
	Len  uint16   `json:"len"`
	Syms []uint16 `json:"syms"`
}

type vfFbMetric struct {
	R   int    `json:"r"`
	ECN uint8  `json:"ecn"`
	Ato uint16 `json:"ato"`
}

type vfFbBlock struct {
	SSRC  uint32       `json:"ssrc"`
	Begin uint16       `json:"begin"`
	Mbs   []vfFbMetric `json:"mbs"`
}

type vfFb struct {
	K      string      `json:"k"` // "twcc" | "ccfb"
	Base   uint16      `json:"base"`
	Count  uint16      `json:"count"`
	Ref    int64       `json:"ref"` // 64 ms units, offset from the script's refbase
	Chunks []vfFbChunk `json:"chunks"`
	Deltas []int64     `json:"deltas"` // 250 us ticks
	DTypes []uint16    `json:"dtypes"` // 1 small, 2 large (one per delta)
	Rts    int64       `json:"rts"`    // 2^-16 s units, offset from NTP32(t0)
	Blocks []vfFbBlock `json:"blocks"`
}

type vfFbStep struct {
	A    string `json:"a"`
	SSRC uint32 `json:"ssrc"`
	Seq  uint16 `json:"seq"`
	Tw   uint16 `json:"tw"`
	Twcc bool   `json:"twcc"`
	Ext  bool   `json:"ext"`
	N    int    `json:"n"`
	Size int    `json:"size"`
	Dep  int64  `json:"dep"`
	Gap  int64  `json:"gap"`
	Wire bool   `json:"wire"`
	At   int64  `json:"at"`
	Fbs  []vfFb `json:"fbs"`
}

type vfFbScript struct {
	Target  string     `json:"target"`
	RefBase int64      `json:"refbase"`
	Steps   []vfFbStep `json:"steps"`
}

var vfT0 = time.Date(2025, 1, 1, 0, 0, 0, 0, time.UTC)

func vfClamp(v int64) int64 {
	const lim = 2000000000
	if v > lim {
		return lim
	}
	if v < -lim {
		return -lim
	}

	return v
}

func vfUs(d time.Duration) int64 { return vfClamp(d.Microseconds()) }

func vfBuildTwcc(fb *vfFb, refBase int64) *rtcp.TransportLayerCC {
	pkt := &rtcp.TransportLayerCC{
		SenderSSRC:         7,
		MediaSSRC:          1,
		BaseSequenceNumber: fb.Base,
		PacketStatusCount:  fb.Count,
		ReferenceTime:      uint32(refBase + fb.Ref), //nolint:gosec
		FbPktCount:         1,
	}
	for _, c := range fb.Chunks {
		switch c.T {
		case "rl":
			pkt.PacketChunks = append(pkt.PacketChunks, &rtcp.RunLengthChunk{
				Type: rtcp.TypeTCCRunLengthChunk, PacketStatusSymbol: c.Sym, RunLength: c.Len,
			})
		case "v1":
			pkt.PacketChunks = append(pkt.PacketChunks, &rtcp.StatusVectorChunk{
				Type: rtcp.TypeTCCStatusVectorChunk, SymbolSize: rtcp.TypeTCCSymbolSizeOneBit,
				SymbolList: append([]uint16{}, c.Syms...),
			})
		default:
			pkt.PacketChunks = append(pkt.PacketChunks, &rtcp.StatusVectorChunk{
				Type: rtcp.TypeTCCStatusVectorChunk, SymbolSize: rtcp.TypeTCCSymbolSizeTwoBit,
				SymbolList: append([]uint16{}, c.Syms...),
			})
		}
	}
	for i, d := range fb.Deltas {
		ty := uint16(rtcp.TypeTCCPacketReceivedSmallDelta)
		if i < len(fb.DTypes) {
			ty = fb.DTypes[i]
		}
		pkt.RecvDeltas = append(pkt.RecvDeltas, &rtcp.RecvDelta{Type: ty, Delta: d * rtcp.TypeTCCDeltaScaleFactor})
	}
	size := pkt.MarshalSize()
	raw := 20 + 2*len(pkt.PacketChunks)
	for _, d := range pkt.RecvDeltas {
		if d.Type == rtcp.TypeTCCPacketReceivedSmallDelta {
			raw++
		} else {
			raw += 2
		}
	}
	pkt.Header = rtcp.Header{
		Padding: raw%4 != 0, Count: rtcp.FormatTCC, Type: rtcp.TypeTransportSpecificFeedback,
		Length: uint16(size/4 - 1), //nolint:gosec
	}

	return pkt
}

func vfBuildCcfb(fb *vfFb, rtsBase uint32) *rtcp.CCFeedbackReport {
	pkt := &rtcp.CCFeedbackReport{SenderSSRC: 7, ReportTimestamp: rtsBase + uint32(fb.Rts)} //nolint:gosec
	for _, b := range fb.Blocks {
		blk := rtcp.CCFeedbackReportBlock{MediaSSRC: b.SSRC, BeginSequence: b.Begin}
		for _, m := range b.Mbs {
			blk.MetricBlocks = append(blk.MetricBlocks, rtcp.CCFeedbackMetricBlock{
				Received: m.R != 0, ECN: rtcp.ECN(m.ECN), ArrivalTimeOffset: m.Ato,
			})
		}
		pkt.ReportBlocks = append(pkt.ReportBlocks, blk)
	}

	return pkt
}

// vfDescribe renders a (delivered) feedback packet in the abstract syntax of the specification.
func vfDescribe(p rtcp.Packet, refBase int64, rtsBase uint32) vfM {
	switch fb := p.(type) {
	case *rtcp.TransportLayerCC:
		chunks := []vfM{}
		for _, c := range fb.PacketChunks {
			switch ch := c.(type) {
			case *rtcp.RunLengthChunk:
				chunks = append(chunks, vfM{"t": "rl", "sym": ch.PacketStatusSymbol, "len": ch.RunLength, "syms": []uint16{}})
			case *rtcp.StatusVectorChunk:
				t := "v2"
				if ch.SymbolSize == rtcp.TypeTCCSymbolSizeOneBit {
					t = "v1"
				}
				chunks = append(chunks, vfM{"t": t, "sym": 0, "len": 0, "syms": append([]uint16{}, ch.SymbolList...)})
			}
		}
		deltas := []int64{}
		for _, d := range fb.RecvDeltas {
			deltas = append(deltas, d.Delta/rtcp.TypeTCCDeltaScaleFactor)
		}

		return vfM{
			"k": "twcc", "base": fb.BaseSequenceNumber, "count": fb.PacketStatusCount,
			"ref": vfClamp(int64(fb.ReferenceTime) - refBase), "chunks": chunks, "deltas": deltas, "rts": 0, "blocks": []vfM{},
		}
	case *rtcp.CCFeedbackReport:
		blocks := []vfM{}
		for _, b := range fb.ReportBlocks {
			mbs := []vfM{}
			for _, m := range b.MetricBlocks {
				r := 0
				if m.Received {
					r = 1
				}
				mbs = append(mbs, vfM{"r": r, "ecn": int(m.ECN), "ato": m.ArrivalTimeOffset})
			}
			blocks = append(blocks, vfM{"ssrc": b.MediaSSRC, "begin": b.BeginSequence, "mbs": mbs})
		}

		return vfM{
			"k": "ccfb", "base": 0, "count": 0, "ref": 0, "chunks": []vfM{}, "deltas": []int64{},
			"rts": vfClamp(int64(fb.ReportTimestamp) - int64(rtsBase)), "blocks": blocks,
		}
	}

	return nil
}

// vfRoundTrip marshals and unmarshals one feedback packet; ok=false if the wire form cannot be produced or parsed.
func vfRoundTrip(p rtcp.Packet) (rtcp.Packet, bool) {
	raw, err := p.Marshal()
	if err != nil {
		return nil, false
	}
	pkts, err := rtcp.Unmarshal(raw)
	if err != nil || len(pkts) != 1 {
		return nil, false
	}

	return pkts[0], true
}

func vfAcks(acks []Acknowledgment, arrBase time.Time) []vfM {
	res := []vfM{}
	for _, a := range acks {
		m := vfM{
			"seq": a.SequenceNumber, "ssrc": a.SSRC, "size": vfClamp(int64(a.Size)), "dz": a.Departure.IsZero(), "dep": 0,
			"has": !a.Arrival.IsZero(), "arr": 0, "ecn": int(a.ECN),
		}
		if !a.Departure.IsZero() {
			m["dep"] = vfUs(a.Departure.Sub(vfT0))
		}
		if !a.Arrival.IsZero() {
			m["arr"] = vfUs(a.Arrival.Sub(arrBase))
		}
		res = append(res, m)
	}

	return res
}

func TestVerifFbAdapterExec(t *testing.T) {
	in := vfLoad(t)
	out := vfOut(t)
	defer out.Close()
	rtsBase := ntp.ToNTP32(vfT0)
	ccfbArrBase := ntp.ToTime(uint64(rtsBase) << 16)
	for _, raw := range in {
		var sc vfFbScript
		if err := json.Unmarshal(raw, &sc); err != nil {
			t.Fatalf("VERIF-INFRA bad script: %v", err)
		}
		twccArrBase := time.Time{}.Add(time.Duration(sc.RefBase) * 64 * time.Millisecond)
		fa := NewFeedbackAdapter()
		out.Emit(vfM{"a": "reset", "target": "cc"})
		for _, st := range sc.Steps {
			switch st.A {
			case "run":
				hsz := 0
				for i := 0; i < st.N; i++ {
					hdr := rtp.Header{Version: 2, SSRC: st.SSRC, SequenceNumber: st.Seq + uint16(i)} //nolint:gosec
					attrs := interceptor.Attributes{}
					if st.Twcc {
						ext, err := (&rtp.TransportCCExtension{TransportSequence: st.Tw + uint16(i)}).Marshal() //nolint:gosec
						if err != nil {
							t.Fatalf("VERIF-INFRA twcc ext: %v", err)
						}
						if err = hdr.SetExtension(1, ext); err != nil {
							t.Fatalf("VERIF-INFRA set ext: %v", err)
						}
						attrs.Set(TwccExtensionAttributesKey, uint8(1))
					}
					hsz = hdr.MarshalSize()
					ts := vfT0.Add(time.Duration(st.Dep+int64(i)*st.Gap) * time.Microsecond)
					if err := fa.OnSent(ts, &hdr, st.Size+i, attrs); err != nil {
						t.Fatalf("VERIF-INFRA OnSent: %v", err)
					}
				}
				out.Emit(vfM{
					"a": "run", "ssrc": st.SSRC, "seq": st.Seq, "tw": st.Tw, "twcc": st.Twcc, "ext": st.Twcc, "n": st.N,
					"size": st.Size, "dep": st.Dep, "gap": st.Gap, "hsz": hsz,
				})
			case "fb":
				for i := range st.Fbs {
					fb := &st.Fbs[i]
					var pkt rtcp.Packet
					if fb.K == "twcc" {
						pkt = vfBuildTwcc(fb, sc.RefBase)
					} else {
						pkt = vfBuildCcfb(fb, rtsBase)
					}
					if st.Wire {
						var ok bool
						if pkt, ok = vfRoundTrip(pkt); !ok {
							out.Emit(vfM{"a": "fb", "parsed": false, "fbs": []vfM{}, "hasout": false, "outs": []vfM{},
								"hasrep": false, "rep": []vfM{}, "e2e": false})

							continue
						}
					}
					ev := vfM{"a": "fb", "parsed": true, "fbs": []vfM{vfDescribe(pkt, sc.RefBase, rtsBase)}, "hasout": true,
						"hasrep": false, "rep": []vfM{}, "e2e": false}
					now := vfT0.Add(time.Duration(st.At) * time.Microsecond)
					switch p := pkt.(type) {
					case *rtcp.TransportLayerCC:
						acks, err := fa.OnTransportCCFeedback(now, p)
						ev["outs"] = []vfM{{"err": err != nil, "acks": vfAcks(acks, twccArrBase)}}
					case *rtcp.CCFeedbackReport:
						acks := fa.OnRFC8888Feedback(now, p)
						ev["outs"] = []vfM{{"err": false, "acks": vfAcks(acks, ccfbArrBase)}}
					default:
						t.Fatalf("VERIF-INFRA unexpected packet type %T", pkt)
					}
					out.Emit(ev)
				}
			default:
				t.Fatalf("VERIF-INFRA unknown step %q", st.A)
			}
		}
	}
}

//go:build verif

package cc

import (
	"testing"
	"time"

	"github.com/pion/interceptor"
	"github.com/pion/rtcp"
	"github.com/pion/rtp"
)

// Container-size probe of cc.FeedbackAdapter (C12, spec/Sizes.tla): the LRU history (items map and eviction list).
// cfg.twcc = 1: packets are keyed by the transport-wide number of the header extension, else by (SSRC, number).
type szAdapter struct {
	ad   *FeedbackAdapter
	twcc bool
}

func (d *szAdapter) Reset(_ testing.TB, sc *szScript) map[string]int {
	d.ad = NewFeedbackAdapter()
	d.twcc = sc.Cfg["twcc"] == 1

	return map[string]int{"cap": d.ad.history.size, "twcc": sc.Cfg["twcc"]}
}
func (d *szAdapter) Bind(uint32, bool) {}
func (d *szAdapter) Unbind(uint32)     {}

func (d *szAdapter) Pkt(st *szStep) bool {
	h := &rtp.Header{Version: 2, SSRC: st.HS, SequenceNumber: uint16(st.T)} //nolint:gosec
	attrs := interceptor.Attributes{}
	if d.twcc {
		ext, _ := (&rtp.TransportCCExtension{TransportSequence: uint16(st.T)}).Marshal() //nolint:gosec
		h.Extension, h.ExtensionProfile = true, 0xBEDE
		_ = h.SetExtension(5, ext)
		attrs.Set(TwccExtensionAttributesKey, uint8(5))
	}

	return d.ad.OnSent(st.Now, h, 100, attrs) == nil
}

func (d *szAdapter) Feedback(fb *szFb) {
	if d.twcc {
		return
	}
	blocks := []rtcp.CCFeedbackMetricBlock{}
	for t := fb.Lo; t <= fb.Hi; t++ {
		blocks = append(blocks, rtcp.CCFeedbackMetricBlock{Received: fb.Sent[t] && !fb.Lost[t], ArrivalTimeOffset: 10})
	}
	d.ad.OnRFC8888Feedback(fb.Now, &rtcp.CCFeedbackReport{ReportBlocks: []rtcp.CCFeedbackReportBlock{
		{MediaSSRC: fb.SSRC, BeginSequence: uint16(fb.Lo), MetricBlocks: blocks}}}) //nolint:gosec
}
func (d *szAdapter) Tick(time.Time)       {}
func (d *szAdapter) Drain(time.Time) bool { return false }
func (d *szAdapter) Close()               {}

func (d *szAdapter) Sizes() (map[string]int, map[string]int) {
	d.ad.lock.Lock()
	defer d.ad.lock.Unlock()

	return map[string]int{"ccItems": len(d.ad.history.items), "ccList": d.ad.history.evictList.Len()}, nil
}

func TestVerifSizeExec(t *testing.T) {
	szMain(t, "cc", map[string]func() szDriver{"cchist": func() szDriver { return &szAdapter{} }})
}

//go:build verif

package rtpbuffer

import (
	"testing"
	"time"

	"github.com/pion/rtp"
)

// Container-size probe of RTPBuffer (C12, spec/Sizes.tla): ring length and retained packets, read from the real object.
type szRtpBuf struct {
	tb   testing.TB
	size uint16
	fac  *PacketFactoryCopy
	buf  *RTPBuffer
}

func (d *szRtpBuf) Reset(tb testing.TB, sc *szScript) map[string]int {
	d.tb = tb
	d.size = uint16(sc.Cfg["size"]) //nolint:gosec
	d.fac = NewPacketFactoryCopy()
	d.buf = nil

	return map[string]int{"size": int(d.size)}
}

func (d *szRtpBuf) Bind(uint32, bool) {
	b, err := NewRTPBuffer(d.size)
	if err != nil {
		d.tb.Fatalf("VERIF-INFRA NewRTPBuffer(%d): %v", d.size, err)
	}
	d.buf = b
}

func (d *szRtpBuf) Unbind(uint32) { d.buf.Clear() }

func (d *szRtpBuf) Pkt(st *szStep) bool {
	p, err := d.fac.NewPacket(&rtp.Header{Version: 2, SSRC: st.HS, SequenceNumber: uint16(st.T)}, make([]byte, 50), 0, 0) //nolint:gosec
	if err != nil {
		return false
	}
	d.buf.Add(p)

	return true
}
func (d *szRtpBuf) Feedback(*szFb)       {}
func (d *szRtpBuf) Tick(time.Time)       {}
func (d *szRtpBuf) Drain(time.Time) bool { return false }
func (d *szRtpBuf) Close()               {}

func (d *szRtpBuf) Sizes() (map[string]int, map[string]int) {
	held := 0
	for _, p := range d.buf.packets {
		if p != nil {
			held++
		}
	}

	return map[string]int{"bufRing": len(d.buf.packets), "bufHeld": held}, nil
}

func TestVerifSizeExec(t *testing.T) {
	szMain(t, "rtpbuffer", map[string]func() szDriver{"rtpbuf": func() szDriver { return &szRtpBuf{} }})
}

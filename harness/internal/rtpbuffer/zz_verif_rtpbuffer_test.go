//go:build verif

package rtpbuffer

import (
	"encoding/json"
	"testing"

)

type vfBufScript struct {
	Size    uint16 `json:"size"`
	RtxSSRC uint32 `json:"rtxssrc"`
	RtxPT   uint8  `json:"rtxpt"`
	Steps   []struct {
		A     string `json:"a"`
		W     uint16 `json:"w"`
		N     uint16 `json:"n"`
		ID    int    `json:"id"`
		Len   int    `json:"len"`
		Shape int    `json:"shape"`
	} `json:"steps"`
}

func TestVerifRtpBufferExec(t *testing.T) {
	in := vfLoad(t)
	out := vfOut(t)
	defer out.Close()
	for _, raw := range in {
		var sc vfBufScript
		if err := json.Unmarshal(raw, &sc); err != nil {
			t.Fatalf("VERIF-INFRA bad script: %v", err)
		}
		out.Emit(vfM{"a": "reset", "size": sc.Size, "rtxssrc": sc.RtxSSRC, "rtxpt": sc.RtxPT})
		buf, err := NewRTPBuffer(sc.Size)
		if err != nil {
			t.Fatalf("VERIF-INFRA NewRTPBuffer(%d): %v", sc.Size, err)
		}
		factory := NewPacketFactoryCopy()
		for _, st := range sc.Steps {
			switch st.A {
			case "add":
				h, pl := vfMakePacket(777, st.W, st.ID, st.Len, st.Shape)
				rec := vfPkt(h, pl)
				pkt, err := factory.NewPacket(h, pl, sc.RtxSSRC, sc.RtxPT)
				if err == nil {
					buf.Add(pkt)
				}
				// the caller may reuse its buffers as soon as the call has returned
				for i := range pl {
					pl[i] = 0xEE
				}
				h.SequenceNumber, h.Timestamp, h.SSRC, h.Marker = 0xDEAD, 0xDEADBEEF, 0xEEEEEEEE, !h.Marker
				for i := range h.CSRC {
					h.CSRC[i] = 0xEEEEEEEE
				}
				out.Emit(vfM{"a": "add", "w": st.W, "id": st.ID, "ok": err == nil, "pkt": rec})
			case "get":
				p := buf.Get(st.N)
				res := []vfM{}
				if p != nil {
					res = append(res, vfPkt(p.Header(), p.Payload()))
					p.Release()
				}
				out.Emit(vfM{"a": "get", "n": st.N, "out": res})
			case "clear":
				buf.Clear()
				out.Emit(vfM{"a": "clear"})
			}
		}
	}
}

//go:build verif

package interceptor

import (
	"testing"
	"time"

	"github.com/pion/rtcp"
	"github.com/pion/rtp"
)

// Container-size probe of the Attributes parse cache (C12, spec/Sizes.tla): one Attributes value is handed to
// GetRTPHeader / GetRTCPPackets again and again with different raw packets; only the two cache keys may appear.
type szAttrs struct {
	a Attributes
}

func (d *szAttrs) Reset(testing.TB, *szScript) map[string]int {
	d.a = Attributes{}

	return map[string]int{}
}
func (d *szAttrs) Bind(uint32, bool) {}
func (d *szAttrs) Unbind(uint32)     {}

func (d *szAttrs) Pkt(st *szStep) bool {
	raw, _ := (&rtp.Packet{Header: rtp.Header{Version: 2, SSRC: st.HS, SequenceNumber: uint16(st.T)}, Payload: []byte{1}}).Marshal() //nolint:gosec
	_, err := d.a.GetRTPHeader(raw)
	rr, _ := (&rtcp.PictureLossIndication{SenderSSRC: 1, MediaSSRC: st.HS}).Marshal()
	_, err2 := d.a.GetRTCPPackets(rr)

	return err == nil && err2 == nil
}
func (d *szAttrs) Feedback(*szFb)       {}
func (d *szAttrs) Tick(time.Time)       {}
func (d *szAttrs) Drain(time.Time) bool { return false }
func (d *szAttrs) Close()               {}
func (d *szAttrs) Sizes() (map[string]int, map[string]int) {
	return map[string]int{"attrKeys": len(d.a)}, nil
}

func TestVerifSizeExec(t *testing.T) {
	szMain(t, "root", map[string]func() szDriver{"attrs": func() szDriver { return &szAttrs{} }})
}

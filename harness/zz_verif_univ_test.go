//go:build verif

// Universal chain harness: builds any chain of the library's interceptors through Registry.Build, binds
// recording endpoints, executes a script of interface calls (each under a watchdog) and logs one ndjson event
// per call plus one per packet reaching the transport side.  Used by C01, C11 and the cross-cutting checks.
package interceptor_test

import (
	"os"
	"net"
	"context"
	"bytes"
	"encoding/json"
	"errors"
	"fmt"
	"io"
	"math"
	"reflect"
	"runtime"
	"sort"
	"strings"
	"sync"
	"sync/atomic"
	"testing"
	"time"

	"github.com/pion/interceptor"
	"github.com/pion/interceptor/internal/verifhook"
	"github.com/pion/interceptor/pkg/cc"
	"github.com/pion/interceptor/pkg/flexfec"
	"github.com/pion/interceptor/pkg/gcc"
	"github.com/pion/interceptor/pkg/intervalpli"
	"github.com/pion/interceptor/pkg/jitterbuffer"
	"github.com/pion/interceptor/pkg/nack"
	"github.com/pion/interceptor/pkg/pacing"
	"github.com/pion/interceptor/pkg/packetdump"
	"github.com/pion/interceptor/pkg/report"
	"github.com/pion/interceptor/pkg/rfc8888"
	"github.com/pion/interceptor/pkg/rtpfb"
	"github.com/pion/interceptor/pkg/stats"
	"github.com/pion/interceptor/pkg/twcc"
	"github.com/pion/rtcp"
	"github.com/pion/rtp"
)

const uTwccURI = "http://www.ietf.org/id/draft-holmer-rmcat-transport-wide-cc-extensions-01"

type uMember struct {
	K string         `json:"k"`
	O map[string]int `json:"o"`
}

type uStep struct {
	A     string   `json:"a"`
	S     uint32   `json:"s"`
	W     uint16   `json:"w"`
	ID    int      `json:"id"`
	Len   int      `json:"len"`
	Shape int      `json:"shape"`
	Fail  bool     `json:"fail"`
	Bare  bool     `json:"bare"`  // unbindl / unbindm: with a fresh StreamInfo that names the stream by its SSRC only
	Stale bool     `json:"stale"` // rrtp / wrtp: through the reader / writer the stream had before it was unbound (a read that was in flight)
	Kind  string   `json:"kind"`
	Ms    int      `json:"ms"`
	Nums  []uint16 `json:"nums"`
	Tw    int      `json:"tw"`   // transport-wide sequence number carried by an incoming packet (-1: none)
	Nack  bool     `json:"nack"` // stream negotiated NACK
	Twcc  int      `json:"twcc"` // negotiated transport-cc extension id (0 = not negotiated)
	Rtx   bool     `json:"rtx"`
	Fec   bool     `json:"fec"`
	Pli   bool     `json:"pli"`
	Raw   []int    `json:"raw"` // raw bytes for malformed-input steps
	Par   []uStep  `json:"par"` // steps to run concurrently (a == "par")
	Rep   int      `json:"rep"` // repeat the step this many times (sequence numbers and ids advance)
	Win   int      `json:"win"` // par + wrtp + rep: closed-loop window (packets written ahead of the transport)
	Seq   []uStep  `json:"seq"` // a == "seq": run these steps in order (one role of a concurrent program)
	Inc   int      `json:"inc"` // sequence-number increment per repetition (default 1; 0 is written as -1)
	Gap   int      `json:"gap"` // microseconds to sleep between repetitions
	H1    bool     `json:"h1"`  // C11 re-bind: step of the stream's FIRST life (skipped by the fresh run)
	Ob    bool     `json:"ob"`  // C11 re-bind: record an observation after this step
	Clk   int      `json:"clk"` // C11 re-bind: set the controlled clock to this many ms before the step
	Cr    int      `json:"cr"`  // StreamInfo clock rate of a bind step (0: 90000)
	Alt   int      `json:"alt"` // StreamInfo of a bind step: RTX / FEC SSRCs shifted by this much
}

type uScript struct {
	Members []uMember `json:"members"`
	Steps   []uStep   `json:"steps"`
	Watch   int       `json:"watch"` // watchdog per call in ms (default 3000)
	Settle  int       `json:"settle"`
	Both    bool      `json:"both"`   // C13: run twice (fresh buffers / reused and scribbled buffers) and compare emissions
	NoWire  bool      `json:"nowire"` // C12: do not log packets reaching the transport side (long runs)
	NoStale bool      `json:"nostale"` // C12: the harness forgets the reader / writer of a stream when it unbinds it
	Strict  bool      `json:"strict"` // C11: goroutine census 2 ms after Close returned, without the usual grace period
	Rebind  bool      `json:"rebind"` // C11 P5: run twice (with / without the first life of stream rs) and record observations about rs
	RS      uint32    `json:"rs"`     // the re-bound stream
	Agg     bool      `json:"agg"`    // re-bind: emissions are only observed in aggregate, at the final drain step
	Kind    string    `json:"kind"`   // re-bind: kind name of the generated behaviour (copied into the reset event)
	BNums   []int     `json:"bnums"`  // re-bind: transport-wide numbers of the stream's suffix packets (copied into the reset event)
	HLen    int       `json:"hlen"`   // re-bind: number of first-life steps on rs
}

// uInnerErr is the failure the transport side injects.  A real transport fails with well-known values (a closed pipe, a
// closed connection, end of stream, an elapsed deadline); code that singles one of them out must still honour what it
// promises, so the injected failure answers errors.Is for all of them.
type uInnerErr struct{}

func (uInnerErr) Error() string { return "verif: injected transport failure" }
func (uInnerErr) Is(target error) bool {
	return target == io.ErrClosedPipe || target == io.EOF || target == io.ErrUnexpectedEOF || target == net.ErrClosed || //nolint:errorlint
		target == os.ErrDeadlineExceeded || target == context.Canceled || target == context.DeadlineExceeded //nolint:errorlint
}

var errUInner error = uInnerErr{} //nolint:gochecknoglobals

type uProbe struct {
	interceptor.NoOp
	id       int
	closeErr error
	mu       sync.Mutex
	cnt      map[string]int
}

func (p *uProbe) inc(k string) {
	p.mu.Lock()
	p.cnt[k]++
	p.mu.Unlock()
}

func (p *uProbe) BindRTCPReader(r interceptor.RTCPReader) interceptor.RTCPReader {
	p.inc("bindr")

	return r
}

func (p *uProbe) BindRTCPWriter(w interceptor.RTCPWriter) interceptor.RTCPWriter {
	p.inc("bindw")

	return w
}

func (p *uProbe) BindLocalStream(_ *interceptor.StreamInfo, w interceptor.RTPWriter) interceptor.RTPWriter {
	p.inc("bindl")

	return w
}

func (p *uProbe) UnbindLocalStream(*interceptor.StreamInfo) { p.inc("unbindl") }

func (p *uProbe) BindRemoteStream(_ *interceptor.StreamInfo, r interceptor.RTPReader) interceptor.RTPReader {
	p.inc("bindm")

	return r
}

func (p *uProbe) UnbindRemoteStream(*interceptor.StreamInfo) { p.inc("unbindm") }

func (p *uProbe) Close() error {
	p.inc("close")

	return p.closeErr
}

type uFactory func(string) (interceptor.Interceptor, error)

func (f uFactory) NewInterceptor(id string) (interceptor.Interceptor, error) { return f(id) }

type uEnv struct {
	t            *testing.T
	out          *vfWriter
	mu           sync.Mutex // orders every logged event
	probes       []*uProbe
	dump         *uSyncBuf
	closed       bool                     // Close has returned
	inflight     map[*rtp.Header]*uFlight // application RTP writes in progress, keyed by the caller's header object
	curRTCP      rtcp.Packet
	failNow      bool
	wireApp      []vfM
	nextRTP      map[uint32][]byte
	nextErr      bool
	nextRC       []byte
	pacing       *pacing.InterceptorFactory
	nowire       bool
	nActivity    int             // pacer updates / rate callbacks seen so far
	failInjected bool            // the transport-side RTCP writer fails every write the chain originates
	failStreams  map[uint32]bool // local streams whose transport-side RTP writer always fails
	parkRTCP     atomic.Pointer[chan struct{}] // non-nil: every transport-side RTCP write parks until the channel is closed
	rtcpBusy     atomic.Int32    // RTCP writes currently inside a slow / parked transport
	slowRTCP     atomic.Int64    // nanoseconds the transport-side RTCP writer takes per write (0: returns at once)
	slowMu       sync.Mutex      // the slow transport-side RTCP writer handles one write at a time
	slowDump     atomic.Int64    // nanoseconds the packet dump formatter waits before it looks at a packet
	wireRTPn     atomic.Int64    // RTP packets that have reached the transport-side writers
	appRTPn      atomic.Int64    // RTP packets the application has written (par steps with a window)
	reuseHdr     *rtp.Header     // C13, reused run: the one header object the application writes all its packets from
	bindGen      map[uint32]int  // how many transport-side RTP writers have been handed out per local stream (under mu)
	statsGetter  stats.Getter
	okW, okR     map[uint32]int // successful application writes / reads per SSRC
	quiet        bool           // collect emissions only, log nothing
	scribble     bool           // overwrite caller-owned buffers as soon as a call has returned
	emis         []vfM          // everything the chain emitted or recorded that derives from packet contents
	readBuf      []byte
	rb           *uRebind // C11 re-bind mode: controlled clock, tick gates, observation recorder (nil otherwise)
}

type uFlight struct {
	fail bool
	wire []vfM
}

type uSyncBuf struct {
	mu sync.Mutex
	b  bytes.Buffer
}

func (s *uSyncBuf) Write(p []byte) (int, error) {
	s.mu.Lock()
	defer s.mu.Unlock()
	if s.b.Len() > 1<<16 { // the text itself is not examined: keep the harness's own footprint constant
		s.b.Reset()
	}

	return s.b.Write(p)
}

// uRaceBuf is a sink that is NOT safe for concurrent use (like a bytes.Buffer or a file opened by the application):
// packetdump documents one logger goroutine per interceptor, so one sink per dump member is only ever entered by that
// goroutine.  Under the race detector a second goroutine entering it is reported.
type uRaceBuf struct{ n, calls int }

func (s *uRaceBuf) Write(p []byte) (int, error) {
	s.n += len(p)
	s.calls++

	return len(p), nil
}

func (e *uEnv) emit(v vfM) {
	if e.quiet || e.rb != nil { // (re-bind mode records observations only, see uRunRebind)
		return
	}
	e.mu.Lock()
	e.out.Emit(v)
	e.mu.Unlock()
}

// emission record of a packet the chain wrote or dumped by itself (sequence numbers of injected streams are random)
func uEmis(kind string, h *rtp.Header, pl []byte, keepSeq bool) vfM {
	r := vfPkt(h, pl)
	r["k"] = kind
	if !keepSeq {
		r["seq"] = 0
	}

	return r
}

// uSlowPacer keeps the estimator's pipeline goroutine busy for a while whenever the target bitrate changes.
type uSlowPacer struct {
	*gcc.NoOpPacer
	e *uEnv
}

func (p *uSlowPacer) SetTargetBitrate(r int) {
	time.Sleep(15 * time.Millisecond)
	p.e.lateActivity("pacer")
	p.NoOpPacer.SetTargetBitrate(r)
}

// lateActivity records activity of a goroutine the chain started; after Close has returned there must be none
func (e *uEnv) lateActivity(what string) {
	e.mu.Lock()
	defer e.mu.Unlock()
	e.nActivity++
	if e.closed && !e.quiet && !e.nowire {
		e.out.Emit(vfM{"a": "wire", "t": what, "s": 0, "app": false, "failed": false, "closed": true, "pkt": vfM{}, "sum": []vfM{}})
	}
}

func (e *uEnv) dumpRTPText(pkt *rtp.Packet, _ interceptor.Attributes) string {
	_, _ = e.dumpRTP(pkt, nil)

	return ""
}

func (e *uEnv) dumpRTP(pkt *rtp.Packet, _ interceptor.Attributes) ([]byte, error) {
	if d := e.slowDump.Load(); d > 0 { // a slow formatter / sink: the packet is looked at only after a while
		time.Sleep(time.Duration(d))
	}
	if e.quiet {
		e.mu.Lock()
		e.emis = append(e.emis, uEmis("dump", &pkt.Header, pkt.Payload, pkt.PayloadType == 96))
		e.mu.Unlock()
	}

	return nil, nil
}

func uOpt(m uMember, k string, d int) int {
	if v, ok := m.O[k]; ok {
		return v
	}

	return d
}

func (e *uEnv) factory(m uMember) (interceptor.Factory, error) { //nolint:cyclop
	ivl := time.Duration(uOpt(m, "ivl", 1)) * time.Millisecond
	if us := uOpt(m, "ivlus", 0); us > 0 { // (interval in microseconds, for stepped loops)
		ivl = time.Duration(us) * time.Microsecond
	}
	switch m.K {
	case "noop":
		return uFactory(func(string) (interceptor.Interceptor, error) { return &interceptor.NoOp{}, nil }), nil
	case "probe":
		p := &uProbe{id: uOpt(m, "id", len(e.probes)+1), cnt: map[string]int{}}
		if uOpt(m, "closeerr", 0) != 0 {
			p.closeErr = fmt.Errorf("verif: probe %d close error", p.id) //nolint:err113
		}
		e.probes = append(e.probes, p)

		return uFactory(func(string) (interceptor.Interceptor, error) { return p, nil }), nil
	case "nested": // a Chain as a member of the chain: n probes, every one of them failing in Close
		inner := []interceptor.Interceptor{}
		for i := 0; i < uOpt(m, "n", 2); i++ {
			p := &uProbe{id: 100 + len(e.probes), cnt: map[string]int{}}
			p.closeErr = fmt.Errorf("verif: probe %d close error", p.id) //nolint:err113
			e.probes = append(e.probes, p)
			inner = append(inner, p)
		}
		ch := interceptor.NewChain(inner)

		return uFactory(func(string) (interceptor.Interceptor, error) { return ch, nil }), nil
	case "nackgen":
		opts := []nack.GeneratorOption{
			nack.GeneratorSize(uint16(uOpt(m, "size", 64))), nack.GeneratorSkipLastN(uint16(uOpt(m, "skip", 0))), //nolint:gosec
			nack.GeneratorInterval(ivl),
		}
		if mx := uOpt(m, "max", 0); mx > 0 {
			opts = append(opts, nack.GeneratorMaxNacksPerPacket(uint16(mx))) //nolint:gosec
		}

		return nack.NewGeneratorInterceptor(opts...)
	case "nackresp":
		opts := []nack.ResponderOption{nack.ResponderSize(uint16(uOpt(m, "size", 64)))} //nolint:gosec
		if uOpt(m, "nocopy", 0) != 0 {
			opts = append(opts, nack.DisableCopy())
		}

		return nack.NewResponderInterceptor(opts...)
	case "rrecv":
		if e.rb != nil { // controlled clock; the loop is stepped through its tick gate
			return report.NewReceiverInterceptor(report.ReceiverInterval(ivl), report.ReceiverNow(e.rb.now))
		}

		return report.NewReceiverInterceptor(report.ReceiverInterval(ivl))
	case "rsend":
		opts := []report.SenderOption{report.SenderInterval(ivl)}
		if uOpt(m, "latest", 0) != 0 {
			opts = append(opts, report.SenderUseLatestPacket())
		}
		if e.rb != nil { // controlled clock and ticker
			opts = append(opts, report.SenderNow(e.rb.now),
				report.SenderTicker(func(time.Duration) report.Ticker { return e.rb.newTicker() }))
		}

		return report.NewSenderInterceptor(opts...)
	case "twccsend":
		return twcc.NewSenderInterceptor(twcc.SendInterval(ivl))
	case "twcchdr":
		return twcc.NewHeaderExtensionInterceptor()
	case "rfc8888":
		if e.rb != nil { // controlled clock and ticker (the ticker interface of the package is unexported: built by reflection)
			ft := reflect.TypeOf(rfc8888.TickerFactory(nil))
			fn := reflect.MakeFunc(ft, func([]reflect.Value) []reflect.Value {
				return []reflect.Value{reflect.ValueOf(e.rb.newTicker()).Convert(ft.Out(0))}
			})
			tf, ok := fn.Interface().(rfc8888.TickerFactory)
			if !ok {
				return nil, fmt.Errorf("cannot build an rfc8888.TickerFactory by reflection") //nolint:err113
			}

			return rfc8888.NewSenderInterceptor(rfc8888.SendInterval(ivl), rfc8888.SenderNow(e.rb.now), rfc8888.SenderTicker(tf))
		}

		return rfc8888.NewSenderInterceptor(rfc8888.SendInterval(ivl))
	case "rtpfb":
		return rtpfb.NewInterceptor()
	case "stats":
		sopts := []stats.Option{}
		if e.rb != nil {
			sopts = append(sopts, stats.SetNowFunc(e.rb.now))
		}
		f, err := stats.NewInterceptor(sopts...)
		if err == nil {
			f.OnNewPeerConnection(func(_ string, g stats.Getter) { e.statsGetter = g })
		}

		return f, err
	case "pdrecv":
		sink := &uRaceBuf{}
		if ms := uOpt(m, "slowdump", 0); ms > 0 {
			e.slowDump.Store(int64(ms) * int64(time.Millisecond))
		}
		if uOpt(m, "text", 0) != 0 { // text formatter only (no binary formatter configured)
			return packetdump.NewReceiverInterceptor(packetdump.RTPWriter(sink), packetdump.RTCPWriter(sink),
				packetdump.RTPFormatter(e.dumpRTPText))
		}

		return packetdump.NewReceiverInterceptor(packetdump.RTPWriter(sink), packetdump.RTCPWriter(sink),
			packetdump.RTPBinaryFormatter(e.dumpRTP))
	case "pdsend":
		sink := &uRaceBuf{}
		if ms := uOpt(m, "slowdump", 0); ms > 0 {
			e.slowDump.Store(int64(ms) * int64(time.Millisecond))
		}
		if uOpt(m, "text", 0) != 0 {
			return packetdump.NewSenderInterceptor(packetdump.RTPWriter(sink), packetdump.RTCPWriter(sink),
				packetdump.RTPFormatter(e.dumpRTPText))
		}

		return packetdump.NewSenderInterceptor(packetdump.RTPWriter(sink), packetdump.RTCPWriter(sink),
			packetdump.RTPBinaryFormatter(e.dumpRTP))
	case "ccslow": // cc interceptor whose pacer takes its time in SetTargetBitrate and that reports rate changes
		return cc.NewInterceptor(func() (cc.BandwidthEstimator, error) {
			bwe, err := gcc.NewSendSideBWE(gcc.SendSideBWEPacer(&uSlowPacer{NoOpPacer: gcc.NewNoOpPacer(), e: e}))
			if err == nil {
				bwe.OnTargetBitrateChange(func(rate int) { e.lateActivity("callback") })
			}

			return bwe, err
		})
	case "pli":
		return intervalpli.NewReceiverInterceptor(intervalpli.GeneratorInterval(ivl))
	case "flexfec":
		return flexfec.NewFecInterceptor(
			flexfec.NumMediaPackets(uint32(uOpt(m, "k", 2))), flexfec.NumFECPackets(uint32(uOpt(m, "n", 1)))) //nolint:gosec
	case "cc":
		return cc.NewInterceptor(func() (cc.BandwidthEstimator, error) {
			bwe, err := gcc.NewSendSideBWE(gcc.SendSideBWEPacer(gcc.NewNoOpPacer()))
			if err == nil { // an observer that asks the estimator from inside its rate-change callback
				bwe.OnTargetBitrateChange(func(int) { _ = bwe.GetTargetBitrate(); _ = bwe.GetStats() })
			}

			return bwe, err
		})
	case "ccleaky":
		rate := uOpt(m, "rate", 0)

		return cc.NewInterceptor(func() (cc.BandwidthEstimator, error) {
			var bwe *gcc.SendSideBWE
			var err error
			if rate > 0 {
				bwe, err = gcc.NewSendSideBWE(gcc.SendSideBWEInitialBitrate(rate), gcc.SendSideBWEMaxBitrate(2*rate))
			} else {
				bwe, err = gcc.NewSendSideBWE()
			}
			if err == nil {
				bwe.OnTargetBitrateChange(func(int) { _ = bwe.GetTargetBitrate() })
			}

			return bwe, err
		})
	case "jitter":
		return jitterbuffer.NewInterceptor()
	case "pacing":
		e.pacing = pacing.NewInterceptor(pacing.InitialRate(uOpt(m, "rate", 10_000_000)), pacing.Interval(ivl))

		return e.pacing, nil
	}

	return nil, fmt.Errorf("unknown member kind %q", m.K) //nolint:err113
}

// summary of an RTCP packet list for the trace
func uSumRTCP(pkts []rtcp.Packet) []vfM { //nolint:cyclop
	res := []vfM{}
	for _, p := range pkts {
		switch x := p.(type) {
		case *rtcp.ReceiverReport:
			for _, r := range x.Reports {
				res = append(res, vfM{"t": "rr", "ssrc": int(r.SSRC), "hi": int(r.LastSequenceNumber & 0xffff),
					"cyc": int(r.LastSequenceNumber >> 16), "lost": int(r.TotalLost), "nums": []int{}})
			}
		case *rtcp.SenderReport:
			res = append(res, vfM{"t": "sr", "ssrc": int(x.SSRC), "hi": int(x.PacketCount), "cyc": int(x.OctetCount),
				"lost": 0, "nums": []int{}})
		case *rtcp.TransportLayerNack:
			nums := []int{}
			for _, pr := range x.Nacks {
				for _, n := range pr.PacketList() {
					nums = append(nums, int(n))
				}
			}
			res = append(res, vfM{"t": "nack", "ssrc": int(x.MediaSSRC), "hi": 0, "cyc": 0, "lost": 0, "nums": nums})
		case *rtcp.PictureLossIndication:
			res = append(res, vfM{"t": "pli", "ssrc": int(x.MediaSSRC), "hi": 0, "cyc": 0, "lost": 0, "nums": []int{}})
		case *rtcp.TransportLayerCC:
			nums := []int{}
			seq := x.BaseSequenceNumber
			left := int(x.PacketStatusCount)
			for _, c := range x.PacketChunks {
				switch ch := c.(type) {
				case *rtcp.RunLengthChunk:
					for i := 0; i < int(ch.RunLength) && left > 0; i++ {
						if ch.PacketStatusSymbol == rtcp.TypeTCCPacketReceivedSmallDelta ||
							ch.PacketStatusSymbol == rtcp.TypeTCCPacketReceivedLargeDelta {
							nums = append(nums, int(seq))
						}
						seq++
						left--
					}
				case *rtcp.StatusVectorChunk:
					for _, s := range ch.SymbolList {
						if left <= 0 {
							break
						}
						if s == rtcp.TypeTCCPacketReceivedSmallDelta || s == rtcp.TypeTCCPacketReceivedLargeDelta {
							nums = append(nums, int(seq))
						}
						seq++
						left--
					}
				}
			}
			res = append(res, vfM{"t": "twcc", "ssrc": int(x.MediaSSRC), "hi": int(x.BaseSequenceNumber),
				"cyc": int(x.PacketStatusCount), "lost": int(x.FbPktCount), "nums": nums})
		case *rtcp.CCFeedbackReport:
			for _, b := range x.ReportBlocks {
				nums := []int{}
				for i, m := range b.MetricBlocks {
					if m.Received {
						nums = append(nums, int(b.BeginSequence+uint16(i))) //nolint:gosec
					}
				}
				res = append(res, vfM{"t": "ccfb", "ssrc": int(b.MediaSSRC), "hi": int(b.BeginSequence),
					"cyc": len(b.MetricBlocks), "lost": 0, "nums": nums})
			}
		default:
			res = append(res, vfM{"t": "other", "ssrc": 0, "hi": 0, "cyc": 0, "lost": 0, "nums": []int{}})
		}
	}

	return res
}

// transport-side writers ---------------------------------------------------------------------------------
func (e *uEnv) wireRTP(s uint32) interceptor.RTPWriter {
	e.mu.Lock()
	e.bindGen[s]++
	bgen := e.bindGen[s] // which binding of the stream this transport-side writer belongs to
	e.mu.Unlock()
	gen := 0
	if e.rb != nil { // re-bind mode: which bind of the stream handed out this transport-side writer
		e.mu.Lock()
		e.rb.gen[s]++
		gen = e.rb.gen[s]
		e.mu.Unlock()
	}

	return interceptor.RTPWriterFunc(func(h *rtp.Header, pl []byte, _ interceptor.Attributes) (int, error) {
		e.wireRTPn.Add(1)
		e.mu.Lock()
		defer e.mu.Unlock()
		if e.failStreams[s] { // this stream's transport is gone: every write fails
			return 0, errUInner
		}
		fl := e.inflight[h]
		app := fl != nil
		if e.rb != nil && s == e.rb.s {
			e.rb.capRTP(h, pl, app, gen == e.rb.gen[s])
		}
		var rec vfM
		if !e.nowire || e.quiet {
			rec = vfPkt(h, pl)
			if bgen != e.bindGen[s] { // written to the transport-side writer of an EARLIER binding of the stream
				rec["stale"] = true
			}
		}
		if app {
			if fl.fail {
				if !e.quiet {
					e.out.Emit(vfM{"a": "wire", "t": "rtp", "s": s, "app": true, "failed": true, "closed": e.closed, "pkt": rec, "sum": []vfM{}})
				}

				return 0, errUInner
			}
			if rec != nil {
				fl.wire = append(fl.wire, rec)
			}
		} else if e.quiet {
			e.emis = append(e.emis, uEmis("rtp", h, pl, h.SSRC == s && h.PayloadType == 96))
		}
		if !e.quiet && !e.nowire {
			e.out.Emit(vfM{"a": "wire", "t": "rtp", "s": s, "app": app, "failed": false, "closed": e.closed, "pkt": rec, "sum": []vfM{}})
		}

		return h.MarshalSize() + len(pl), nil
	})
}

func (e *uEnv) wireRTCP() interceptor.RTCPWriter {
	return interceptor.RTCPWriterFunc(func(pkts []rtcp.Packet, _ interceptor.Attributes) (int, error) {
		// a slow transport (sleeps) or one that does not come back before it is released (parks): the write BEGAN when it was
		// called, whatever happens while it takes its time
		slow, park := time.Duration(e.slowRTCP.Load()), e.parkRTCP.Load()
		if park != nil { // only the application's own RTCP write parks (a member whose loop hands work over from the
			e.mu.Lock() // readers would make them wait for its own parked report - that coupling is not what is tested)
			if !(len(pkts) > 0 && e.curRTCP != nil && pkts[0] == e.curRTCP) {
				park = nil
			}
			e.mu.Unlock()
		}
		closedAtEntry, late := false, park != nil || slow > 0
		if late {
			e.rtcpBusy.Add(1) // a write of the chain's own is inside the (slow) transport: Close returns only after it
			defer e.rtcpBusy.Add(-1)
			e.mu.Lock()
			closedAtEntry = e.closed
			e.mu.Unlock()
			if park != nil {
				<-*park
			} else { // one write at a time, like a socket: concurrent writers queue up behind each other
				e.slowMu.Lock()
				time.Sleep(slow)
				e.slowMu.Unlock()
			}
		}
		e.mu.Lock()
		defer e.mu.Unlock()
		closed := e.closed
		if late {
			closed = closedAtEntry
		}
		app := len(pkts) > 0 && e.curRTCP != nil && pkts[0] == e.curRTCP
		if e.rb != nil && !app {
			e.rb.capRTCP(pkts)
		}
		if !app && e.failInjected {
			if !e.quiet && !e.nowire {
				e.out.Emit(vfM{"a": "wire", "t": "rtcp", "s": 0, "app": false, "failed": true, "closed": closed, "pkt": vfM{}, "sum": uSumRTCP(pkts)})
			}

			return 0, errUInner
		}
		if app && e.failNow {
			if !e.quiet {
				e.out.Emit(vfM{"a": "wire", "t": "rtcp", "s": 0, "app": true, "failed": true, "closed": closed, "pkt": vfM{}, "sum": uSumRTCP(pkts)})
			}

			return 0, errUInner
		}
		if app {
			e.wireApp = append(e.wireApp, vfM{"n": len(pkts)})
		}
		if !e.quiet && !e.nowire {
			e.out.Emit(vfM{"a": "wire", "t": "rtcp", "s": 0, "app": app, "failed": false, "closed": closed, "pkt": vfM{}, "sum": uSumRTCP(pkts)})
		}

		return len(pkts), nil
	})
}

// watchdog: run f; report whether it returned within the limit, and a panic if any
func uGuard(limit time.Duration, f func()) (blocked bool, pan string) {
	done := make(chan string, 1)
	go func() {
		defer func() {
			if r := recover(); r != nil {
				done <- fmt.Sprintf("panic: %v", r)

				return
			}
			done <- ""
		}()
		f()
	}()
	select {
	case p := <-done:
		return false, p
	case <-time.After(limit):
		return true, ""
	}
}

func uErrClass(err error) int {
	switch {
	case err == nil:
		return 0
	case errors.Is(err, errUInner):
		return 1
	default:
		return 2
	}
}

func uLeakedOnce() (int, string) {
	return uLeakedN(0, 1)
}

func uLeaked(base int) (int, string) {
	return uLeakedN(base, 40)
}

func uLeakedN(base, tries int) (int, string) {
	var n int
	var first string
	for try := 0; try < tries; try++ {
		buf := make([]byte, 1<<20)
		buf = buf[:runtime.Stack(buf, true)]
		n, first = 0, ""
		for _, g := range strings.Split(string(buf), "\n\n") {
			if strings.Contains(g, "TestVerifUniv") || strings.Contains(g, "testing.") && !strings.Contains(g, "pion/interceptor/pkg") {
				continue
			}
			if strings.Contains(g, "github.com/pion/interceptor/pkg/") || strings.Contains(g, "github.com/pion/interceptor/internal/") {
				n++
				if first == "" {
					first = g
				}
			}
		}
		if n <= base {
			return 0, ""
		}
		time.Sleep(50 * time.Millisecond)
	}
	if len(first) > 1200 {
		first = first[:1200]
	}

	return n - base, first
}

func TestVerifUnivExec(t *testing.T) {
	in := vfLoad(t)
	out := vfOut(t)
	defer out.Close()
	for _, raw := range in {
		var sc uScript
		if err := json.Unmarshal(raw, &sc); err != nil {
			t.Fatalf("VERIF-INFRA bad script: %v", err)
		}
		if sc.Rebind {
			uRunRebind(t, &sc, out)

			continue
		}
		if !sc.Both {
			uRun(t, &sc, out, true, false)

			continue
		}
		fresh := uRun(t, &sc, out, false, true)
		reused := uRun(t, &sc, out, true, true)
		kinds := []string{}
		for _, m := range sc.Members {
			kinds = append(kinds, m.K)
		}
		out.Emit(vfM{"a": "reset", "members": kinds})
		pf, pr, only := uPair(fresh, reused)
		// emissions of the reused run under a key the fresh run never produced: either an asynchronous emission the fresh
		// run did not get to, or one built from a header the caller had already overwritten (the specification tells them apart)
		known := map[string]bool{}
		for _, v := range fresh {
			known[uKey(v)] = true
		}
		alien := []vfM{}
		for _, v := range uSorted(reused) {
			if !known[uKey(v)] {
				alien = append(alien, v)
			}
		}
		out.Emit(vfM{"a": "cmp", "fresh": pf, "reused": pr, "unpaired": only, "alien": alien})
	}
}

// uKey identifies an emission independently of the caller-derived bytes it carries: media packets by (kind, SSRC, number),
// RTX packets by the original number in their prefix, FEC packets by SN base + mask (bytes 16..23 of the FlexFEC-03 header).
func uKey(v vfM) string {
	pl, _ := v["pl"].([]int)
	pt, _ := v["pt"].(int)
	head := []int{}
	switch pt {
	case 97:
		if len(pl) >= 2 {
			head = pl[:2]
		}
	case 98: // SN base + the mask words that are present (K bits): what follows the last mask word is XORed content
		switch {
		case len(pl) >= 20 && pl[18]&0x80 != 0:
			head = pl[16:20]
		case len(pl) >= 24 && pl[20]&0x80 != 0:
			head = pl[16:24]
		case len(pl) >= 32:
			head = pl[16:32]
		}
	}

	return fmt.Sprint(v["k"], v["ssrc"], pt, v["seq"], head)
}

// uPair aligns the emissions of the two runs by key; asynchronous emissions that only one run produced (a retransmission cut off
// by Close, a paced packet still queued) are counted, not compared.
func uPair(a, b []vfM) ([]vfM, []vfM, int) {
	idx := map[string][]vfM{}
	for _, v := range b {
		idx[uKey(v)] = append(idx[uKey(v)], v)
	}
	ra, rb := []vfM{}, []vfM{}
	only := 0
	for _, v := range uSorted(a) {
		k := uKey(v)
		if l := idx[k]; len(l) > 0 {
			ra, rb = append(ra, v), append(rb, l[0])
			idx[k] = l[1:]
		} else {
			only++
		}
	}
	for _, l := range idx {
		only += len(l)
	}

	return ra, rb, only
}

func uSorted(in []vfM) []vfM {
	type kv struct {
		k string
		v vfM
	}
	tmp := make([]kv, 0, len(in))
	for _, v := range in {
		b, _ := json.Marshal(v)
		tmp = append(tmp, kv{string(b), v})
	}
	sort.Slice(tmp, func(i, j int) bool { return tmp[i].k < tmp[j].k })
	res := make([]vfM, 0, len(in))
	for _, x := range tmp {
		res = append(res, x.v)
	}

	return res
}

type uBound struct {
	info   *interceptor.StreamInfo
	writer interceptor.RTPWriter
	reader interceptor.RTPReader
}

func uInfo(st *uStep) *interceptor.StreamInfo {
	info := &interceptor.StreamInfo{SSRC: st.S, ClockRate: 90000, PayloadType: 96, MimeType: "video/VP8"}
	if st.Cr > 0 {
		info.ClockRate = uint32(st.Cr) //nolint:gosec
	}
	if st.Nack {
		info.RTCPFeedback = append(info.RTCPFeedback, interceptor.RTCPFeedback{Type: "nack"})
	}
	if st.Pli {
		info.RTCPFeedback = append(info.RTCPFeedback, interceptor.RTCPFeedback{Type: "nack", Parameter: "pli"})
	}
	if st.Twcc > 0 {
		info.RTPHeaderExtensions = append(info.RTPHeaderExtensions, interceptor.RTPHeaderExtension{URI: uTwccURI, ID: st.Twcc})
	}
	if st.Rtx {
		info.SSRCRetransmission, info.PayloadTypeRetransmission = st.S+1000+uint32(st.Alt), 97 //nolint:gosec
	}
	if st.Fec {
		info.SSRCForwardErrorCorrection, info.PayloadTypeForwardErrorCorrection = st.S+2000+uint32(st.Alt), 98 //nolint:gosec
	}

	return info
}

func uRun(t *testing.T, sc *uScript, out *vfWriter, scribble, quiet bool) []vfM {
	t.Helper()

	return uRunX(t, sc, out, scribble, quiet, nil)
}

func uRunX(t *testing.T, sc *uScript, out *vfWriter, scribble, quiet bool, rb *uRebind) []vfM { //nolint:gocognit,cyclop,maintidx
	t.Helper()
	e := &uEnv{t: t, out: out, dump: &uSyncBuf{}, nextRTP: map[uint32][]byte{}, scribble: scribble, quiet: quiet, nowire: sc.NoWire,
		okW: map[uint32]int{}, okR: map[uint32]int{}, inflight: map[*rtp.Header]*uFlight{}, failStreams: map[uint32]bool{}, bindGen: map[uint32]int{}, rb: rb}
	if rb != nil {
		e.nowire = true
		rb.e = e
	}
	kinds := []string{}
	reg := &interceptor.Registry{}
	for _, m := range sc.Members {
		f, err := e.factory(m)
		if err != nil {
			t.Fatalf("VERIF-INFRA member %v: %v", m, err)
		}
		reg.Add(f)
		kinds = append(kinds, m.K)
	}
	baseLeak, _ := uLeakedOnce()
	e.emit(vfM{"a": "reset", "members": kinds})
	chain, err := reg.Build("verif")
	if err != nil {
		t.Fatalf("VERIF-INFRA Registry.Build: %v", err)
	}
	limit := 3 * time.Second
	if sc.Watch > 0 {
		limit = time.Duration(sc.Watch) * time.Millisecond
	}
	var rtcpW interceptor.RTCPWriter
	var rtcpR interceptor.RTCPReader
	local := map[uint32]*uBound{}
	remote := map[uint32]*uBound{}
	staleRemote := map[uint32]*uBound{} // readers of remote streams that have been unbound
	staleLocal := map[uint32]*uBound{}  // writers of local streams that have been unbound
	var smu sync.Mutex                  // protects the harness's own tables when steps run concurrently
	getLocal := func(s uint32) *uBound {
		smu.Lock()
		defer smu.Unlock()

		return local[s]
	}
	getRemote := func(s uint32) *uBound {
		smu.Lock()
		defer smu.Unlock()

		return remote[s]
	}
	aborted := false

	var exec func(st *uStep) vfM
	exec = func(st *uStep) vfM { //nolint:cyclop
		numsOrEmpty := st.Nums
		if numsOrEmpty == nil {
			numsOrEmpty = []uint16{}
		}
		ev := vfM{"a": st.A, "s": st.S, "id": st.ID, "w": st.W, "fail": st.Fail, "kind": st.Kind, "n": 0, "err": 0,
			"same": true, "blocked": false, "panic": "", "skipped": false, "wire": []vfM{}, "pkt": vfM{}, "nums": numsOrEmpty,
			"tw": st.Tw, "probes": []vfM{}, "errs": []int{}, "leaked": 0, "stack": "", "raw": st.Raw != nil, "len": 0}
		var blocked bool
		var pan string
		if e.rb != nil {
			if st.H1 && e.rb.fresh { // the fresh run does not have the first life of the stream
				return nil
			}
			e.rb.begin(st)
			ev["es"], ev["rseq"], ev["rep"] = "", -1, []vfM{}
		}
		switch st.A {
		case "bindw":
			blocked, pan = uGuard(limit, func() {
				w := chain.BindRTCPWriter(e.wireRTCP())
				smu.Lock()
				rtcpW = w
				smu.Unlock()
			})
			if e.rb != nil && !blocked {
				e.rb.afterBindW()
			}
		case "bindr":
			blocked, pan = uGuard(limit, func() {
				rr := chain.BindRTCPReader(interceptor.RTCPReaderFunc(
					func(b []byte, a interceptor.Attributes) (int, interceptor.Attributes, error) {
						e.mu.Lock()
						defer e.mu.Unlock()
						if e.nextErr {
							return 0, nil, errUInner
						}

						return copy(b, e.nextRC), a, nil
					}))
				smu.Lock()
				rtcpR = rr
				smu.Unlock()
			})
		case "bindl":
			b := &uBound{info: uInfo(st)}
			ev["twcc"], ev["rtx"], ev["fec"], ev["nack"] = st.Twcc, st.Rtx, st.Fec, st.Nack
			if st.Fail { // (bindl with fail: the stream's transport-side writer always returns an error)
				e.mu.Lock()
				e.failStreams[st.S] = true
				e.mu.Unlock()
			}
			blocked, pan = uGuard(limit, func() { b.writer = chain.BindLocalStream(b.info, e.wireRTP(st.S)) })
			smu.Lock()
			local[st.S] = b
			smu.Unlock()
		case "bindm":
			b := &uBound{info: uInfo(st)}
			ev["twcc"], ev["rtx"], ev["fec"], ev["nack"] = st.Twcc, st.Rtx, st.Fec, st.Nack
			s := st.S
			blocked, pan = uGuard(limit, func() {
				b.reader = chain.BindRemoteStream(b.info, interceptor.RTPReaderFunc(
					func(buf []byte, a interceptor.Attributes) (int, interceptor.Attributes, error) {
						e.mu.Lock()
						defer e.mu.Unlock()
						if e.nextErr {
							return 0, nil, errUInner
						}

						return copy(buf, e.nextRTP[s]), a, nil
					}))
			})
			smu.Lock()
			remote[st.S] = b
			smu.Unlock()
			if e.rb != nil && !blocked {
				e.rb.afterBindM(st)
			}
		case "unbindl":
			if b := getLocal(st.S); b != nil {
				smu.Lock()
				delete(local, st.S)
				if !sc.NoStale {
					staleLocal[st.S] = b
				}
				smu.Unlock()
				cp := *b.info // (an equal description at another address, never the object Bind was given)
				info := &cp
				if st.Bare {
					info = &interceptor.StreamInfo{SSRC: b.info.SSRC}
				}
				blocked, pan = uGuard(limit, func() { chain.UnbindLocalStream(info) })
			} else {
				ev["skipped"] = true
			}
		case "unbindm":
			if b := getRemote(st.S); b != nil {
				smu.Lock()
				delete(remote, st.S)
				if !sc.NoStale {
					staleRemote[st.S] = b
				}
				smu.Unlock()
				cp := *b.info // (an equal description at another address, never the object Bind was given)
				info := &cp
				if st.Bare {
					info = &interceptor.StreamInfo{SSRC: b.info.SSRC}
				}
				blocked, pan = uGuard(limit, func() { chain.UnbindRemoteStream(info) })
			} else {
				ev["skipped"] = true
			}
		case "close":
			var cerr error
			blocked, pan = uGuard(limit, func() { cerr = chain.Close() })
			if !blocked && e.parkRTCP.Load() == nil { // (a parked write is the application's own: not the chain's business)
				ev["busy"] = e.rtcpBusy.Load() > 0 // a goroutine of the chain is still inside the RTCP transport
			}
			if !blocked {
				e.mu.Lock()
				e.closed = true
				e.mu.Unlock()
			}
			errs := []int{}
			for _, p := range e.probes {
				if p.closeErr != nil && cerr != nil && errors.Is(cerr, p.closeErr) {
					errs = append(errs, p.id)
				}
			}
			ev["errs"] = errs
			ev["err"] = uErrClass(cerr)
			if cerr != nil {
				ev["err"] = 2
			}
		case "wrtp":
			b := getLocal(st.S)
			if b == nil && st.Stale { // a write that was in flight when the stream was removed goes through its old writer
				smu.Lock()
				b = staleLocal[st.S]
				smu.Unlock()
			}
			if b == nil || b.writer == nil {
				ev["skipped"] = true

				break
			}
			h, pl := vfMakePacket(st.S, st.W, st.ID, st.Len, st.Shape)
			h.PayloadType = 96
			var hdrRaw []byte
			if e.scribble && e.quiet {
				// the application parsed this header out of its own receive buffer: CSRC and extension payloads
				// of the parsed header point into that buffer, which it reuses after the call
				if raw, merr := h.Marshal(); merr == nil {
					h2 := &rtp.Header{}
					if _, uerr := h2.Unmarshal(raw); uerr == nil {
						h2.PaddingSize = h.PaddingSize
						h, hdrRaw = h2, raw
					}
				}
				// ... and it keeps ONE header object for all the packets it writes (these scripts write sequentially)
				if e.reuseHdr == nil {
					e.reuseHdr = &rtp.Header{}
				}
				*e.reuseHdr = *h
				h = e.reuseHdr
			}
			if !e.nowire {
				ev["pkt"] = vfPkt(h, pl)
			}
			if !e.nowire {
				e.emit(vfM{"a": "pre", "op": "wrtp", "s": st.S, "w": st.W, "tw": -1, "fail": st.Fail})
			}
			fl := &uFlight{fail: st.Fail}
			e.mu.Lock()
			e.inflight[h] = fl
			e.mu.Unlock()
			var n int
			var werr error
			blocked, pan = uGuard(limit, func() { n, werr = b.writer.Write(h, pl, interceptor.Attributes{}) })
			e.mu.Lock()
			delete(e.inflight, h)
			w := fl.wire
			e.mu.Unlock()
			if w == nil {
				w = []vfM{}
			}
			ev["n"], ev["err"], ev["wire"] = n, uErrClass(werr), w
			if werr == nil && !blocked {
				e.mu.Lock()
				e.okW[st.S]++
				e.mu.Unlock()
			}
			if e.rb != nil && werr != nil {
				ev["es"] = werr.Error()
			}
			if e.scribble { // the caller reuses its buffers immediately (C13)
				for i := range pl {
					pl[i] = 0xEE
				}
				h.SequenceNumber, h.Timestamp, h.Marker = 0xDEAD, 0x7EADBEEF, !h.Marker
				for i := range h.CSRC {
					h.CSRC[i] = 0x6EEEEEEE
				}
				for i := range h.Extensions {
					h.Extensions[i] = rtp.Extension{}
				}
				for i := range hdrRaw {
					hdrRaw[i] = 0xEE
				}
			}
		case "wrtcp":
			smu.Lock()
			rtcpW := rtcpW
			smu.Unlock()
			if rtcpW == nil {
				ev["skipped"] = true

				break
			}
			var pkts []rtcp.Packet
			switch st.Kind {
			case "sr":
				pkts = []rtcp.Packet{&rtcp.SenderReport{SSRC: st.S, NTPTime: 1 << 40, RTPTime: 1234, PacketCount: 1, OctetCount: 2}}
			case "nack":
				pairs := []rtcp.NackPair{}
				for _, n := range st.Nums {
					pairs = append(pairs, rtcp.NackPair{PacketID: n})
				}
				pkts = []rtcp.Packet{&rtcp.TransportLayerNack{SenderSSRC: 7, MediaSSRC: st.S, Nacks: pairs}}
			case "xr", "xr2": // extended report with one / two receiver reference time blocks
				reps := []rtcp.ReportBlock{&rtcp.ReceiverReferenceTimeReportBlock{NTPTimestamp: uint64(st.ID+1) << 32}} //nolint:gosec
				if st.Kind == "xr2" {
					reps = append(reps, &rtcp.ReceiverReferenceTimeReportBlock{NTPTimestamp: uint64(st.ID+1)<<32 + 7}) //nolint:gosec
				}
				pkts = []rtcp.Packet{&rtcp.ExtendedReport{SenderSSRC: st.S, Reports: reps}}
			default:
				pkts = []rtcp.Packet{&rtcp.PictureLossIndication{SenderSSRC: 7, MediaSSRC: st.S}}
			}
			e.mu.Lock()
			e.curRTCP, e.failNow, e.wireApp = pkts[0], st.Fail, nil
			e.mu.Unlock()
			var n int
			var werr error
			blocked, pan = uGuard(limit, func() { n, werr = rtcpW.Write(pkts, interceptor.Attributes{}) })
			e.mu.Lock()
			e.curRTCP, e.failNow = nil, false
			w := e.wireApp
			e.wireApp = nil
			e.mu.Unlock()
			if w == nil {
				w = []vfM{}
			}
			ev["n"], ev["err"], ev["wire"] = n, uErrClass(werr), w
		case "rrtp":
			b := getRemote(st.S)
			if b == nil && st.Stale {
				smu.Lock()
				b = staleRemote[st.S]
				smu.Unlock()
			}
			if b == nil || b.reader == nil {
				ev["skipped"] = true

				break
			}
			var rawb []byte
			if st.Raw != nil {
				rawb = make([]byte, len(st.Raw))
				for i, x := range st.Raw {
					rawb[i] = byte(x)
				}
			} else {
				h, pl := vfMakePacket(st.S, st.W, st.ID, st.Len, st.Shape)
				h.PayloadType = 96
				if st.Tw >= 0 && b.info.RTPHeaderExtensions != nil {
					ext, _ := (&rtp.TransportCCExtension{TransportSequence: uint16(st.Tw)}).Marshal() //nolint:gosec
					_ = h.SetExtension(uint8(b.info.RTPHeaderExtensions[0].ID), ext)                  //nolint:gosec
				}
				rawb, _ = (&rtp.Packet{Header: *h, Payload: pl}).Marshal()
			}
			if !e.nowire {
				e.emit(vfM{"a": "pre", "op": "rrtp", "s": st.S, "w": st.W, "tw": st.Tw, "fail": st.Fail})
			}
			e.mu.Lock()
			e.nextRTP[st.S], e.nextErr = rawb, st.Fail
			e.mu.Unlock()
			buf := make([]byte, 1500)
			if e.scribble && e.quiet {
				if e.readBuf == nil {
					e.readBuf = make([]byte, 1500)
				}
				buf = e.readBuf
			}
			var n int
			var rerr error
			blocked, pan = uGuard(limit, func() { n, _, rerr = b.reader.Read(buf, interceptor.Attributes{}) })
			e.mu.Lock()
			e.nextErr = false
			e.mu.Unlock()
			ev["n"], ev["err"], ev["len"] = n, uErrClass(rerr), len(rawb)
			ev["same"] = n <= len(buf) && n >= 0 && bytes.Equal(buf[:min(n, len(buf))], rawb)
			if e.rb != nil && !blocked {
				if rerr != nil {
					ev["es"] = rerr.Error()
				} else if n >= 12 && n <= len(buf) {
					ev["rseq"] = int(buf[2])<<8 | int(buf[3])
				}
				e.rb.afterRead(rerr == nil)
			}
			if rerr == nil && !blocked {
				e.mu.Lock()
				e.okR[st.S]++
				e.mu.Unlock()
			}
			if e.quiet && rerr == nil && !blocked && n >= 12 && n <= len(buf) {
				// C13: what a Read hands to the application is an emission too (a buffering member returns an EARLIER
				// packet, which it must have kept in memory of its own)
				cp := append([]byte(nil), buf[:n]...)
				var rp rtp.Packet
				if uerr := rp.Unmarshal(cp); uerr == nil {
					e.mu.Lock()
					e.emis = append(e.emis, uEmis("read", &rp.Header, rp.Payload, true))
					e.mu.Unlock()
				}
			}
			if e.scribble && e.quiet && !blocked {
				for i := range buf {
					buf[i] = 0xEE
				}
			}
		case "rrtcp":
			smu.Lock()
			rtcpR := rtcpR
			smu.Unlock()
			if rtcpR == nil {
				ev["skipped"] = true

				break
			}
			var rawb []byte
			if st.Raw != nil {
				rawb = make([]byte, len(st.Raw))
				for i, x := range st.Raw {
					rawb[i] = byte(x)
				}
			} else {
				var p rtcp.Packet
				switch st.Kind {
				case "nack":
					pairs := []rtcp.NackPair{}
					for _, n := range st.Nums {
						pairs = append(pairs, rtcp.NackPair{PacketID: n})
					}
					p = &rtcp.TransportLayerNack{SenderSSRC: 7, MediaSSRC: st.S, Nacks: pairs}
				case "sr":
					p = &rtcp.SenderReport{SSRC: st.S, NTPTime: uint64(st.ID) << 32, RTPTime: 99, PacketCount: 3, OctetCount: 4} //nolint:gosec
				case "rr":
					p = &rtcp.ReceiverReport{SSRC: 7, Reports: []rtcp.ReceptionReport{{SSRC: st.S, LastSequenceNumber: uint32(st.W)}}}
				case "ccfb":
					p = &rtcp.CCFeedbackReport{SenderSSRC: 7, ReportTimestamp: 0x00050000, ReportBlocks: []rtcp.CCFeedbackReportBlock{{
						MediaSSRC: st.S, BeginSequence: st.W, MetricBlocks: []rtcp.CCFeedbackMetricBlock{
							{Received: true, ArrivalTimeOffset: 10}, {Received: false}, {Received: true, ArrivalTimeOffset: 3},
						},
					}}}
				case "twccfb":
					p = &rtcp.TransportLayerCC{
						// (without the header pion/rtcp marshals a packet of type 0 that every parser rejects)
						Header:     rtcp.Header{Padding: true, Count: rtcp.FormatTCC, Type: rtcp.TypeTransportSpecificFeedback, Length: 6},
						SenderSSRC: 7, MediaSSRC: st.S, BaseSequenceNumber: uint16(st.Tw), PacketStatusCount: 3, ReferenceTime: 5, //nolint:gosec
						FbPktCount: uint8(st.ID), //nolint:gosec
						PacketChunks: []rtcp.PacketStatusChunk{&rtcp.RunLengthChunk{
							Type: rtcp.TypeTCCRunLengthChunk, PacketStatusSymbol: rtcp.TypeTCCPacketReceivedSmallDelta, RunLength: 3,
						}},
						RecvDeltas: []*rtcp.RecvDelta{
							{Type: rtcp.TypeTCCPacketReceivedSmallDelta, Delta: 250}, {Type: rtcp.TypeTCCPacketReceivedSmallDelta, Delta: 500},
							{Type: rtcp.TypeTCCPacketReceivedSmallDelta, Delta: 250},
						},
					}
				default:
					p = &rtcp.PictureLossIndication{SenderSSRC: 7, MediaSSRC: st.S}
				}
				rawb, _ = p.Marshal()
			}
			e.mu.Lock()
			e.nextRC, e.nextErr = rawb, st.Fail
			e.mu.Unlock()
			buf := make([]byte, 1500)
			var n int
			var rerr error
			var rattr interceptor.Attributes
			blocked, pan = uGuard(limit, func() { n, rattr, rerr = rtcpR.Read(buf, interceptor.Attributes{}) })
			e.mu.Lock()
			e.nextErr = false
			e.mu.Unlock()
			ev["n"], ev["err"], ev["len"] = n, uErrClass(rerr), len(rawb)
			ev["same"] = n <= len(buf) && n >= 0 && bytes.Equal(buf[:min(n, len(buf))], rawb)
			if e.rb != nil && !blocked {
				if rerr != nil {
					ev["es"] = rerr.Error()
				}
				ev["rep"] = e.rb.afterRTCPRead(st, rattr, rerr == nil)
			}
		case "tick": // C11 re-bind: exactly one pass of every tick-driven loop of the chain
			if e.rb == nil {
				ev["skipped"] = true

				break
			}
			e.rb.tick()
		case "drain": // C11 re-bind: wait until the feedback loop has acknowledged the listed transport-wide numbers
			if e.rb == nil {
				ev["skipped"] = true

				break
			}
			e.rb.drain(st)
		case "statswait": // wait until the statistics interceptor's recorder goroutines have run (changes no counter)
			deadline := time.Now().Add(5 * time.Second)
			for {
				buf := make([]byte, 1<<20)
				buf = buf[:runtime.Stack(buf, true)]
				if !strings.Contains(string(buf), "stats.(*Interceptor).getRecorder.func") {
					break
				}
				if time.Now().After(deadline) {
					if e.rb != nil {
						e.rb.setInc("statistics recorder did not start")
					}

					break
				}
				time.Sleep(50 * time.Microsecond)
			}
		case "wait":
			time.Sleep(time.Duration(st.Ms) * time.Millisecond)
		case "parkw": // C10: from now on every transport-side RTCP write parks; ms == 0 releases them all
			if st.Ms != 0 {
				ch := make(chan struct{})
				e.parkRTCP.Store(&ch)
			} else if ch := e.parkRTCP.Swap(nil); ch != nil {
				close(*ch)
			}
		case "getq": // C10: a statistics query that must come back (whatever else is in progress)
			if e.statsGetter == nil {
				ev["skipped"] = true

				break
			}
			blocked, pan = uGuard(limit, func() { _ = e.statsGetter.Get(st.S) })
		case "sloww": // C11: from now on the transport-side RTCP writer takes ms milliseconds per write
			e.slowRTCP.Store(int64(time.Duration(st.Ms) * time.Millisecond))
		case "failw": // C11: the RTCP writer starts (ms != 0) / stops failing for feedback the chain writes itself
			e.mu.Lock()
			e.failInjected = st.Ms != 0
			e.mu.Unlock()
		case "stats": // C10: conservation of the statistics counters (n = PacketsSent, len = PacketsReceived of SSRC s)
			if e.statsGetter == nil {
				ev["skipped"] = true

				break
			}
			if g := e.statsGetter.Get(st.S); g != nil {
				ev["n"], ev["len"] = int(g.OutboundRTPStreamStats.PacketsSent), int(g.InboundRTPStreamStats.PacketsReceived)
			} else {
				ev["skipped"] = true
			}
			e.mu.Lock()
			ev["nums"] = []int{e.okW[st.S], e.okR[st.S]}
			e.mu.Unlock()
		case "statssync": // C10: wait until the (asynchronously started) statistics recorders are active, then take the baseline
			if e.statsGetter == nil {
				ev["skipped"] = true

				break
			}
			for _, s16 := range st.Nums {
				ssrc := uint32(s16)
				deadline := time.Now().Add(5 * time.Second)
				for time.Now().Before(deadline) {
					if b := getLocal(ssrc); b != nil && b.writer != nil {
						h, pl := vfMakePacket(ssrc, 60000, 1, 4, 0)
						_, _ = b.writer.Write(h, pl, interceptor.Attributes{})
					}
					if b := getRemote(ssrc); b != nil && b.reader != nil {
						h, pl := vfMakePacket(ssrc, 60000, 1, 4, 0)
						raw, _ := (&rtp.Packet{Header: *h, Payload: pl}).Marshal()
						e.mu.Lock()
						e.nextRTP[ssrc] = raw
						e.mu.Unlock()
						_, _, _ = b.reader.Read(make([]byte, 1500), interceptor.Attributes{})
					}
					g := e.statsGetter.Get(ssrc)
					okL := getLocal(ssrc) == nil || (g != nil && g.OutboundRTPStreamStats.PacketsSent > 0)
					okR := getRemote(ssrc) == nil || (g != nil && g.InboundRTPStreamStats.PacketsReceived > 0)
					if okL && okR {
						break
					}
					time.Sleep(time.Millisecond)
				}
				if g := e.statsGetter.Get(ssrc); g != nil {
					e.mu.Lock()
					e.okW[ssrc] = int(g.OutboundRTPStreamStats.PacketsSent)    //nolint:gosec
					e.okR[ssrc] = int(g.InboundRTPStreamStats.PacketsReceived) //nolint:gosec
					e.mu.Unlock()
				}
			}
		case "heap": // C12: live heap after forced collection
			time.Sleep(time.Duration(st.Ms) * time.Millisecond)
			if st.Kind == "final" { // the application drops the closed interceptor: everything it held must become collectable
				smu.Lock()
				chain, rtcpW, rtcpR = nil, nil, nil
				local, remote = map[uint32]*uBound{}, map[uint32]*uBound{}
				staleLocal, staleRemote = map[uint32]*uBound{}, map[uint32]*uBound{} // (readers / writers of unbound streams are closures of the chain)
				smu.Unlock()
				e.mu.Lock()
				e.probes, e.pacing = nil, nil
				e.mu.Unlock()
			}
			var ms runtime.MemStats
			runtime.GC()
			runtime.GC()
			runtime.ReadMemStats(&ms)
			ev["n"], ev["len"] = int(ms.HeapAlloc), int(ms.HeapObjects)
		case "seq":
			for i := range st.Seq {
				sub := st.Seq[i]
				sub.W += st.W
				sub.ID += st.ID
				r := exec(&sub)
				if r["busy"] == true { // (a Close inside the sequence came back while the chain was still inside the transport)
					ev["busy"] = true
				}
				if r["blocked"] == true {
					blocked = true
					ev["stack"] = r["stack"]
				}
				if p, _ := r["panic"].(string); p != "" {
					pan = p
				}
				if blocked || pan != "" {
					break
				}
			}
		case "par":
			var wg sync.WaitGroup
			res := make([]vfM, len(st.Par))
			for i := range st.Par {
				wg.Add(1)
				go func(i int) {
					defer wg.Done()
					sub := st.Par[i]
					n := sub.Rep
					if n < 1 {
						n = 1
					}
					for k := 0; k < n; k++ {
						if sub.Win > 0 && sub.A == "wrtp" {
							// closed loop: at most Win packets are written ahead of what has reached the transport, so a pacing
							// member works against a small STANDING backlog - its queue is never empty, never long
							for dl := time.Now().Add(2 * time.Second); e.appRTPn.Load()-e.wireRTPn.Load() >= int64(sub.Win) && time.Now().Before(dl); {
								time.Sleep(20 * time.Microsecond)
							}
							e.appRTPn.Add(1)
						}
						res[i] = exec(&sub)
						if res[i]["blocked"] == true || res[i]["panic"] != "" {
							break
						}
						if sub.A == "heap" { // a heap sample taken WHILE the other roles run: logged at once, one event per sample
							e.emit(res[i])
							res[i] = nil
						}
						inc := sub.Inc
						if inc == 0 {
							inc = 1
						} else if inc < 0 {
							inc = 0
						}
						sub.W += uint16(inc) //nolint:gosec
						sub.ID++
						if sub.Tw >= 0 {
							sub.Tw = (sub.Tw + inc) % 65536
						}
						if sub.Gap > 0 {
							time.Sleep(time.Duration(sub.Gap) * time.Microsecond)
						}
					}
				}(i)
			}
			wg.Wait()
			for _, r := range res {
				if r == nil {
					continue
				}
				if r["busy"] == true {
					ev["busy"] = true
				}
				if r["blocked"] == true {
					blocked = true
				}
				if s, _ := r["panic"].(string); s != "" {
					pan = s
				}
			}
			ev["wire"] = res
		default:
			t.Fatalf("VERIF-INFRA unknown step %q", st.A)
		}
		ev["blocked"], ev["panic"] = blocked, pan
		if blocked {
			buf := make([]byte, 1<<18)
			buf = buf[:runtime.Stack(buf, true)]
			for _, g := range strings.Split(string(buf), "\n\n") {
				if strings.Contains(g, "uGuard") && strings.Contains(g, "pion/interceptor/pkg") {
					if len(g) > 1500 {
						g = g[:1500]
					}
					ev["stack"] = g

					break
				}
			}
		}

		return ev
	}

	for i := range sc.Steps {
		if aborted {
			break
		}
		ev := exec(&sc.Steps[i])
		if ev == nil {
			continue
		}
		if e.rb != nil {
			if sc.Steps[i].Ob {
				e.rb.observe(&sc.Steps[i], ev)
			}
			if ev["blocked"] == true {
				aborted = true
			}

			continue
		}
		if sc.Steps[i].A != "par" {
			e.emit(ev)
		} else {
			sub, _ := ev["wire"].([]vfM)
			for _, r := range sub {
				if r != nil {
					e.emit(r)
				}
			}
		}
		if ev["blocked"] == true {
			aborted = true
		}
	}
	if aborted && e.rb == nil && chain != nil {
		// a call blocked and the script was abandoned: Close is still called (under the watchdog) - it releases calls that
		// wait for the interceptor and must itself return
		e.mu.Lock()
		wasClosed := e.closed
		e.mu.Unlock()
		if !wasClosed {
			if ev := exec(&uStep{A: "close"}); ev != nil {
				ev["afterabort"] = true
				e.emit(ev)
			}
		}
	}
	if e.rb != nil {
		e.rb.shutdown() // loops parked at a tick gate run freely again (Close waits for them)
	}
	settle := 20
	if sc.Settle > 0 {
		settle = sc.Settle
	}
	time.Sleep(time.Duration(settle) * time.Millisecond)
	if quiet { // wait until asynchronous emissions (paced packets, retransmissions, dumps) have stopped arriving
		last, stable := -1, 0
		for i := 0; i < 200 && stable < 4; i++ {
			e.mu.Lock()
			n := len(e.emis)
			e.mu.Unlock()
			if n == last {
				stable++
			} else {
				last, stable = n, 0
			}
			time.Sleep(10 * time.Millisecond)
		}
	}
	probes := []vfM{}
	for _, p := range e.probes {
		p.mu.Lock()
		probes = append(probes, vfM{"id": p.id, "bindr": p.cnt["bindr"], "bindw": p.cnt["bindw"], "bindl": p.cnt["bindl"],
			"bindm": p.cnt["bindm"], "unbindl": p.cnt["unbindl"], "unbindm": p.cnt["unbindm"], "close": p.cnt["close"],
			"haserr": p.closeErr != nil})
		p.mu.Unlock()
	}
	end := vfM{"a": "end", "s": 0, "id": 0, "w": 0, "fail": false, "kind": "", "n": 0, "err": 0, "same": true,
		"blocked": false, "panic": "", "skipped": false, "wire": []vfM{}, "pkt": vfM{}, "nums": []int{}, "tw": 0,
		"probes": probes, "errs": []int{}, "leaked": 0, "stack": "", "aborted": aborted}
	e.mu.Lock()
	closed := e.closed
	end["activity"] = e.nActivity
	e.mu.Unlock()
	if closed && !aborted {
		var n int
		var first string
		if sc.Strict {
			n, first = uLeakedN(baseLeak, 1)
		} else {
			n, first = uLeaked(baseLeak)
		}
		end["leaked"], end["stack"] = n, first
	} else if !aborted {
		if chain != nil {
			_, _ = uGuard(limit, func() { _ = chain.Close() })
		}
	}
	e.emit(end)
	_ = io.Discard
	if closed && quiet {
		time.Sleep(5 * time.Millisecond)
	}
	e.mu.Lock()
	defer e.mu.Unlock()

	return append([]vfM{}, e.emis...)
}

// ---------------------------------------------------------------------------------------------------------------
// C11 clause P5 (re-bind freshness), two-run relational check - see spec/Rebind.tla.
// A re-bind script is executed twice on fresh chains: run "re" executes every step (first life of stream rs, Unbind, second
// Bind, suffix), run "fresh" skips the steps marked h1 (the first life).  Both runs use the same controlled clock values
// (step field clk), tick-driven loops are stepped (verif tick gates, injected tickers), asynchronous retransmissions are
// awaited through the responder's done gate.  After every step marked ob an observation about rs is recorded:
// the call's result, everything the chain wrote about rs during the step, the statistics of rs, the feedback report
// attribute.  TLC (Trace_Rebind) pairs the observations of both runs and compares them modulo the per-instance
// quantities listed in Rebind.tla.  Whatever cannot be ordered (a loop that does not reach its gate in time, ...) makes
// the script inconclusive ("inc" of the reset event), never a mismatch.

var uEpoch = time.Date(2026, 1, 1, 0, 0, 0, 0, time.UTC) //nolint:gochecknoglobals

type uTicker struct {
	rb *uRebind
	c  chan time.Time
}

// Ch is evaluated by the loop every time it (re-)enters its select: the previous pass is complete then.
func (t *uTicker) Ch() <-chan time.Time {
	t.rb.tickEnter.Add(1)

	return t.c
}

func (t *uTicker) Stop() {}

type uRebind struct {
	e       *uEnv
	s       uint32
	run     string
	fresh   bool
	agg     bool
	members map[string]bool
	clk     atomic.Int64   // controlled clock: ms after uEpoch
	gen     map[uint32]int // bind generation of each local stream (under e.mu)
	em      []vfM          // emissions about s since the last observation (under e.mu)
	pliSeen int            // PLIs about s seen so far (under e.mu)
	twSeen  map[int]bool   // transport-wide numbers acknowledged so far (under e.mu)
	obs     []vfM
	inc     string

	done       chan struct{}
	arrive     chan string
	release    chan struct{}
	parked     int
	loopOn     bool
	pliTicks   atomic.Int64
	resendDone atomic.Int64
	resendWant int64
	tickEnter  atomic.Int64
	tmu        sync.Mutex
	tickers    []*uTicker
	enter0     int64
	pli0       int
}

func (rb *uRebind) now() time.Time {
	return uEpoch.Add(time.Duration(rb.clk.Load()) * time.Millisecond)
}

func (rb *uRebind) newTicker() *uTicker {
	tk := &uTicker{rb: rb, c: make(chan time.Time)}
	rb.tmu.Lock()
	rb.tickers = append(rb.tickers, tk)
	rb.tmu.Unlock()

	return tk
}

func (rb *uRebind) setInc(why string) {
	if rb.inc == "" {
		rb.inc = why
	}
}

// hook is installed as the verif gate function while a re-bind run is in progress.
func (rb *uRebind) hook(name string, _ any) {
	switch name {
	case "nack.generator.tick", "report.receiver.tick": // park the loop at the top of its tick body
		select {
		case rb.arrive <- name:
		case <-rb.done:
			return
		}
		select {
		case <-rb.release:
		case <-rb.done:
		}
	case "intervalpli.tick": // free running, passes are counted (a parked loop could not take forced PLI requests)
		rb.pliTicks.Add(1)
	case "nack.responder.done":
		rb.resendDone.Add(1)
	}
}

func (rb *uRebind) waitFor(what string, cond func() bool) bool {
	deadline := time.Now().Add(3 * time.Second)
	for i := 0; !cond(); i++ {
		if time.Now().After(deadline) {
			rb.setInc(what)

			return false
		}
		if i < 200 {
			runtime.Gosched()
		} else {
			time.Sleep(20 * time.Microsecond)
		}
	}

	return true
}

func (rb *uRebind) waitArrive() bool {
	select {
	case <-rb.arrive:
		return true
	case <-time.After(3 * time.Second):
		rb.setInc("a loop did not reach its tick gate")

		return false
	}
}

func (rb *uRebind) begin(st *uStep) {
	if st.Clk > 0 {
		rb.clk.Store(int64(st.Clk))
	}
	rb.enter0 = rb.tickEnter.Load()
	rb.e.mu.Lock()
	rb.pli0 = rb.pliSeen
	if st.Ob && !rb.agg {
		rb.em = nil
	}
	rb.e.mu.Unlock()
}

func (rb *uRebind) afterBindW() {
	rb.loopOn = true
	for _, k := range []string{"nackgen", "rrecv"} {
		if rb.members[k] {
			if rb.waitArrive() {
				rb.parked++
			}
		}
	}
	if rb.members["rsend"] { // the loop has created its ticker and waits in its select
		rb.waitFor("sender report loop did not start", func() bool { return rb.tickEnter.Load() >= 1 })
	}
}

// a PLI-enabled bind requests a forced PLI, which the loop writes whenever it gets to it: wait for it so that it
// cannot fall into a later observation window
func (rb *uRebind) afterBindM(st *uStep) {
	if rb.members["pli"] && rb.loopOn && st.Pli && st.S == rb.s {
		rb.waitFor("forced PLI was not written", func() bool {
			rb.e.mu.Lock()
			defer rb.e.mu.Unlock()

			return rb.pliSeen > rb.pli0
		})
	}
}

// rfc8888 hands every packet to its loop: wait until the loop has recorded it and is back in its select
func (rb *uRebind) afterRead(ok bool) {
	if ok && rb.members["rfc8888"] && rb.loopOn {
		rb.waitFor("rfc8888 loop did not take the packet", func() bool { return rb.tickEnter.Load() > rb.enter0 })
	}
}

func (rb *uRebind) afterRTCPRead(st *uStep, attr interceptor.Attributes, ok bool) []vfM {
	if ok && st.Kind == "nack" && st.Raw == nil && rb.members["nackresp"] { // one resend goroutine per NACK packet
		rb.resendWant++
		rb.waitFor("resend goroutine did not finish", func() bool { return rb.resendDone.Load() >= rb.resendWant })
	}
	rep := []vfM{}
	if attr != nil {
		if r, isRep := attr.Get(rtpfb.CCFBAttributesKey).(rtpfb.Report); isRep {
			for _, p := range r.PacketReports {
				if p.SSRC == rb.s {
					rep = append(rep, vfM{"ssrc": int(p.SSRC), "seq": int(p.RTPSequenceNumber), "arrived": p.Arrived,
						"cnt": int(p.SequenceNumber & 0x7fffffff)}) //nolint:gosec
				}
			}
		}
	}

	return rep
}

func (rb *uRebind) tick() {
	for i := 0; i < rb.parked; i++ {
		select {
		case rb.release <- struct{}{}:
		case <-time.After(3 * time.Second):
			rb.setInc("a parked loop did not take its release")

			return
		}
	}
	for i := 0; i < rb.parked; i++ {
		if !rb.waitArrive() {
			return
		}
	}
	if rb.members["pli"] && rb.loopOn { // a complete pass that started after this step began
		n0 := rb.pliTicks.Load()
		rb.waitFor("intervalpli loop did not tick", func() bool { return rb.pliTicks.Load() >= n0+2 })
	}
	rb.tmu.Lock()
	tks := append([]*uTicker{}, rb.tickers...)
	rb.tmu.Unlock()
	for _, tk := range tks {
		e0 := rb.tickEnter.Load()
		select {
		case tk.c <- rb.now():
			rb.waitFor("ticker loop did not finish its pass", func() bool { return rb.tickEnter.Load() > e0 })
		case <-time.After(3 * time.Second):
			rb.setInc("ticker loop did not take the tick")
		}
	}
}

// drain waits until every listed transport-wide number has been acknowledged (real 1 ms ticker of the TWCC sender)
func (rb *uRebind) drain(st *uStep) {
	if len(st.Nums) == 0 {
		time.Sleep(5 * time.Millisecond)

		return
	}
	rb.waitFor("transport-wide feedback did not arrive", func() bool {
		rb.e.mu.Lock()
		defer rb.e.mu.Unlock()
		for _, n := range st.Nums {
			if !rb.twSeen[int(n)] {
				return false
			}
		}

		return true
	})
}

func (rb *uRebind) shutdown() {
	if rb.resendWant > 0 {
		rb.waitFor("resend goroutine did not finish", func() bool { return rb.resendDone.Load() >= rb.resendWant })
	}
	close(rb.done)
}

func uWords(v uint64, n int) []int {
	res := make([]int, n)
	for i := n - 1; i >= 0; i-- {
		res[i] = int(v & 0xffff)
		v >>= 16
	}

	return res
}

func uEm(t string, ssrc uint32, seq int, from uint32, cur bool, x, nums, pl []int) vfM {
	if x == nil {
		x = []int{}
	}
	if nums == nil {
		nums = []int{}
	}
	if pl == nil {
		pl = []int{}
	}

	return vfM{"t": t, "ssrc": int(ssrc), "seq": seq, "from": int(from & 0x7fffffff), "cur": cur, "x": x, "nums": nums, "pl": pl}
}

// capRTP records a packet reaching the transport-side writer of the re-bound stream (called under e.mu)
func (rb *uRebind) capRTP(h *rtp.Header, pl []byte, app, cur bool) {
	t := "rtp"
	switch {
	case app:
		t = "app"
	case h.PayloadType == 97:
		t = "rtx"
	case h.PayloadType == 98:
		t = "fec"
	}
	head := pl
	if len(head) > 40 {
		head = head[:40]
	}
	mk := 0
	if h.Marker {
		mk = 1
	}
	x := append([]int{int(h.PayloadType), mk, len(pl)}, uWords(uint64(h.Timestamp), 2)...)
	rb.em = append(rb.em, uEm(t, h.SSRC, int(h.SequenceNumber), 0, cur, x, nil, vfInts(head)))
}

// capRTCP records what the chain wrote about the re-bound stream (called under e.mu)
func (rb *uRebind) capRTCP(pkts []rtcp.Packet) { //nolint:cyclop
	clip := func(v uint32) int { return int(v & 0x7fffffff) }
	for _, p := range pkts {
		switch x := p.(type) {
		case *rtcp.ReceiverReport:
			for _, r := range x.Reports {
				if r.SSRC == rb.s {
					f := []int{int(r.LastSequenceNumber & 0xffff), int(r.LastSequenceNumber >> 16), clip(r.TotalLost), int(r.FractionLost),
						clip(r.Jitter), int(r.LastSenderReport >> 16), int(r.LastSenderReport & 0xffff), clip(r.Delay)}
					rb.em = append(rb.em, uEm("rr", r.SSRC, 0, x.SSRC, true, f, nil, nil))
				}
			}
		case *rtcp.SenderReport:
			if x.SSRC == rb.s {
				f := append([]int{clip(x.PacketCount), clip(x.OctetCount)}, uWords(uint64(x.RTPTime), 2)...)
				f = append(f, uWords(x.NTPTime, 4)...)
				rb.em = append(rb.em, uEm("sr", x.SSRC, 0, 0, true, f, nil, nil))
			}
		case *rtcp.TransportLayerNack:
			if x.MediaSSRC == rb.s {
				nums := []int{}
				for _, pr := range x.Nacks {
					for _, n := range pr.PacketList() {
						nums = append(nums, int(n))
					}
				}
				rb.em = append(rb.em, uEm("nack", x.MediaSSRC, 0, x.SenderSSRC, true, nil, nums, nil))
			}
		case *rtcp.PictureLossIndication:
			if x.MediaSSRC == rb.s {
				rb.pliSeen++
				rb.em = append(rb.em, uEm("pli", x.MediaSSRC, 0, x.SenderSSRC, true, nil, nil, nil))
			}
		case *rtcp.TransportLayerCC: // transport wide: kept for every stream, Trace_Rebind looks at the numbers of the suffix only
			nums := []int{}
			for _, s := range uSumRTCP([]rtcp.Packet{x}) {
				if l, ok := s["nums"].([]int); ok {
					nums = append(nums, l...)
				}
			}
			for _, n := range nums {
				rb.twSeen[n] = true
			}
			rb.em = append(rb.em, uEm("twcc", x.MediaSSRC, 0, x.SenderSSRC, true,
				[]int{int(x.BaseSequenceNumber), int(x.PacketStatusCount), int(x.FbPktCount)}, nums, nil))
		case *rtcp.CCFeedbackReport:
			for _, b := range x.ReportBlocks {
				if b.MediaSSRC != rb.s {
					continue
				}
				f := []int{int(b.BeginSequence), len(b.MetricBlocks)}
				nums := []int{}
				for i, m := range b.MetricBlocks {
					f = append(f, int(m.ArrivalTimeOffset))
					if m.Received {
						nums = append(nums, int(b.BeginSequence+uint16(i))) //nolint:gosec
					}
				}
				rb.em = append(rb.em, uEm("ccfb", b.MediaSSRC, 0, x.SenderSSRC, true, f, nums, nil))
			}
		}
	}
}

// uFlat flattens a statistics value into (field path, integer) pairs: floats in 1/1000, durations in microseconds,
// times in ms after uEpoch (-1: zero time), everything reduced below 2^31
func uFlat(prefix string, v reflect.Value, out *[]vfM) {
	add := func(x int64) {
		if x > math.MaxInt32 || x < -math.MaxInt32 {
			x %= 1 << 30
		}
		*out = append(*out, vfM{"f": prefix, "v": int(x)})
	}
	if tm, ok := v.Interface().(time.Time); ok {
		if tm.IsZero() {
			add(-1)
		} else {
			add(tm.Sub(uEpoch).Milliseconds())
		}

		return
	}
	if d, ok := v.Interface().(time.Duration); ok {
		add(d.Microseconds())

		return
	}
	switch v.Kind() { //nolint:exhaustive
	case reflect.Struct:
		for i := 0; i < v.NumField(); i++ {
			if v.Type().Field(i).IsExported() {
				uFlat(prefix+"."+v.Type().Field(i).Name, v.Field(i), out)
			}
		}
	case reflect.Int, reflect.Int8, reflect.Int16, reflect.Int32, reflect.Int64:
		add(v.Int())
	case reflect.Uint, reflect.Uint8, reflect.Uint16, reflect.Uint32, reflect.Uint64:
		add(int64(v.Uint() & 0x3fffffffffffffff)) //nolint:gosec
	case reflect.Float32, reflect.Float64:
		f := v.Float() * 1000
		if math.IsNaN(f) || math.IsInf(f, 0) || math.Abs(f) > 1e15 {
			add(-2)
		} else {
			add(int64(math.Round(f)))
		}
	case reflect.Bool:
		if v.Bool() {
			add(1)
		} else {
			add(0)
		}
	case reflect.Slice, reflect.Array:
		add(int64(v.Len()))
	default:
	}
}

// observe records the observation of one step of the suffix
func (rb *uRebind) observe(st *uStep, ev vfM) {
	e := rb.e
	e.mu.Lock()
	em := rb.em
	if rb.agg && st.A != "drain" {
		em = nil
	} else {
		rb.em = nil
	}
	e.mu.Unlock()
	if em == nil {
		em = []vfM{}
	}
	stv := []vfM{}
	if e.statsGetter != nil {
		if g := e.statsGetter.Get(rb.s); g != nil {
			uFlat("", reflect.ValueOf(*g), &stv)
		}
	}
	es, _ := ev["es"].(string)
	if ev["blocked"] == true {
		es = "blocked"
	}
	if p, _ := ev["panic"].(string); p != "" {
		es = p
	}
	rb.obs = append(rb.obs, vfM{"a": "obs", "r": rb.run, "k": len(rb.obs), "step": st.A, "n": ev["n"], "err": ev["err"], "es": es,
		"same": ev["same"], "rseq": ev["rseq"], "em": em, "st": stv, "rep": ev["rep"]})
}

func uRunRebind(t *testing.T, sc *uScript, out *vfWriter) {
	t.Helper()
	kinds := []string{}
	members := map[string]bool{}
	for _, m := range sc.Members {
		kinds = append(kinds, m.K)
		members[m.K] = true
	}
	runs := []*uRebind{}
	for _, fresh := range []bool{false, true} {
		rb := &uRebind{s: sc.RS, run: "re", fresh: fresh, agg: sc.Agg, members: members, gen: map[uint32]int{}, twSeen: map[int]bool{},
			done: make(chan struct{}), arrive: make(chan string), release: make(chan struct{})}
		if fresh {
			rb.run = "fresh"
		}
		verifhook.SetGate(rb.hook)
		uRunX(t, sc, out, false, false, rb)
		verifhook.SetGate(nil)
		runs = append(runs, rb)
	}
	inc := runs[0].inc
	if inc == "" {
		inc = runs[1].inc
	}
	bnums := sc.BNums
	if bnums == nil {
		bnums = []int{}
	}
	out.Emit(vfM{"a": "reset", "members": kinds, "kind": sc.Kind, "s": int(sc.RS), "bnums": bnums, "hlen": sc.HLen, "inc": inc})
	for _, rb := range runs {
		for _, o := range rb.obs {
			out.Emit(o)
		}
		out.Emit(vfM{"a": "done", "r": rb.run, "k": len(rb.obs)})
	}
}

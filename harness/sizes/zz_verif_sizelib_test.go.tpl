//go:build verif

// Shared part of the container-size probes (C12, spec/Sizes.tla, spec/Trace_Sizes.tla): script format, the seeded
// workload generator (input side only: which packet goes to which stream when), the runner that steps a per-package
// driver through a script and logs the REAL container sizes the driver reads from the object under test.
// Compiled into every probed package next to harness/<pkg>/zz_verif_size_test.go (package clause substituted).
package PKGNAME

import (
	"encoding/json"
	"math/rand"
	"os"
	"testing"
	"time"
)

// One segment of a script: a workload kind driven for N packets, then a lifecycle action.
type szSeg struct {
	WL   string `json:"wl"`   // inorder | loss | burst | reorder | dup | jump | mix
	N    int    `json:"n"`    // packets in this segment (all streams together)
	Then string `json:"then"` // none | unbind0 | rebind0 | fresh0 | unbindall | drain | tick
}

type szScript struct {
	Pkg   string         `json:"pkg"`
	C     string         `json:"c"`     // component (driver) name
	Cfg   map[string]int `json:"cfg"`   // configuration of the component (integers; 0 = default)
	NS    int            `json:"ns"`    // stream slots bound at start
	Dis   int            `json:"dis"`   // slot bound WITHOUT the feature the component filters on (-1: none)
	Segs  []szSeg        `json:"segs"`
	K     int            `json:"k"`     // a size sample is logged after every K-th packet
	Full  bool           `json:"full"`  // log every packet / feedback / tick event (exact conformance)
	Seed  int64          `json:"seed"`
	Base  int            `json:"base"`  // first ideal sequence number (choose near 65536 to cross the wrap early)
	FB    int            `json:"fb"`    // a feedback (report for sender side components) after every FB packets, 0 = never
	Tick  int            `json:"tick"`  // a tick / report build after every Tick packets, 0 = never
	Flood int            `json:"flood"` // every Flood-th packet carries a header SSRC never seen before, 0 = never
	GapUs int            `json:"gapus"` // controlled clock: microseconds between packets
}

// One delivery decided by the workload generator.
type szStep struct {
	Slot int
	SSRC uint32 // SSRC of the bound stream the packet travels on
	HS   uint32 // SSRC in the RTP header (differs from SSRC for flood packets)
	T    int    // ideal (unwrapped) sequence number; the wire carries T mod 65536
	Now  time.Time
}

// Feedback about [Lo, Hi] of one stream: everything delivered in the range arrived except Lost.
type szFb struct {
	SSRC   uint32
	Lo, Hi int
	Sent   map[int]bool
	Lost   map[int]bool
	Now    time.Time
}

// szDriver is implemented once per probed component, on the real object.
type szDriver interface {
	Reset(tb testing.TB, sc *szScript) map[string]int // build the object; returns the effective configuration to log
	Bind(ssrc uint32, enabled bool)
	Unbind(ssrc uint32)
	Pkt(st *szStep) bool    // deliver one packet; result = what the call reported (true: no error)
	Feedback(fb *szFb)      // may be a no-op
	Tick(now time.Time)     // one report / tick of the component, may be a no-op
	Drain(now time.Time) bool // bring the component to its documented quiescent point; false: not reached (inconclusive)
	Sizes() (map[string]int, map[string]int) // real container sizes, extra observation counters
	Close()
}

type szSlot struct {
	ssrc    uint32
	bound   bool
	enabled bool
	cur     int   // next fresh ideal sequence number
	hi      int   // highest delivered
	last    int   // last delivered (for the non-consecutive counter)
	first   int   // first delivered since the stream was bound (stragglers never precede it: unwrappers start there)
	any     bool
	recent  []int // last deliveries (duplicates are drawn from here)
	sent    map[int]bool
	fbLo    int
}

type szRun struct {
	tb     testing.TB
	sc     *szScript
	drv    szDriver
	out    *vfWriter
	rng    *rand.Rand
	slots  []*szSlot
	now    time.Time
	n      int // packets delivered
	since  int // packets since the last tick/report
	ooo    int // deliveries that were not "previous + 1" on their stream
	gooo   int // deliveries that were not "previous + 1" of the previous delivery on ANY stream (shared containers)
	glast  int
	fresh  uint32
	flood  uint32
	t0     time.Time
}

func szInts(m map[int]bool) []int {
	out := []int{}
	for k := range m {
		out = append(out, k)
	}
	// order is irrelevant for TLC (compared as a set) but keep the trace reproducible
	for i := 1; i < len(out); i++ {
		for j := i; j > 0 && out[j-1] > out[j]; j-- {
			out[j-1], out[j] = out[j], out[j-1]
		}
	}

	return out
}

// szPreSampler is implemented by drivers that can only read sizes at a synchronisation point which is itself a tick/report
// of the component (the report is then part of the history: it is logged as a tick event).
type szPreSampler interface {
	PreSample(now time.Time) bool
}

func (r *szRun) sample(ph string) {
	if ps, ok := r.drv.(szPreSampler); ok && ps.PreSample(r.now) {
		r.since = 0
		if r.sc.Full {
			r.out.Emit(vfM{"a": "tick"})
		}
	}
	z, x := r.drv.Sizes()
	h := vfM{"n": r.n, "since": r.since, "ooo": r.ooo, "gooo": r.gooo, "foreign": int(r.flood), "ms": int(time.Since(r.t0).Milliseconds())}
	for k, v := range x {
		h[k] = v
	}
	r.out.Emit(vfM{"a": "size", "ph": ph, "z": z, "h": h})
}

func (r *szRun) bind(sl *szSlot, enabled bool) {
	sl.bound, sl.enabled = true, enabled
	sl.any, sl.recent, sl.sent = false, nil, map[int]bool{}
	sl.fbLo = sl.cur
	r.drv.Bind(sl.ssrc, enabled)
	r.out.Emit(vfM{"a": "bind", "s": sl.ssrc, "en": enabled})
}

func (r *szRun) unbind(sl *szSlot) {
	if !sl.bound {
		return
	}
	sl.bound = false
	r.drv.Unbind(sl.ssrc)
	r.out.Emit(vfM{"a": "unbind", "s": sl.ssrc})
}

// seqs decides which ideal sequence numbers stream sl delivers next (possibly none).
func (r *szRun) seqs(sl *szSlot, wl string) []int {
	if wl == "mix" {
		wl = []string{"inorder", "loss", "burst", "reorder", "dup", "jump"}[r.rng.Intn(6)]
	}
	c := sl.cur
	switch wl {
	case "loss":
		sl.cur++
		if r.rng.Intn(10) == 0 {
			return nil
		}

		return []int{c}
	case "burst":
		if r.rng.Intn(50) == 0 {
			sl.cur += 1 + r.rng.Intn(40)

			return nil
		}
		sl.cur++

		return []int{c}
	case "reorder":
		switch r.rng.Intn(8) {
		case 0:
			sl.cur += 2

			return []int{c + 1, c}
		case 1:
			sl.cur += 4

			return []int{c + 3, c, c + 1, c + 2}
		}
		sl.cur++

		return []int{c}
	case "dup":
		sl.cur++
		if len(sl.recent) > 0 && r.rng.Intn(5) == 0 {
			return []int{c, sl.recent[r.rng.Intn(len(sl.recent))]}
		}

		return []int{c}
	case "jump":
		switch {
		case r.rng.Intn(200) == 0: // forward jump; a straggler followed by a jump stays below half the sequence space
			sl.cur += 1000 + r.rng.Intn(14000)

			return nil
		case sl.any && r.rng.Intn(100) == 0: // straggler far behind the highest
			back := 100 + r.rng.Intn(15000)
			if sl.hi-back >= sl.first {
				return []int{sl.hi - back}
			}
		}
		sl.cur++

		return []int{c}
	}
	sl.cur++

	return []int{c}
}

func (r *szRun) deliver(sl *szSlot, t int) {
	r.now = r.now.Add(time.Duration(r.sc.GapUs) * time.Microsecond)
	st := &szStep{Slot: 0, SSRC: sl.ssrc, HS: sl.ssrc, T: t, Now: r.now}
	if r.sc.Flood > 0 && r.n%r.sc.Flood == r.sc.Flood-1 {
		r.flood++
		st.HS = 900000 + r.flood
	}
	ok := r.drv.Pkt(st)
	if r.n > 0 && t != r.glast+1 {
		r.gooo++
	}
	r.glast = t
	r.n++
	r.since++
	if st.HS == sl.ssrc {
		if sl.any && t != sl.last+1 {
			r.ooo++
		}
		if !sl.any || t > sl.hi {
			sl.hi = t
		}
		if !sl.any {
			sl.first = t
		}
		sl.last, sl.any = t, true
		sl.sent[t] = true
		sl.recent = append(sl.recent, t)
		if len(sl.recent) > 10 {
			sl.recent = sl.recent[1:]
		}
	}
	if r.sc.Full {
		r.out.Emit(vfM{"a": "pkt", "s": sl.ssrc, "hs": st.HS, "t": t, "ok": ok})
	}
	if r.sc.FB > 0 && r.n%r.sc.FB == 0 {
		r.feedback(sl)
	}
	if r.sc.Tick > 0 && r.n%r.sc.Tick == 0 {
		r.tick()
	}
	if r.sc.K > 0 && r.n%r.sc.K == 0 {
		r.sample("run")
	}
}

func (r *szRun) feedback(sl *szSlot) {
	if !sl.any || !sl.bound {
		return
	}
	lo := sl.fbLo
	if sl.hi-lo > 4000 {
		lo = sl.hi - 4000
	}
	fb := &szFb{SSRC: sl.ssrc, Lo: lo, Hi: sl.hi, Sent: map[int]bool{}, Lost: map[int]bool{}, Now: r.now}
	for t := lo; t <= sl.hi; t++ {
		if sl.sent[t] {
			fb.Sent[t] = true
			if t != sl.hi && r.rng.Intn(20) == 0 { // (the highest one always arrives: the report is triggered by it)
				fb.Lost[t] = true
			}
		}
		delete(sl.sent, t)
	}
	sl.fbLo = sl.hi + 1
	r.drv.Feedback(fb)
	if r.sc.Full {
		r.out.Emit(vfM{"a": "fb", "s": sl.ssrc, "lo": fb.Lo, "hi": fb.Hi, "sent": szInts(fb.Sent), "lost": szInts(fb.Lost)})
	}
}

func (r *szRun) tick() {
	r.drv.Tick(r.now)
	r.since = 0
	if r.sc.Full {
		r.out.Emit(vfM{"a": "tick"})
	}
	r.sample("tick")
}

func (r *szRun) then(a string) {
	s0 := r.slots[0]
	switch a {
	case "unbind0":
		r.unbind(s0)
	case "rebind0":
		r.unbind(s0)
		r.bind(s0, true)
	case "fresh0": // the stream is replaced by one with an SSRC never used before
		r.unbind(s0)
		r.fresh++
		s0.ssrc = 5000 + r.fresh
		s0.cur += 7
		r.bind(s0, true)
	case "unbindall":
		for _, sl := range r.slots {
			r.unbind(sl)
		}
		r.sample("unb")
		for i, sl := range r.slots {
			r.bind(sl, i != r.sc.Dis)
		}
	case "tick":
		r.tick()
	case "drain":
		for _, sl := range r.slots {
			r.feedback(sl)
		}
		if r.drv.Drain(r.now) {
			r.now = r.now.Add(700 * time.Millisecond)
			r.since = 0
			r.out.Emit(vfM{"a": "drain"})
			r.sample("drained")
		}
	}
	if a != "none" && a != "drain" && a != "tick" {
		r.sample("run")
	}
}

func szExec(tb testing.TB, sc *szScript, drv szDriver, out *vfWriter) {
	tb.Helper()
	if sc.GapUs == 0 {
		sc.GapUs = 1000
	}
	r := &szRun{tb: tb, sc: sc, drv: drv, out: out, rng: rand.New(rand.NewSource(sc.Seed)), //nolint:gosec
		now: time.Date(2024, 1, 1, 0, 0, 0, 0, time.UTC), t0: time.Now()}
	cfg := drv.Reset(tb, sc)
	out.Emit(vfM{"a": "reset", "c": sc.C, "cfg": cfg, "full": sc.Full, "fb": sc.FB, "flood": sc.Flood})
	for i := 0; i < sc.NS; i++ {
		sl := &szSlot{ssrc: uint32(1000 + i), cur: sc.Base + 977*i} //nolint:gosec
		r.slots = append(r.slots, sl)
		r.bind(sl, i != sc.Dis)
	}
	r.sample("run")
	for _, seg := range sc.Segs {
		for i := 0; i < seg.N; {
			sl := r.slots[r.rng.Intn(len(r.slots))]
			if !sl.bound {
				sl = nil
				for _, c := range r.slots {
					if c.bound {
						sl = c
					}
				}
				if sl == nil {
					break
				}
			}
			ts := r.seqs(sl, seg.WL)
			for _, t := range ts {
				r.deliver(sl, t)
			}
			i += len(ts)
			if len(ts) == 0 {
				i++
			}
		}
		r.then(seg.Then)
	}
	for _, sl := range r.slots {
		r.unbind(sl)
	}
	r.sample("unb")
	drv.Close()
	out.Emit(vfM{"a": "close"})
	r.sample("rel")
}

// szMain is the body of TestVerifSizeExec in every probed package: executes the scripts addressed to this package.
// Several packages are run by ONE `go test` invocation, so each writes its own trace file: VERIF_OUT + "." + tag.
func szMain(t *testing.T, tag string, drivers map[string]func() szDriver) {
	t.Helper()
	base := os.Getenv("VERIF_OUT")
	if base == "" {
		t.Skip("VERIF_OUT not set")
	}
	t.Setenv("VERIF_OUT", base+"."+tag)
	in := vfLoad(t)
	out := vfOut(t)
	defer out.Close()
	for _, raw := range in {
		var sc szScript
		if err := json.Unmarshal(raw, &sc); err != nil {
			t.Fatalf("VERIF-INFRA bad script: %v", err)
		}
		mk, ok := drivers[sc.C]
		if !ok {
			continue
		}
		szExec(t, &sc, mk(), out)
	}
}

//go:build verif

package intervalpli

import (
	"testing"
	"time"

	"github.com/pion/interceptor"
	"github.com/pion/rtcp"
)

// Container-size probe of the interval PLI generator (C12, spec/Sizes.tla): entries of the streams sync.Map.
type szPli struct {
	ic *GeneratorInterceptor
}

func szPliInfo(ssrc uint32, enabled bool) *interceptor.StreamInfo {
	info := &interceptor.StreamInfo{SSRC: ssrc}
	if enabled {
		info.RTCPFeedback = []interceptor.RTCPFeedback{{Type: "nack", Parameter: "pli"}}
	}

	return info
}

func (d *szPli) Reset(tb testing.TB, _ *szScript) map[string]int {
	f, _ := NewReceiverInterceptor(GeneratorInterval(time.Hour))
	ic, err := f.NewInterceptor("")
	if err != nil {
		tb.Fatalf("VERIF-INFRA intervalpli: %v", err)
	}
	d.ic, _ = ic.(*GeneratorInterceptor)
	d.ic.BindRTCPWriter(interceptor.RTCPWriterFunc(func(p []rtcp.Packet, _ interceptor.Attributes) (int, error) {
		return len(p), nil
	}))

	return map[string]int{}
}

func (d *szPli) Bind(ssrc uint32, enabled bool) {
	d.ic.BindRemoteStream(szPliInfo(ssrc, enabled), interceptor.RTPReaderFunc(
		func(_ []byte, a interceptor.Attributes) (int, interceptor.Attributes, error) { return 0, a, nil }))
}
func (d *szPli) Unbind(ssrc uint32)   { d.ic.UnbindRemoteStream(szPliInfo(ssrc, true)) }
func (d *szPli) Pkt(*szStep) bool     { return true }
func (d *szPli) Feedback(*szFb)       {}
func (d *szPli) Tick(time.Time)       {}
func (d *szPli) Drain(time.Time) bool { return false }
func (d *szPli) Close()               { _ = d.ic.Close() }

func (d *szPli) Sizes() (map[string]int, map[string]int) {
	n := 0
	d.ic.streams.Range(func(_, _ any) bool {
		n++

		return true
	})

	return map[string]int{"pliStreams": n}, nil
}

func TestVerifSizeExec(t *testing.T) {
	szMain(t, "intervalpli", map[string]func() szDriver{"pli": func() szDriver { return &szPli{} }})
}

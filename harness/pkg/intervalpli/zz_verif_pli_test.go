//go:build verif

package intervalpli

import (
	"encoding/json"
	"sync"
	"testing"
	"time"

	"github.com/pion/interceptor"
	"github.com/pion/interceptor/internal/verifhook"
	"github.com/pion/rtcp"
)

// Script executed against the real GeneratorInterceptor; every step is logged as one or more trace events
// (see spec/Trace_IntervalPli.tla).  The harness only drives and records; nothing is predicted here.
//
// level "gate":  interval 100us, the loop is parked at the verif gate at the top of its ticker case whenever the
//
//	harness makes a call; one "run" event = the loop ran from one park point to the next.
//
// level "noint": interval 0 (no ticker); after every call the harness forces a sentinel PLI and waits for it.
type vfPliScript struct {
	Level string `json:"level"`
	Steps []struct {
		A  string `json:"a"`
		S  uint32 `json:"s"`
		Fb []struct {
			T string `json:"t"`
			P string `json:"p"`
		} `json:"fb"`
		Ss []uint32 `json:"ss"`
	} `json:"steps"`
}

const (
	vfPliSentinel = uint32(999)
	vfPliWatchdog = 5 * time.Second
)

type vfPliGate struct {
	target  any
	arrive  chan struct{}
	release chan struct{}
	done    chan struct{}
}

func (g *vfPliGate) hook(name string, obj any) {
	if name != "intervalpli.tick" || obj != g.target {
		return
	}
	select {
	case g.arrive <- struct{}{}:
	case <-g.done:
		return
	}
	select {
	case <-g.release:
	case <-g.done:
	}
}

func TestVerifPliExec(t *testing.T) {
	in := vfLoad(t)
	out := vfOut(t)
	defer out.Close()
	blocked := 0
	gateChecked := false
	for _, raw := range in {
		var sc vfPliScript
		if err := json.Unmarshal(raw, &sc); err != nil {
			t.Fatalf("VERIF-INFRA bad script: %v", err)
		}
		if sc.Level == "gate" && !gateChecked {
			gateChecked = true
			vfPliCheckGate(t)
		}
		out.Emit(vfM{"a": "reset", "periodic": sc.Level == "gate"})
		if !vfRunPli(t, &sc, out) {
			// a call did not return within the watchdog: logged as a "blocked" event (never accepted by the trace
			// specification); two such scripts are evidence enough, the rest of the batch is not executed
			if blocked++; blocked >= 2 {
				break
			}
		}
	}
}

// vfPliCheckGate fails as an infrastructure error when the tree under test has no "intervalpli.tick" gate (the add-only commit
// "verif hooks: tick gate in the intervalpli loop"): without it no tick can be stepped and every script would look blocked.
func vfPliCheckGate(t *testing.T) {
	t.Helper()
	seen := make(chan struct{}, 1)
	verifhook.SetGate(func(name string, _ any) {
		if name == "intervalpli.tick" {
			select {
			case seen <- struct{}{}:
			default:
			}
		}
	})
	defer verifhook.SetGate(nil)
	ic, err := NewGeneratorInterceptor(GeneratorInterval(100 * time.Microsecond))
	if err != nil {
		t.Fatalf("VERIF-INFRA NewGeneratorInterceptor: %v", err)
	}
	ic.BindRTCPWriter(interceptor.RTCPWriterFunc(func(pkts []rtcp.Packet, _ interceptor.Attributes) (int, error) {
		return len(pkts), nil
	}))
	select {
	case <-seen:
	case <-time.After(vfPliWatchdog):
		t.Fatalf("VERIF-INFRA the ticker case of the intervalpli loop never reached verifhook.Gate(\"intervalpli.tick\", r): " +
			"the tree lacks the commit 'verif hooks: tick gate in the intervalpli loop (build tag verif)'")
	}
	_ = ic.Close()
}

//nolint:gocyclo,cyclop,maintidx
func vfRunPli(t *testing.T, sc *vfPliScript, out *vfWriter) bool {
	t.Helper()
	interval := 100 * time.Microsecond
	if sc.Level != "gate" {
		interval = 0
	}
	ic, err := NewGeneratorInterceptor(GeneratorInterval(interval))
	if err != nil {
		t.Fatalf("VERIF-INFRA NewGeneratorInterceptor: %v", err)
	}
	gate := &vfPliGate{target: ic, arrive: make(chan struct{}), release: make(chan struct{}), done: make(chan struct{})}
	gateOpen := false
	openGate := func() {
		if !gateOpen {
			gateOpen = true
			close(gate.done)
		}
	}
	if sc.Level == "gate" {
		verifhook.SetGate(gate.hook)
		defer verifhook.SetGate(nil)
	}
	defer openGate()

	// the transport side: every compound the interceptor writes, as the list of MediaSSRCs of its PLIs
	var mu sync.Mutex
	written := [][]int64{}
	wrote := make(chan struct{}, 1)
	writer := interceptor.RTCPWriterFunc(func(pkts []rtcp.Packet, _ interceptor.Attributes) (int, error) {
		comp := []int64{}
		for _, p := range pkts {
			if pli, ok := p.(*rtcp.PictureLossIndication); ok {
				comp = append(comp, int64(pli.MediaSSRC))
			} else {
				comp = append(comp, -1) // not a PLI
			}
		}
		mu.Lock()
		written = append(written, comp)
		mu.Unlock()
		select {
		case wrote <- struct{}{}:
		default:
		}

		return len(pkts), nil
	})
	take := func() [][]int64 {
		mu.Lock()
		defer mu.Unlock()
		w := written
		written = [][]int64{}

		return w
	}

	running, closed, dead := false, false, false
	// guarded runs f under a watchdog; a call that does not return is logged and the script abandoned
	guarded := func(name string, f func()) bool {
		ret := make(chan struct{})
		go func() {
			f()
			close(ret)
		}()
		select {
		case <-ret:
			return true
		case <-time.After(vfPliWatchdog):
			out.Emit(vfM{"a": "blocked", "in": name})
			dead = true

			return false
		}
	}
	waitArrive := func() bool {
		select {
		case <-gate.arrive:
			return true
		case <-time.After(vfPliWatchdog):
			out.Emit(vfM{"a": "blocked", "in": "loop"})
			dead = true

			return false
		}
	}
	// one pass of the loop from park point to park point (gate level)
	tickRound := func() bool {
		gate.release <- struct{}{}
		if !waitArrive() {
			return false
		}
		out.Emit(vfM{"a": "run", "tick": true, "w": take(), "q": len(ic.immediatePLINeeded)})

		return true
	}
	// settle brings the loop to a point where everything requested so far has been written
	settle := func() bool {
		if !running || closed {
			return true
		}
		if sc.Level == "gate" {
			for n := 0; len(ic.immediatePLINeeded) > 0; n++ {
				if n > 1000 {
					out.Emit(vfM{"a": "blocked", "in": "drain"})
					dead = true

					return false
				}
				if !tickRound() {
					return false
				}
			}

			return true
		}
		// no ticker: a sentinel request is the barrier (FIFO channel, one loop)
		if !guarded("sync", func() { ic.ForcePLI(vfPliSentinel) }) {
			return false
		}
		out.Emit(vfM{"a": "force", "ss": []uint32{vfPliSentinel}})
		deadline := time.After(vfPliWatchdog)
		for {
			mu.Lock()
			seen := false
			for _, c := range written {
				if len(c) == 1 && c[0] == int64(vfPliSentinel) {
					seen = true
				}
			}
			mu.Unlock()
			if seen {
				break
			}
			select {
			case <-wrote:
			case <-deadline:
				out.Emit(vfM{"a": "blocked", "in": "sync-write"})
				dead = true

				return false
			}
		}
		out.Emit(vfM{"a": "run", "tick": false, "w": take(), "q": len(ic.immediatePLINeeded)})

		return true
	}

	for _, st := range sc.Steps {
		if dead {
			break
		}
		switch st.A {
		case "bindw":
			ic.BindRTCPWriter(writer)
			out.Emit(vfM{"a": "bindw"})
			if closed {
				break
			}
			running = true
			if sc.Level == "gate" {
				// the fresh loop may take a pending request before it meets its first tick
				if !waitArrive() {
					break
				}
				out.Emit(vfM{"a": "run", "tick": false, "w": take(), "q": len(ic.immediatePLINeeded)})
			}
			settle()
		case "bind":
			info := &interceptor.StreamInfo{SSRC: st.S}
			fb := []vfM{}
			for _, f := range st.Fb {
				info.RTCPFeedback = append(info.RTCPFeedback, interceptor.RTCPFeedback{Type: f.T, Parameter: f.P})
				fb = append(fb, vfM{"t": f.T, "p": f.P})
			}
			if !guarded("bind", func() {
				ic.BindRemoteStream(info, interceptor.RTPReaderFunc(
					func(b []byte, a interceptor.Attributes) (int, interceptor.Attributes, error) { return 0, a, nil }))
			}) {
				break
			}
			out.Emit(vfM{"a": "bind", "s": st.S, "fb": fb})
			settle()
		case "unbind":
			ic.UnbindRemoteStream(&interceptor.StreamInfo{SSRC: st.S})
			out.Emit(vfM{"a": "unbind", "s": st.S})
			settle()
		case "unbindl":
			ic.UnbindLocalStream(&interceptor.StreamInfo{SSRC: st.S})
			out.Emit(vfM{"a": "unbindl", "s": st.S})
			settle()
		case "force":
			ss := append([]uint32{}, st.Ss...)
			if !guarded("force", func() { ic.ForcePLI(ss...) }) {
				break
			}
			out.Emit(vfM{"a": "force", "ss": append([]uint32{}, st.Ss...)})
			settle()
		case "tick":
			if sc.Level != "gate" || !running || closed {
				t.Fatalf("VERIF-INFRA tick step without a parked loop")
			}
			tickRound()
		case "close":
			if running && !closed && sc.Level == "gate" {
				// Close waits for the loop, which is parked: let Close mark the interceptor closed, then open the gate
				ret := make(chan struct{})
				go func() {
					_ = ic.Close()
					close(ret)
				}()
				for i := 0; !ic.isClosed(); i++ {
					if i > 2000000 {
						t.Fatalf("VERIF-INFRA Close never closed the channel")
					}
					time.Sleep(5 * time.Microsecond)
				}
				openGate()
				select {
				case <-ret:
				case <-time.After(vfPliWatchdog):
					out.Emit(vfM{"a": "blocked", "in": "close"})
					dead = true
				}
			} else if !guarded("close", func() { _ = ic.Close() }) {
				break
			}
			if dead {
				break
			}
			closed = true
			out.Emit(vfM{"a": "close", "w": take()})
		default:
			t.Fatalf("VERIF-INFRA unknown step %q", st.A)
		}
	}
	if dead {
		openGate()

		return false
	}
	if !closed {
		t.Fatalf("VERIF-INFRA script does not end with close")
	}
	// Close has returned: the loop goroutine is gone, whatever is recorded now was written after Close
	out.Emit(vfM{"a": "end", "w": take()})

	return true
}

//go:build verif

package rfc8888

import (
	"encoding/json"
	"sync"
	"sync/atomic"
	"testing"
	"time"

	"github.com/pion/interceptor"
	"github.com/pion/rtcp"
	"github.com/pion/rtp"
)

// Script executed against the real code; every step is logged as one trace event (see spec/Trace_Rfc8888.tla).
// Clock values are microsecond offsets from time.Unix(Base, 0).
type vfCcfbScript struct {
	Level string `json:"level"` // "rec": exported Recorder, "icpt": SenderInterceptor with SenderTicker/SenderNow
	// Shared (icpt): every packet is read through the stream bound first, whatever SSRC its header carries (the history is
	// kept per SSRC of the PACKETS)
	Shared bool `json:"shared"`
	Base  int64  `json:"base"`  // unix seconds of clock offset 0
	Ntp16 int    `json:"ntp16"` // NTP seconds of the base modulo 2^16 (echoed into the trace for the timestamp check)
	Max   int64  `json:"max"`   // icpt level: maximum report size of the interceptor (0: keep the default)
	Steps []struct {
		A   string `json:"a"` // "add" | "build"
		S   uint32 `json:"s"`
		N   uint16 `json:"n"`
		T   int64  `json:"t"`
		Ecn uint8  `json:"ecn"`
		Now int64  `json:"now"`
		Max int    `json:"max"`
		// WFail (icpt level, build): the RTCP writer refuses this report (after it has seen it)
		WFail bool `json:"wfail"`
	} `json:"steps"`
}

func vfAt(base int64, us int64) time.Time {
	return time.Unix(base, 0).Add(time.Duration(us) * time.Microsecond)
}

// vfReportEvent records what a report says, field by field; nothing is recomputed here.
func vfReportEvent(now int64, maxSize int, pkt rtcp.Packet) vfM {
	ev := vfM{"a": "build", "now": now, "max": maxSize, "len": -2, "rts_s": 0, "rts_f": 0, "blocks": []vfM{}}
	rep, ok := pkt.(*rtcp.CCFeedbackReport)
	if !ok || rep == nil {
		return ev
	}
	raw, err := rep.Marshal()
	if err != nil {
		ev["len"] = -1
	} else {
		ev["len"] = len(raw)
	}
	ev["rts_s"] = rep.ReportTimestamp >> 16
	ev["rts_f"] = rep.ReportTimestamp & 0xFFFF
	blocks := make([]vfM, 0, len(rep.ReportBlocks))
	for _, b := range rep.ReportBlocks {
		m := make([][3]int, len(b.MetricBlocks))
		for i, e := range b.MetricBlocks {
			if e.Received {
				m[i][0] = 1
			}
			m[i][1] = int(e.ECN)
			m[i][2] = int(e.ArrivalTimeOffset)
		}
		blocks = append(blocks, vfM{"s": b.MediaSSRC, "begin": b.BeginSequence, "m": m})
	}
	ev["blocks"] = blocks

	return ev
}

func TestVerifRfc8888Exec(t *testing.T) {
	in := vfLoad(t)
	out := vfOut(t)
	defer out.Close()
	for _, raw := range in {
		var sc vfCcfbScript
		if err := json.Unmarshal(raw, &sc); err != nil {
			t.Fatalf("VERIF-INFRA bad script: %v", err)
		}
		out.Emit(vfM{"a": "reset", "level": sc.Level, "ntp16": sc.Ntp16})
		if sc.Level == "rec" {
			vfRunRecorder(t, &sc, out)
		} else {
			vfRunSender(t, &sc, out)
		}
	}
}

func vfRunRecorder(t *testing.T, sc *vfCcfbScript, out *vfWriter) {
	t.Helper()
	kept := out.NewKept()
	defer kept.Flush()
	rec := NewRecorder()
	for _, st := range sc.Steps {
		switch st.A {
		case "add":
			rec.AddPacket(vfAt(sc.Base, st.T), st.S, st.N, st.Ecn)
			out.Emit(vfM{"a": "add", "s": st.S, "n": st.N, "t": st.T, "ecn": st.Ecn})
		case "build":
			rep := rec.BuildReport(vfAt(sc.Base, st.Now), st.Max)
			out.Emit(vfReportEvent(st.Now, st.Max, rep))
			now, maxSize := st.Now, st.Max
			kept.Keep(func() any { return vfReportEvent(now, maxSize, rep) })
		default:
			t.Fatalf("VERIF-INFRA unknown step %q", st.A)
		}
	}
}

type vfClock struct {
	mu  sync.Mutex
	now time.Time
}

func (c *vfClock) Set(n time.Time) {
	c.mu.Lock()
	defer c.mu.Unlock()
	c.now = n
}

func (c *vfClock) Now() time.Time {
	c.mu.Lock()
	defer c.mu.Unlock()

	return c.now
}

type vfTicker struct{ c chan time.Time }

func (t *vfTicker) Ch() <-chan time.Time { return t.c }
func (t *vfTicker) Stop()                {}

// vfRunSender drives the interceptor end to end: packets enter through the readers returned by BindRemoteStream
// (arrival time = the injected clock), reports leave through the bound RTCPWriter when the injected ticker fires.
// Read returns only after the loop took the packet and a tick is only accepted once the loop is back in its
// select, so the order add/build of the script is the order seen by the Recorder.
func vfRunSender(t *testing.T, sc *vfCcfbScript, out *vfWriter) { //nolint:cyclop
	t.Helper()
	kept := out.NewKept()
	defer kept.Flush()
	clock := &vfClock{now: vfAt(sc.Base, 0)}
	tick := &vfTicker{c: make(chan time.Time)}
	nTickers := 0
	opts := []Option{SenderTicker(func(time.Duration) ticker {
		if nTickers++; nTickers > 1 { // (the other connection of the same factory gets a ticker of its own, which never fires)
			return &vfTicker{c: make(chan time.Time)}
		}

		return tick
	}), SenderNow(clock.Now)}
	if sc.Max > 0 {
		// there is no exported option for the maximum report size
		opts = append(opts, func(s *SenderInterceptor) error {
			s.maxReportSize = sc.Max

			return nil
		})
	}
	f, err := NewSenderInterceptor(opts...)
	if err != nil {
		t.Fatalf("VERIF-INFRA factory: %v", err)
	}
	ici, err := f.NewInterceptor("")
	if err != nil {
		t.Fatalf("VERIF-INFRA NewInterceptor: %v", err)
	}
	ic, ok := ici.(*SenderInterceptor)
	if !ok {
		t.Fatalf("VERIF-INFRA unexpected interceptor type %T", ici)
	}
	written := make(chan []rtcp.Packet, 16)
	var failNow atomic.Bool
	ic.BindRTCPWriter(interceptor.RTCPWriterFunc(func(pkts []rtcp.Packet, _ interceptor.Attributes) (int, error) {
		written <- pkts
		if failNow.Load() {
			return 0, errVfShort
		}

		return len(pkts), nil
	}))

	// another connection of the same factory receives look-alike packets (same SSRCs, other numbers): nothing of it may
	// show in the reports of the first one
	twin, err := f.NewInterceptor("twin")
	if err != nil {
		t.Fatalf("VERIF-INFRA NewInterceptor (twin): %v", err)
	}
	twin.BindRTCPWriter(interceptor.RTCPWriterFunc(func(p []rtcp.Packet, _ interceptor.Attributes) (int, error) { return len(p), nil }))
	var twinNext []byte
	twinReader := twin.BindRemoteStream(&interceptor.StreamInfo{SSRC: 1}, interceptor.RTPReaderFunc(
		func(buf []byte, a interceptor.Attributes) (int, interceptor.Attributes, error) { return copy(buf, twinNext), a, nil }))
	defer func() { _ = twin.Close() }()

	type bound struct {
		reader interceptor.RTPReader
		next   []byte
	}
	streams := map[uint32]*bound{}
	started := false
	first := uint32(0)
	nAdd := 0
	for _, st := range sc.Steps {
		switch st.A {
		case "add":
			via := st.S
			if sc.Shared && first != 0 { // one bound stream carries every SSRC of the script (media + RTX / FEC, simulcast)
				via = first
			}
			if first == 0 {
				first = st.S
			}
			b := streams[via]
			if b == nil {
				b = &bound{}
				b.reader = ic.BindRemoteStream(&interceptor.StreamInfo{SSRC: via}, interceptor.RTPReaderFunc(
					func(buf []byte, a interceptor.Attributes) (int, interceptor.Attributes, error) {
						return copy(buf, b.next), a, nil
					}))
				streams[via] = b
			}
			pkt := rtp.Packet{Header: rtp.Header{Version: 2, SSRC: st.S, SequenceNumber: st.N}, Payload: []byte{1, 2, 3}}
			raw, err := pkt.Marshal()
			if err != nil {
				t.Fatalf("VERIF-INFRA marshal rtp: %v", err)
			}
			b.next = raw
			clock.Set(vfAt(sc.Base, st.T))
			if nAdd++; nAdd > 2 && st.N%3 == 0 { // (the other connection; not before the first one's loop has made its ticker)
				tp := rtp.Packet{Header: rtp.Header{Version: 2, SSRC: st.S, SequenceNumber: st.N + 500}, Payload: []byte{7}}
				twinNext, _ = tp.Marshal()
				_, _, _ = twinReader.Read(make([]byte, 1500), interceptor.Attributes{})
			}
			done := make(chan error, 1)
			go func() {
				n, _, err := b.reader.Read(make([]byte, 1500), interceptor.Attributes{})
				if err == nil && n != len(raw) {
					err = errVfShort
				}
				done <- err
			}()
			select {
			case err := <-done:
				if err != nil {
					t.Fatalf("VERIF-INFRA read: %v", err)
				}
			case <-time.After(20 * time.Second):
				t.Fatalf("VERIF-INFRA the interceptor loop did not take a packet within 20 s")
			}
			started = true
			out.Emit(vfM{"a": "add", "s": st.S, "n": st.N, "t": st.T, "ecn": 0}) // the interceptor passes ECN 0
		case "build":
			if !started {
				t.Fatalf("VERIF-INFRA script ticks before the first packet (the ticker does not exist yet)")
			}
			clock.Set(vfAt(sc.Base, st.Now))
			failNow.Store(st.WFail)
			select {
			// (the value a ticker delivers is the ticker's business - wall-clock tick time as a rule; the report time and
			// the arrival offsets are about the CONFIGURED clock, SenderNow, so the tick carries an unrelated instant)
			case tick.c <- vfAt(sc.Base, st.Now).Add(-3*time.Hour - 77*time.Millisecond):
			case <-time.After(20 * time.Second):
				t.Fatalf("VERIF-INFRA the interceptor loop did not accept a tick within 20 s")
			}
			select {
			case pkts := <-written:
				failNow.Store(false)
				if len(pkts) != 1 {
					out.Emit(vfReportEvent(st.Now, int(ic.maxReportSize), nil))
				} else {
					out.Emit(vfReportEvent(st.Now, int(ic.maxReportSize), pkts[0]))
					now, maxSize, pkt := st.Now, int(ic.maxReportSize), pkts[0]
					kept.Keep(func() any { return vfReportEvent(now, maxSize, pkt) })
				}
			case <-time.After(20 * time.Second):
				t.Fatalf("VERIF-INFRA no report was written within 20 s of a tick")
			}
		default:
			t.Fatalf("VERIF-INFRA unknown step %q", st.A)
		}
	}
	if err := ic.Close(); err != nil {
		t.Fatalf("VERIF-INFRA close: %v", err)
	}
}

type vfErr string

func (e vfErr) Error() string { return string(e) }

const errVfShort = vfErr("short read")

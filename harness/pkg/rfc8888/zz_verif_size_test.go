//go:build verif

package rfc8888

import (
	"testing"
	"time"

	"github.com/pion/interceptor"
	"github.com/pion/rtcp"
	"github.com/pion/rtp"
)

// Container-size probe of the RFC 8888 recorder (C12, spec/Sizes.tla): streams map (keyed by the SSRC found in the RTP
// header) and the per-stream arrival logs, driven with a controlled clock; Tick = BuildReport.
type szRec struct {
	rec     *Recorder
	maxSize int
	klast   int // number of stream logs when the latest report was built (the per-stream budget of that report)
}

func (d *szRec) Reset(_ testing.TB, sc *szScript) map[string]int {
	d.rec = NewRecorder()
	d.klast = 0
	d.maxSize = sc.Cfg["maxsize"]
	if d.maxSize == 0 {
		d.maxSize = 1200 // default maxReportSize of the interceptor
	}

	return map[string]int{"maxsize": d.maxSize}
}
func (d *szRec) Bind(uint32, bool) {}
func (d *szRec) Unbind(uint32)     {}

func (d *szRec) Pkt(st *szStep) bool {
	d.rec.AddPacket(st.Now, st.HS, uint16(st.T), 0) //nolint:gosec

	return true
}
func (d *szRec) Feedback(*szFb)       {}
func (d *szRec) Tick(now time.Time) {
	d.klast = len(d.rec.streams)
	d.rec.BuildReport(now, d.maxSize)
}
func (d *szRec) Drain(time.Time) bool { return false }
func (d *szRec) Close()               {}

func (d *szRec) Sizes() (map[string]int, map[string]int) {
	mx, sum := 0, 0
	for _, l := range d.rec.streams {
		mx = max(mx, len(l.log))
		sum += len(l.log)
	}

	return map[string]int{"streams8888": len(d.rec.streams), "logMax": mx, "logSum": sum}, map[string]int{"klast": d.klast}
}

// ---- the same containers behind the interceptor (BindRemoteStream, injected ticker and clock).  The recorder belongs to
// the loop goroutine, so sizes are read while that goroutine is parked in the probe's RTCP writer, i.e. during a report:
// every sample is preceded by one report of the real loop (logged as a tick).
type szTicker struct{ ch chan time.Time }

func (t *szTicker) Ch() <-chan time.Time { return t.ch }
func (t *szTicker) Stop()                {}

type szIcpt struct {
	tb      testing.TB
	ic      *SenderInterceptor
	tk      *szTicker
	now     time.Time
	readers map[uint32]interceptor.RTPReader
	next    []byte
	n       int
	closed  bool
	inCb    chan struct{}
	goOn    chan struct{}
	z       map[string]int
	klast   int
}

func (d *szIcpt) read() map[string]int {
	mx, sum := 0, 0
	for _, l := range d.ic.recorder.streams {
		mx = max(mx, len(l.log))
		sum += len(l.log)
	}

	return map[string]int{"streams8888": len(d.ic.recorder.streams), "logMax": mx, "logSum": sum}
}

func (d *szIcpt) Reset(tb testing.TB, sc *szScript) map[string]int {
	d.tb = tb
	d.tk = &szTicker{ch: make(chan time.Time)}
	d.inCb, d.goOn = make(chan struct{}), make(chan struct{})
	d.n, d.closed, d.klast = 0, false, 0
	f, _ := NewSenderInterceptor(SenderTicker(func(time.Duration) ticker { return d.tk }),
		SenderNow(func() time.Time { return d.now }), func(i *SenderInterceptor) error {
			if sc.Cfg["maxsize"] > 0 {
				i.maxReportSize = int64(sc.Cfg["maxsize"])
			}

			return nil
		})
	ic, err := f.NewInterceptor("")
	if err != nil {
		tb.Fatalf("VERIF-INFRA rfc8888: %v", err)
	}
	d.ic, _ = ic.(*SenderInterceptor)
	d.readers = map[uint32]interceptor.RTPReader{}
	d.ic.BindRTCPWriter(interceptor.RTCPWriterFunc(func(p []rtcp.Packet, _ interceptor.Attributes) (int, error) {
		d.inCb <- struct{}{}
		<-d.goOn

		return len(p), nil
	}))

	return map[string]int{"maxsize": int(d.ic.maxReportSize)}
}

func (d *szIcpt) Bind(ssrc uint32, _ bool) {
	d.readers[ssrc] = d.ic.BindRemoteStream(&interceptor.StreamInfo{SSRC: ssrc}, interceptor.RTPReaderFunc(
		func(b []byte, a interceptor.Attributes) (int, interceptor.Attributes, error) { return copy(b, d.next), a, nil }))
}

func (d *szIcpt) Unbind(ssrc uint32) {
	d.ic.UnbindRemoteStream(&interceptor.StreamInfo{SSRC: ssrc})
	delete(d.readers, ssrc)
}

func (d *szIcpt) Pkt(st *szStep) bool {
	d.now = st.Now
	h := rtp.Header{Version: 2, SSRC: st.HS, SequenceNumber: uint16(st.T)} //nolint:gosec
	d.next, _ = (&rtp.Packet{Header: h, Payload: []byte{1}}).Marshal()
	_, _, err := d.readers[st.SSRC].Read(make([]byte, 1500), nil)
	d.n++

	return err == nil
}
func (d *szIcpt) Feedback(*szFb)       {}
func (d *szIcpt) Tick(time.Time)       {}
func (d *szIcpt) Drain(time.Time) bool { return false }

// PreSample makes the real loop build one report and reads the sizes while the loop is inside the RTCP writer.
func (d *szIcpt) PreSample(now time.Time) bool {
	if d.n == 0 || d.closed { // the loop has not created its ticker yet / has exited: nobody else touches the recorder
		d.z = d.read()

		return false
	}
	d.now = now
	select {
	case d.tk.ch <- now:
	case <-time.After(20 * time.Second):
		d.tb.Fatalf("VERIF-INFRA rfc8888 loop does not take ticks")
	}
	select {
	case <-d.inCb:
	case <-time.After(20 * time.Second):
		d.tb.Fatalf("VERIF-INFRA rfc8888 loop did not write a report")
	}
	d.z = d.read()
	d.klast = d.z["streams8888"]
	d.goOn <- struct{}{}

	return true
}

func (d *szIcpt) Close() {
	_ = d.ic.Close()
	d.closed = true
}
func (d *szIcpt) Sizes() (map[string]int, map[string]int) { return d.z, map[string]int{"klast": d.klast} }

func TestVerifSizeExec(t *testing.T) {
	szMain(t, "rfc8888", map[string]func() szDriver{
		"rfc8888":  func() szDriver { return &szRec{} },
		"rfc8888i": func() szDriver { return &szIcpt{} },
	})
}

//go:build verif

package nack

import (
	"encoding/json"
	"sync"
	"testing"
	"time"

	"github.com/pion/interceptor"
	"github.com/pion/interceptor/internal/verifhook"
	"github.com/pion/rtcp"
	"github.com/pion/rtp"
)

// Schedules of the NackResp protocol (spec/NackResp.tla) realised on the real ResponderInterceptor:
// the resend goroutines are stepped through the verif gates (start / get / done) and through the
// harness's downstream writer (emit).
type vfRespScript struct {
	Size uint16 `json:"size"`
	// DrainFail: when the jobs are run to completion at the end of the script, the stream's writer refuses the first
	// retransmission of every job (the remaining numbers of the NACK must be answered all the same)
	DrainFail bool `json:"drainfail"`
	Steps     []struct {
		A       string   `json:"a"`
		S       uint32   `json:"s"`
		W       uint16   `json:"w"`
		J       int      `json:"j"`
		ID      int      `json:"id"`
		Len     int      `json:"len"`
		Shape   int      `json:"shape"`
		SSRC    uint32   `json:"ssrc"`
		Nack    bool     `json:"nack"`
		RtxSSRC uint32   `json:"rtxssrc"`
		RtxPT   uint8    `json:"rtxpt"`
		Nums    []uint16 `json:"nums"`
		// Fail: jobemit - the stream's writer refuses this retransmission (after it has seen it); nack - packed pairs
		Fail bool `json:"fail"`
	} `json:"steps"`
}

var errVfRespInjected error = vfInjErr{"injected RTP write failure"} //nolint:gochecknoglobals

type vfJob struct {
	failNext   bool
	failedOnce bool
	id         int
	nums       []uint16
	next       int
	state      string // "start", "get", "emit", "done"
	parked     chan string
	release    chan struct{}
	emitted    vfM
}

type vfResp struct {
	t       *testing.T
	mu      sync.Mutex
	byObj   map[any]*vfJob
	arrive  chan *vfJob // a new goroutine reached the start gate
	running *vfJob      // the job currently allowed to run
	stray   int
	curHdr  *rtp.Header
	fwdOK   bool
	fwdRec  vfM
	done    chan struct{}
	// an application write that is held inside the downstream writer ("wpark" ... "wrelease")
	parkHdr    *rtp.Header
	parkRec    vfM
	appParked  chan struct{}
	appRelease chan struct{}
	closing    chan struct{} // Close has cleared the buffers and is about to wait for the resend goroutines
}

func (r *vfResp) hook(name string, obj any) {
	switch name {
	case "nack.responder.start":
		j := &vfJob{state: "start", parked: make(chan string, 4), release: make(chan struct{})}
		r.mu.Lock()
		r.byObj[obj] = j
		r.mu.Unlock()
		select {
		case r.arrive <- j:
		case <-r.done:
			return
		}
		select {
		case <-j.release:
		case <-r.done:
		}
	case "nack.responder.get":
		r.mu.Lock()
		j := r.byObj[obj]
		r.mu.Unlock()
		if j == nil {
			return
		}
		j.parked <- "get"
		select {
		case <-j.release:
		case <-r.done:
		}
	case "nack.responder.done":
		r.mu.Lock()
		j := r.byObj[obj]
		r.mu.Unlock()
		if j != nil {
			j.parked <- "done"
		}
	case "nack.responder.closing":
		select {
		case r.closing <- struct{}{}:
		default:
		}
	}
}

// downstream writer of every bound stream
func (r *vfResp) write(h *rtp.Header, pl []byte, _ interceptor.Attributes) (int, error) {
	r.mu.Lock()
	if h == r.parkHdr && r.parkHdr != nil { // the application's packet has reached the transport: hold its Write call here
		r.parkRec = vfPkt(h, pl)
		r.mu.Unlock()
		r.appParked <- struct{}{}
		select {
		case <-r.appRelease:
		case <-r.done:
		}

		return len(pl), nil
	}
	if h == r.curHdr { // the application's own packet being forwarded inside its Write call
		r.fwdOK = true
		r.fwdRec = vfPkt(h, pl)
		r.mu.Unlock()

		return len(pl), nil
	}
	j := r.running
	if j == nil {
		r.stray++
		r.mu.Unlock()

		return len(pl), nil
	}
	r.mu.Unlock()
	j.parked <- "emit"
	select {
	case <-j.release:
	case <-r.done:
	}
	// what the transport would read at the moment it sends the retransmission
	j.emitted = vfPkt(h, pl)
	// "the writers further down the chain may modify the header they are given" (a transport that re-stamps extensions and
	// contributing sources in place): whatever it does to THIS retransmission's header must not reach the stored packet
	for i := range h.CSRC {
		h.CSRC[i] ^= 0x5A5A5A5A
	}
	for _, id := range h.GetExtensionIDs() {
		if cur := h.GetExtension(id); len(cur) > 0 {
			mod := make([]byte, len(cur))
			for k := range cur {
				mod[k] = cur[k] ^ 0xEE
			}
			_ = h.SetExtension(id, mod)
		}
	}
	if j.failNext {
		j.failNext = false

		return 0, errVfRespInjected
	}

	return len(pl), nil
}

func (r *vfResp) step(j *vfJob) string {
	r.mu.Lock()
	r.running = j
	r.mu.Unlock()
	j.release <- struct{}{}
	var st string
	select {
	case st = <-j.parked:
	case <-time.After(10 * time.Second):
		r.t.Fatalf("VERIF-FAIL resend goroutine of job %d did not reach its next step within 10s", j.id)
	}
	r.mu.Lock()
	r.running = nil
	r.mu.Unlock()
	j.state = st

	return st
}

func TestVerifNackRespExec(t *testing.T) {
	in := vfLoad(t)
	out := vfOut(t)
	defer out.Close()
	for _, raw := range in {
		var sc vfRespScript
		if err := json.Unmarshal(raw, &sc); err != nil {
			t.Fatalf("VERIF-INFRA bad script: %v", err)
		}
		out.Emit(vfM{"a": "reset", "size": sc.Size, "rtxssrc": 0, "rtxpt": 0})
		vfRunResp(t, &sc, out)
	}
}

func vfRunResp(t *testing.T, sc *vfRespScript, out *vfWriter) { //nolint:gocognit,cyclop,maintidx
	t.Helper()
	f, err := NewResponderInterceptor(ResponderSize(sc.Size))
	if err != nil {
		t.Fatalf("VERIF-INFRA factory: %v", err)
	}
	ic, err := f.NewInterceptor("")
	if err != nil {
		t.Fatalf("VERIF-INFRA NewInterceptor(size %d): %v", sc.Size, err)
	}
	r := &vfResp{t: t, byObj: map[any]*vfJob{}, arrive: make(chan *vfJob), done: make(chan struct{}),
		appParked: make(chan struct{}, 1), appRelease: make(chan struct{}), closing: make(chan struct{}, 4)}
	var closeDone chan error // non-nil while a Close call has not returned yet
	closed := false
	pollClose := func(wait bool) { // Close returns only when every resend goroutine has finished (checked by the spec)
		if closeDone == nil {
			return
		}
		var tm <-chan time.Time
		if wait {
			tm = time.After(10 * time.Second)
		} else {
			c := make(chan time.Time)
			close(c)
			tm = c
		}
		select {
		case cerr := <-closeDone:
			closeDone = nil
			out.Emit(vfM{"a": "closeret", "ok": cerr == nil})
		case <-tm:
			if wait {
				t.Fatalf("VERIF-FAIL Close did not return within 10s although every resend goroutine had finished")
			}
		}
	}
	var parkDone chan error // non-nil while an application write is parked
	var parkPl []byte
	var parkH *rtp.Header
	releaseParked := func() {
		if parkDone == nil {
			return
		}
		r.appRelease <- struct{}{}
		var werr error
		select {
		case werr = <-parkDone:
		case <-time.After(10 * time.Second):
			t.Fatalf("VERIF-FAIL a Write released from the transport did not return within 10s")
		}
		r.mu.Lock()
		r.parkHdr = nil
		r.mu.Unlock()
		for i := range parkPl {
			parkPl[i] = 0xEE
		}
		parkH.SequenceNumber, parkH.Timestamp, parkH.SSRC = 0xDEAD, 0x7EADBEEF, 0x6EEEEEEE
		parkDone = nil
		out.Emit(vfM{"a": "wrelease", "ok": werr == nil})
	}
	verifhook.SetGate(r.hook)
	defer verifhook.SetGate(nil)

	var nextRTCP []byte
	nRTCPReads := 0
	rtcpReader := ic.BindRTCPReader(interceptor.RTCPReaderFunc(
		func(b []byte, a interceptor.Attributes) (int, interceptor.Attributes, error) {
			return copy(b, nextRTCP), a, nil
		}))
	type bound struct {
		info   *interceptor.StreamInfo
		writer interceptor.RTPWriter
	}
	streams := map[uint32]*bound{}
	stale := map[uint32]*bound{} // the writer of a stream that has been unbound (a Write that lost the race with the Unbind)
	jobs := map[int]*vfJob{}
	order := []int{}

	jobStep := func(j *vfJob, want string, fail bool) {
		switch {
		case want == "jobstart" && j.state == "start":
			st := r.step(j)
			out.Emit(vfM{"a": "jobstart", "j": j.id, "found": st != "done"})
		case want == "jobget" && j.state == "get":
			if j.next >= len(j.nums) {
				t.Fatalf("VERIF-FAIL job %d asks for more numbers than its NACK carried", j.id)
			}
			n := j.nums[j.next]
			j.next++
			st := r.step(j)
			out.Emit(vfM{"a": "jobget", "j": j.id, "n": n, "found": st == "emit"})
		case want == "jobemit" && j.state == "emit":
			j.failNext = fail // (the remaining numbers of the NACK must be answered all the same)
			r.step(j)
			out.Emit(vfM{"a": "jobemit", "j": j.id, "pkt": j.emitted})
		}
	}

	for _, st := range sc.Steps {
		switch st.A {
		case "bind":
			if streams[st.S] != nil {
				continue
			}
			b := &bound{info: &interceptor.StreamInfo{
				SSRC: st.S, SSRCRetransmission: st.RtxSSRC, PayloadTypeRetransmission: st.RtxPT,
			}}
			if st.Nack {
				b.info.RTCPFeedback = []interceptor.RTCPFeedback{{Type: "nack"}}
			}
			b.writer = ic.BindLocalStream(b.info, interceptor.RTPWriterFunc(r.write))
			streams[st.S] = b
			delete(stale, st.S)
			out.Emit(vfM{"a": "bind", "s": st.S, "nack": st.Nack, "rtxssrc": st.RtxSSRC, "rtxpt": st.RtxPT})
		case "unbind":
			b := streams[st.S]
			if b == nil {
				continue
			}
			releaseParked()
			cp := *b.info // the stream is named by an equal description, not by the object Bind was given
			ic.UnbindLocalStream(&cp)
			delete(streams, st.S)
			stale[st.S] = b
			out.Emit(vfM{"a": "unbind", "s": st.S})
		case "close":
			if closeDone != nil {
				continue
			}
			releaseParked()
			// Close clears the buffers (the "close" event) and then waits for the resend goroutines, which this
			// harness holds at their gates: the call returns later ("closeret"), after they have been stepped to the end
			done := make(chan error, 1)
			go func() { done <- ic.Close() }()
			select {
			case <-r.closing:
			case <-time.After(10 * time.Second):
				t.Fatalf("VERIF-FAIL Close did not reach its wait for the resend goroutines within 10s")
			}
			closeDone, closed = done, true
			streams = map[uint32]*bound{}
			out.Emit(vfM{"a": "close"})
			time.Sleep(200 * time.Microsecond)
			pollClose(false)
		case "wrelease":
			releaseParked()
		case "wpark":
			// the same as "write", but the call is held inside the transport's writer (the packet is on the wire, the
			// Write has not returned) until "wrelease": NACKs answered in between must already find the packet
			b := streams[st.S]
			if b == nil || parkDone != nil {
				continue
			}
			h, pl := vfMakePacket(st.S, st.W, st.ID, st.Len, st.Shape)
			rec := vfPkt(h, pl)
			r.mu.Lock()
			r.parkHdr, r.parkRec = h, nil
			r.mu.Unlock()
			done := make(chan error, 1)
			go func() {
				_, werr := b.writer.Write(h, pl, interceptor.Attributes{})
				done <- werr
			}()
			select {
			case <-r.appParked:
				parkDone, parkPl, parkH = done, pl, h
				r.mu.Lock()
				fwd := jsonEq(r.parkRec, rec)
				r.mu.Unlock()
				out.Emit(vfM{"a": "write", "s": st.S, "w": st.W, "id": st.ID, "ok": true, "fwd": fwd, "pkt": rec})
			case werr := <-done: // refused before it reached the transport
				r.mu.Lock()
				r.parkHdr = nil
				r.mu.Unlock()
				out.Emit(vfM{"a": "write", "s": st.S, "w": st.W, "id": st.ID, "ok": werr == nil, "fwd": false, "pkt": rec})
			case <-time.After(10 * time.Second):
				t.Fatalf("VERIF-FAIL a Write neither reached the transport nor returned within 10s")
			}
		case "write", "wstale":
			b := streams[st.S]
			if st.A == "wstale" { // through the writer the unbound stream had: passes through, is not kept for retransmission
				b = stale[st.S]
				if streams[st.S] != nil {
					b = nil
				}
			}
			if b == nil {
				continue
			}
			ssrc := st.S
			if st.SSRC != 0 {
				ssrc = st.SSRC
			}
			h, pl := vfMakePacket(ssrc, st.W, st.ID, st.Len, st.Shape)
			rec := vfPkt(h, pl)
			r.mu.Lock()
			r.curHdr, r.fwdOK, r.fwdRec = h, false, nil
			r.mu.Unlock()
			_, werr := b.writer.Write(h, pl, interceptor.Attributes{})
			r.mu.Lock()
			fwd := r.fwdOK && jsonEq(r.fwdRec, rec)
			r.curHdr = nil
			r.mu.Unlock()
			// the caller may reuse its buffers as soon as the call has returned (C13)
			for i := range pl {
				pl[i] = 0xEE
			}
			h.SequenceNumber, h.Timestamp, h.SSRC, h.Marker = 0xDEAD, 0x7EADBEEF, 0x6EEEEEEE, !h.Marker
			for i := range h.CSRC {
				h.CSRC[i] = 0x6EEEEEEE
			}
			out.Emit(vfM{"a": "write", "s": st.S, "w": st.W, "id": st.ID, "ok": werr == nil, "fwd": fwd, "pkt": rec})
		case "nack":
			if jobs[st.J] != nil || len(st.Nums) == 0 {
				continue
			}
			pairs := make([]rtcp.NackPair, 0, len(st.Nums))
			for _, n := range st.Nums {
				pairs = append(pairs, rtcp.NackPair{PacketID: n})
			}
			if st.Fail { // (nack step) packed form: numbers within 16 of each other share one pair (id + bit mask)
				pairs = rtcp.NackPairsFromSequenceNumbers(st.Nums)
				st.Nums = nil
				for i := range pairs {
					st.Nums = append(st.Nums, pairs[i].PacketList()...) // the order in which the pairs name the numbers
				}
			}
			raw, merr := (&rtcp.TransportLayerNack{SenderSSRC: 99, MediaSSRC: st.S, Nacks: pairs}).Marshal()
			if merr != nil {
				t.Fatalf("VERIF-INFRA marshal nack: %v", merr)
			}
			nextRTCP = raw
			buf := make([]byte, 1500)
			var attrs interceptor.Attributes // every other read: no attributes at all (the wrapped reader hands back what it got)
			if nRTCPReads++; nRTCPReads%2 == 1 {
				attrs = interceptor.Attributes{}
			}
			if n, _, rerr := rtcpReader.Read(buf, attrs); rerr != nil || n != len(raw) {
				t.Fatalf("VERIF-FAIL RTCP read through the responder: n=%d err=%v", n, rerr)
			}
			started := true
			wait := 10 * time.Second
			if closed { // a closed responder starts no resend goroutine (nothing would wait for it)
				wait = 30 * time.Millisecond
			}
			select {
			case j := <-r.arrive:
				j.id, j.nums = st.J, st.Nums
				jobs[st.J] = j
				order = append(order, st.J)
			case <-time.After(wait):
				if !closed {
					t.Fatalf("VERIF-FAIL no resend goroutine was started for a NACK within 10s")
				}
				started = false
			}
			out.Emit(vfM{"a": "nack", "s": st.S, "j": st.J, "nums": st.Nums, "started": started})
		case "jobstart", "jobget", "jobemit":
			if j := jobs[st.J]; j != nil {
				jobStep(j, st.A, st.Fail)
				time.Sleep(200 * time.Microsecond) // (gives a Close that wrongly stopped waiting the chance to show)
				pollClose(false)
			}
		}
	}
	// drain: run every resend goroutine to completion, one step at a time
	releaseParked()
	for _, id := range order {
		j := jobs[id]
		for j.state != "done" {
			switch j.state {
			case "start":
				jobStep(j, "jobstart", false)
			case "get":
				jobStep(j, "jobget", false)
			case "emit":
				jobStep(j, "jobemit", sc.DrainFail && !j.failedOnce)
				j.failedOnce = true
			}
		}
	}
	pollClose(true)
	close(r.done)
	r.mu.Lock()
	stray := r.stray
	r.mu.Unlock()
	out.Emit(vfM{"a": "end", "stray": stray, "pending": 0})
	_ = ic.Close()
}

func jsonEq(a, b any) bool {
	x, _ := json.Marshal(a)
	y, _ := json.Marshal(b)

	return string(x) == string(y)
}

//go:build verif

package nack

import (
	"encoding/json"
	"errors"
	"sort"
	"sync"
	"sync/atomic"
	"testing"
	"time"

	"github.com/pion/interceptor"
	"github.com/pion/interceptor/internal/verifhook"
	"github.com/pion/rtcp"
	"github.com/pion/rtp"
)

// Script executed against the real code; every step is logged as one trace event (see spec/Trace_NackGen.tla).
type vfNackScript struct {
	// Twin (interceptor level): a second interceptor built by the SAME factory receives look-alike traffic of its own (same
	// SSRCs, other numbers, other gaps); nothing it sees may show in the first one
	Twin  bool   `json:"twin"`
	Rev   bool   `json:"rev"` // interceptor level: the options are passed in the opposite order
	Level string `json:"level"` // "log": receiveLog directly, "icpt": GeneratorInterceptor through its public interface
	Size  uint16 `json:"size"`
	Skip  uint16 `json:"skip"`
	Max   uint16 `json:"max"`
	// Filt: GeneratorStreamsFilter option: "" (default filter), "all" (every stream is NACK enabled), "odd" (odd SSRCs
	// only, whatever their feedback list says), "none"
	Filt  string `json:"filt"`
	Steps []struct {
		A     string `json:"a"`
		S     uint32 `json:"s"`
		W     uint16 `json:"w"`
		Nack  bool   `json:"nack"`
		RFail bool   `json:"rfail"` // recv: the wrapped reader fails - the error is passed up and nothing is recorded (no event)
		Stale bool   `json:"stale"` // recv: through the reader of the stream's PREVIOUS binding (after its Unbind)
		WFail bool   `json:"wfail"` // tick: the RTCP writer refuses every write of this tick (after it has seen the packet)
		Fb    string `json:"fb"`    // RTCP feedback list of the stream: "" (nack only, if Nack), "plifirst", "nackfirst", "plionly", "other"
	} `json:"steps"`
}

var errVfNackInjected error = vfInjErr{"injected RTCP write failure"} //nolint:gochecknoglobals

func vfSorted(in []uint16) []uint16 {
	out := append([]uint16{}, in...)
	sort.Slice(out, func(i, j int) bool { return out[i] < out[j] })

	return out
}

func TestVerifNackGenExec(t *testing.T) {
	in := vfLoad(t)
	out := vfOut(t)
	defer out.Close()
	for _, raw := range in {
		var sc vfNackScript
		if err := json.Unmarshal(raw, &sc); err != nil {
			t.Fatalf("VERIF-INFRA bad script: %v", err)
		}
		out.Emit(vfM{"a": "reset", "size": sc.Size, "skip": sc.Skip, "max": sc.Max})
		if sc.Level == "log" {
			vfRunLog(t, &sc, out)
		} else {
			vfRunIcpt(t, &sc, out)
		}
	}
}

func vfRunLog(t *testing.T, sc *vfNackScript, out *vfWriter) {
	t.Helper()
	out.NewKept().Flush() // (one reset per script in the side trace)
	logs := map[uint32]*receiveLog{}
	scratch := make([]uint16, sc.Size)
	for _, st := range sc.Steps {
		switch st.A {
		case "bind":
			if st.Nack {
				rl, err := newReceiveLog(sc.Size)
				if err != nil {
					t.Fatalf("VERIF-INFRA newReceiveLog(%d): %v", sc.Size, err)
				}
				logs[st.S] = rl
			}
			out.Emit(vfM{"a": "bind", "s": st.S, "nack": st.Nack})
		case "unbind":
			delete(logs, st.S)
			out.Emit(vfM{"a": "unbind", "s": st.S})
		case "recv":
			if rl := logs[st.S]; rl != nil {
				rl.add(st.W)
			}
			out.Emit(vfM{"a": "recv", "s": st.S, "w": st.W})
		case "tick", "missing":
			// at this level a tick is one missingSeqNumbers call per bound stream
			ss := make([]uint32, 0, len(logs))
			for s := range logs {
				ss = append(ss, s)
			}
			sort.Slice(ss, func(i, j int) bool { return ss[i] < ss[j] })
			for _, s := range ss {
				m := logs[s].missingSeqNumbers(sc.Skip, scratch)
				out.Emit(vfM{"a": "missing", "s": s, "out": vfSorted(m)})
			}
		}
	}
}

type vfTickGate struct {
	target  any
	arrive  chan struct{}
	release chan struct{}
	done    chan struct{}
}

func (g *vfTickGate) hook(name string, obj any) {
	if name != "nack.generator.tick" || obj != g.target {
		return
	}
	select {
	case g.arrive <- struct{}{}:
	case <-g.done:
		return
	}
	select {
	case <-g.release:
	case <-g.done:
	}
}

func vfRunIcpt(t *testing.T, sc *vfNackScript, out *vfWriter) {
	t.Helper()
	kept := out.NewKept()
	defer kept.Flush()
	opts := []GeneratorOption{GeneratorSize(sc.Size), GeneratorSkipLastN(sc.Skip), GeneratorInterval(200 * time.Microsecond)}
	if sc.Max > 0 {
		opts = append(opts, GeneratorMaxNacksPerPacket(sc.Max))
	}
	switch sc.Filt {
	case "all":
		opts = append(opts, GeneratorStreamsFilter(func(*interceptor.StreamInfo) bool { return true }))
	case "odd":
		opts = append(opts, GeneratorStreamsFilter(func(i *interceptor.StreamInfo) bool { return i.SSRC%2 == 1 }))
	case "none":
		opts = append(opts, GeneratorStreamsFilter(func(*interceptor.StreamInfo) bool { return false }))
	}
	if sc.Rev { // the same options in the opposite order describe the same configuration
		for i, j := 0, len(opts)-1; i < j; i, j = i+1, j-1 {
			opts[i], opts[j] = opts[j], opts[i]
		}
	}
	f, err := NewGeneratorInterceptor(opts...)
	if err != nil {
		t.Fatalf("VERIF-INFRA factory: %v", err)
	}
	ic, err := f.NewInterceptor("")
	if err != nil {
		t.Fatalf("VERIF-INFRA NewInterceptor: %v", err)
	}
	gate := &vfTickGate{target: ic, arrive: make(chan struct{}), release: make(chan struct{}), done: make(chan struct{})}
	verifhook.SetGate(gate.hook)
	defer verifhook.SetGate(nil)
	var twin interceptor.Interceptor
	twinReaders := map[uint32]interceptor.RTPReader{}
	var twinNext []byte
	if sc.Twin {
		if twin, err = f.NewInterceptor("twin"); err != nil {
			t.Fatalf("VERIF-INFRA NewInterceptor (twin): %v", err)
		}
		twin.BindRTCPWriter(interceptor.RTCPWriterFunc(func(p []rtcp.Packet, _ interceptor.Attributes) (int, error) {
			return len(p), nil
		}))
		defer func() { _ = twin.Close() }()
	}

	var mu sync.Mutex
	var written []vfM
	var failNow, failRead atomic.Bool
	ic.BindRTCPWriter(interceptor.RTCPWriterFunc(func(pkts []rtcp.Packet, _ interceptor.Attributes) (res int, rerr error) {
		mu.Lock()
		defer mu.Unlock()
		if failNow.Load() {
			res, rerr = 0, errVfNackInjected
		}
		for _, p := range pkts {
			if n, ok := p.(*rtcp.TransportLayerNack); ok {
				nums := []uint16{}
				for _, pair := range n.Nacks {
					nums = append(nums, pair.PacketList()...)
				}
				written = append(written, vfM{"s": n.MediaSSRC, "nums": nums})
				kept.Keep(func() any { // the NACK handed to the RTCP writer, read again later
					again := []uint16{}
					for _, pair := range n.Nacks {
						again = append(again, pair.PacketList()...)
					}

					return vfM{"s": n.MediaSSRC, "nums": again}
				})
			} else {
				written = append(written, vfM{"s": 0, "nums": []uint16{}, "foreign": true})
			}
		}

		if rerr != nil {
			return res, rerr
		}

		return len(pkts), nil
	}))
	waitArrive := func() {
		select {
		case <-gate.arrive:
		case <-time.After(10 * time.Second):
			t.Fatalf("VERIF-INFRA generator loop never reached the tick gate")
		}
	}
	waitArrive() // the loop is now parked at the start of a tick body

	type bound struct {
		info   *interceptor.StreamInfo
		reader interceptor.RTPReader
		next   []byte
	}
	streams := map[uint32]*bound{}
	stale := map[uint32]*bound{} // the reader a stream had before its last Unbind
	for _, st := range sc.Steps {
		switch st.A {
		case "bind":
			b := &bound{info: &interceptor.StreamInfo{SSRC: st.S}}
			if st.Nack {
				b.info.RTCPFeedback = []interceptor.RTCPFeedback{{Type: "nack"}}
			}
			switch st.Fb { // the stream negotiated NACK iff the list has an entry of type "nack" without parameter
			case "plifirst":
				b.info.RTCPFeedback = []interceptor.RTCPFeedback{{Type: "goog-remb"}, {Type: "nack", Parameter: "pli"}, {Type: "nack"}}
				st.Nack = true
			case "nackfirst":
				b.info.RTCPFeedback = []interceptor.RTCPFeedback{{Type: "nack"}, {Type: "nack", Parameter: "pli"}, {Type: "transport-cc"}}
				st.Nack = true
			case "plionly":
				b.info.RTCPFeedback = []interceptor.RTCPFeedback{{Type: "nack", Parameter: "pli"}, {Type: "ccm", Parameter: "fir"}}
				st.Nack = false
			case "other":
				b.info.RTCPFeedback = []interceptor.RTCPFeedback{{Type: "transport-cc"}}
				st.Nack = false
			}
			switch sc.Filt { // with a configured filter the filter alone decides which streams are NACK enabled
			case "all":
				st.Nack = true
			case "odd":
				st.Nack = st.S%2 == 1
			case "none":
				st.Nack = false
			}
			b.reader = ic.BindRemoteStream(b.info, interceptor.RTPReaderFunc(
				func(buf []byte, a interceptor.Attributes) (int, interceptor.Attributes, error) {
					if failRead.Load() {
						return copy(buf, b.next), a, errVfNackInjected // (the bytes are there all the same)
					}

					return copy(buf, b.next), a, nil
				}))
			streams[st.S] = b
			if twin != nil {
				twinReaders[st.S] = twin.BindRemoteStream(b.info, interceptor.RTPReaderFunc(
					func(buf []byte, a interceptor.Attributes) (int, interceptor.Attributes, error) {
						return copy(buf, twinNext), a, nil
					}))
			}
			out.Emit(vfM{"a": "bind", "s": st.S, "nack": st.Nack})
		case "unbind":
			if b := streams[st.S]; b != nil {
				unb := *b.info // an equal description at another address
				ic.UnbindRemoteStream(&unb)
				delete(streams, st.S)
				stale[st.S] = b
			}
			out.Emit(vfM{"a": "unbind", "s": st.S})
		case "recv":
			b := streams[st.S]
			if st.Stale { // a straggler read through the reader of the unbound binding: must not touch any stream
				if b = stale[st.S]; b == nil {
					continue
				}
			}
			if b == nil {
				continue
			}
			if tr := twinReaders[st.S]; tr != nil && !st.Stale { // the other connection: the same stream, numbers of its own
				tp := rtp.Packet{Header: rtp.Header{Version: 2, SSRC: st.S, SequenceNumber: st.W*3 + 1000}, Payload: []byte{9}}
				twinNext, _ = tp.Marshal()
				_, _, _ = tr.Read(make([]byte, 1500), interceptor.Attributes{})
			}
			pkt := rtp.Packet{Header: rtp.Header{Version: 2, SSRC: st.S, SequenceNumber: st.W}, Payload: []byte{1, 2, 3}}
			raw, _ := pkt.Marshal()
			b.next = raw
			buf := make([]byte, 1500)
			if st.RFail {
				failRead.Store(true)
				_, _, err := b.reader.Read(buf, interceptor.Attributes{})
				failRead.Store(false)
				if !errors.Is(err, errVfNackInjected) {
					t.Fatalf("VERIF-INFRA the failure of the wrapped reader was not passed up: %v", err)
				}

				continue
			}
			if n, _, err := b.reader.Read(buf, interceptor.Attributes{}); err != nil || n != len(raw) {
				t.Fatalf("VERIF-INFRA read: n=%d err=%v", n, err)
			}
			if st.Stale {
				out.Emit(vfM{"a": "stale", "s": st.S, "w": st.W})

				continue
			}
			out.Emit(vfM{"a": "recv", "s": st.S, "w": st.W})
		case "tick":
			mu.Lock()
			written = nil
			mu.Unlock()
			failNow.Store(st.WFail)
			gate.release <- struct{}{} // run exactly one tick body
			waitArrive()               // parked at the next tick: every write of the previous body has happened
			failNow.Store(false)
			mu.Lock()
			got := written
			written = nil
			mu.Unlock()
			if got == nil {
				got = []vfM{}
			}
			out.Emit(vfM{"a": "tick", "out": got})
		}
	}
	close(gate.done)
	if err := ic.Close(); err != nil {
		t.Fatalf("VERIF-INFRA close: %v", err)
	}
}

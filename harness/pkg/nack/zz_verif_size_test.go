//go:build verif

package nack

import (
	"reflect"
	"testing"
	"time"

	"github.com/pion/interceptor"
	"github.com/pion/interceptor/internal/verifhook"
	"github.com/pion/rtcp"
	"github.com/pion/rtp"
)

// Container-size probes of the NACK generator and responder interceptors (C12, spec/Sizes.tla).

func szNackInfo(ssrc uint32, enabled bool) *interceptor.StreamInfo {
	info := &interceptor.StreamInfo{SSRC: ssrc}
	if enabled {
		info.RTCPFeedback = []interceptor.RTCPFeedback{{Type: "nack"}}
	}

	return info
}

// ---- generator: receiveLogs / nackCountLogs maps, bitmap words

type szNackGen struct {
	tb      testing.TB
	ic      *GeneratorInterceptor
	readers map[uint32]interceptor.RTPReader
	next    []byte
	arrive  chan struct{}
	release chan struct{}
	done    chan struct{}
	// cfg "uiw" = 1: a stream is unbound WHILE the loop is inside the RTCP writer with a NACK for it (the writer callback
	// performs the UnbindRemoteStream), not between ticks
	unbindInWrite bool
	pending       uint32
	didUnbind     bool
}

func (d *szNackGen) hook(name string, obj any) {
	if name != "nack.generator.tick" || obj != any(d.ic) {
		return
	}
	select {
	case d.arrive <- struct{}{}:
	case <-d.done:
		return
	}
	select {
	case <-d.release:
	case <-d.done:
	}
}

func (d *szNackGen) wait() {
	select {
	case <-d.arrive:
	case <-time.After(20 * time.Second):
		d.tb.Fatalf("VERIF-INFRA nack generator loop never reached the tick gate")
	}
}

func (d *szNackGen) Reset(tb testing.TB, sc *szScript) map[string]int {
	d.tb = tb
	size, skip, max := sc.Cfg["size"], sc.Cfg["skip"], sc.Cfg["max"]
	opts := []GeneratorOption{GeneratorInterval(200 * time.Microsecond)}
	if size > 0 {
		opts = append(opts, GeneratorSize(uint16(size))) //nolint:gosec
	}
	opts = append(opts, GeneratorSkipLastN(uint16(skip)), GeneratorMaxNacksPerPacket(uint16(max))) //nolint:gosec
	f, _ := NewGeneratorInterceptor(opts...)
	ic, err := f.NewInterceptor("")
	if err != nil {
		tb.Fatalf("VERIF-INFRA nack generator: %v", err)
	}
	d.ic, _ = ic.(*GeneratorInterceptor)
	d.readers = map[uint32]interceptor.RTPReader{}
	d.arrive, d.release, d.done = make(chan struct{}), make(chan struct{}), make(chan struct{})
	verifhook.SetGate(d.hook)
	d.unbindInWrite, d.pending, d.didUnbind = sc.Cfg["uiw"] == 1, 0, false
	d.ic.BindRTCPWriter(interceptor.RTCPWriterFunc(func(p []rtcp.Packet, _ interceptor.Attributes) (int, error) {
		for _, pkt := range p { // (runs on the loop goroutine, which holds no lock while it writes)
			if n, ok := pkt.(*rtcp.TransportLayerNack); ok && d.pending != 0 && n.MediaSSRC == d.pending && !d.didUnbind {
				d.ic.UnbindRemoteStream(szNackInfo(d.pending, d.pending%2 == 1))
				d.didUnbind = true
			}
		}

		return len(p), nil
	}))
	d.wait() // the loop is parked at the start of a tick body

	return map[string]int{"size": int(d.ic.size), "skip": int(d.ic.skipLastN), "max": int(d.ic.maxNacksPerPacket)}
}

func (d *szNackGen) Bind(ssrc uint32, enabled bool) {
	d.readers[ssrc] = d.ic.BindRemoteStream(szNackInfo(ssrc, enabled), interceptor.RTPReaderFunc(
		func(b []byte, a interceptor.Attributes) (int, interceptor.Attributes, error) {
			return copy(b, d.next), a, nil
		}))
}

func (d *szNackGen) Unbind(ssrc uint32) {
	if d.unbindInWrite {
		d.pending, d.didUnbind = ssrc, false
		d.Tick(time.Time{}) // if this tick writes a NACK for the stream, the stream is unbound inside that write
		d.pending = 0
	}
	if !d.didUnbind {
		d.ic.UnbindRemoteStream(szNackInfo(ssrc, ssrc%2 == 1)) // (the stream is named by its SSRC; even SSRCs: without the feedback list)
	}
	d.didUnbind = false
	delete(d.readers, ssrc)
}

func (d *szNackGen) Pkt(st *szStep) bool {
	h := rtp.Header{Version: 2, SSRC: st.HS, SequenceNumber: uint16(st.T)} //nolint:gosec
	d.next, _ = (&rtp.Packet{Header: h, Payload: []byte{1, 2, 3}}).Marshal()
	_, _, err := d.readers[st.SSRC].Read(make([]byte, 1500), nil)

	return err == nil
}
func (d *szNackGen) Feedback(*szFb) {}

// Tick lets exactly one tick body of the real loop run to completion.
func (d *szNackGen) Tick(time.Time) {
	d.release <- struct{}{}
	d.wait()
}
func (d *szNackGen) Drain(time.Time) bool { return false }

func (d *szNackGen) Close() {
	close(d.done)
	_ = d.ic.Close()
	verifhook.SetGate(nil)
}

func (d *szNackGen) Sizes() (map[string]int, map[string]int) {
	d.ic.receiveLogsMu.Lock()
	defer d.ic.receiveLogsMu.Unlock()
	words, cmax := 0, 0
	for _, rl := range d.ic.receiveLogs {
		words = max(words, len(rl.packets))
	}
	for _, c := range d.ic.nackCountLogs {
		cmax = max(cmax, len(c))
	}

	return map[string]int{"recvLogs": len(d.ic.receiveLogs), "bitmap": words, "cntLogs": len(d.ic.nackCountLogs),
		"cntMax": cmax}, nil
}

// ---- responder: streams map, per-stream ring and retained packets

type szNackResp struct {
	tb      testing.TB
	ic      *ResponderInterceptor
	writers map[uint32]interceptor.RTPWriter
}

func (d *szNackResp) Reset(tb testing.TB, sc *szScript) map[string]int {
	d.tb = tb
	opts := []ResponderOption{}
	if sc.Cfg["size"] > 0 {
		opts = append(opts, ResponderSize(uint16(sc.Cfg["size"]))) //nolint:gosec
	}
	f, _ := NewResponderInterceptor(opts...)
	ic, err := f.NewInterceptor("")
	if err != nil {
		tb.Fatalf("VERIF-INFRA nack responder: %v", err)
	}
	d.ic, _ = ic.(*ResponderInterceptor)
	d.writers = map[uint32]interceptor.RTPWriter{}

	return map[string]int{"size": int(d.ic.size)}
}

func (d *szNackResp) Bind(ssrc uint32, enabled bool) {
	d.writers[ssrc] = d.ic.BindLocalStream(szNackInfo(ssrc, enabled), interceptor.RTPWriterFunc(
		func(*rtp.Header, []byte, interceptor.Attributes) (int, error) { return 0, nil }))
}

func (d *szNackResp) Unbind(ssrc uint32) {
	d.ic.UnbindLocalStream(szNackInfo(ssrc, ssrc%2 == 1))
	delete(d.writers, ssrc)
}

func (d *szNackResp) Pkt(st *szStep) bool {
	_, err := d.writers[st.SSRC].Write(&rtp.Header{Version: 2, SSRC: st.HS, SequenceNumber: uint16(st.T)}, //nolint:gosec
		make([]byte, 60), nil)

	return err == nil
}
func (d *szNackResp) Feedback(*szFb)       {}
func (d *szNackResp) Tick(time.Time)       {}
func (d *szNackResp) Drain(time.Time) bool { return false }
func (d *szNackResp) Close()               { _ = d.ic.Close() }

func (d *szNackResp) Sizes() (map[string]int, map[string]int) {
	d.ic.streamsMu.Lock()
	defer d.ic.streamsMu.Unlock()
	ring, held := 0, 0
	for _, s := range d.ic.streams {
		s.rtpBufferMutex.Lock()
		pk := reflect.ValueOf(s.rtpBuffer).Elem().FieldByName("packets") // (unexported field of internal/rtpbuffer)
		ring = max(ring, pk.Len())
		for i := 0; i < pk.Len(); i++ {
			if !pk.Index(i).IsNil() {
				held++
			}
		}
		s.rtpBufferMutex.Unlock()
	}

	return map[string]int{"respStreams": len(d.ic.streams), "respRing": ring, "respHeld": held}, nil
}

func TestVerifSizeExec(t *testing.T) {
	szMain(t, "nack", map[string]func() szDriver{
		"nackgen":  func() szDriver { return &szNackGen{} },
		"nackresp": func() szDriver { return &szNackResp{} },
	})
}

//go:build verif

package cc

import (
	"errors"
	"fmt"
	"testing"

	"github.com/pion/interceptor"
	"github.com/pion/interceptor/pkg/gcc"
	"github.com/pion/rtcp"
)

// C16 harness, level "cc": the scripts of the shared runner (generated from
// harness/pkg/gcc/zz_verif_gccshared_test.go.tpl) driven through cc.Interceptor: packets are written to the writer
// returned by BindLocalStream, feedback is marshalled and read through the reader returned by BindRTCPReader, the
// estimator handle comes from OnNewPeerConnection, Close is the interceptor's Close.

func vfGccNewDriver(sc *vfGccScript, lg *vfGccLog) (*vfGccDriver, error) {
	var opts []gcc.Option
	if sc.Defaults {
		sc.Init, sc.Min, sc.Max = 10_000, 5_000, 50_000_000
	} else {
		opts = append(opts, gcc.SendSideBWEInitialBitrate(sc.Init), gcc.SendSideBWEMinBitrate(sc.Min),
			gcc.SendSideBWEMaxBitrate(sc.Max))
	}
	switch sc.Pacer {
	case "rec":
		opts = append(opts, gcc.SendSideBWEPacer(&vfGccRecPacer{log: lg, inner: &vfGccDirect{}, closeErr: sc.PCloseErr}))
	case "noop":
		opts = append(opts, gcc.SendSideBWEPacer(&vfGccRecPacer{log: lg, inner: gcc.NewNoOpPacer(), closeErr: sc.PCloseErr}))
	case "leaky":
		opts = append(opts, gcc.SendSideBWEPacer(&vfGccRecPacer{log: lg, inner: gcc.NewLeakyBucketPacer(sc.Init), closeErr: sc.PCloseErr}))
	case "default":
	default:
		return nil, fmt.Errorf("unknown pacer %q", sc.Pacer)
	}
	var factory BandwidthEstimatorFactory
	if !(sc.Defaults && sc.Pacer == "default") { // nil factory = the interceptor's own default gcc.NewSendSideBWE()
		factory = func() (BandwidthEstimator, error) { return gcc.NewSendSideBWE(opts...) }
	}
	f, err := NewInterceptor(factory)
	if err != nil {
		return nil, err
	}
	var est BandwidthEstimator
	f.OnNewPeerConnection(func(_ string, e BandwidthEstimator) { est = e })
	ic, err := f.NewInterceptor("vf")
	if err != nil {
		return nil, err
	}
	if est == nil {
		return nil, errors.New("OnNewPeerConnection was not called")
	}
	est.OnTargetBitrateChange(func(v int) {
		_ = est.GetTargetBitrate() // an observer that asks the estimator from inside its callback
		lg.cb(v)
	})
	var next []byte
	rd := ic.BindRTCPReader(interceptor.RTCPReaderFunc(
		func(b []byte, a interceptor.Attributes) (int, interceptor.Attributes, error) {
			return copy(b, next), a, nil
		}))
	buf := make([]byte, 65536)
	class := func(err error) string {
		switch {
		case err == nil:
			return "ok"
		case errors.Is(err, gcc.ErrSendSideBWEClosed):
			return "closed"
		default:
			return "err"
		}
	}

	return &vfGccDriver{
		addStream: ic.BindLocalStream,
		feed: func(pkts []rtcp.Packet) string {
			raw, err := rtcp.Marshal(pkts)
			if err != nil {
				panic(fmt.Sprintf("VERIF-INFRA cannot marshal feedback: %v", err))
			}
			next = raw
			_, _, err = rd.Read(buf, nil)

			return class(err)
		},
		flush:     func() string { return class(est.WriteRTCP([]rtcp.Packet{&rtcp.TransportLayerCC{}}, nil)) },
		get:       est.GetTargetBitrate,
		stats:     est.GetStats,
		close:     ic.Close,
		leakyRate: func() int { return -1 },
		pipeCap:   func() int { return 0 },
	}, nil
}

func TestVerifGccCcExec(t *testing.T) {
	vfGccExec(t, func(sc *vfGccScript, lg *vfGccLog) error {
		d, err := vfGccNewDriver(sc, lg)
		if err != nil {
			return err
		}
		vfGccRunSeq(sc, lg, d)

		return nil
	})
}

//go:build verif

// Script runner shared by the pacer harnesses of C17 (pkg/pacing and pkg/gcc): drives a pacer through a small
// adapter, records call / return intervals of every Write, every packet that reaches a stream's next writer
// (with a millisecond timestamp taken by the harness), rate changes, quiescence and Close.
// Events: see spec/Trace_Pacer.tla.  The package clause is substituted by checks/c17.py.
package PKGNAME

import (
	"encoding/json"
	"hash/crc32"
	"os"
	"runtime"
	"strconv"
	"strings"
	"sync"
	"testing"
	"time"

	"github.com/pion/interceptor"
	"github.com/pion/rtp"
)

type vfPcStep struct {
	A     string       `json:"a"` // write, setrate, sleep, quiesce, close, par, hold, waithold
	S     uint32       `json:"s"`
	SSRC  uint32       `json:"ssrc"` // header SSRC, 0 = S
	ID    int          `json:"id"`
	Len   int          `json:"len"`
	Csrc  int          `json:"csrc"`
	Shape int          `json:"shape"`
	Rate  int          `json:"rate"` // bits per second
	Ms    int          `json:"ms"`
	Wait  int          `json:"wait"` // quiesce: 3 x the time the token model needs + slack, in ms
	Fail  int          `json:"fail"` // write: the stream's next writer fails this many times for this packet
	Progs [][]vfPcStep `json:"progs"`
}

type vfPcScript struct {
	Kind    string     `json:"kind"` // pacing, leaky, noop
	Rate    int        `json:"rate"` // bits per second
	Ival    int        `json:"ival"` // ms
	Qsize   int        `json:"qsize"` // pacing interceptor: capacity of the hand-over channel, 0 = the default (10^6)
	Streams []uint32   `json:"streams"`
	Twcc    [][2]int   `json:"twcc"` // SendSideBWE level: [stream, transport-cc extension id] of the streams that negotiated it
	Steps   []vfPcStep `json:"steps"`
}

var errVfInjected error = vfInjErr{"verif: injected failure of the downstream writer"}

// vfPcTwccID returns the transport-cc extension id negotiated for stream s (0 = none).
func (sc *vfPcScript) vfPcTwccID(s uint32) int {
	for _, t := range sc.Twcc {
		if uint32(t[0]) == s { //nolint:gosec
			return t[1]
		}
	}

	return 0
}

// vfPcTarget adapts the pacer under test.
type vfPcTarget interface {
	Bind(s uint32, w interceptor.RTPWriter) interceptor.RTPWriter
	SetRate(bps int)
	Close() error
}

type vfPcRun struct {
	t0       time.Time
	mu       sync.Mutex
	evs      []vfM
	accepted int
	released int
	holdMs   int           // the next release blocks the pacer for this long (a slow transport)
	inHold   chan struct{} // closed when that release has arrived in the writer
	fails    map[int]int   // packet id -> how many more times its downstream write fails
}

func (r *vfPcRun) add(ev vfM) {
	r.mu.Lock()
	ev["t"] = int(time.Since(r.t0) / time.Millisecond)
	r.evs = append(r.evs, ev)
	switch ev["a"] {
	case "rel":
		r.released++
	case "ret":
		if ev["ok"] == true {
			r.accepted++
		}
	}
	r.mu.Unlock()
}

func (r *vfPcRun) pending() int {
	r.mu.Lock()
	defer r.mu.Unlock()

	return r.accepted - r.released
}

// vfPcPacket builds the packet of a write step: contents are a function of the arguments only.
func vfPcPacket(ssrc uint32, id, n, ncsrc, shape int) (*rtp.Header, []byte) {
	h := &rtp.Header{
		Version: 2, SSRC: ssrc, SequenceNumber: uint16(id), Timestamp: uint32(id) * 3000, //nolint:gosec
		PayloadType: uint8(96 + id%3), Marker: id%2 == 1, //nolint:gosec
	}
	for i := 0; i < ncsrc; i++ {
		h.CSRC = append(h.CSRC, uint32(1000+i)) //nolint:gosec
	}
	switch shape {
	case 1:
		h.Extension, h.ExtensionProfile = true, rtp.ExtensionProfileOneByte
		_ = h.SetExtension(5, []byte{byte(id), 7})
	case 2:
		h.Extension, h.ExtensionProfile = true, rtp.ExtensionProfileTwoByte
		_ = h.SetExtension(20, []byte{byte(id), 1, 2, 3, 4, 5})
	}
	pl := make([]byte, n)
	for i := range pl {
		pl[i] = byte(id*31 + i*7)
	}

	return h, pl
}

// vfPcRec is the canonical packet record with the payload replaced by [length, crc32 hi, crc32 lo, first 8, last 8].
func vfPcRec(h *rtp.Header, pl []byte) vfM {
	m := vfPkt(h, nil)
	c := crc32.ChecksumIEEE(pl)
	d := []int{len(pl), int(c >> 16), int(c & 0xFFFF)}
	for i := 0; i < len(pl) && i < 8; i++ {
		d = append(d, int(pl[i]))
	}
	for i := len(pl) - 8; i < len(pl); i++ {
		if i >= 0 {
			d = append(d, int(pl[i]))
		}
	}
	m["pl"] = d

	return m
}

func vfPcBits(h *rtp.Header, pl []byte) int { return 8 * (h.MarshalSize() + len(pl)) }

func vfPcExec(sc *vfPcScript, mk func(sc *vfPcScript) (vfPcTarget, error)) ([]vfM, error) { //nolint:gocognit,cyclop
	r := &vfPcRun{t0: time.Now(), fails: map[int]int{}} // t0 before the pacer exists: its bucket cannot have been filled earlier
	tg, err := mk(sc)
	if err != nil {
		return nil, err
	}
	writers := map[uint32]interceptor.RTPWriter{}
	gen := map[uint32]int{} // how many next writers the stream has been given so far (guarded by r.mu)
	bind := func(s uint32) {
		r.mu.Lock()
		gen[s]++
		mine := gen[s]
		r.mu.Unlock()
		writers[s] = tg.Bind(s, interceptor.RTPWriterFunc(
			func(h *rtp.Header, pl []byte, _ interceptor.Attributes) (int, error) {
				r.mu.Lock()
				hold, entered := r.holdMs, r.inHold
				r.holdMs = 0
				r.mu.Unlock()
				if hold > 0 {
					// a slow transport: the pacer's goroutine is parked here while the script goes on (further
					// writes, rate changes); the packet is read - and recorded - only afterwards, so anything that
					// touched its header or payload buffer in the meantime shows up in the record
					close(entered)
					time.Sleep(time.Duration(hold) * time.Millisecond)
				}
				r.mu.Lock()
				fail := r.fails[int(h.SequenceNumber)] > 0
				if fail {
					r.fails[int(h.SequenceNumber)]--
				}
				r.mu.Unlock()
				// a failing transport: the attempt is a delivery of the packet all the same
				rel := vfM{"a": "rel", "s": s, "bits": vfPcBits(h, pl), "pkt": vfPcRec(h, pl), "fail": fail}
				r.mu.Lock()
				if mine != gen[s] { // handed to a next writer the stream had BEFORE it was bound again
					rel["stale"] = true
				}
				r.mu.Unlock()
				r.add(rel)
				if fail {
					return 0, errVfInjected
				}

				return h.MarshalSize() + len(pl), nil
			}))
	}
	for _, s := range sc.Streams {
		bind(s)
		r.add(vfM{"a": "addstream", "s": s})
	}
	var any interceptor.RTPWriter
	for _, w := range writers {
		any = w
	}
	var run func(g int, steps []vfPcStep)
	run = func(g int, steps []vfPcStep) {
		for i := range steps {
			st := &steps[i]
			switch st.A {
			case "write":
				ssrc := st.SSRC
				if ssrc == 0 {
					ssrc = st.S
				}
				w := writers[st.S]
				key := st.S // the stream whose next writer must get the packet
				if sc.Kind != "pacing" {
					key = ssrc // the gcc pacers have one Write for all streams and route by SSRC
					if w == nil {
						w = any
					}
				}
				if w == nil {
					continue
				}
				h, pl := vfPcPacket(ssrc, st.ID, st.Len, st.Csrc, st.Shape)
				if id := sc.vfPcTwccID(ssrc); id != 0 {
					// a stream that negotiated transport-cc: the packet carries the extension when it reaches the pacer
					tcc, _ := (&rtp.TransportCCExtension{TransportSequence: uint16(st.ID)}).Marshal() //nolint:gosec
					_ = h.SetExtension(uint8(id), tcc)                                               //nolint:gosec
				}
				if st.Fail > 0 {
					r.mu.Lock()
					r.fails[int(uint16(st.ID))] = st.Fail //nolint:gosec
					r.mu.Unlock()
				}
				r.add(vfM{"a": "call", "p": st.ID, "g": g, "s": key, "bits": vfPcBits(h, pl), "pkt": vfPcRec(h, pl)})
				var werr error
				wdone := make(chan struct{})
				go func() {
					defer close(wdone)
					_, werr = w.Write(h, pl, interceptor.Attributes{})
				}()
				select {
				case <-wdone:
				case <-time.After(20 * time.Second): // a Write that does not come back (never accepted: the script ends here)
					r.add(vfM{"a": "stuck", "p": st.ID})

					return
				}
				r.add(vfM{"a": "ret", "p": st.ID, "ok": werr == nil})
				// the caller may reuse its buffers as soon as Write has returned
				for j := range pl {
					pl[j] = 0xEE
				}
				h.SequenceNumber, h.Timestamp, h.SSRC, h.Marker = 0xDEAD, 0x7EADBEEF, 0x6EEEEEEE, !h.Marker
				for j := range h.CSRC {
					h.CSRC[j] = 0x6EEEEEEE
				}
			case "rebind": // (only at a quiescent point) the stream is bound again with a NEW next writer
				bind(st.S)
			case "setrate":
				r.add(vfM{"a": "setrate_call", "rate": st.Rate / 1000})
				tg.SetRate(st.Rate)
				r.add(vfM{"a": "setrate_ret"})
			case "sleep":
				time.Sleep(time.Duration(st.Ms) * time.Millisecond)
			case "hold": // the next release will block the pacer's goroutine in the writer for Ms
				r.mu.Lock()
				r.holdMs = st.Ms
				r.inHold = make(chan struct{})
				r.mu.Unlock()
			case "waithold": // until that release has arrived in the writer (the pacer is now blocked there)
				r.mu.Lock()
				entered := r.inHold
				r.mu.Unlock()
				if entered != nil {
					select {
					case <-entered:
					case <-time.After(5 * time.Second):
					}
				}
			case "par":
				var wg sync.WaitGroup
				for k := range st.Progs {
					wg.Add(1)
					go func(k int) {
						defer wg.Done()
						run(k+1, st.Progs[k])
					}(k)
				}
				wg.Wait()
			case "quiesce":
				// liveness time-out derived from the token model (st.Wait = 3 x model time + slack).  A stall is reported
				// only after a second wait of at least the same length (>= 3 s) during which not a single packet
				// was released; while packets still trickle out (a loaded machine) the harness keeps waiting.
				start := time.Now()
				wait := func(d time.Duration) bool {
					end := time.Now().Add(d)
					for time.Now().Before(end) {
						if r.pending() <= 0 {
							return true
						}
						time.Sleep(500 * time.Microsecond)
					}

					return r.pending() <= 0
				}
				rounds := 0
				if !wait(time.Duration(st.Wait) * time.Millisecond) {
					second := time.Duration(st.Wait) * time.Millisecond
					if second < 3*time.Second {
						second = 3 * time.Second
					}
					for rounds = 1; rounds <= 20; rounds++ {
						r.mu.Lock()
						before := r.released
						r.mu.Unlock()
						if wait(second) {
							break
						}
						r.mu.Lock()
						progress := r.released != before
						r.mu.Unlock()
						if !progress {
							break
						}
					}
				}
				r.add(vfM{"a": "quiesce", "pending": r.pending(), "waited": int(time.Since(start) / time.Millisecond),
					"extra_waits": rounds})
			case "close":
				r.add(vfM{"a": "close_call"})
				cerr := tg.Close()
				r.add(vfM{"a": "close_ret", "ok": cerr == nil})
			}
		}
	}
	run(0, sc.Steps)
	r.add(vfM{"a": "end"})
	r.mu.Lock()
	defer r.mu.Unlock()

	return r.evs, nil
}

// vfPcMain executes every script (VERIF_PAR of them at a time; 1 = serial, reset events flushed before a script runs so
// that a crash names its script) and writes the traces in script order.
func vfPcMain(t *testing.T, mk func(sc *vfPcScript) (vfPcTarget, error)) {
	t.Helper()
	in := vfLoad(t)
	out := vfOut(t)
	defer out.Close()
	par, _ := strconv.Atoi(os.Getenv("VERIF_PAR"))
	if par < 1 {
		par = 1
	}
	scripts := make([]*vfPcScript, len(in))
	for i, raw := range in {
		sc := &vfPcScript{}
		if err := json.Unmarshal(raw, sc); err != nil {
			t.Fatalf("VERIF-INFRA bad script: %v", err)
		}
		scripts[i] = sc
	}
	reset := func(sc *vfPcScript) vfM {
		return vfM{"a": "reset", "kind": sc.Kind, "rate": sc.Rate / 1000, "ival": sc.Ival, "t": 0}
	}
	if par == 1 {
		for _, sc := range scripts {
			out.Emit(reset(sc))
			evs, err := vfPcExec(sc, mk)
			if err != nil {
				t.Fatalf("VERIF-INFRA constructing the pacer: %v", err)
			}
			for _, e := range evs {
				out.Emit(e)
			}
		}

		return
	}
	res := make([][]vfM, len(scripts))
	errs := make([]error, len(scripts))
	sem := make(chan struct{}, par)
	var wg sync.WaitGroup
	for i := range scripts {
		wg.Add(1)
		sem <- struct{}{}
		go func(i int) {
			defer wg.Done()
			defer func() { <-sem }()
			res[i], errs[i] = vfPcExec(scripts[i], mk)
		}(i)
	}
	wg.Wait()
	for i, sc := range scripts {
		if errs[i] != nil {
			t.Fatalf("VERIF-INFRA constructing the pacer: %v", errs[i])
		}
		out.Emit(reset(sc))
		for _, e := range res[i] {
			out.Emit(e)
		}
	}
	if os.Getenv("VERIF_DUMP") != "" {
		buf := make([]byte, 1<<20)
		t.Log(strings.TrimSpace(string(buf[:runtime.Stack(buf, true)])))
	}
}

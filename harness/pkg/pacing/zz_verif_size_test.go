//go:build verif

package pacing

import (
	"runtime"
	"sync/atomic"
	"testing"
	"time"

	"github.com/pion/interceptor"
	"github.com/pion/rtp"
)

// Container-size probe of the pacing interceptor (C12, spec/Sizes.tla).  The queue proper lives in a local variable of
// the loop goroutine, so the number of packets held is observed from outside: accepted writes minus packets that reached
// the stream writer; the channel length is read directly.  cfg.qsize sets queueSize (in-package option), cfg.rate the
// pacing rate.  cfg.overload = 0: the probe keeps at most qsize/2 packets outstanding (closed loop on the observed
// deliveries, no timing); cfg.overload = 1: it writes as fast as Write accepts while the rate admits almost nothing.
type szPacing struct {
	tb       testing.TB
	ic       *Interceptor
	writers  map[uint32]interceptor.RTPWriter
	acc      int64
	del      atomic.Int64
	qsize    int
	overload bool
}

func (d *szPacing) Reset(tb testing.TB, sc *szScript) map[string]int {
	d.tb = tb
	d.qsize, d.overload = sc.Cfg["qsize"], sc.Cfg["overload"] == 1
	d.acc = 0
	d.del.Store(0)
	f := NewInterceptor(InitialRate(sc.Cfg["rate"]), Interval(time.Millisecond), func(i *Interceptor) error {
		if d.qsize > 0 {
			i.queueSize = d.qsize
		}

		return nil
	})
	ic, err := f.NewInterceptor("sz")
	if err != nil {
		tb.Fatalf("VERIF-INFRA pacing: %v", err)
	}
	d.ic, _ = ic.(*Interceptor)
	d.qsize = d.ic.queueSize
	d.writers = map[uint32]interceptor.RTPWriter{}

	return map[string]int{"qsize": d.qsize, "rate": d.ic.initialRate, "overload": sc.Cfg["overload"]}
}

func (d *szPacing) Bind(ssrc uint32, _ bool) {
	d.writers[ssrc] = d.ic.BindLocalStream(&interceptor.StreamInfo{SSRC: ssrc}, interceptor.RTPWriterFunc(
		func(*rtp.Header, []byte, interceptor.Attributes) (int, error) {
			d.del.Add(1)

			return 0, nil
		}))
}

func (d *szPacing) Unbind(ssrc uint32) {
	d.ic.UnbindLocalStream(&interceptor.StreamInfo{SSRC: ssrc})
	delete(d.writers, ssrc)
}

func (d *szPacing) waitBelow(limit int64) bool {
	for i := 0; d.acc-d.del.Load() > limit; i++ {
		if i > 400000 { // 20 s
			return false
		}
		time.Sleep(50 * time.Microsecond)
	}

	return true
}

func (d *szPacing) Pkt(st *szStep) bool {
	if !d.overload && !d.waitBelow(int64(d.qsize/2)) {
		d.tb.Fatalf("VERIF-INFRA pacing: %d accepted packets were not delivered within 20 s", d.acc-d.del.Load())
	}
	h := &rtp.Header{Version: 2, SSRC: st.HS, SequenceNumber: uint16(st.T)} //nolint:gosec
	for try := 0; ; try++ {
		_, err := d.writers[st.SSRC].Write(h, make([]byte, 100), nil)
		if err == nil {
			d.acc++

			return true
		}
		if !d.overload || try > 2000 {
			return false
		}
		runtime.Gosched() // overflow: give the loop the chance to take packets off the channel, then offer again
		time.Sleep(20 * time.Microsecond)
	}
}
func (d *szPacing) Feedback(*szFb) {}
func (d *szPacing) Tick(time.Time) {}

func (d *szPacing) Drain(time.Time) bool {
	if d.overload {
		return false
	}
	if !d.waitBelow(0) {
		d.tb.Fatalf("VERIF-INFRA pacing: %d accepted packets were not delivered within 20 s", d.acc-d.del.Load())
	}

	return true
}
func (d *szPacing) Close() { _ = d.ic.Close() }

func (d *szPacing) Sizes() (map[string]int, map[string]int) {
	del := d.del.Load()

	return map[string]int{"pacChan": len(d.ic.queue), "pacHeld": int(d.acc - del)}, map[string]int{"acc": int(d.acc), "d1": int(del)}
}

func TestVerifSizeExec(t *testing.T) {
	szMain(t, "pacing", map[string]func() szDriver{"pacing": func() szDriver { return &szPacing{} }})
}

//go:build verif

package pacing

import (
	"testing"
	"time"

	"github.com/pion/interceptor"
)

// C17: the token-bucket pacing interceptor driven through its factory (InitialRate / Interval / SetRate) and the
// interceptor interface (BindLocalStream, Close).  The script runner is zz_verif_pacerlib_test.go.tpl.
type vfPacingTarget struct {
	f  *InterceptorFactory
	ic interceptor.Interceptor
}

func (p *vfPacingTarget) Bind(s uint32, w interceptor.RTPWriter) interceptor.RTPWriter {
	return p.ic.BindLocalStream(&interceptor.StreamInfo{SSRC: s}, w)
}

func (p *vfPacingTarget) SetRate(bps int) { p.f.SetRate("verif", bps) }

func (p *vfPacingTarget) Close() error { return p.ic.Close() }

func TestVerifPacingExec(t *testing.T) {
	vfPcMain(t, func(sc *vfPcScript) (vfPcTarget, error) {
		opts := []Option{InitialRate(sc.Rate), Interval(time.Duration(sc.Ival) * time.Millisecond)}
		if sc.Qsize > 0 {
			// the default hand-over channel has 10^6 slots (56 MB per interceptor): most scripts use a small one,
			// which also makes the overflow error reachable
			opts = append(opts, func(i *Interceptor) error {
				i.queueSize = sc.Qsize

				return nil
			})
		}
		f := NewInterceptor(opts...)
		ic, err := f.NewInterceptor("verif")
		if err != nil {
			return nil, err
		}

		return &vfPacingTarget{f: f, ic: ic}, nil
	})
}

//go:build verif

package flexfec

import (
	"errors"
	"bytes"
	"encoding/binary"
	"encoding/json"
	"fmt"
	"sync"
	"testing"

	"github.com/pion/interceptor"
	"github.com/pion/rtp"
)

// Scripts executed against the real FlexFEC-03 encoder; see spec/Trace_FlexFec.tla for the recorded events.
// The harness only builds the packets a script describes, calls the code and records what came back: the wire
// layout, the mask decoding and the XOR recovery are all done by TLC on the recorded canonical records.
//
// Buffer ownership: every media packet gets its own freshly allocated header slices and payload; nothing is
// reused or overwritten after a call (retention of caller buffers by the interceptor is property C13).

type vfFecPkt struct {
	M     bool    `json:"m"`
	PT    uint8   `json:"pt"`
	Seq   uint16  `json:"seq"`
	TS    []int   `json:"ts"`
	CSRC  [][]int `json:"csrc"`
	X     bool    `json:"x"`
	XP    uint16  `json:"xp"`
	XS    []vfExt `json:"xs"`
	PS    uint8   `json:"ps"`
	PL    []int   `json:"pl"`    // explicit payload bytes, or
	PLen  int     `json:"plen"`  // length and
	PSeed int64   `json:"pseed"` // seed of a deterministic byte stream, or
	PFill *int    `json:"pfill"` // a constant byte
}

type vfExt struct {
	ID uint8 `json:"id"`
	D  []int `json:"d"`
}

type vfFecBatch struct {
	N    uint32     `json:"n"`
	Pkts []vfFecPkt `json:"pkts"`
	// Rebind (icpt level): before this batch the stream is bound again (no unbind): the new binding starts with an empty
	// batch and protects exactly the packets written through it
	Rebind bool `json:"rebind"`
	// FailAt (icpt level): the next writer refuses the FailAt-th packet it is given during this batch (1-based, media and
	// repair packets counted alike; 0 = none).  Every packet it was GIVEN is logged: a refused send must not cost the others.
	FailAt int `json:"failat"`
}

type vfFecStream struct {
	S       int          `json:"s"`
	SSRC    []int        `json:"ssrc"`
	FecSSRC []int        `json:"fecssrc"`
	FecPT   uint8        `json:"fecpt"`
	Batches []vfFecBatch `json:"batches"`
}

type vfFecScript struct {
	Level   string        `json:"level"` // enc | icpt | conc | wire | enc20 | icpt20 (RFC 8627 encoder, growth of C14)
	Poison  bool          `json:"poison"`
	K       uint32        `json:"k"` // icpt/conc: NumMediaPackets
	N       uint32        `json:"n"` // icpt/conc: NumFECPackets
	Streams []vfFecStream `json:"streams"`
}

func vfBE32(b []int) uint32 {
	return uint32(b[0])<<24 | uint32(b[1])<<16 | uint32(b[2])<<8 | uint32(b[3]) //nolint:gosec
}

func vfBytes4(v uint32) []int {
	var b [4]byte
	binary.BigEndian.PutUint32(b[:], v)

	return []int{int(b[0]), int(b[1]), int(b[2]), int(b[3])}
}

func vfToBytes(in []int) []byte {
	out := make([]byte, len(in))
	for i, v := range in {
		out[i] = byte(v) //nolint:gosec
	}

	return out
}

func vfToInts(in []byte) []int {
	out := make([]int, len(in))
	for i, v := range in {
		out[i] = int(v)
	}

	return out
}

// vfFecBuild constructs the rtp header and payload a script step describes (fresh memory for every packet).
func vfFecBuild(tb testing.TB, ssrc uint32, d *vfFecPkt) (*rtp.Header, []byte) {
	tb.Helper()
	hdr := &rtp.Header{
		Version: 2, Marker: d.M, PayloadType: d.PT, SequenceNumber: d.Seq, Timestamp: vfBE32(d.TS), SSRC: ssrc,
		Padding: d.PS > 0, PaddingSize: d.PS,
	}
	for _, c := range d.CSRC {
		hdr.CSRC = append(hdr.CSRC, vfBE32(c))
	}
	if d.X {
		hdr.Extension = true
		hdr.ExtensionProfile = d.XP
		for _, e := range d.XS {
			if err := hdr.SetExtension(e.ID, vfToBytes(e.D)); err != nil {
				tb.Fatalf("VERIF-INFRA SetExtension(%d, %d bytes) profile %#x: %v", e.ID, len(e.D), d.XP, err)
			}
		}
	}
	var payload []byte
	switch {
	case d.PL != nil:
		payload = vfToBytes(d.PL)
	case d.PFill != nil:
		payload = bytes.Repeat([]byte{byte(*d.PFill)}, d.PLen) //nolint:gosec
	default:
		payload = make([]byte, d.PLen)
		x := uint64(d.PSeed)*6364136223846793005 + 1442695040888963407 //nolint:gosec
		for i := range payload {
			x = x*6364136223846793005 + 1442695040888963407
			payload[i] = byte(x >> 56)
		}
	}

	return hdr, payload
}

// vfFecRec is the canonical record of a packet: header fields + payload bytes, 32-bit fields as 4 bytes.
func vfFecRec(hdr *rtp.Header, payload []byte) vfM {
	csrc := [][]int{}
	for _, c := range hdr.CSRC {
		csrc = append(csrc, vfBytes4(c))
	}
	xs := []vfM{}
	xp := 0
	if hdr.Extension {
		xp = int(hdr.ExtensionProfile)
		for _, id := range hdr.GetExtensionIDs() {
			xs = append(xs, vfM{"id": int(id), "d": vfToInts(hdr.GetExtension(id))})
		}
	}

	return vfM{
		"p": hdr.Padding, "ps": int(hdr.PaddingSize), "x": hdr.Extension, "m": hdr.Marker, "pt": int(hdr.PayloadType),
		"seq": int(hdr.SequenceNumber), "ts": vfBytes4(hdr.Timestamp), "ssrc": vfBytes4(hdr.SSRC), "csrc": csrc,
		"xp": xp, "xs": xs, "pl": vfToInts(payload),
	}
}

func vfFecSnapshot(tb testing.TB, pkts []rtp.Packet) [][]byte {
	tb.Helper()
	out := make([][]byte, len(pkts))
	for i := range pkts {
		raw, err := pkts[i].Marshal()
		if err != nil {
			tb.Fatalf("VERIF-INFRA marshal media packet %d: %v", i, err)
		}
		out[i] = raw
	}

	return out
}

var vfFecOrigNew = bufferPool.New //nolint:gochecknoglobals

// vfFecPool selects what a scratch buffer that was never used before looks like: zeroed memory (the package's own
// constructor) or memory with earlier contents (as left behind by any previous user of the shared pool).
func vfFecPool(poison bool) {
	if !poison {
		bufferPool.New = vfFecOrigNew

		return
	}
	bufferPool.New = func() any {
		b := make([]byte, maxRTPPacketSize)
		for i := range b {
			b[i] = byte(0xA5 ^ i) //nolint:gosec
		}

		return &b
	}
}

func TestVerifFlexFecExec(t *testing.T) {
	in := vfLoad(t)
	out := vfOut(t)
	defer out.Close()
	defer vfFecPool(false)
	for _, raw := range in {
		var sc vfFecScript
		if err := json.Unmarshal(raw, &sc); err != nil {
			t.Fatalf("VERIF-INFRA bad script: %v", err)
		}
		out.Emit(vfM{"a": "reset", "level": sc.Level})
		vfFecPool(sc.Poison)
		kept := out.NewKept() // repair packets returned by EncodeFec belong to the caller: re-read at the end of the script
		vfFecKept = kept
		switch sc.Level {
		case "wire":
			vfFecRunWire(t, &sc, out)
		case "enc":
			vfFecRunEnc(t, &sc, out)
		case "enc20":
			vfFecRunEnc20(t, &sc, out)
		case "icpt20":
			vfFecRunIcpt20(t, &sc, out)
		case "icpt":
			vfFecRunIcpt(t, &sc, out, false)
		case "conc":
			vfFecRunIcpt(t, &sc, out, true)
		default:
			t.Fatalf("VERIF-INFRA unknown level %q", sc.Level)
		}
		kept.Flush()
	}
}

var vfFecKept *vfKept //nolint:gochecknoglobals

// level "wire": self-check of the specification's wire layout against pion/rtp's Marshal.
func vfFecRunWire(t *testing.T, sc *vfFecScript, out *vfWriter) {
	t.Helper()
	for i := range sc.Streams {
		st := &sc.Streams[i]
		for _, b := range st.Batches {
			for j := range b.Pkts {
				hdr, payload := vfFecBuild(t, vfBE32(st.SSRC), &b.Pkts[j])
				raw, err := (&rtp.Packet{Header: *hdr, Payload: payload}).Marshal()
				if err != nil {
					t.Fatalf("VERIF-INFRA marshal: %v", err)
				}
				out.Emit(vfM{"a": "wire", "pkt": vfFecRec(hdr, payload), "raw": vfToInts(raw)})
			}
		}
	}
}

// level "enc": FlexEncoder03.EncodeFec directly; one encoder per stream, successive batches with changing (k, n).
func vfFecRunEnc(t *testing.T, sc *vfFecScript, out *vfWriter) {
	t.Helper()
	for i := range sc.Streams {
		st := &sc.Streams[i]
		enc := NewFlexEncoder03(st.FecPT, vfBE32(st.FecSSRC))
		for _, b := range st.Batches {
			media := make([]rtp.Packet, 0, len(b.Pkts))
			recs := make([]vfM, 0, len(b.Pkts))
			for j := range b.Pkts {
				hdr, payload := vfFecBuild(t, vfBE32(st.SSRC), &b.Pkts[j])
				media = append(media, rtp.Packet{Header: *hdr, Payload: payload})
				recs = append(recs, vfFecRec(hdr, payload))
			}
			before := vfFecSnapshot(t, media)
			repairs := enc.EncodeFec(media, b.N)
			after := vfFecSnapshot(t, media)
			intact := len(before) == len(after)
			for j := range before {
				intact = intact && bytes.Equal(before[j], after[j])
			}
			outs := make([]vfM, 0, len(repairs))
			for j := range repairs {
				outs = append(outs, vfFecRec(&repairs[j].Header, repairs[j].Payload))
				rp := &repairs[j]
				vfFecKept.Keep(func() any { return vfFecRec(&rp.Header, rp.Payload) })
			}
			out.Emit(vfM{
				"a": "batch", "kind": "enc", "s": st.S, "ssrc": st.SSRC, "fecssrc": st.FecSSRC, "fecpt": int(st.FecPT),
				"n": int(b.N), "full": true, "media": recs, "out": outs, "intact": intact,
			})
		}
	}
}

// levels "icpt" / "conc": the FecInterceptor through BindLocalStream; what reaches the downstream writer is logged in
// order per stream.  "conc": one goroutine per stream, all streams on one interceptor (shared scratch-buffer pool).
func vfFecRunIcpt(t *testing.T, sc *vfFecScript, out *vfWriter, concurrent bool) {
	t.Helper()
	factory, err := NewFecInterceptor(NumMediaPackets(sc.K), NumFECPackets(sc.N))
	if err != nil {
		t.Fatalf("VERIF-INFRA factory: %v", err)
	}
	icpt, err := factory.NewInterceptor("")
	if err != nil {
		t.Fatalf("VERIF-INFRA NewInterceptor: %v", err)
	}
	events := make([][]vfM, len(sc.Streams))
	errs := make([]string, len(sc.Streams))
	run := func(idx int) {
		st := &sc.Streams[idx]
		var down []vfM // written and read by this stream's goroutine only (the interceptor calls the writer synchronously)
		info := &interceptor.StreamInfo{
			SSRC: vfBE32(st.SSRC), SSRCForwardErrorCorrection: vfBE32(st.FecSSRC), PayloadTypeForwardErrorCorrection: st.FecPT,
		}
		failAt, nGiven := 0, 0
		downW := interceptor.RTPWriterFunc(
			func(hdr *rtp.Header, payload []byte, _ interceptor.Attributes) (int, error) {
				down = append(down, vfFecRec(hdr, payload))
				if nGiven++; nGiven == failAt {
					return 0, errVfFecInjected
				}

				return len(payload), nil
			})
		writer := icpt.BindLocalStream(info, downW)
		for _, b := range st.Batches {
			recs := make([]vfM, 0, len(b.Pkts))
			down = nil
			failAt, nGiven = b.FailAt, 0
			if b.Rebind {
				writer = icpt.BindLocalStream(info, downW)
			}
			for j := range b.Pkts {
				hdr, payload := vfFecBuild(t, vfBE32(st.SSRC), &b.Pkts[j])
				recs = append(recs, vfFecRec(hdr, payload))
				if _, werr := writer.Write(hdr, payload, interceptor.Attributes{}); werr != nil && !errors.Is(werr, errVfFecInjected) {
					errs[idx] = werr.Error()

					return
				}
			}
			got := down
			if got == nil {
				got = []vfM{}
			}
			events[idx] = append(events[idx], vfM{
				"a": "batch", "kind": "icpt", "s": st.S, "ssrc": st.SSRC, "fecssrc": st.FecSSRC, "fecpt": int(st.FecPT),
				"n": int(sc.N), "full": uint32(len(b.Pkts)) == sc.K, "media": recs, "out": got, "intact": true, //nolint:gosec
				"rebind": b.Rebind,
			})
		}
		unb := *info // an equal description at another address
		icpt.UnbindLocalStream(&unb)
	}
	if concurrent {
		var wg sync.WaitGroup
		for i := range sc.Streams {
			wg.Add(1)
			go func(idx int) {
				defer wg.Done()
				run(idx)
			}(i)
		}
		wg.Wait()
	} else {
		for i := range sc.Streams {
			run(i)
		}
	}
	for i := range sc.Streams {
		if errs[i] != "" {
			t.Fatalf("VERIF-INFRA downstream write failed: %s", errs[i])
		}
		for _, e := range events[i] {
			out.Emit(e)
		}
	}
	if err := icpt.Close(); err != nil {
		t.Fatalf("VERIF-INFRA close: %v", err)
	}
}

var errVfFecInjected error = vfInjErr{"injected downstream write failure"} //nolint:gochecknoglobals

// ---- growth of C14: the RFC 8627 encoder (FlexEncoder20), see spec/Trace_FlexFec20.tla --------------------------------

// vfFec20Factory plugs FlexEncoder20 into the interceptor through the FECEncoderFactory option.
type vfFec20Factory struct{}

func (vfFec20Factory) NewEncoder(payloadType uint8, ssrc uint32) FlexEncoder {
	return NewFlexEncoder(payloadType, ssrc)
}

// vfFecGuard runs fn and returns the text of a panic it raised ("" if none): FlexEncoder20 is documented as work in
// progress and a crash of it is recorded as an observation, it must not take the harness down.
func vfFecGuard(fn func()) (msg string) {
	defer func() {
		if r := recover(); r != nil {
			msg = fmt.Sprint(r)
			if msg == "" {
				msg = "panic"
			}
		}
	}()
	fn()

	return ""
}

// level "enc20": FlexEncoder20.EncodeFec directly; one encoder per stream, successive batches.
func vfFecRunEnc20(t *testing.T, sc *vfFecScript, out *vfWriter) {
	t.Helper()
	for i := range sc.Streams {
		st := &sc.Streams[i]
		enc := NewFlexEncoder(st.FecPT, vfBE32(st.FecSSRC))
		for _, b := range st.Batches {
			media := make([]rtp.Packet, 0, len(b.Pkts))
			recs := make([]vfM, 0, len(b.Pkts))
			for j := range b.Pkts {
				hdr, payload := vfFecBuild(t, vfBE32(st.SSRC), &b.Pkts[j])
				media = append(media, rtp.Packet{Header: *hdr, Payload: payload})
				recs = append(recs, vfFecRec(hdr, payload))
			}
			before := vfFecSnapshot(t, media)
			var repairs []rtp.Packet
			msg := vfFecGuard(func() { repairs = enc.EncodeFec(media, b.N) })
			after := vfFecSnapshot(t, media)
			intact := len(before) == len(after)
			for j := range before {
				intact = intact && bytes.Equal(before[j], after[j])
			}
			outs := make([]vfM, 0, len(repairs))
			if msg == "" {
				for j := range repairs {
					outs = append(outs, vfFecRec(&repairs[j].Header, repairs[j].Payload))
				}
			}
			out.Emit(vfM{
				"a": "batch", "kind": "enc", "s": st.S, "ssrc": st.SSRC, "fecssrc": st.FecSSRC, "fecpt": int(st.FecPT),
				"n": int(b.N), "full": true, "media": recs, "out": outs, "intact": intact, "panic": msg,
			})
			if msg != "" {
				break // the encoder's state after a panic is undefined: abandon this stream
			}
		}
	}
}

// level "icpt20": the FecInterceptor with FECEncoderFactory(FlexEncoder20), sequentially, one stream after the other.
func vfFecRunIcpt20(t *testing.T, sc *vfFecScript, out *vfWriter) {
	t.Helper()
	factory, err := NewFecInterceptor(NumMediaPackets(sc.K), NumFECPackets(sc.N), FECEncoderFactory(vfFec20Factory{}))
	if err != nil {
		t.Fatalf("VERIF-INFRA factory: %v", err)
	}
	icpt, err := factory.NewInterceptor("")
	if err != nil {
		t.Fatalf("VERIF-INFRA NewInterceptor: %v", err)
	}
	for i := range sc.Streams {
		st := &sc.Streams[i]
		var down []vfM
		info := &interceptor.StreamInfo{
			SSRC: vfBE32(st.SSRC), SSRCForwardErrorCorrection: vfBE32(st.FecSSRC), PayloadTypeForwardErrorCorrection: st.FecPT,
		}
		writer := icpt.BindLocalStream(info, interceptor.RTPWriterFunc(
			func(hdr *rtp.Header, payload []byte, _ interceptor.Attributes) (int, error) {
				down = append(down, vfFecRec(hdr, payload))

				return len(payload), nil
			}))
		for _, b := range st.Batches {
			recs := make([]vfM, 0, len(b.Pkts))
			down = nil
			msg := ""
			for j := range b.Pkts {
				hdr, payload := vfFecBuild(t, vfBE32(st.SSRC), &b.Pkts[j])
				recs = append(recs, vfFecRec(hdr, payload))
				msg = vfFecGuard(func() {
					if _, werr := writer.Write(hdr, payload, interceptor.Attributes{}); werr != nil {
						t.Fatalf("VERIF-INFRA downstream write failed: %v", werr)
					}
				})
				if msg != "" {
					break
				}
			}
			got := down
			if got == nil || msg != "" {
				got = []vfM{}
			}
			out.Emit(vfM{
				"a": "batch", "kind": "icpt", "s": st.S, "ssrc": st.SSRC, "fecssrc": st.FecSSRC, "fecpt": int(st.FecPT),
				"n": int(sc.N), "full": uint32(len(b.Pkts)) == sc.K, "media": recs, "out": got, "intact": true, //nolint:gosec
				"panic": msg,
			})
			if msg != "" {
				break // the stream's mutex is still held by the panicked Write: any further write would block for ever
			}
		}
	}
}

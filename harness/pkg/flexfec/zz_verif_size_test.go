//go:build verif

package flexfec

import (
	"testing"
	"time"

	"github.com/pion/interceptor"
	"github.com/pion/rtp"
)

// Container-size probe of the FlexFEC encoder interceptor (C12, spec/Sizes.tla): streams map and the per-stream batch.
type szFec struct {
	ic      *FecInterceptor
	writers map[uint32]interceptor.RTPWriter
}

func szFecInfo(ssrc uint32, enabled bool) *interceptor.StreamInfo {
	info := &interceptor.StreamInfo{SSRC: ssrc, PayloadType: 96}
	if enabled {
		info.PayloadTypeForwardErrorCorrection, info.SSRCForwardErrorCorrection = 118, ssrc+100000
	}

	return info
}

func (d *szFec) Reset(tb testing.TB, sc *szScript) map[string]int {
	opts := []FecOption{}
	if sc.Cfg["nmedia"] > 0 {
		opts = append(opts, NumMediaPackets(uint32(sc.Cfg["nmedia"])), NumFECPackets(uint32(max(sc.Cfg["nfec"], 1)))) //nolint:gosec
	}
	f, _ := NewFecInterceptor(opts...)
	ic, err := f.NewInterceptor("")
	if err != nil {
		tb.Fatalf("VERIF-INFRA flexfec: %v", err)
	}
	d.ic, _ = ic.(*FecInterceptor)
	d.writers = map[uint32]interceptor.RTPWriter{}

	return map[string]int{"nmedia": int(d.ic.numMediaPackets), "nfec": int(d.ic.numFecPackets)}
}

func (d *szFec) Bind(ssrc uint32, enabled bool) {
	d.writers[ssrc] = d.ic.BindLocalStream(szFecInfo(ssrc, enabled), interceptor.RTPWriterFunc(
		func(*rtp.Header, []byte, interceptor.Attributes) (int, error) { return 0, nil }))
}

func (d *szFec) Unbind(ssrc uint32) {
	d.ic.UnbindLocalStream(szFecInfo(ssrc, true))
	delete(d.writers, ssrc)
}

func (d *szFec) Pkt(st *szStep) bool {
	_, err := d.writers[st.SSRC].Write(&rtp.Header{Version: 2, SSRC: st.HS, SequenceNumber: uint16(st.T), //nolint:gosec
		PayloadType: 96, Timestamp: uint32(st.T) * 3000}, make([]byte, 30), nil) //nolint:gosec

	return err == nil
}
func (d *szFec) Feedback(*szFb)       {}
func (d *szFec) Tick(time.Time)       {}
func (d *szFec) Drain(time.Time) bool { return false }
func (d *szFec) Close()               { _ = d.ic.Close() }

func (d *szFec) Sizes() (map[string]int, map[string]int) {
	d.ic.mu.Lock()
	defer d.ic.mu.Unlock()
	batch := 0
	for _, s := range d.ic.streams {
		s.mu.Lock()
		batch = max(batch, len(s.packetBuffer))
		s.mu.Unlock()
	}

	return map[string]int{"fecStreams": len(d.ic.streams), "fecBatch": batch}, nil
}

func TestVerifSizeExec(t *testing.T) {
	szMain(t, "flexfec", map[string]func() szDriver{"flexfec": func() szDriver { return &szFec{} }})
}

//go:build verif

package flexfec

import (
	"encoding/json"
	"fmt"
	"testing"

	"github.com/pion/logging"
	"github.com/pion/rtp"
)

// Growth of C14: round-trip scripts encoder -> lossy channel -> decoder, see spec/Trace_FlexFecDec.tla for the events.
// The REAL FlexEncoder03 protects the media packets a script describes, the harness plays the channel (which packets are
// delivered, in which order, how often; byte operations on a repair payload for the header error cases) and every
// delivery is one call of the REAL fecDecoder.DecodeFec; what it returns is logged as marshalled bytes.  Nothing is
// computed here: mask decoding, XOR recovery, the peeling closure and the buffer limits are evaluated by TLC.
// Uses vfFecPkt / vfFecBuild / vfFecRec / vfFecPool of zz_verif_flexfec_test.go (same package).

type vfDecOp struct {
	Op string `json:"op"` // or | and | xor | set | trunc
	I  int    `json:"i"`
	V  int    `json:"v"`
}

type vfDecEnc struct {
	E    int    `json:"e"`    // encoder 0 | 1
	At   int    `json:"at"`   // index of the first media packet
	K    int    `json:"k"`    // number of media packets
	N    uint32 `json:"n"`    // number of repair packets asked for
	Skip int    `json:"skip"` // repair numbers burnt before (one-packet batches whose repair packets are never delivered)
}

type vfDecStep struct {
	T   string    `json:"t"` // m | f | x
	I   int       `json:"i"` // m: media index
	C   int       `json:"c"` // f: encoding index
	J   int       `json:"j"` // f: repair packet index within the encoding
	Mut []vfDecOp `json:"mut"`
}

type vfDecScript struct {
	Level   string      `json:"level"`
	Poison  bool        `json:"poison"`
	SSRC    []int       `json:"ssrc"`
	FecSSRC []int       `json:"fecssrc"`
	FecPT   uint8       `json:"fecpt"`
	Media   []vfFecPkt  `json:"media"`
	Encs    []vfDecEnc  `json:"encs"`
	Steps   []vfDecStep `json:"steps"`
}

// vfDecLogger counts what the decoder logs; an error logged more than vfDecLoopLimit times inside ONE DecodeFec call means
// the recovery loop does not terminate (every round logs): the call is abandoned through a panic with this sentinel.
type vfDecLivelock struct{}

const vfDecLoopLimit = 2000

type vfDecLogger struct {
	errs int
}

func (l *vfDecLogger) Trace(string)          {}
func (l *vfDecLogger) Tracef(string, ...any) {}
func (l *vfDecLogger) Debug(string)          {}
func (l *vfDecLogger) Debugf(string, ...any) {}
func (l *vfDecLogger) Info(string)           {}
func (l *vfDecLogger) Infof(string, ...any)  {}
func (l *vfDecLogger) Warn(string)           {}
func (l *vfDecLogger) Warnf(string, ...any)  {}
func (l *vfDecLogger) Error(string)          { l.bump() }
func (l *vfDecLogger) Errorf(string, ...any) { l.bump() }

func (l *vfDecLogger) bump() {
	l.errs++
	if l.errs > vfDecLoopLimit {
		panic(vfDecLivelock{})
	}
}

type vfDecLoggerFactory struct{ l *vfDecLogger }

func (f vfDecLoggerFactory) NewLogger(string) logging.LeveledLogger { return f.l }

func vfDecApply(pl []byte, ops []vfDecOp) []byte {
	out := append([]byte(nil), pl...)
	for _, o := range ops {
		if o.Op == "trunc" {
			if o.I < len(out) {
				out = out[:o.I]
			}

			continue
		}
		if o.I >= len(out) {
			continue
		}
		switch o.Op {
		case "or":
			out[o.I] |= byte(o.V) //nolint:gosec
		case "and":
			out[o.I] &= byte(o.V) //nolint:gosec
		case "xor":
			out[o.I] ^= byte(o.V) //nolint:gosec
		case "set":
			out[o.I] = byte(o.V) //nolint:gosec
		}
	}

	return out
}

// vfDecCall performs one DecodeFec call; a panic of the (work in progress) decoder is an observation, not a harness failure.
func vfDecCall(dec *fecDecoder, lg *vfDecLogger, pkt rtp.Packet) (out []rtp.Packet, errText string) {
	lg.errs = 0
	defer func() {
		if r := recover(); r != nil {
			out = nil
			if _, ok := r.(vfDecLivelock); ok {
				errText = "hang"
			} else {
				errText = "panic: " + fmt.Sprint(r)
			}
		}
	}()

	return dec.DecodeFec(pkt), ""
}

func vfDecOuts(pkts []rtp.Packet) []vfM {
	outs := make([]vfM, 0, len(pkts))
	for i := range pkts {
		raw, err := pkts[i].Marshal()
		merr := ""
		if err != nil {
			merr = err.Error()
			raw = nil
		}
		outs = append(outs, vfM{"seq": int(pkts[i].SequenceNumber), "raw": vfToInts(raw), "merr": merr})
	}

	return outs
}

// vfDecParse records what parseFlexFEC03Header / decodeMask make of a repair payload (a panic is an observation).
func vfDecParse(pl []byte) (res vfM) {
	defer func() {
		if r := recover(); r != nil {
			res = vfM{"ok": false, "ssrc": []int{}, "snbase": 0, "prot": []int{}, "body": 0, "panic": fmt.Sprint(r)}
		}
	}()
	fec, err := parseFlexFEC03Header(pl)
	if err != nil {
		return vfM{"ok": false, "ssrc": []int{}, "snbase": 0, "prot": []int{}, "body": 0, "panic": ""}
	}
	prot := []int{}
	for _, s := range decodeMask(uint64(fec.mask0), 15, fec.seqNumBase) {
		prot = append(prot, int(s))
	}
	for _, s := range decodeMask(uint64(fec.mask1), 31, fec.seqNumBase+15) {
		prot = append(prot, int(s))
	}
	for _, s := range decodeMask(fec.mask2, 63, fec.seqNumBase+46) {
		prot = append(prot, int(s))
	}

	return vfM{
		"ok": true, "ssrc": vfBytes4(fec.protectedSSRC), "snbase": int(fec.seqNumBase), "prot": prot, "body": len(fec.payload),
		"panic": "",
	}
}

func TestVerifFecDecExec(t *testing.T) {
	in := vfLoad(t)
	out := vfOut(t)
	defer out.Close()
	defer vfFecPool(false)
	for _, raw := range in {
		var sc vfDecScript
		if err := json.Unmarshal(raw, &sc); err != nil {
			t.Fatalf("VERIF-INFRA bad script: %v", err)
		}
		out.Emit(vfM{"a": "reset", "level": sc.Level, "ssrc": sc.SSRC, "fecssrc": sc.FecSSRC})
		vfFecPool(sc.Poison)
		vfDecRun(t, &sc, out)
	}
}

func vfDecRun(t *testing.T, sc *vfDecScript, out *vfWriter) {
	t.Helper()
	ssrc, fecSSRC := vfBE32(sc.SSRC), vfBE32(sc.FecSSRC)
	if ssrc == fecSSRC {
		t.Fatalf("VERIF-INFRA media and repair SSRC must differ")
	}
	build := func(i int) rtp.Packet { // fresh memory for every use of a packet
		hdr, payload := vfFecBuild(t, ssrc, &sc.Media[i])

		return rtp.Packet{Header: *hdr, Payload: payload}
	}
	recs := make([]vfM, 0, len(sc.Media))
	for i := range sc.Media {
		p := build(i)
		recs = append(recs, vfFecRec(&p.Header, p.Payload))
	}
	out.Emit(vfM{"a": "media", "pkts": recs})

	// the sender: the real encoder(s)
	encoders := map[int]*FlexEncoder03{}
	repairs := make([][]rtp.Packet, len(sc.Encs))
	filler := vfFecPkt{PT: 96, TS: []int{0, 0, 0, 0}, PL: []int{}}
	for c, e := range sc.Encs {
		enc := encoders[e.E]
		if enc == nil {
			enc = NewFlexEncoder03(sc.FecPT, fecSSRC)
			encoders[e.E] = enc
		}
		for s := 0; s < e.Skip; s++ {
			hdr, payload := vfFecBuild(t, ssrc, &filler)
			enc.EncodeFec([]rtp.Packet{{Header: *hdr, Payload: payload}}, 1)
		}
		if e.At < 0 || e.K < 1 || e.At+e.K > len(sc.Media) {
			t.Fatalf("VERIF-INFRA encoding %d outside the media list", c)
		}
		batch := make([]rtp.Packet, 0, e.K)
		for i := e.At; i < e.At+e.K; i++ {
			batch = append(batch, build(i))
		}
		repairs[c] = enc.EncodeFec(batch, e.N)
		rr := make([]vfM, 0, len(repairs[c]))
		for j := range repairs[c] {
			rr = append(rr, vfFecRec(&repairs[c][j].Header, repairs[c][j].Payload))
		}
		out.Emit(vfM{"a": "enc", "c": c, "e": e.E, "at": e.At, "k": e.K, "n": int(e.N), "reps": rr})
	}

	// the receiver: the real decoder behind the scripted channel
	lg := &vfDecLogger{}
	dec := newFECDecoder(fecSSRC, ssrc, vfDecLoggerFactory{lg})
	for _, st := range sc.Steps {
		ev := vfM{
			"a": "recv", "t": st.T, "i": st.I, "c": st.C, "j": st.J, "seq": 0, "pl": []int{}, "mutated": len(st.Mut) > 0,
			"ph": vfM{"ok": false, "ssrc": []int{}, "snbase": 0, "prot": []int{}, "body": 0, "panic": ""},
		}
		var pkt rtp.Packet
		switch st.T {
		case "m":
			if st.I < 0 || st.I >= len(sc.Media) {
				t.Fatalf("VERIF-INFRA media index %d", st.I)
			}
			pkt = build(st.I)
			ev["seq"] = int(pkt.SequenceNumber)
		case "f":
			if st.C < 0 || st.C >= len(repairs) {
				t.Fatalf("VERIF-INFRA encoding index %d", st.C)
			}
			if st.J < 0 || st.J >= len(repairs[st.C]) { // the encoder produced fewer repair packets: nothing to deliver
				ev["t"] = "-"
				ev["out"] = []vfM{}
				ev["err"] = ""
				ev["nerr"] = 0
				out.Emit(ev)

				continue
			}
			src := repairs[st.C][st.J]
			pl := vfDecApply(src.Payload, st.Mut)
			pkt = rtp.Packet{Header: src.Header.Clone(), Payload: pl}
			ev["seq"] = int(pkt.SequenceNumber)
			ev["pl"] = vfToInts(pl)
			ev["ph"] = vfDecParse(append([]byte(nil), pl...))
			if pkt.SSRC != fecSSRC {
				t.Fatalf("VERIF-INFRA repair packet carries SSRC %d", pkt.SSRC)
			}
		case "x":
			pkt = rtp.Packet{Header: rtp.Header{Version: 2, PayloadType: 111, SequenceNumber: 7, SSRC: ssrc ^ fecSSRC ^ 0x5a5a5a5a}, Payload: []byte{1, 2, 3}}
			for pkt.SSRC == ssrc || pkt.SSRC == fecSSRC {
				pkt.SSRC++
			}
		default:
			t.Fatalf("VERIF-INFRA unknown step %q", st.T)
		}
		got, errText := vfDecCall(dec, lg, pkt)
		ev["out"] = vfDecOuts(got)
		ev["err"] = errText
		ev["nerr"] = lg.errs
		out.Emit(ev)
		if errText != "" {
			return // the decoder's state after a panic / an abandoned call is undefined
		}
	}
}

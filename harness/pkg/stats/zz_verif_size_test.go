//go:build verif

package stats

import (
	"sync/atomic"
	"testing"
	"time"

	"github.com/pion/interceptor"
	"github.com/pion/rtcp"
	"github.com/pion/rtp"
)

// Container-size probe of the stats interceptor (C12, spec/Sizes.tla): the recorders map and, per recorder, the histories
// of sender report / receiver reference times.  Even slots are bound as local, odd slots as remote streams; Tick writes
// one compound RTCP packet (a sender report per bound stream and an extended report with two RRTR blocks).
type szStats struct {
	tb      testing.TB
	ic      *Interceptor
	now     time.Time
	writers map[uint32]interceptor.RTPWriter
	readers map[uint32]interceptor.RTPReader
	next    []byte
	rtcpOut interceptor.RTCPWriter
	ntp     uint64
}

func (d *szStats) Reset(tb testing.TB, _ *szScript) map[string]int {
	d.tb = tb
	f, _ := NewInterceptor(SetNowFunc(func() time.Time { return d.now }))
	ic, err := f.NewInterceptor("")
	if err != nil {
		tb.Fatalf("VERIF-INFRA stats: %v", err)
	}
	d.ic, _ = ic.(*Interceptor)
	d.writers, d.readers = map[uint32]interceptor.RTPWriter{}, map[uint32]interceptor.RTPReader{}
	d.rtcpOut = d.ic.BindRTCPWriter(interceptor.RTCPWriterFunc(func(p []rtcp.Packet, _ interceptor.Attributes) (int, error) {
		return len(p), nil
	}))
	probe := newRecorder(1, 90000, d.ic.loggerFactory)

	return map[string]int{"maxsr": probe.maxLastSenderReports, "maxrrtr": probe.maxLastReceiverReferenceTimes}
}

func (d *szStats) Bind(ssrc uint32, _ bool) {
	info := &interceptor.StreamInfo{SSRC: ssrc, ClockRate: 90000}
	if ssrc%2 == 0 {
		d.writers[ssrc] = d.ic.BindLocalStream(info, interceptor.RTPWriterFunc(
			func(*rtp.Header, []byte, interceptor.Attributes) (int, error) { return 0, nil }))
	} else {
		d.readers[ssrc] = d.ic.BindRemoteStream(info, interceptor.RTPReaderFunc(
			func(b []byte, a interceptor.Attributes) (int, interceptor.Attributes, error) { return copy(b, d.next), a, nil }))
	}
	d.ic.lock.Lock()
	rec, _ := d.ic.recorders[ssrc].(*recorder)
	d.ic.lock.Unlock()
	for i := 0; rec != nil && atomic.LoadUint32(&rec.running) == 0; i++ { // the recorder is started asynchronously
		if i > 200000 {
			d.tb.Fatalf("VERIF-INFRA stats recorder never started")
		}
		time.Sleep(50 * time.Microsecond)
	}
}

func (d *szStats) Unbind(ssrc uint32) {
	info := &interceptor.StreamInfo{SSRC: ssrc, ClockRate: 90000}
	if ssrc%2 == 0 {
		d.ic.UnbindLocalStream(info)
		delete(d.writers, ssrc)
	} else {
		d.ic.UnbindRemoteStream(info)
		delete(d.readers, ssrc)
	}
}

func (d *szStats) Pkt(st *szStep) bool {
	d.now = st.Now
	h := rtp.Header{Version: 2, SSRC: st.HS, SequenceNumber: uint16(st.T), Timestamp: uint32(st.T) * 3000} //nolint:gosec
	if w := d.writers[st.SSRC]; w != nil {
		_, err := w.Write(&h, make([]byte, 20), nil)

		return err == nil
	}
	d.next, _ = (&rtp.Packet{Header: h, Payload: []byte{1}}).Marshal()
	_, _, err := d.readers[st.SSRC].Read(make([]byte, 1500), nil)

	return err == nil
}
func (d *szStats) Feedback(*szFb) {}

func (d *szStats) Tick(now time.Time) {
	d.now = now
	pkts := []rtcp.Packet{}
	for ssrc := range d.writers {
		d.ntp += 1 << 20
		pkts = append(pkts, &rtcp.SenderReport{SSRC: ssrc, NTPTime: d.ntp})
	}
	d.ntp += 1 << 20
	pkts = append(pkts, &rtcp.ExtendedReport{SenderSSRC: 7, Reports: []rtcp.ReportBlock{
		&rtcp.ReceiverReferenceTimeReportBlock{NTPTimestamp: d.ntp}, &rtcp.ReceiverReferenceTimeReportBlock{NTPTimestamp: d.ntp + 1}}})
	_, _ = d.rtcpOut.Write(pkts, nil)
}
func (d *szStats) Drain(time.Time) bool { return false }
func (d *szStats) Close()               { _ = d.ic.Close() }

func (d *szStats) Sizes() (map[string]int, map[string]int) {
	d.ic.lock.Lock()
	defer d.ic.lock.Unlock()
	sr, rrtr := 0, 0
	for _, r := range d.ic.recorders {
		if rec, ok := r.(*recorder); ok {
			rec.ms.Lock()
			sr = max(sr, len(rec.latestStats.lastSenderReports))
			rrtr = max(rrtr, len(rec.latestStats.lastReceiverReferenceTimes))
			rec.ms.Unlock()
		}
	}

	return map[string]int{"recorders": len(d.ic.recorders), "srHist": sr, "rrtrHist": rrtr}, nil
}

func TestVerifSizeExec(t *testing.T) {
	szMain(t, "stats", map[string]func() szDriver{"stats": func() szDriver { return &szStats{} }})
}

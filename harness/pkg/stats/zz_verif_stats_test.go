//go:build verif

package stats

import (
	"encoding/json"
	"math"
	"sync/atomic"
	"testing"
	"time"

	"github.com/pion/interceptor"
	"github.com/pion/logging"
	"github.com/pion/rtcp"
	"github.com/pion/rtp"
)

// Script executed against the real code; every step is logged as one trace event (see spec/Trace_Stats.tla).
// The harness only builds packets from the abstract description, drives the code and records what Get returns.
type vfStatsRep struct {
	S    uint32 `json:"s"`
	Lost uint32 `json:"lost"`
	Frac uint8  `json:"frac"`
	Hi   uint32 `json:"hi"`
	Jit  uint32 `json:"jit"`
	Lsr  int64  `json:"lsr"`  // clock value (ms offset) whose NTP middle 32 bits are echoed, -1: zero on the wire
	Dlsr uint32 `json:"dlsr"` // 1/65536 s
}

type vfStatsPkt struct {
	T   string       `json:"t"`
	Ss  uint32       `json:"ss"`
	Ms  uint32       `json:"ms"`
	N   int          `json:"n"`
	Ntp int64        `json:"ntp"` // clock value (ms offset), -1: none
	Pc  uint32       `json:"pc"`
	Oc  uint32       `json:"oc"`
	Rp  []vfStatsRep `json:"rp"`
}

type vfStatsStep struct {
	A    string       `json:"a"`
	S    uint32       `json:"s"`
	P    uint32       `json:"p"`
	W    uint16       `json:"w"`
	Hl   int          `json:"hl"`
	Pl   int          `json:"pl"`
	Now  int64        `json:"now"` // ms offset from vfStatsBase
	Rate uint32       `json:"rate"`
	D    string       `json:"d"`
	Pk   []vfStatsPkt `json:"pk"`
	// Inw (ircp, interceptor level, directly after an orcp step): the packet is read while the transport-side writer of
	// that orcp step is still inside Write (a slow transport, the reader running on another goroutine)
	Inw bool `json:"inw"`
}

type vfStatsScript struct {
	Level string        `json:"level"` // "rec": recorder directly, "icpt": Interceptor through its public interface
	Steps []vfStatsStep `json:"steps"`
}

var vfStatsBase = time.Unix(1_700_000_000, 0) //nolint:gochecknoglobals

func vfStatsAt(ms int64) time.Time { return vfStatsBase.Add(time.Duration(ms) * time.Millisecond) }

// vfStatsNTP is an exact integer conversion (floor to 2^-32 s), independent of internal/ntp.
func vfStatsNTP(ms int64) uint64 {
	t := vfStatsAt(ms)
	sec := uint64(t.Unix() + 2208988800)          //nolint:gosec
	frac := (uint64(t.Nanosecond()) << 32) / 1e9 //nolint:gosec

	return sec<<32 | frac
}

func vfStatsMid(ms int64) uint32 {
	if ms < 0 {
		return 0
	}

	return uint32(vfStatsNTP(ms) >> 16) //nolint:gosec
}

func vfStatsHeader(tb testing.TB, st *vfStatsStep) rtp.Header {
	tb.Helper()
	h := rtp.Header{Version: 2, PayloadType: 96, SSRC: st.P, SequenceNumber: st.W, Timestamp: uint32(st.Now) * 90} //nolint:gosec
	words := (st.Hl - 12) / 4
	if st.Hl < 12 || st.Hl%4 != 0 {
		tb.Fatalf("VERIF-INFRA header length %d cannot be built", st.Hl)
	}
	nc := words
	if nc > 15 {
		nc = 15
	}
	for i := 0; i < nc; i++ {
		h.CSRC = append(h.CSRC, uint32(1000+i)) //nolint:gosec
	}
	if rest := words - nc; rest > 0 {
		// one-byte extension: 4 bytes of extension header + (1 + len) padded to a multiple of 4
		if rest < 2 || rest > 5 {
			tb.Fatalf("VERIF-INFRA header length %d cannot be built", st.Hl)
		}
		if err := h.SetExtension(1, make([]byte, (rest-1)*4-1)); err != nil {
			tb.Fatalf("VERIF-INFRA SetExtension: %v", err)
		}
	}
	if h.MarshalSize() != st.Hl {
		tb.Fatalf("VERIF-INFRA header length %d built as %d", st.Hl, h.MarshalSize())
	}

	return h
}

func vfStatsReports(rp []vfStatsRep) []rtcp.ReceptionReport {
	out := make([]rtcp.ReceptionReport, 0, len(rp))
	for _, r := range rp {
		out = append(out, rtcp.ReceptionReport{
			SSRC: r.S, FractionLost: r.Frac, TotalLost: r.Lost, LastSequenceNumber: r.Hi, Jitter: r.Jit,
			LastSenderReport: vfStatsMid(r.Lsr), Delay: r.Dlsr,
		})
	}

	return out
}

func vfStatsPackets(tb testing.TB, pk []vfStatsPkt) []rtcp.Packet {
	tb.Helper()
	out := make([]rtcp.Packet, 0, len(pk))
	for _, p := range pk {
		switch p.T {
		case "sr":
			out = append(out, &rtcp.SenderReport{
				SSRC: p.Ss, NTPTime: vfStatsNTP(p.Ntp), RTPTime: uint32(p.Ntp) * 90, //nolint:gosec
				PacketCount: p.Pc, OctetCount: p.Oc, Reports: vfStatsReports(p.Rp),
			})
		case "rr":
			out = append(out, &rtcp.ReceiverReport{SSRC: p.Ss, Reports: vfStatsReports(p.Rp)})
		case "xr":
			xr := &rtcp.ExtendedReport{SenderSSRC: p.Ss}
			var rrtr rtcp.ReportBlock
			if p.Ntp >= 0 {
				rrtr = &rtcp.ReceiverReferenceTimeReportBlock{NTPTimestamp: vfStatsNTP(p.Ntp)}
			}
			if rrtr != nil && p.N%2 == 1 {
				xr.Reports = append(xr.Reports, rrtr)
			}
			subs := make([]rtcp.DLRRReport, 0, len(p.Rp))
			for _, r := range p.Rp {
				subs = append(subs, rtcp.DLRRReport{SSRC: r.S, LastRR: vfStatsMid(r.Lsr), DLRR: r.Dlsr})
			}
			if p.N >= 2 { // one DLRR block per sub-block
				for i := range subs {
					xr.Reports = append(xr.Reports, &rtcp.DLRRReportBlock{Reports: subs[i : i+1]})
				}
			} else if len(subs) > 0 {
				xr.Reports = append(xr.Reports, &rtcp.DLRRReportBlock{Reports: subs})
			}
			if rrtr != nil && p.N%2 == 0 {
				xr.Reports = append(xr.Reports, rrtr)
			}
			out = append(out, xr)
		case "nack":
			seqs := make([]uint16, 0, p.N)
			for i := 0; i < p.N; i++ {
				seqs = append(seqs, uint16(100+3*i)) //nolint:gosec
			}
			out = append(out, &rtcp.TransportLayerNack{
				SenderSSRC: p.Ss, MediaSSRC: p.Ms, Nacks: rtcp.NackPairsFromSequenceNumbers(seqs),
			})
		case "pli":
			out = append(out, &rtcp.PictureLossIndication{SenderSSRC: p.Ss, MediaSSRC: p.Ms})
		case "fir":
			fir := &rtcp.FullIntraRequest{SenderSSRC: p.Ss, MediaSSRC: p.Ms}
			for i, r := range p.Rp {
				fir.FIR = append(fir.FIR, rtcp.FIREntry{SSRC: r.S, SequenceNumber: uint8(i)}) //nolint:gosec
			}
			out = append(out, fir)
		default:
			tb.Fatalf("VERIF-INFRA unknown RTCP packet type %q", p.T)
		}
	}

	return out
}

func vfStatsClamp(v int64) int64 {
	if v > math.MaxInt32 {
		return math.MaxInt32
	}
	if v < -math.MaxInt32 {
		return -math.MaxInt32
	}

	return v
}

func vfStatsU(v uint64) int64 {
	if v > math.MaxInt32 {
		return math.MaxInt32
	}

	return int64(v)
}

func vfStatsMicros(d time.Duration) int64 { return vfStatsClamp(int64(math.Round(float64(d) / 1000))) }

func vfStatsScaled(x float64) int64 {
	if math.IsNaN(x) || math.IsInf(x, 0) {
		return -math.MaxInt32
	}

	return vfStatsClamp(int64(math.Round(x * 1e6)))
}

// vfStatsProject records what Get returned; floating point and time fields as scaled integers.
func vfStatsProject(s *Stats) vfM {
	ilt := int64(-1)
	if !s.LastPacketReceivedTimestamp.IsZero() {
		d := s.LastPacketReceivedTimestamp.Sub(vfStatsBase)
		if d%time.Millisecond != 0 {
			ilt = -2
		} else {
			ilt = vfStatsClamp(int64(d / time.Millisecond))
		}
	}
	sts := int64(-1)
	if !s.RemoteTimeStamp.IsZero() {
		sts = vfStatsMicros(s.RemoteTimeStamp.Sub(vfStatsBase))
	}

	return vfM{
		"ipr": vfStatsU(s.InboundRTPStreamStats.PacketsReceived), "ipl": vfStatsClamp(s.InboundRTPStreamStats.PacketsLost),
		"ilt": ilt, "ihb": vfStatsU(s.HeaderBytesReceived), "ib": vfStatsU(s.BytesReceived),
		"ifir": s.InboundRTPStreamStats.FIRCount, "ipli": s.InboundRTPStreamStats.PLICount,
		"inack": s.InboundRTPStreamStats.NACKCount,
		"ops":   vfStatsU(s.OutboundRTPStreamStats.PacketsSent), "ob": vfStatsU(s.OutboundRTPStreamStats.BytesSent),
		"ohb": vfStatsU(s.HeaderBytesSent), "onack": s.OutboundRTPStreamStats.NACKCount,
		"ofir": s.OutboundRTPStreamStats.FIRCount, "opli": s.OutboundRTPStreamStats.PLICount,
		"rpr":  vfStatsU(s.RemoteInboundRTPStreamStats.PacketsReceived),
		"rpl":  vfStatsClamp(s.RemoteInboundRTPStreamStats.PacketsLost),
		"rjit": vfStatsScaled(s.RemoteInboundRTPStreamStats.Jitter), "rfrac": vfStatsScaled(s.FractionLost),
		"rrtt": vfStatsMicros(s.RemoteInboundRTPStreamStats.RoundTripTime),
		"rtot": vfStatsMicros(s.RemoteInboundRTPStreamStats.TotalRoundTripTime),
		"rn":   vfStatsU(s.RemoteInboundRTPStreamStats.RoundTripTimeMeasurements),
		"sps":  vfStatsU(s.RemoteOutboundRTPStreamStats.PacketsSent), "sb": vfStatsU(s.RemoteOutboundRTPStreamStats.BytesSent),
		"sts": sts, "sn": vfStatsU(s.ReportsSent),
		"srtt": vfStatsMicros(s.RemoteOutboundRTPStreamStats.RoundTripTime),
		"stot": vfStatsMicros(s.RemoteOutboundRTPStreamStats.TotalRoundTripTime),
		"sm":   vfStatsU(s.RemoteOutboundRTPStreamStats.RoundTripTimeMeasurements),
	}
}

func vfStatsEcho(st *vfStatsStep) vfM {
	switch st.A {
	case "bind", "unbind":
		return vfM{"a": st.A, "s": st.S, "rate": st.Rate, "d": st.D}
	case "irtp", "ortp":
		return vfM{"a": st.A, "s": st.S, "p": st.P, "w": st.W, "hl": st.Hl, "pl": st.Pl, "now": st.Now}
	default:
		pk := st.Pk
		if pk == nil {
			pk = []vfStatsPkt{}
		}
		for i := range pk {
			if pk[i].Rp == nil {
				pk[i].Rp = []vfStatsRep{}
			}
		}

		return vfM{"a": st.A, "now": st.Now, "pk": pk}
	}
}

func vfStatsGet(out *vfWriter, ssrc uint32, s *Stats) {
	if s == nil {
		out.Emit(vfM{"a": "get", "s": ssrc, "nil": true, "out": vfM{}})

		return
	}
	out.Emit(vfM{"a": "get", "s": ssrc, "nil": false, "out": vfStatsProject(s)})
}

func TestVerifStatsExec(t *testing.T) {
	in := vfLoad(t)
	out := vfOut(t)
	defer out.Close()
	for _, raw := range in {
		var sc vfStatsScript
		if err := json.Unmarshal(raw, &sc); err != nil {
			t.Fatalf("VERIF-INFRA bad script: %v", err)
		}
		out.Emit(vfM{"a": "reset", "level": sc.Level})
		if sc.Level == "rec" {
			vfStatsRunRec(t, &sc, out)
		} else {
			vfStatsRunIcpt(t, &sc, out)
		}
	}
}

// vfStatsRunRec drives recorders the way the Interceptor does (one per SSRC, RTCP fanned out to all of them),
// with Start() called synchronously.
func vfStatsRunRec(t *testing.T, sc *vfStatsScript, out *vfWriter) {
	t.Helper()
	lf := logging.NewDefaultLoggerFactory()
	recs := map[uint32]*recorder{}
	order := []uint32{}
	for i := range sc.Steps {
		st := &sc.Steps[i]
		ts := vfStatsAt(st.Now)
		switch st.A {
		case "bind":
			if _, ok := recs[st.S]; !ok {
				rec := newRecorder(st.S, float64(st.Rate), lf)
				rec.Start()
				recs[st.S] = rec
				order = append(order, st.S)
			}
		case "irtp":
			rec := recs[st.S]
			if rec == nil {
				t.Fatalf("VERIF-INFRA irtp on unbound stream %d", st.S)
			}
			pkt := rtp.Packet{Header: vfStatsHeader(t, st), Payload: make([]byte, st.Pl)}
			buf, err := pkt.Marshal()
			if err != nil || len(buf) != st.Hl+st.Pl {
				t.Fatalf("VERIF-INFRA marshal rtp: %v (%d bytes)", err, len(buf))
			}
			var attr interceptor.Attributes
			if i%2 == 0 {
				attr = interceptor.Attributes{}
			}
			rec.QueueIncomingRTP(ts, buf, attr)
		case "ortp":
			rec := recs[st.S]
			if rec == nil {
				t.Fatalf("VERIF-INFRA ortp on unbound stream %d", st.S)
			}
			h := vfStatsHeader(t, st)
			rec.QueueOutgoingRTP(ts, &h, make([]byte, st.Pl), nil)
		case "ircp":
			buf, err := rtcp.Marshal(vfStatsPackets(t, st.Pk))
			if err != nil {
				t.Fatalf("VERIF-INFRA marshal rtcp: %v", err)
			}
			var attr interceptor.Attributes
			if i%2 == 0 {
				attr = interceptor.Attributes{}
			}
			for _, s := range order {
				recs[s].QueueIncomingRTCP(ts, buf, attr)
			}
		case "orcp":
			pkts := vfStatsPackets(t, st.Pk)
			for _, s := range order {
				recs[s].QueueOutgoingRTCP(ts, pkts, nil)
			}
		case "get":
			if rec := recs[st.S]; rec != nil {
				s := rec.GetStats()
				vfStatsGet(out, st.S, &s)
			} else {
				vfStatsGet(out, st.S, nil)
			}

			continue
		default:
			t.Fatalf("VERIF-INFRA unknown action %q", st.A)
		}
		out.Emit(vfStatsEcho(st))
	}
	for _, rec := range recs {
		rec.Stop()
	}
}

// vfStatsRunIcpt drives one Interceptor through Bind*; the clock is SetNowFunc, results come from the Getter.
func vfStatsRunIcpt(t *testing.T, sc *vfStatsScript, out *vfWriter) {
	t.Helper()
	clock := vfStatsBase
	fac, err := NewInterceptor(SetNowFunc(func() time.Time { return clock }))
	if err != nil {
		t.Fatalf("VERIF-INFRA factory: %v", err)
	}
	var getter Getter
	fac.OnNewPeerConnection(func(id string, g Getter) {
		if id == "verif" { // (the factory also builds the other connection)
			getter = g
		}
	})
	ici, err := fac.NewInterceptor("verif")
	if err != nil || getter == nil {
		t.Fatalf("VERIF-INFRA NewInterceptor: %v getter=%v", err, getter)
	}
	ic, ok := ici.(*Interceptor)
	if !ok {
		t.Fatalf("VERIF-INFRA unexpected interceptor type %T", ici)
	}

	var nextRTCP []byte
	rtcpReader := ic.BindRTCPReader(interceptor.RTCPReaderFunc(
		func(b []byte, a interceptor.Attributes) (int, interceptor.Attributes, error) {
			return copy(b, nextRTCP), a, nil
		}))
	rtcpWritten := 0
	var inRTCPWrite func()
	rtcpWriter := ic.BindRTCPWriter(interceptor.RTCPWriterFunc(
		func(pkts []rtcp.Packet, _ interceptor.Attributes) (int, error) {
			rtcpWritten += len(pkts)
			if f := inRTCPWrite; f != nil {
				inRTCPWrite = nil
				f()
			}

			return len(pkts), nil
		}))
	readRTCP := func(i int, st *vfStatsStep) {
		raw, err := rtcp.Marshal(vfStatsPackets(t, st.Pk))
		if err != nil {
			t.Fatalf("VERIF-INFRA marshal rtcp: %v", err)
		}
		nextRTCP = raw
		var attr interceptor.Attributes
		if i%2 == 0 {
			attr = interceptor.Attributes{}
		}
		if n, _, err := rtcpReader.Read(make([]byte, 4096), attr); err != nil || n != len(raw) {
			t.Fatalf("VERIF-INFRA rtcp read: n=%d of %d err=%v", n, len(raw), err)
		}
	}

	// another connection of the same factory carries look-alike traffic on the same SSRCs (other sizes): nothing of it
	// may show in the statistics of the first one
	twinI, err := fac.NewInterceptor("twin")
	if err != nil {
		t.Fatalf("VERIF-INFRA NewInterceptor (twin): %v", err)
	}
	defer func() { _ = twinI.Close() }()
	var twinRTP []byte
	twinReaders := map[uint32]interceptor.RTPReader{}
	twinWriters := map[uint32]interceptor.RTPWriter{}

	var nextRTP []byte
	rtpWritten := 0
	readers := map[uint32]interceptor.RTPReader{}
	writers := map[uint32]interceptor.RTPWriter{}
	everBound := map[uint32]bool{}
	for i := range sc.Steps {
		st := &sc.Steps[i]
		clock = vfStatsAt(st.Now)
		switch st.A {
		case "bind":
			info := &interceptor.StreamInfo{SSRC: st.S, ClockRate: st.Rate}
			if st.D == "l" {
				twinWriters[st.S] = twinI.BindLocalStream(info, interceptor.RTPWriterFunc(
					func(_ *rtp.Header, p []byte, _ interceptor.Attributes) (int, error) { return len(p), nil }))
			} else {
				twinReaders[st.S] = twinI.BindRemoteStream(info, interceptor.RTPReaderFunc(
					func(b []byte, a interceptor.Attributes) (int, interceptor.Attributes, error) { return copy(b, twinRTP), a, nil }))
			}
			if st.D == "l" {
				writers[st.S] = ic.BindLocalStream(info, interceptor.RTPWriterFunc(
					func(_ *rtp.Header, p []byte, _ interceptor.Attributes) (int, error) {
						rtpWritten++

						return len(p), nil
					}))
			} else {
				readers[st.S] = ic.BindRemoteStream(info, interceptor.RTPReaderFunc(
					func(b []byte, a interceptor.Attributes) (int, interceptor.Attributes, error) {
						return copy(b, nextRTP), a, nil
					}))
			}
			// The recorder is switched on by a goroutine started in getRecorder; wait for that goroutine
			// (no traffic is needed, so the counters under test are untouched) and confirm the flag.
			ic.wg.Wait()
			ic.lock.Lock()
			rec, isRec := ic.recorders[st.S].(*recorder)
			ic.lock.Unlock()
			// (on a FIRST bind an inactive recorder means the harness raced the start-up; on a later bind of the same SSRC it
			// would be the behaviour under test: the counters then tell)
			if (!isRec || atomic.LoadUint32(&rec.running) != 1) && !everBound[st.S] {
				t.Fatalf("VERIF-INFRA recorder for %d is not active after Bind", st.S)
			}
			everBound[st.S] = true
		case "unbind": // (NoOp on the code as it is: the interceptor has no Unbind*)
			info := &interceptor.StreamInfo{SSRC: st.S, ClockRate: st.Rate}
			if st.D == "l" {
				ic.UnbindLocalStream(info)
			} else {
				ic.UnbindRemoteStream(info)
			}
		case "irtp":
			rd := readers[st.S]
			if rd == nil {
				t.Fatalf("VERIF-INFRA irtp on a stream without remote bind %d", st.S)
			}
			pkt := rtp.Packet{Header: vfStatsHeader(t, st), Payload: make([]byte, st.Pl)}
			raw, err := pkt.Marshal()
			if err != nil {
				t.Fatalf("VERIF-INFRA marshal rtp: %v", err)
			}
			nextRTP = raw
			if tr := twinReaders[st.S]; tr != nil && i%2 == 1 { // (the other connection)
				tp := rtp.Packet{Header: vfStatsHeader(t, st), Payload: make([]byte, st.Pl+33)}
				twinRTP, _ = tp.Marshal()
				_, _, _ = tr.Read(make([]byte, 1600), interceptor.Attributes{})
			}
			var attr interceptor.Attributes
			if i%2 == 0 {
				attr = interceptor.Attributes{}
			}
			if n, _, err := rd.Read(make([]byte, 1500), attr); err != nil || n != st.Hl+st.Pl {
				t.Fatalf("VERIF-INFRA rtp read: n=%d err=%v", n, err)
			}
		case "ortp":
			wr := writers[st.S]
			if wr == nil {
				t.Fatalf("VERIF-INFRA ortp on a stream without local bind %d", st.S)
			}
			if tw := twinWriters[st.S]; tw != nil && i%2 == 1 { // (the other connection)
				th := vfStatsHeader(t, st)
				_, _ = tw.Write(&th, make([]byte, st.Pl+33), nil)
			}
			h := vfStatsHeader(t, st)
			before := rtpWritten
			if _, err := wr.Write(&h, make([]byte, st.Pl), nil); err != nil || rtpWritten != before+1 {
				t.Fatalf("VERIF-INFRA rtp write: err=%v", err)
			}
		case "ircp":
			if st.Inw && i > 0 && sc.Steps[i-1].A == "orcp" {
				break // already read, from inside the previous step's transport write
			}
			readRTCP(i, st)
		case "orcp":
			pkts := vfStatsPackets(t, st.Pk)
			if i+1 < len(sc.Steps) && sc.Steps[i+1].A == "ircp" && sc.Steps[i+1].Inw {
				nx, ni := &sc.Steps[i+1], i+1
				inRTCPWrite = func() {
					clock = vfStatsAt(nx.Now)
					readRTCP(ni, nx)
				}
			}
			before := rtcpWritten
			if _, err := rtcpWriter.Write(pkts, nil); err != nil || rtcpWritten != before+len(pkts) {
				t.Fatalf("VERIF-INFRA rtcp write: err=%v", err)
			}
		case "get":
			vfStatsGet(out, st.S, getter.Get(st.S))

			continue
		default:
			t.Fatalf("VERIF-INFRA unknown action %q", st.A)
		}
		out.Emit(vfStatsEcho(st))
	}
	if err := ic.Close(); err != nil {
		t.Fatalf("VERIF-INFRA close: %v", err)
	}
}

//go:build verif

package twcc

import (
	"encoding/json"
	"fmt"
	"sync"
	"sync/atomic"
	"testing"
	"time"

	"github.com/pion/interceptor"
	"github.com/pion/rtcp"
	"github.com/pion/rtp"
)

// Script executed against the real code; every step is logged as one trace event (see spec/Trace_Twcc.tla).
//
//	lvl "rec":  the exported Recorder is driven directly: NewRecorder, Record(ssrc, w, rb*64000+t), BuildFeedbackPacket.
//	lvl "icpt": the SenderInterceptor is driven through BindRTCPWriter/BindRemoteStream with its real clock and ticker;
//	            t is then the harness pause (in microseconds) before the packet is read and the arrival time is
//	            bracketed by harness clock readings.
type vfTwccScript struct {
	Lvl   string `json:"lvl"`
	RB    int64  `json:"rb"` // time base in 64 ms units added to every arrival time (lvl "rec")
	Steps []struct {
		A  string `json:"a"`  // "rec" | "build" | "recrun"
		W  uint16 `json:"w"`  // transport-wide sequence number on the wire
		T  int64  `json:"t"`  // arrival time offset in microseconds
		N  int    `json:"n"`  // recrun: how many consecutive numbers
		Dt int64  `json:"dt"` // recrun: arrival time step in microseconds (may be negative)
	} `json:"steps"`
}

// vfChunkForm is the structural form of one packet status chunk: k = 0 run length (s, n), k = 1 one-bit vector,
// k = 2 two-bit vector (v, zero padded to the 14 / 7 symbols that are on the wire).
func vfChunkForm(c rtcp.PacketStatusChunk) vfM {
	switch ch := c.(type) {
	case *rtcp.RunLengthChunk:
		return vfM{"k": 0, "s": ch.PacketStatusSymbol, "n": ch.RunLength, "v": []uint16{}}
	case *rtcp.StatusVectorChunk:
		k, width := 1, 14
		if ch.SymbolSize == rtcp.TypeTCCSymbolSizeTwoBit {
			k, width = 2, 7
		} else if ch.SymbolSize != rtcp.TypeTCCSymbolSizeOneBit {
			k = 3
		}
		v := make([]uint16, 0, width)
		v = append(v, ch.SymbolList...)
		for len(v) < width {
			v = append(v, 0)
		}

		return vfM{"k": k, "s": 0, "n": 0, "v": v}
	default:
		return vfM{"k": 9, "s": 0, "n": 0, "v": []uint16{}}
	}
}

// vfPacketForm projects a TransportLayerCC to the fields the specification talks about.
func vfPacketForm(p *rtcp.TransportLayerCC) vfM {
	chunks := make([]vfM, 0, len(p.PacketChunks))
	for _, c := range p.PacketChunks {
		chunks = append(chunks, vfChunkForm(c))
	}
	ticks := make([]int64, 0, len(p.RecvDeltas))
	types := make([]uint16, 0, len(p.RecvDeltas))
	exact := true
	for _, d := range p.RecvDeltas {
		ticks = append(ticks, d.Delta/rtcp.TypeTCCDeltaScaleFactor)
		types = append(types, d.Type)
		if d.Delta%rtcp.TypeTCCDeltaScaleFactor != 0 {
			exact = false
		}
	}

	return vfM{
		"base": p.BaseSequenceNumber, "cnt": p.PacketStatusCount, "ref": p.ReferenceTime & 0xFFFFFF, "fb": p.FbPktCount,
		"ch": chunks, "d": ticks, "dt": types, "exact": exact,
		"hl": 4 * (int(p.Header.Length) + 1), "pad": p.Header.Padding,
		"fmt": p.Header.Count, "pt": p.Header.Type, "ss": p.SenderSSRC, "ms": p.MediaSSRC,
	}
}

// vfLogPacket marshals, re-parses and logs one packet returned by the code under test. The logged structure is the
// one a receiver sees (the re-parsed packet); "rt" tells whether it is the structure the code under test built.
func vfLogPacket(pkt rtcp.Packet) vfM {
	tcc, ok := pkt.(*rtcp.TransportLayerCC)
	if !ok {
		return vfM{"base": 0, "cnt": 0, "ref": 0, "fb": 0, "ch": []vfM{}, "d": []int64{}, "hl": 0, "wl": 0, "rt": false,
			"why": fmt.Sprintf("foreign packet type %T", pkt)}
	}
	orig := vfPacketForm(tcc)
	raw, err := vfMarshal(tcc)
	if err != nil {
		orig["wl"], orig["rt"], orig["why"] = 0, false, "marshal: "+err.Error()

		return vfStrip(orig)
	}
	// parse the way a receiver does: through the generic rtcp.Unmarshal dispatcher
	parsedPkts, err := rtcp.Unmarshal(raw)
	if err != nil || len(parsedPkts) != 1 {
		orig["wl"], orig["rt"], orig["why"] = len(raw), false, fmt.Sprintf("unmarshal: %v (%d packets)", err, len(parsedPkts))

		return vfStrip(orig)
	}
	parsed, ok := parsedPkts[0].(*rtcp.TransportLayerCC)
	if !ok {
		orig["wl"], orig["rt"], orig["why"] = len(raw), false, fmt.Sprintf("re-parsed as %T", parsedPkts[0])

		return vfStrip(orig)
	}
	form := vfPacketForm(parsed)
	a, _ := json.Marshal(orig)
	b, _ := json.Marshal(form)
	form["wl"] = len(raw)
	form["rt"] = string(a) == string(b)
	if string(a) != string(b) {
		form["why"] = "built " + string(a)
	}

	return vfStrip(form)
}

// vfStrip drops the fields that only take part in the built-vs-reparsed comparison.
func vfStrip(form vfM) vfM {
	for _, k := range []string{"dt", "exact", "pad", "fmt", "pt", "ss", "ms"} {
		delete(form, k)
	}

	return form
}

// vfMarshal turns a panic of the marshaller on a packet built by the code under test into an observation.
func vfMarshal(tcc *rtcp.TransportLayerCC) (raw []byte, err error) {
	defer func() {
		if r := recover(); r != nil {
			raw, err = nil, fmt.Errorf("panic: %v", r) //nolint:err113
		}
	}()

	return tcc.Marshal()
}

func vfLogPackets(pkts []rtcp.Packet) []vfM {
	res := make([]vfM, 0, len(pkts))
	for _, p := range pkts {
		res = append(res, vfLogPacket(p))
	}

	return res
}

func TestVerifTwccExec(t *testing.T) {
	in := vfLoad(t)
	out := vfOut(t)
	defer out.Close()
	for _, raw := range in {
		var sc vfTwccScript
		if err := json.Unmarshal(raw, &sc); err != nil {
			t.Fatalf("VERIF-INFRA bad script: %v", err)
		}
		switch sc.Lvl {
		case "rec":
			out.Emit(vfM{"a": "reset", "lvl": "rec", "rb": sc.RB})
			vfRunRecorder(&sc, out)
		case "icpt":
			out.Emit(vfM{"a": "reset", "lvl": "icpt", "rb": 0})
			out.NewKept().Flush()
			vfRunSender(t, &sc, out)
		default:
			t.Fatalf("VERIF-INFRA unknown level %q", sc.Lvl)
		}
	}
}

func vfRunRecorder(sc *vfTwccScript, out *vfWriter) {
	kept := out.NewKept()
	defer kept.Flush()
	r := NewRecorder(0x11223344)
	base := sc.RB * 64000
	for _, st := range sc.Steps {
		switch st.A {
		case "rec":
			r.Record(0x55667788, st.W, base+st.T)
			out.Emit(vfM{"a": "rec", "w": st.W, "t0": st.T, "t1": st.T})
		case "recrun": // a long run of consecutive numbers, logged as one event
			for i := 0; i < st.N; i++ {
				r.Record(0x55667788, st.W+uint16(i), base+st.T+int64(i)*st.Dt) //nolint:gosec
			}
			out.Emit(vfM{"a": "recrun", "w": st.W, "n": st.N, "t": st.T, "dt": st.Dt})
		case "build":
			pkts := r.BuildFeedbackPacket()
			out.Emit(vfM{"a": "build", "out": vfLogPackets(pkts), "fl": false})
			if len(pkts) <= 4 { // (huge histories: the rendering of thousands of statuses is not kept)
				kept.Keep(func() any { return vfLogPackets(pkts) })
			}
		}
	}
}

// ---- interceptor level ------------------------------------------------------------------------------------------

type vfBuildObs struct {
	completed int64 // reads completed when the feedback was handed to the writer
	inflight  bool  // a read was in progress at that moment: its order relative to this build is not observable
	pkts      []vfM
}

// vfRunSender drives a SenderInterceptor with its real clock and a real (1 ms) ticker. Every packet is read through
// the bound reader; the arrival time the interceptor takes (time.Since(startTime) inside Read) is bracketed by
// harness clock readings. Feedback written to the bound RTCPWriter is attributed to a position in the read sequence
// by a counter; a build that coincides with a read in flight is flagged and the validator considers both orders.
func vfRunSender(t *testing.T, sc *vfTwccScript, out *vfWriter) {
	t.Helper()
	f, err := NewSenderInterceptor(SendInterval(time.Millisecond))
	if err != nil {
		t.Fatalf("VERIF-INFRA factory: %v", err)
	}
	h0 := time.Now()
	ic, err := f.NewInterceptor("")
	h1 := time.Now()
	if err != nil {
		t.Fatalf("VERIF-INFRA NewInterceptor: %v", err)
	}

	var started, completed atomic.Int64
	var mu sync.Mutex
	var builds []vfBuildObs
	ic.BindRTCPWriter(interceptor.RTCPWriterFunc(func(pkts []rtcp.Packet, _ interceptor.Attributes) (int, error) {
		c, s := completed.Load(), started.Load()
		obs := vfBuildObs{completed: c, inflight: s != c, pkts: vfLogPackets(pkts)}
		mu.Lock()
		builds = append(builds, obs)
		mu.Unlock()

		return 0, nil
	}))

	var cur []byte
	var tBefore time.Time
	info := &interceptor.StreamInfo{
		SSRC:                0x55667788,
		RTPHeaderExtensions: []interceptor.RTPHeaderExtension{{URI: transportCCURI, ID: 5}},
	}
	reader := ic.BindRemoteStream(info, interceptor.RTPReaderFunc(
		func(b []byte, a interceptor.Attributes) (int, interceptor.Attributes, error) {
			n := copy(b, cur)
			tBefore = time.Now() // the interceptor reads its clock after this function returns

			return n, a, nil
		}))
	// a second stream that negotiated the extension under ANOTHER id shares the transport-wide numbering
	info2 := &interceptor.StreamInfo{
		SSRC:                0x66778899,
		RTPHeaderExtensions: []interceptor.RTPHeaderExtension{{URI: transportCCURI, ID: 3}},
	}
	reader2 := ic.BindRemoteStream(info2, interceptor.RTPReaderFunc(
		func(b []byte, a interceptor.Attributes) (int, interceptor.Attributes, error) {
			n := copy(b, cur)
			tBefore = time.Now()

			return n, a, nil
		}))
	// a stream without the extension must not contribute
	plain := ic.BindRemoteStream(&interceptor.StreamInfo{SSRC: 0x99}, interceptor.RTPReaderFunc(
		func(b []byte, a interceptor.Attributes) (int, interceptor.Attributes, error) {
			return copy(b, cur), a, nil
		}))

	// another connection of the same factory receives the same stream with transport-wide numbers of its own: nothing of
	// it may show in the feedback of the first one
	twin, err := f.NewInterceptor("twin")
	if err != nil {
		t.Fatalf("VERIF-INFRA NewInterceptor (twin): %v", err)
	}
	twin.BindRTCPWriter(interceptor.RTCPWriterFunc(func(p []rtcp.Packet, _ interceptor.Attributes) (int, error) { return len(p), nil }))
	var twinCur []byte
	twinReader := twin.BindRemoteStream(info, interceptor.RTPReaderFunc(
		func(b []byte, a interceptor.Attributes) (int, interceptor.Attributes, error) { return copy(b, twinCur), a, nil }))
	defer func() { _ = twin.Close() }()

	type recObs struct {
		w      uint16
		t0, t1 int64
	}
	var recs []recObs
	buf := make([]byte, 1500)
	for i, st := range sc.Steps {
		switch st.A {
		case "rec":
			if st.T > 0 {
				time.Sleep(time.Duration(st.T) * time.Microsecond)
			}
			ext, err := (&rtp.TransportCCExtension{TransportSequence: st.W}).Marshal()
			if err != nil {
				t.Fatalf("VERIF-INFRA ext: %v", err)
			}
			hdr := rtp.Header{Version: 2, SSRC: 0x55667788, SequenceNumber: uint16(i)} //nolint:gosec
			rd, extID := reader, uint8(5)
			if i%4 == 2 { // (every fourth packet belongs to the stream with the other extension id)
				rd, extID = reader2, 3
				hdr.SSRC = 0x66778899
			}
			if err = hdr.SetExtension(extID, ext); err != nil {
				t.Fatalf("VERIF-INFRA set ext: %v", err)
			}
			pkt := rtp.Packet{Header: hdr, Payload: []byte{1, 2, 3}}
			if cur, err = pkt.Marshal(); err != nil {
				t.Fatalf("VERIF-INFRA marshal rtp: %v", err)
			}
			if i%3 == 0 { // (the other connection)
				text, _ := (&rtp.TransportCCExtension{TransportSequence: st.W + 1000}).Marshal()
				th := rtp.Header{Version: 2, SSRC: 0x55667788, SequenceNumber: uint16(i)} //nolint:gosec
				_ = th.SetExtension(5, text)
				twinCur, _ = (&rtp.Packet{Header: th, Payload: []byte{7}}).Marshal()
				_, _, _ = twinReader.Read(make([]byte, 1500), nil)
			}
			if i%5 == 4 {
				if _, _, err = plain.Read(buf, nil); err != nil {
					t.Fatalf("VERIF-INFRA plain read: %v", err)
				}
			}
			started.Add(1)
			_, _, err = rd.Read(buf, nil)
			tAfter := time.Now()
			completed.Add(1)
			if err != nil {
				t.Fatalf("VERIF-INFRA read: %v", err)
			}
			// arrival = time.Since(startTime).Microseconds() with startTime in [h0, h1] and the clock read in
			// [tBefore, tAfter]
			recs = append(recs, recObs{w: st.W, t0: tBefore.Sub(h1).Microseconds() - 1, t1: tAfter.Sub(h0).Microseconds() + 1})
		case "build":
			// let at least one tick pass: wait until a build was observed after all reads so far, at most 50 ms
			want := completed.Load()
			deadline := time.Now().Add(20 * time.Millisecond)
			for time.Now().Before(deadline) {
				mu.Lock()
				ok := len(builds) > 0 && builds[len(builds)-1].completed >= want
				mu.Unlock()
				if ok {
					break
				}
				time.Sleep(200 * time.Microsecond)
			}
		}
	}
	time.Sleep(3 * time.Millisecond)
	if err = ic.Close(); err != nil {
		t.Fatalf("VERIF-INFRA close: %v", err)
	}
	elapsed := time.Since(h0)

	// merge: a build observed with `completed = k` goes after the k-th read. If a read was in flight at that moment
	// ("fl"), the harness cannot tell whether read k+1 had already been handed to the loop goroutine (it had, if the
	// harness thread was merely late incrementing its counter) - the trace validator explores both orders.
	mu.Lock()
	defer mu.Unlock()
	if elapsed > 400*time.Millisecond {
		// the 500 ms history window could have come into play and bracketed arrival times cannot decide culling
		out.Emit(vfM{"a": "inconclusive", "why": "script took longer than 400 ms"})

		return
	}
	bi := 0
	emitBuilds := func(k int64) {
		for bi < len(builds) && builds[bi].completed <= k {
			out.Emit(vfM{"a": "build", "out": builds[bi].pkts, "fl": builds[bi].inflight})
			bi++
		}
	}
	emitBuilds(0)
	for k, r := range recs {
		out.Emit(vfM{"a": "rec", "w": r.w, "t0": r.t0, "t1": r.t1})
		emitBuilds(int64(k + 1))
	}
}

//go:build verif

package twcc

import (
	"bytes"
	"encoding/json"
	"errors"
	"sort"
	"sync"
	"testing"
	"time"

	"github.com/pion/interceptor"
	"github.com/pion/rtp"
)

// C15: scripts executed on the real HeaderExtensionInterceptor; see spec/Trace_TwccHeaderExt.tla for the events.
type vfHxScript struct {
	Level   string `json:"level"` // "seq": field-by-field header comparison, "conc": concurrent writers
	Ext     int    `json:"ext"`
	Base    uint32 `json:"base"` // value of the shared uint32 counter when the script starts
	Twin    bool   `json:"twin"` // "conc": a second interceptor of the same factory writes throughout
	Streams []struct {
		S     uint32 `json:"s"`
		ID    int    `json:"id"`    // negotiated transport-cc extension id, 0 = not negotiated
		Decoy int    `json:"decoy"` // id of another URI listed before it, 0 = none
	} `json:"streams"`
	Steps []struct {
		A     string `json:"a"`
		S     uint32 `json:"s"`
		Shape int    `json:"shape"`
		ID    int    `json:"id"`
	} `json:"steps"`
	// concurrent level
	Assign  []int `json:"assign"`  // goroutine -> index into Streams
	Batches []int `json:"batches"` // packets per goroutine in each barrier-separated batch
	// FailEvery > 0: the transport-side writer returns an error for every FailEvery-th packet of each goroutine (after it
	// has seen the packet: the number was allocated and has left the interceptor)
	FailEvery int `json:"failevery"`
}

var errVfHxInjected error = vfInjErr{"injected transport failure"} //nolint:gochecknoglobals

const vfHxDecoyURI = "urn:ietf:params:rtp-hdrext:sdes:mid"

func vfHxInfo(ssrc uint32, id, decoy int) *interceptor.StreamInfo {
	info := &interceptor.StreamInfo{SSRC: ssrc}
	if decoy != 0 {
		info.RTPHeaderExtensions = append(info.RTPHeaderExtensions, interceptor.RTPHeaderExtension{URI: vfHxDecoyURI, ID: decoy})
	}
	if id != 0 {
		info.RTPHeaderExtensions = append(info.RTPHeaderExtensions, interceptor.RTPHeaderExtension{URI: transportCCURI, ID: id})
	}

	return info
}

// vfHxHeader builds the header of a script step: a function of (shape, own, id, ssrc) only. own = the extension id the
// shapes are relative to (the stream's negotiated id, or the script's id on a stream that did not negotiate).
func vfHxHeader(t *testing.T, shape, own, id int, ssrc uint32) (*rtp.Header, []byte) { //nolint:cyclop
	t.Helper()
	h := &rtp.Header{
		Version: 2, SSRC: ssrc, SequenceNumber: uint16(id * 7), Timestamp: uint32(id) * 3000, //nolint:gosec
		PayloadType: uint8(96 + id%3), Marker: id%2 == 1, //nolint:gosec
	}
	pl := make([]byte, id%5)
	for i := range pl {
		pl[i] = byte(id*31 + i*7)
	}
	o1 := uint8(own%14 + 1)     //nolint:gosec
	o2 := uint8((own+1)%14 + 1) //nolint:gosec
	me := uint8(own)            //nolint:gosec
	set := func(profile uint16, eid uint8, d []byte) {
		h.Extension = true
		h.ExtensionProfile = profile
		if err := h.SetExtension(eid, d); err != nil {
			t.Fatalf("VERIF-INFRA building header shape %d (own id %d): %v", shape, own, err)
		}
	}
	switch shape {
	case 1:
		h.Marker = true
		h.Padding = true
		h.PaddingSize = 4
		h.CSRC = []uint32{11, 22}
	case 2:
		set(rtp.ExtensionProfileOneByte, o1, []byte{1, 2, 3})
	case 3:
		set(rtp.ExtensionProfileOneByte, me, []byte{0xAA, 0xBB})
	case 4:
		set(rtp.ExtensionProfileOneByte, o1, []byte{7})
		set(rtp.ExtensionProfileOneByte, me, []byte{0xAA, 0xBB})
		set(rtp.ExtensionProfileOneByte, o2, []byte{8, 9})
	case 5:
		set(rtp.ExtensionProfileTwoByte, o1, []byte{9})
	case 6:
		set(rtp.ExtensionProfileTwoByte, me, []byte{1, 2})
		long := make([]byte, 20)
		for i := range long {
			long[i] = byte(100 + i)
		}
		set(rtp.ExtensionProfileTwoByte, 200, long)
	case 7:
		h.Extension = true
		h.ExtensionProfile = rtp.ExtensionProfileOneByte
	case 8:
		for e := 1; e <= 14; e++ {
			if e != own {
				set(rtp.ExtensionProfileOneByte, uint8(e), []byte{byte(e)}) //nolint:gosec
			}
		}
	}

	return h, pl
}

// vfHxTwin: a second interceptor of the same factory (another connection) whose only stream keeps writing for the whole
// script; the transport-wide numbers are per interceptor, so nothing of it may show in the run of the first one
func vfHxTwin(t *testing.T, f *HeaderExtensionInterceptorFactory, stop <-chan struct{}, done chan<- struct{}) {
	t.Helper()
	ic, err := f.NewInterceptor("twin")
	if err != nil {
		t.Fatalf("VERIF-INFRA NewInterceptor (twin): %v", err)
	}
	w := ic.BindLocalStream(vfHxInfo(77, 5, 0), interceptor.RTPWriterFunc(
		func(h *rtp.Header, pl []byte, _ interceptor.Attributes) (int, error) { return len(pl), nil }))
	go func() {
		defer close(done)
		for i := 0; ; i++ {
			select {
			case <-stop:
				return
			default:
			}
			_, _ = w.Write(&rtp.Header{Version: 2, SSRC: 77, SequenceNumber: uint16(i)}, []byte{1}, nil) //nolint:gosec
			if i%64 == 63 {
				time.Sleep(50 * time.Microsecond)
			}
		}
	}()
}

func vfHxNew(t *testing.T, base uint32) *HeaderExtensionInterceptor {
	t.Helper()
	hx, _ := vfHxNewF(t, base)

	return hx
}

func vfHxNewF(t *testing.T, base uint32) (*HeaderExtensionInterceptor, *HeaderExtensionInterceptorFactory) {
	t.Helper()
	f, err := NewHeaderExtensionInterceptor()
	if err != nil {
		t.Fatalf("VERIF-INFRA factory: %v", err)
	}
	ic, err := f.NewInterceptor("")
	if err != nil {
		t.Fatalf("VERIF-INFRA NewInterceptor: %v", err)
	}
	hx, ok := ic.(*HeaderExtensionInterceptor)
	if !ok {
		t.Fatalf("VERIF-INFRA unexpected interceptor type %T", ic)
	}
	hx.nextSequenceNr = base // the counter of a connection that has already sent `base` packets

	return hx, f
}

func TestVerifHdrExtExec(t *testing.T) {
	in := vfLoad(t)
	out := vfOut(t)
	defer out.Close()
	for _, raw := range in {
		var sc vfHxScript
		if err := json.Unmarshal(raw, &sc); err != nil {
			t.Fatalf("VERIF-INFRA bad script: %v", err)
		}
		out.Emit(vfM{"a": "reset", "base": int(sc.Base % 65536)})
		if sc.Level == "conc" {
			vfHxConc(t, &sc, out)
		} else {
			vfHxSeq(t, &sc, out)
		}
	}
}

func vfHxSeq(t *testing.T, sc *vfHxScript, out *vfWriter) {
	t.Helper()
	hx := vfHxNew(t, sc.Base)
	type bound struct {
		id     int
		writer interceptor.RTPWriter
		info   *interceptor.StreamInfo
	}
	streams := map[uint32]*bound{}
	var outs []vfM
	var ds []int
	bind := func(ssrc uint32, id, decoy int) {
		info := vfHxInfo(ssrc, id, decoy)
		w := hx.BindLocalStream(info, interceptor.RTPWriterFunc(
			func(h *rtp.Header, pl []byte, _ interceptor.Attributes) (int, error) {
				outs = append(outs, vfPkt(h, pl))
				ds = append(ds, int(ssrc))

				return h.MarshalSize() + len(pl), nil
			}))
		streams[ssrc] = &bound{id: id, writer: w, info: info}
		out.Emit(vfM{"a": "bind", "s": ssrc, "id": id})
	}
	for _, st := range sc.Streams {
		bind(st.S, st.ID, st.Decoy)
	}
	for _, st := range sc.Steps {
		b := streams[st.S]
		if b != nil && st.A == "rebind" {
			// renegotiation: the SSRC is bound again under another extension id (st.ID), then the OLD binding is unbound;
			// packets written through the new binding are numbered under the new id
			old := b.info
			bind(st.S, st.ID, 0)
			hx.UnbindLocalStream(old)

			continue
		}
		if st.A == "cycle" {
			// every stream is removed (for a moment the interceptor has no stream at all), then all of them are bound again
			// under the ids they had: the transport-wide numbering belongs to the interceptor, not to its streams
			for _, x := range sc.Streams {
				if cur := streams[x.S]; cur != nil {
					hx.UnbindLocalStream(cur.info)
				}
			}
			for _, x := range sc.Streams {
				if cur := streams[x.S]; cur != nil {
					bind(x.S, cur.id, 0)
				}
			}

			continue
		}
		if b == nil || st.A != "write" {
			t.Fatalf("VERIF-INFRA bad step %+v", st)
		}
		own := b.id
		if own == 0 {
			own = sc.Ext
		}
		h, pl := vfHxHeader(t, st.Shape, own, st.ID, st.S)
		rec := vfPkt(h, pl)
		outs, ds = []vfM{}, []int{}
		_, err := b.writer.Write(h, pl, interceptor.Attributes{})
		out.Emit(vfM{"a": "write", "s": st.S, "in": rec, "outs": outs, "ds": ds, "ok": err == nil})
	}
	_ = hx.Close()
}

type vfHxObs struct {
	u  int // unwrapped number (count of allocations before this one since the script started)
	w  int // number on the wire
	g  int
	li int // index in the goroutine's own order
}

// vfHxConc: k goroutines write concurrently in barrier-separated batches; every goroutine records the numbers its
// own packets carry when they reach the next writer; the logs are merged by unwrapped value and run-length encoded.
func vfHxConc(t *testing.T, sc *vfHxScript, out *vfWriter) { //nolint:gocognit,cyclop
	t.Helper()
	hx, fac := vfHxNewF(t, sc.Base)
	if sc.Twin {
		stop, done := make(chan struct{}), make(chan struct{})
		vfHxTwin(t, fac, stop, done)
		defer func() {
			close(stop)
			<-done
		}()
	}
	k := len(sc.Assign)
	type gstate struct {
		seen    []int // wire numbers of the current batch, own order (-1: extension missing)
		touched int   // packets on a non-negotiated stream that were not passed through untouched
		plain   int
		cross   int // packets that arrived at a writer of another stream
	}
	gs := make([]*gstate, k)
	for g := range gs {
		gs[g] = &gstate{}
	}
	writers := make([]interceptor.RTPWriter, len(sc.Streams))
	for i, st := range sc.Streams {
		ssrc, id := st.S, st.ID
		writers[i] = hx.BindLocalStream(vfHxInfo(ssrc, id, st.Decoy), interceptor.RTPWriterFunc(
			func(h *rtp.Header, pl []byte, _ interceptor.Attributes) (int, error) {
				g := int(h.Timestamp >> 20) // the writing goroutine (the call is synchronous)
				if g < 0 || g >= k {
					return 0, nil
				}
				if h.SSRC != ssrc {
					gs[g].cross++
				}
				if id != 0 {
					w := -1
					if d := h.GetExtension(uint8(id)); len(d) == 2 { //nolint:gosec
						w = int(d[0])<<8 | int(d[1])
					}
					gs[g].seen = append(gs[g].seen, w)
				}
				if sc.FailEvery > 0 && int(h.Timestamp&0xFFFFF)%sc.FailEvery == sc.FailEvery-1 {
					return 0, errVfHxInjected
				}

				return h.MarshalSize() + len(pl), nil
			}))
		out.Emit(vfM{"a": "bind", "s": ssrc, "id": id})
	}
	total := 0 // numbers allocated before the current batch
	li := make([]int, k)
	var all []vfHxObs
	for _, per := range sc.Batches {
		var wg sync.WaitGroup
		start := make(chan struct{})
		for g := 0; g < k; g++ {
			wg.Add(1)
			go func(g int) {
				defer wg.Done()
				st := sc.Streams[sc.Assign[g]]
				w := writers[sc.Assign[g]]
				pl := []byte{byte(g), 1, 2}
				<-start
				for i := 0; i < per; i++ {
					h := &rtp.Header{Version: 2, SSRC: st.S, SequenceNumber: uint16(i), Timestamp: uint32(g)<<20 | uint32(i&0xFFFFF)} //nolint:gosec
					if i%3 == 1 && st.ID != 0 {
						h.Extension, h.ExtensionProfile = true, rtp.ExtensionProfileOneByte
						_ = h.SetExtension(uint8(st.ID%14+1), []byte{5}) //nolint:gosec
					}
					if st.ID != 0 {
						if _, err := w.Write(h, pl, nil); err != nil && !errors.Is(err, errVfHxInjected) {
							gs[g].seen = append(gs[g].seen, -1)
						}

						continue
					}
					before, _ := h.Marshal()
					_, err := w.Write(h, pl, nil)
					after, _ := h.Marshal()
					gs[g].plain++
					if (err != nil && !errors.Is(err, errVfHxInjected)) || !bytes.Equal(before, after) || !bytes.Equal(pl, []byte{byte(g), 1, 2}) {
						gs[g].touched++
					}
				}
			}(g)
		}
		close(start)
		wg.Wait() // barrier: every number of this batch has been allocated and observed
		n := 0
		for g := 0; g < k; g++ {
			for _, w := range gs[g].seen {
				if w < 0 {
					out.Emit(vfM{"a": "bad", "g": g, "li": li[g], "why": "packet left without the extension or Write failed"})
					li[g]++

					continue
				}
				// unwrap relative to the number the first allocation of this batch gets
				first := (int(sc.Base%65536) + total) % 65536
				u := total + ((w-first)%65536+65536)%65536
				all = append(all, vfHxObs{u: u, w: w, g: g, li: li[g]})
				li[g]++
				n++
			}
			gs[g].seen = gs[g].seen[:0]
		}
		total += n
	}
	sort.Slice(all, func(i, j int) bool {
		if all[i].u != all[j].u {
			return all[i].u < all[j].u
		}
		if all[i].g != all[j].g {
			return all[i].g < all[j].g
		}

		return all[i].li < all[j].li
	})
	for i := 0; i < len(all); {
		j := i + 1
		for j < len(all) && all[j].g == all[i].g && all[j].u == all[j-1].u+1 && all[j].li == all[j-1].li+1 {
			j++
		}
		out.Emit(vfM{"a": "run", "g": all[i].g, "from": all[i].u, "w": all[i].w, "n": j - i, "li": all[i].li})
		i = j
	}
	for g := 0; g < k; g++ {
		if gs[g].plain > 0 || gs[g].cross > 0 {
			out.Emit(vfM{"a": "plain", "g": g, "n": gs[g].plain, "touched": gs[g].touched, "cross": gs[g].cross})
		}
	}
	out.Emit(vfM{"a": "end", "total": total})
	_ = hx.Close()
}

//go:build verif

package twcc

import (
	"testing"
	"time"
)

// Container-size probe of the TWCC recorder (C12, spec/Sizes.tla): capacity of the arrival-time ring and its valid span,
// driven with a controlled clock (arrival time in microseconds); Tick = BuildFeedbackPacket.
type szTwcc struct {
	rec  *Recorder
	t0   time.Time
	last int
}

func (d *szTwcc) Reset(_ testing.TB, _ *szScript) map[string]int {
	d.rec = NewRecorder(1)
	d.t0 = time.Time{}

	return map[string]int{}
}
func (d *szTwcc) Bind(uint32, bool) {}
func (d *szTwcc) Unbind(uint32)     {}

func (d *szTwcc) us(now time.Time) int64 {
	if d.t0.IsZero() {
		d.t0 = now.Add(-time.Second)
	}

	return now.Sub(d.t0).Microseconds()
}

func (d *szTwcc) Pkt(st *szStep) bool {
	d.rec.Record(st.SSRC, uint16(st.T), d.us(st.Now)) //nolint:gosec
	d.last = st.T

	return true
}
func (d *szTwcc) Feedback(*szFb)     {}
func (d *szTwcc) Tick(now time.Time) { d.rec.BuildFeedbackPacket() }

// Drain: feedback is built for everything held, then the next packet in order arrives 600 ms later: every older entry is
// beyond the 500 ms window and is culled.
func (d *szTwcc) Drain(now time.Time) bool {
	d.rec.BuildFeedbackPacket()
	end := d.rec.arrivalTimeMap.EndSequenceNumber()
	d.rec.Record(1, uint16(end), d.us(now.Add(600*time.Millisecond))) //nolint:gosec

	return true
}
func (d *szTwcc) Close() {}

func (d *szTwcc) Sizes() (map[string]int, map[string]int) {
	m := &d.rec.arrivalTimeMap

	return map[string]int{"twCap": len(m.arrivalTimes), "twSpan": int(m.endSequenceNumber - m.beginSequenceNumber)}, nil
}

func TestVerifSizeExec(t *testing.T) {
	szMain(t, "twcc", map[string]func() szDriver{"twcc": func() szDriver { return &szTwcc{} }})
}

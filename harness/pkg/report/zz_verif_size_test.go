//go:build verif

package report

import (
	"testing"
	"time"

	"github.com/pion/interceptor"
	"github.com/pion/rtcp"
	"github.com/pion/rtp"
)

// Container-size probes of the receiver / sender report interceptors (C12, spec/Sizes.tla): entries of the streams
// sync.Map and the fixed reception bitmap of each receiver stream.
type szRecv struct {
	tb      testing.TB
	ic      *ReceiverInterceptor
	readers map[uint32]interceptor.RTPReader
	next    []byte
	now     time.Time
}

func (d *szRecv) Reset(tb testing.TB, _ *szScript) map[string]int {
	d.tb = tb
	f, _ := NewReceiverInterceptor(ReceiverInterval(time.Hour), ReceiverNow(func() time.Time { return d.now }))
	ic, err := f.NewInterceptor("")
	if err != nil {
		tb.Fatalf("VERIF-INFRA receiver report: %v", err)
	}
	d.ic, _ = ic.(*ReceiverInterceptor)
	d.readers = map[uint32]interceptor.RTPReader{}
	d.ic.BindRTCPWriter(interceptor.RTCPWriterFunc(func(p []rtcp.Packet, _ interceptor.Attributes) (int, error) {
		return len(p), nil
	}))

	return map[string]int{}
}

func (d *szRecv) Bind(ssrc uint32, _ bool) {
	d.readers[ssrc] = d.ic.BindRemoteStream(&interceptor.StreamInfo{SSRC: ssrc, ClockRate: 90000}, interceptor.RTPReaderFunc(
		func(b []byte, a interceptor.Attributes) (int, interceptor.Attributes, error) { return copy(b, d.next), a, nil }))
}

func (d *szRecv) Unbind(ssrc uint32) {
	d.ic.UnbindRemoteStream(&interceptor.StreamInfo{SSRC: ssrc})
	delete(d.readers, ssrc)
}

func (d *szRecv) Pkt(st *szStep) bool {
	d.now = st.Now
	h := rtp.Header{Version: 2, SSRC: st.HS, SequenceNumber: uint16(st.T), Timestamp: uint32(st.T) * 3000} //nolint:gosec
	d.next, _ = (&rtp.Packet{Header: h, Payload: []byte{1}}).Marshal()
	_, _, err := d.readers[st.SSRC].Read(make([]byte, 1500), nil)

	return err == nil
}
func (d *szRecv) Feedback(*szFb)       {}
func (d *szRecv) Tick(time.Time)       {}
func (d *szRecv) Drain(time.Time) bool { return false }
func (d *szRecv) Close()               { _ = d.ic.Close() }

func (d *szRecv) Sizes() (map[string]int, map[string]int) {
	n, words := 0, 0
	d.ic.streams.Range(func(_, v any) bool {
		n++
		if s, ok := v.(*receiverStream); ok {
			s.m.Lock()
			words = max(words, len(s.packets))
			s.m.Unlock()
		}

		return true
	})

	return map[string]int{"rrStreams": n, "rrBitmap": words}, nil
}

type szSend struct {
	ic      *SenderInterceptor
	writers map[uint32]interceptor.RTPWriter
	now     time.Time
}

func (d *szSend) Reset(tb testing.TB, _ *szScript) map[string]int {
	f, _ := NewSenderInterceptor(SenderInterval(time.Hour), SenderNow(func() time.Time { return d.now }))
	ic, err := f.NewInterceptor("")
	if err != nil {
		tb.Fatalf("VERIF-INFRA sender report: %v", err)
	}
	d.ic, _ = ic.(*SenderInterceptor)
	d.writers = map[uint32]interceptor.RTPWriter{}
	d.ic.BindRTCPWriter(interceptor.RTCPWriterFunc(func(p []rtcp.Packet, _ interceptor.Attributes) (int, error) {
		return len(p), nil
	}))

	return map[string]int{}
}

func (d *szSend) Bind(ssrc uint32, _ bool) {
	d.writers[ssrc] = d.ic.BindLocalStream(&interceptor.StreamInfo{SSRC: ssrc, ClockRate: 90000}, interceptor.RTPWriterFunc(
		func(*rtp.Header, []byte, interceptor.Attributes) (int, error) { return 0, nil }))
}

func (d *szSend) Unbind(ssrc uint32) {
	d.ic.UnbindLocalStream(&interceptor.StreamInfo{SSRC: ssrc})
	delete(d.writers, ssrc)
}

func (d *szSend) Pkt(st *szStep) bool {
	d.now = st.Now
	_, err := d.writers[st.SSRC].Write(&rtp.Header{Version: 2, SSRC: st.HS, SequenceNumber: uint16(st.T), //nolint:gosec
		Timestamp: uint32(st.T) * 3000}, make([]byte, 20), nil) //nolint:gosec

	return err == nil
}
func (d *szSend) Feedback(*szFb)       {}
func (d *szSend) Tick(time.Time)       {}
func (d *szSend) Drain(time.Time) bool { return false }
func (d *szSend) Close()               { _ = d.ic.Close() }

func (d *szSend) Sizes() (map[string]int, map[string]int) {
	n := 0
	d.ic.streams.Range(func(_, _ any) bool {
		n++

		return true
	})

	return map[string]int{"rsStreams": n}, nil
}

func TestVerifSizeExec(t *testing.T) {
	szMain(t, "report", map[string]func() szDriver{
		"rrecv": func() szDriver { return &szRecv{} },
		"rsend": func() szDriver { return &szSend{} },
	})
}

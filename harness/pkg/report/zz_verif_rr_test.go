//go:build verif

package report

import (
	"encoding/json"
	"errors"
	"sort"
	"sync"
	"sync/atomic"
	"testing"
	"time"

	"github.com/pion/interceptor"
	"github.com/pion/interceptor/internal/verifhook"
	"github.com/pion/rtcp"
	"github.com/pion/rtp"
)

// Script executed against the real receiver-report code; every step is logged as one trace event
// (see spec/Trace_ReceiverReport.tla).  RTP timestamps in scripts are offsets of true RTP time; the harness adds
// the base (tsb, a small signed number taken modulo 2^32, plus 2^31 when tsmid is set) and sends the 32-bit residue.
type vfRRScript struct {
	Level string `json:"level"` // "stream": receiverStream directly, "icpt": ReceiverInterceptor via its public interface
	TsB   int64  `json:"tsb"`
	TsMid int64  `json:"tsmid"`
	Steps []struct {
		A    string   `json:"a"`
		S    uint32   `json:"s"`
		W    uint16   `json:"w"`
		Ts   int64    `json:"ts"`
		T    int64    `json:"t"`
		Ntp  []uint64 `json:"ntp"`
		Rate uint32   `json:"rate"`
		// Lost0 (stream level, bind): the cumulative-lost counter of the fresh stream is set to this base, so that the
		// saturation at 2^24-1 is within reach of a short history (the specification starts from the same base).
		Lost0 uint32 `json:"lost0"`
		// Cmp (icpt level, sr): shape of the compound packet that carries the sender report: 0 alone, 1 after the sender
		// report of an SSRC that is not bound, 2 between other packet types and followed by a foreign sender report.
		Cmp int `json:"cmp"`
		// WFail (icpt level, report): the RTCP writer refuses the writes of this tick (after it has seen the packets)
		WFail bool `json:"wfail"`
		// RFail (icpt level, rtp): the wrapped reader fails - the error is passed up and nothing is accounted (no event)
		RFail bool `json:"rfail"`
		// Stale (icpt level, rtp): through the reader the stream had before its last Unbind (no event)
		Stale bool `json:"stale"`
	} `json:"steps"`
}

var errVfRRInjected error = vfInjErr{"injected RTCP write failure"} //nolint:gochecknoglobals

var vfRREpoch = time.Date(2026, 1, 1, 0, 0, 0, 0, time.UTC) //nolint:gochecknoglobals

func vfRRTime(ms int64) time.Time { return vfRREpoch.Add(time.Duration(ms) * time.Millisecond) }

func (sc *vfRRScript) wireTs(off int64) uint32 {
	return uint32(uint64(sc.TsB + sc.TsMid<<31 + off)) //nolint:gosec // residue modulo 2^32 is intended
}

func vfRRNtp(w []uint64) uint64 {
	if len(w) != 4 {
		return 0
	}

	return w[0]<<48 | w[1]<<32 | w[2]<<16 | w[3]
}

func vfRRClamp(v uint32) uint32 { // TLC integers are 32-bit signed; every legal value is far below the clamp
	if v > 0x7FFFFFFF {
		return 0x7FFFFFFF
	}

	return v
}

func vfRRBlocks(pkts []rtcp.Packet) []vfM {
	res := []vfM{}
	for _, p := range pkts {
		rr, ok := p.(*rtcp.ReceiverReport)
		if !ok {
			res = append(res, vfM{"s": 0, "cyc": 0, "seq": 0, "frac": 0, "tot": 0, "lsr": []uint32{0, 0}, "jit": 0, "dlsr": 0,
				"foreign": true})

			continue
		}
		for _, b := range rr.Reports {
			res = append(res, vfM{
				"s": b.SSRC, "cyc": b.LastSequenceNumber >> 16, "seq": b.LastSequenceNumber & 0xFFFF,
				"frac": b.FractionLost, "tot": vfRRClamp(b.TotalLost),
				"lsr": []uint32{b.LastSenderReport >> 16, b.LastSenderReport & 0xFFFF},
				"jit": vfRRClamp(b.Jitter), "dlsr": vfRRClamp(b.Delay),
			})
		}
	}

	return res
}

func TestVerifRRExec(t *testing.T) {
	in := vfLoad(t)
	out := vfOut(t)
	defer out.Close()
	for _, raw := range in {
		var sc vfRRScript
		if err := json.Unmarshal(raw, &sc); err != nil {
			t.Fatalf("VERIF-INFRA bad script: %v", err)
		}
		out.Emit(vfM{"a": "reset", "level": sc.Level, "tsb": sc.TsB, "tsmid": sc.TsMid})
		if sc.Level == "stream" {
			vfRunRRStream(t, &sc, out)
		} else {
			vfRunRRIcpt(t, &sc, out)
		}
	}
}

func vfRunRRStream(t *testing.T, sc *vfRRScript, out *vfWriter) {
	t.Helper()
	kept := out.NewKept()
	defer kept.Flush()
	streams := map[uint32]*receiverStream{}
	for _, st := range sc.Steps {
		switch st.A {
		case "bind":
			streams[st.S] = newReceiverStream(st.S, st.Rate)
			streams[st.S].totalLost = st.Lost0
			out.Emit(vfM{"a": "bind", "s": st.S, "rate": st.Rate, "lost0": st.Lost0})
		case "unbind":
			delete(streams, st.S)
			out.Emit(vfM{"a": "unbind", "s": st.S})
		case "rtp":
			rs := streams[st.S]
			if rs == nil {
				continue
			}
			rs.processRTP(vfRRTime(st.T), &rtp.Header{Version: 2, SSRC: st.S, SequenceNumber: st.W, Timestamp: sc.wireTs(st.Ts)})
			out.Emit(vfM{"a": "rtp", "s": st.S, "w": st.W, "ts": st.Ts, "t": st.T})
		case "sr":
			if rs := streams[st.S]; rs != nil {
				rs.processSenderReport(vfRRTime(st.T), &rtcp.SenderReport{SSRC: st.S, NTPTime: vfRRNtp(st.Ntp)})
			}
			out.Emit(vfM{"a": "sr", "s": st.S, "ntp": st.Ntp, "t": st.T})
		case "report":
			ss := make([]uint32, 0, len(streams))
			for s := range streams {
				ss = append(ss, s)
			}
			sort.Slice(ss, func(i, j int) bool { return ss[i] < ss[j] })
			pkts := []rtcp.Packet{}
			for _, s := range ss {
				pkts = append(pkts, streams[s].generateReport(vfRRTime(st.T)))
			}
			out.Emit(vfM{"a": "report", "t": st.T, "out": vfRRBlocks(pkts)})
			kept.Keep(func() any { return vfRRBlocks(pkts) })
		default:
			t.Fatalf("VERIF-INFRA unknown action %q", st.A)
		}
	}
}

type vfRRGate struct {
	target  any
	arrive  chan struct{}
	release chan struct{}
	done    chan struct{}
}

func (g *vfRRGate) hook(name string, obj any) {
	if name != "report.receiver.tick" || obj != g.target {
		return
	}
	select {
	case g.arrive <- struct{}{}:
	case <-g.done:
		return
	}
	select {
	case <-g.release:
	case <-g.done:
	}
}

func vfRunRRIcpt(t *testing.T, sc *vfRRScript, out *vfWriter) {
	t.Helper()
	kept := out.NewKept()
	defer kept.Flush()
	var clock atomic.Int64
	f, err := NewReceiverInterceptor(
		ReceiverInterval(200*time.Microsecond),
		ReceiverNow(func() time.Time { return vfRRTime(clock.Load()) }),
	)
	if err != nil {
		t.Fatalf("VERIF-INFRA factory: %v", err)
	}
	ic, err := f.NewInterceptor("")
	if err != nil {
		t.Fatalf("VERIF-INFRA NewInterceptor: %v", err)
	}
	gate := &vfRRGate{target: ic, arrive: make(chan struct{}), release: make(chan struct{}), done: make(chan struct{})}
	verifhook.SetGate(gate.hook)
	defer verifhook.SetGate(nil)

	var mu sync.Mutex
	var written []rtcp.Packet
	var failNow, failRead atomic.Bool
	ic.BindRTCPWriter(interceptor.RTCPWriterFunc(func(pkts []rtcp.Packet, _ interceptor.Attributes) (int, error) {
		mu.Lock()
		defer mu.Unlock()
		written = append(written, pkts...)
		if failNow.Load() {
			return 0, errVfRRInjected
		}

		return len(pkts), nil
	}))
	var rtcpNext []byte
	rtcpReader := ic.BindRTCPReader(interceptor.RTCPReaderFunc(
		func(buf []byte, a interceptor.Attributes) (int, interceptor.Attributes, error) {
			return copy(buf, rtcpNext), a, nil
		}))
	waitArrive := func() {
		select {
		case <-gate.arrive:
		case <-time.After(10 * time.Second):
			t.Fatalf("VERIF-INFRA receiver report loop never reached the tick gate")
		}
	}
	waitArrive() // the loop is now parked at the start of a tick body

	type bound struct {
		info   *interceptor.StreamInfo
		reader interceptor.RTPReader
		next   []byte
	}
	streams := map[uint32]*bound{}
	staleStreams := map[uint32]*bound{} // the binding a stream had before its last Unbind
	buf := make([]byte, 1500)
	for _, st := range sc.Steps {
		switch st.A {
		case "bind":
			b := &bound{info: &interceptor.StreamInfo{SSRC: st.S, ClockRate: st.Rate}}
			b.reader = ic.BindRemoteStream(b.info, interceptor.RTPReaderFunc(
				func(p []byte, a interceptor.Attributes) (int, interceptor.Attributes, error) {
					if failRead.Load() {
						return copy(p, b.next), a, errVfRRInjected // (the bytes are there all the same)
					}

					return copy(p, b.next), a, nil
				}))
			streams[st.S] = b
			out.Emit(vfM{"a": "bind", "s": st.S, "rate": st.Rate})
		case "unbind":
			if b := streams[st.S]; b != nil {
				unb := *b.info // an equal description at another address
				ic.UnbindRemoteStream(&unb)
				delete(streams, st.S)
				staleStreams[st.S] = b
			}
			out.Emit(vfM{"a": "unbind", "s": st.S})
		case "rtp":
			b := streams[st.S]
			if st.Stale { // a read that was in flight when the stream was removed: through the reader of the OLD binding,
				b = staleStreams[st.S] // accounted to nothing (no event)
			}
			if b == nil {
				continue
			}
			pkt := rtp.Packet{
				Header:  rtp.Header{Version: 2, SSRC: st.S, SequenceNumber: st.W, Timestamp: sc.wireTs(st.Ts)},
				Payload: []byte{1, 2, 3},
			}
			raw, err := pkt.Marshal()
			if err != nil {
				t.Fatalf("VERIF-INFRA marshal rtp: %v", err)
			}
			b.next = raw
			clock.Store(st.T)
			if st.RFail {
				failRead.Store(true)
				_, _, rerr := b.reader.Read(buf, interceptor.Attributes{})
				failRead.Store(false)
				if !errors.Is(rerr, errVfRRInjected) {
					t.Fatalf("VERIF-INFRA the failure of the wrapped reader was not passed up: %v", rerr)
				}

				continue
			}
			if n, _, err := b.reader.Read(buf, interceptor.Attributes{}); err != nil || n != len(raw) {
				t.Fatalf("VERIF-INFRA read: n=%d err=%v", n, err)
			}
			if st.Stale {
				continue
			}
			out.Emit(vfM{"a": "rtp", "s": st.S, "w": st.W, "ts": st.Ts, "t": st.T})
		case "sr":
			sr := &rtcp.SenderReport{SSRC: st.S, NTPTime: vfRRNtp(st.Ntp), RTPTime: 1, PacketCount: 2, OctetCount: 3}
			compound := []rtcp.Packet{sr}
			foreign := &rtcp.SenderReport{SSRC: 0x7EADBEEF, NTPTime: 0x1111222233334444, RTPTime: 5, PacketCount: 6, OctetCount: 7}
			switch st.Cmp {
			case 1:
				compound = []rtcp.Packet{foreign, sr}
			case 2:
				compound = []rtcp.Packet{
					&rtcp.ReceiverReport{SSRC: 0x7EADBEEF, Reports: []rtcp.ReceptionReport{{SSRC: st.S, LastSenderReport: 0x01020304}}},
					&rtcp.PictureLossIndication{SenderSSRC: 0x7EADBEEF, MediaSSRC: st.S}, sr, foreign,
				}
			}
			raw, err := rtcp.Marshal(compound)
			if err != nil {
				t.Fatalf("VERIF-INFRA marshal sr: %v", err)
			}
			rtcpNext = raw
			clock.Store(st.T)
			if n, _, err := rtcpReader.Read(buf, interceptor.Attributes{}); err != nil || n != len(raw) {
				t.Fatalf("VERIF-INFRA rtcp read: n=%d err=%v", n, err)
			}
			out.Emit(vfM{"a": "sr", "s": st.S, "ntp": st.Ntp, "t": st.T})
		case "report":
			mu.Lock()
			written = nil
			mu.Unlock()
			clock.Store(st.T)
			failNow.Store(st.WFail)
			gate.release <- struct{}{} // run exactly one tick body
			waitArrive()               // parked at the next tick: every write of the previous body has happened
			failNow.Store(false)
			mu.Lock()
			got := written
			written = nil
			mu.Unlock()
			out.Emit(vfM{"a": "report", "t": st.T, "out": vfRRBlocks(got)})
			kept.Keep(func() any { return vfRRBlocks(got) })
		default:
			t.Fatalf("VERIF-INFRA unknown action %q", st.A)
		}
	}
	close(gate.done)
	if err := ic.Close(); err != nil {
		t.Fatalf("VERIF-INFRA close: %v", err)
	}
}

//go:build verif

package report

import (
	"encoding/json"
	"errors"
	"sync"
	"sync/atomic"
	"testing"
	"time"

	"github.com/pion/interceptor"
	"github.com/pion/rtcp"
	"github.com/pion/rtp"
)

// Script executed against the real SenderInterceptor through its public interface (SenderNow + SenderTicker make it
// fully deterministic); every step is logged as one trace event (see spec/Trace_SenderReport.tla).  RTP timestamps in
// scripts are offsets of true RTP time; the harness adds the base (tsb, a small signed number taken modulo 2^32,
// plus 2^31 when tsmid is set), sends the 32-bit residue and logs reported RTP times as signed residues relative to it.
type vfSRScript struct {
	Latest bool  `json:"latest"`
	TsB    int64 `json:"tsb"`
	TsMid  int64 `json:"tsmid"`
	Steps  []struct {
		A    string `json:"a"`
		S    uint32 `json:"s"`
		W    uint16 `json:"w"`
		Ts   int64  `json:"ts"`
		Len  int    `json:"len"`
		Stale bool  `json:"stale"` // rtp: through the writer the stream had before its last Unbind (no event)
		Pad  int    `json:"pad"` // rtp: > 0: padding bit with PaddingSize pad (appended at marshal time, not part of the payload); -1: padding bit alone
		T    int64  `json:"t"`
		K    int    `json:"k"`
		Rate uint32 `json:"rate"`
		// WFail (report): the RTCP writer refuses the writes of this tick
		WFail bool `json:"wfail"`
	} `json:"steps"`
}

var errVfSRInjected error = vfInjErr{"injected RTCP write failure"} //nolint:gochecknoglobals

var vfSREpoch = time.Date(2026, 1, 1, 0, 0, 0, 0, time.UTC) //nolint:gochecknoglobals

func (sc *vfSRScript) wireTs(off int64) uint32 {
	return uint32(uint64(sc.TsB + sc.TsMid<<31 + off)) //nolint:gosec // residue modulo 2^32 is intended
}

// vfSRTicker is the injected ticker: the harness fires C; every evaluation of Ch() by the report loop (once per
// select) is signalled on idle, so "idle received after a tick" means the tick body has completed.
type vfSRTicker struct {
	c    chan time.Time
	idle chan struct{}
}

func (t *vfSRTicker) Ch() <-chan time.Time {
	t.idle <- struct{}{}

	return t.c
}

func (t *vfSRTicker) Stop() {}

func TestVerifSRExec(t *testing.T) {
	in := vfLoad(t)
	out := vfOut(t)
	defer out.Close()
	for _, raw := range in {
		var sc vfSRScript
		if err := json.Unmarshal(raw, &sc); err != nil {
			t.Fatalf("VERIF-INFRA bad script: %v", err)
		}
		out.Emit(vfM{"a": "reset", "latest": sc.Latest, "tsb": sc.TsB, "tsmid": sc.TsMid})
		vfRunSR(t, &sc, out)
	}
}

func vfRunSR(t *testing.T, sc *vfSRScript, out *vfWriter) {
	t.Helper()
	kept := out.NewKept()
	defer kept.Flush()
	var clock atomic.Int64
	ticker := &vfSRTicker{c: make(chan time.Time), idle: make(chan struct{}, 4)}
	opts := []SenderOption{
		SenderNow(func() time.Time { return vfSREpoch.Add(time.Duration(clock.Load()) * time.Millisecond) }),
		SenderTicker(func(time.Duration) Ticker { return ticker }),
	}
	if sc.Latest {
		opts = append(opts, SenderUseLatestPacket())
	}
	f, err := NewSenderInterceptor(opts...)
	if err != nil {
		t.Fatalf("VERIF-INFRA factory: %v", err)
	}
	ic, err := f.NewInterceptor("")
	if err != nil {
		t.Fatalf("VERIF-INFRA NewInterceptor: %v", err)
	}
	var mu sync.Mutex
	var written []rtcp.Packet
	var failNow atomic.Bool
	ic.BindRTCPWriter(interceptor.RTCPWriterFunc(func(pkts []rtcp.Packet, _ interceptor.Attributes) (int, error) {
		mu.Lock()
		defer mu.Unlock()
		written = append(written, pkts...)
		if failNow.Load() { // the transport refuses the writes of this tick (after it has seen the packets)
			return 0, errVfSRInjected
		}

		return len(pkts), nil
	}))
	waitIdle := func() {
		select {
		case <-ticker.idle:
		case <-time.After(10 * time.Second):
			t.Fatalf("VERIF-INFRA sender report loop did not come back to its select")
		}
	}
	waitIdle() // the loop has started and is about to wait for a tick

	type bound struct {
		info   *interceptor.StreamInfo
		writer interceptor.RTPWriter
	}
	streams := map[uint32]*bound{}
	staleStreams := map[uint32]*bound{} // the binding a stream had before its last Unbind
	reuseHdr := &rtp.Header{}
	payload := make([]byte, 65536)
	base := sc.wireTs(0)
	epochNTP := vfSREpoch.Unix() + 2208988800
	var failRTP atomic.Bool // the next writer refuses the packet (a packet WRITTEN on the stream counts all the same)
	downstream := interceptor.RTPWriterFunc(func(_ *rtp.Header, p []byte, _ interceptor.Attributes) (int, error) {
		if failRTP.Load() {
			return 0, errVfSRInjected
		}

		return len(p), nil
	})
	for _, st := range sc.Steps {
		switch st.A {
		case "bind":
			b := &bound{info: &interceptor.StreamInfo{SSRC: st.S, ClockRate: st.Rate}}
			b.writer = ic.BindLocalStream(b.info, downstream)
			streams[st.S] = b
			out.Emit(vfM{"a": "bind", "s": st.S, "rate": st.Rate})
		case "unbind":
			if b := streams[st.S]; b != nil {
				unb := *b.info // an equal description at another address
				ic.UnbindLocalStream(&unb)
				delete(streams, st.S)
				staleStreams[st.S] = b
			}
			out.Emit(vfM{"a": "unbind", "s": st.S})
		case "rtp":
			b := streams[st.S]
			if b == nil && st.Stale {
				b = staleStreams[st.S]
			}
			if b == nil {
				continue
			}
			if st.Len < 0 || st.Len > len(payload) || st.K < 1 {
				t.Fatalf("VERIF-INFRA bad rtp step %+v", st)
			}
			clock.Store(st.T)
			wr := b.writer
			if st.Stale { // a write that was in flight when the stream was removed: through the writer of the OLD binding (no event)
				if ob := staleStreams[st.S]; ob != nil {
					wr = ob.writer
				} else {
					continue
				}
			}
			for i := 0; i < st.K; i++ {
				hdr := reuseHdr // the application fills ONE header object in place for every packet it writes
				*hdr = rtp.Header{
					Version: 2, SSRC: st.S, SequenceNumber: st.W + uint16(i), //nolint:gosec // wraps as on the wire
					Timestamp: sc.wireTs(st.Ts),
				}
				if st.Pad != 0 { // the octet count of a sender report is about the payload octets handed to Write
					hdr.Padding = true
					if st.Pad > 0 {
						hdr.PaddingSize = byte(st.Pad) //nolint:gosec // < 256
					}
				}
				failRTP.Store(st.WFail)
				n, err := wr.Write(hdr, payload[:st.Len], interceptor.Attributes{})
				failRTP.Store(false)
				if st.WFail && !errors.Is(err, errVfSRInjected) {
					t.Fatalf("VERIF-INFRA the injected write failure was not passed up: n=%d err=%v", n, err)
				}
				if !st.WFail && (err != nil || n != st.Len) {
					t.Fatalf("VERIF-INFRA write: n=%d err=%v", n, err)
				}
			}
			if st.Stale {
				continue
			}
			out.Emit(vfM{"a": "rtp", "s": st.S, "w": st.W, "ts": st.Ts, "len": st.Len, "t": st.T, "k": st.K, "pad": st.Pad})
		case "report":
			mu.Lock()
			written = nil
			mu.Unlock()
			clock.Store(st.T)
			failNow.Store(st.WFail)
			select {
			case ticker.c <- time.Time{}: // fire exactly one tick
			case <-time.After(10 * time.Second):
				t.Fatalf("VERIF-INFRA sender report loop does not take the tick")
			}
			waitIdle() // back at the select: every write of the tick body has happened
			failNow.Store(false)
			mu.Lock()
			got := written
			written = nil
			mu.Unlock()
			render := func() []vfM {
				blocks := []vfM{}
				for _, p := range got {
					sr, ok := p.(*rtcp.SenderReport)
					if !ok {
						blocks = append(blocks, vfM{"s": 0, "pkts": 0, "oct": []uint32{0, 0}, "rtp": 0, "sec": 0, "frac": 0, "foreign": true})

						continue
					}
					pk := sr.PacketCount
					if pk > 0x7FFFFFFF { // TLC integers are 32-bit signed; no run sends that many packets
						pk = 0x7FFFFFFF
					}
					sec := int64(sr.NTPTime>>32) - epochNTP //nolint:gosec // G115
					if sec > 0x7FFFFFFF || sec < -0x7FFFFFFF {
						sec = 0x7FFFFFFF
					}
					blocks = append(blocks, vfM{
						"s": sr.SSRC, "pkts": pk, "oct": []uint32{sr.OctetCount >> 16, sr.OctetCount & 0xFFFF},
						"rtp": int32(sr.RTPTime - base), //nolint:gosec // signed residue relative to the base
						"sec": sec, "frac": (sr.NTPTime & 0xFFFFFFFF) >> 12,
					})
				}
				return blocks
			}
			out.Emit(vfM{"a": "report", "t": st.T, "out": render()})
			kept.Keep(func() any { return render() })
		default:
			t.Fatalf("VERIF-INFRA unknown action %q", st.A)
		}
	}
	if err := ic.Close(); err != nil {
		t.Fatalf("VERIF-INFRA close: %v", err)
	}
}

//go:build verif

package gcc

import (
	"testing"

	"github.com/pion/interceptor"
)

// C17: LeakyBucketPacer and NoOpPacer driven through the Pacer interface (AddStream / Write / SetTargetBitrate /
// Close).  The script runner is harness/pkg/pacing/zz_verif_pacerlib_test.go.tpl.
type vfGccTarget struct {
	p Pacer
}

func (g *vfGccTarget) Bind(s uint32, w interceptor.RTPWriter) interceptor.RTPWriter {
	g.p.AddStream(s, w)

	return g.p
}

func (g *vfGccTarget) SetRate(bps int) { g.p.SetTargetBitrate(bps) }

func (g *vfGccTarget) Close() error { return g.p.Close() }

func TestVerifGccPacerExec(t *testing.T) {
	vfPcMain(t, func(sc *vfPcScript) (vfPcTarget, error) {
		var p Pacer
		if sc.Kind == "noop" {
			p = NewNoOpPacer()
			p.SetTargetBitrate(sc.Rate)
		} else {
			p = NewLeakyBucketPacer(sc.Rate)
		}

		return &vfGccTarget{p: p}, nil
	})
}

//go:build verif

package gcc

import (
	"testing"

	"github.com/pion/interceptor"
)

// C17: LeakyBucketPacer and NoOpPacer driven through the Pacer interface (AddStream / Write / SetTargetBitrate /
// Close).  The script runner is harness/pkg/pacing/zz_verif_pacerlib_test.go.tpl.
type vfGccTarget struct {
	p Pacer
}

func (g *vfGccTarget) Bind(s uint32, w interceptor.RTPWriter) interceptor.RTPWriter {
	g.p.AddStream(s, w)

	return g.p
}

func (g *vfGccTarget) SetRate(bps int) { g.p.SetTargetBitrate(bps) }

func (g *vfGccTarget) Close() error { return g.p.Close() }

// vfBweTarget: the pacers as gcc.SendSideBWE uses them (AddStream(info, writer) wraps the stream's next writer with the
// feedback adapter's OnSent and registers it with the pacer; the returned writer is the pacer).
type vfBweTarget struct {
	sc  *vfPcScript
	bwe *SendSideBWE
}

func (b *vfBweTarget) Bind(s uint32, w interceptor.RTPWriter) interceptor.RTPWriter {
	info := &interceptor.StreamInfo{SSRC: s}
	if id := b.sc.vfPcTwccID(s); id != 0 {
		info.RTPHeaderExtensions = []interceptor.RTPHeaderExtension{{URI: transportCCURI, ID: id}}
	}

	return b.bwe.AddStream(info, w)
}

func (b *vfBweTarget) SetRate(bps int) { b.bwe.pacer.SetTargetBitrate(bps) }

func (b *vfBweTarget) Close() error { return b.bwe.Close() }

func TestVerifGccPacerExec(t *testing.T) {
	vfPcMain(t, func(sc *vfPcScript) (vfPcTarget, error) {
		if sc.Kind == "bwe-leaky" || sc.Kind == "bwe-noop" {
			opts := []Option{SendSideBWEInitialBitrate(sc.Rate)}
			if sc.Kind == "bwe-noop" {
				opts = append(opts, SendSideBWEPacer(NewNoOpPacer()))
			}
			bwe, err := NewSendSideBWE(opts...)
			if err != nil {
				return nil, err
			}

			return &vfBweTarget{sc: sc, bwe: bwe}, nil
		}
		var p Pacer
		if sc.Kind == "noop" {
			p = NewNoOpPacer()
			p.SetTargetBitrate(sc.Rate)
		} else {
			p = NewLeakyBucketPacer(sc.Rate)
		}

		return &vfGccTarget{p: p}, nil
	})
}

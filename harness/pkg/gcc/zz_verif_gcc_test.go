//go:build verif

package gcc

import (
	"sync/atomic"
	"sync"
	"errors"
	"fmt"
	"testing"
	"time"

	"github.com/pion/interceptor"
	"github.com/pion/rtcp"
)

// C16 harness, package specific part: builds the real SendSideBWE for a script and hands it to the shared runner
// (zz_verif_gccshared_test.go, generated from harness/pkg/gcc/zz_verif_gccshared_test.go.tpl).

const (
	vfGccDefInit = 10_000
	vfGccDefMin  = 5_000
	vfGccDefMax  = 50_000_000
)

func vfGccNewDriver(sc *vfGccScript, lg *vfGccLog) (*vfGccDriver, error) {
	var opts []Option
	init := sc.Init
	if sc.Defaults {
		init = vfGccDefInit
		sc.Init, sc.Min, sc.Max = vfGccDefInit, vfGccDefMin, vfGccDefMax
	} else {
		opts = append(opts, SendSideBWEInitialBitrate(sc.Init), SendSideBWEMinBitrate(sc.Min), SendSideBWEMaxBitrate(sc.Max))
	}
	var leaky *LeakyBucketPacer
	switch sc.Pacer {
	case "rec":
		opts = append(opts, SendSideBWEPacer(&vfGccRecPacer{log: lg, inner: &vfGccDirect{}, closeErr: sc.PCloseErr}))
	case "noop":
		opts = append(opts, SendSideBWEPacer(&vfGccRecPacer{log: lg, inner: NewNoOpPacer(), closeErr: sc.PCloseErr}))
	case "leaky":
		leaky = NewLeakyBucketPacer(init)
		opts = append(opts, SendSideBWEPacer(&vfGccRecPacer{log: lg, inner: leaky, closeErr: sc.PCloseErr}))
	case "default":
	default:
		return nil, fmt.Errorf("unknown pacer %q", sc.Pacer)
	}
	bwe, err := NewSendSideBWE(opts...)
	if err != nil {
		return nil, err
	}
	if sc.Pacer == "default" {
		leaky, _ = bwe.pacer.(*LeakyBucketPacer)
	}
	var feeding sync.RWMutex // read-held by every WriteRTCP call in progress
	var cbFirst atomic.Bool
	bwe.OnTargetBitrateChange(func(v int) {
		// an observer that asks the estimator from inside its callback (the value may already be a newer one)
		_ = bwe.GetTargetBitrate()
		_ = bwe.GetStats()
		lg.cb(v)
		if sc.CbHold > 0 && cbFirst.CompareAndSwap(false, true) {
			time.Sleep(time.Duration(sc.CbHold) * time.Millisecond)
		}
		if sc.CbWait { // ... and that is not done before the feedback calls in progress have returned
			feeding.Lock()
			feeding.Unlock() //nolint:staticcheck // waiting is the point
		}
	})
	feed := func(pkts []rtcp.Packet) string {
		feeding.RLock()
		err := bwe.WriteRTCP(pkts, nil)
		feeding.RUnlock()
		switch {
		case err == nil:
			return "ok"
		case errors.Is(err, ErrSendSideBWEClosed):
			return "closed"
		default:
			return "err"
		}
	}

	return &vfGccDriver{
		addStream: func(info *interceptor.StreamInfo, w interceptor.RTPWriter) interceptor.RTPWriter {
			return bwe.AddStream(info, w)
		},
		feed:  feed,
		flush: func() string { return feed([]rtcp.Packet{&rtcp.TransportLayerCC{}}) },
		get:   bwe.GetTargetBitrate,
		stats: bwe.GetStats,
		close: bwe.Close,
		leakyRate: func() int {
			if leaky == nil {
				return -1
			}

			return leaky.getTargetBitrate()
		},
		pipeCap: func() int { return max(cap(bwe.delayController.ackPipe), cap(bwe.delayController.ackRatePipe)) },
	}, nil
}

// the rate controller's table and the names GetStats exposes, for every pair (and one value outside each enumeration)
func vfGccTable(lg *vfGccLog) {
	for _, s := range []state{stateIncrease, stateDecrease, stateHold, state(7)} {
		for _, u := range []usage{usageOver, usageUnder, usageNormal, usage(7)} {
			lg.add(vfM{"a": "trans", "s": s.String(), "u": u.String(), "out": s.transition(u).String()})
		}
	}
	lg.add(vfM{"a": "zero", "s": state(0).String(), "u": usage(0).String()})
	// informational (no verdict): the state the real rateController applies along a usage sequence, fed the way the
	// overuse detector feeds it (DelayStats.State is always the zero value there)
	emitted := 0
	rc := newRateController(time.Now, 100_000, 50_000, 200_000, func(DelayStats) { emitted++ })
	rc.onReceivedRate(120_000)
	prev := ""
	for i, u := range []usage{usageNormal, usageNormal, usageOver, usageNormal, usageNormal, usageUnder, usageNormal,
		usageOver, usageOver, usageUnder, usageNormal} {
		before := emitted
		rc.onDelayStats(DelayStats{Usage: u})
		lg.add(vfM{"a": "rcstep", "i": i, "prev": prev, "u": u.String(), "state": rc.delayStats.State.String(),
			"emitted": emitted > before, "target": vfGccInt(rc.target)})
		prev = rc.delayStats.State.String()
	}
	lg.add(vfM{"a": "end"})
}

func TestVerifGccExec(t *testing.T) {
	vfGccExec(t, func(sc *vfGccScript, lg *vfGccLog) error {
		if sc.Level == "table" {
			vfGccTable(lg)

			return nil
		}
		d, err := vfGccNewDriver(sc, lg)
		if err != nil {
			return err
		}
		if sc.Level == "conc" {
			vfGccRunConc(sc, lg, d)
		} else {
			vfGccRunSeq(sc, lg, d)
		}

		return nil
	})
}

//go:build verif

package gcc

import (
	"encoding/json"
	"math"
	"math/big"
	"sync"
	"testing"
	"time"

	"github.com/pion/interceptor/internal/cc"
	"github.com/pion/logging"
)

// Growth part of the C16 harness for the numeric stages (spec/GccRate.tla, spec/GccKalman.tla, validated by
// spec/Trace_GccRate.tla).  Everything here only drives the real objects and records what they did.
//
//   lvl "loss": the real lossBasedBandwidthEstimator (updateLossEstimate / getEstimate).
//   lvl "rc":   the real rateController (onReceivedRate / updateRTT / onDelayStats with its real callback).
//   lvl "kal":  the real kalman filter (updateEstimate), every field logged before and after.
//   lvl "wire": the real delayController (both pipes, both goroutines, arrival groups -> slope estimator -> kalman ->
//               overuse detector -> rate controller -> callback; rate calculator -> onReceivedRate).
//
// THE CLOCK.  Both stages read time.Now() directly.  A script carries a virtual clock in microseconds (all values are
// multiples of 500 us).  The stages keep only "time of the last ..." fields and use them in two ways:
//   floored to whole milliseconds (lastLossUpdate, rateController.lastUpdate): before the call the field is set to
//       now - E - 1 ns, E the virtual elapsed time, so the code sees an elapsed time in (E, E + slack]; E mod 1 ms is 0 or
//       500 us, so the millisecond floor is the specification's as long as slack < 500 us;
//   compared with > 200 ms (lastIncrease, lastDecrease): the field is set to now - E + 250 us, the code sees
//       (E - 250 us, E - 250 us + slack]: on the same side of every multiple of 500 us as E itself as long as
//       slack <= 250 us.
// slack = the duration of the call, measured; a call that took more than 200 us is undone (the fields are restored) and
// repeated, so no logged value depends on how long anything took.  A field the code stamped during the call differs from
// the value it was set to: that is how "lastIncrease was stamped" is observed, and the virtual time of the stamp is the
// virtual now.  A never-stamped field stays the zero time.

type vfRateStep struct {
	A     string `json:"a"`
	Lost  int    `json:"lost"`
	N     int    `json:"n"`
	Dt    int    `json:"dt"` // advance of the virtual clock before the step, microseconds
	W     int    `json:"w"`
	R     int    `json:"r"`
	D     int    `json:"d"` // rtt, microseconds
	Usage string `json:"usage"`
	St    string `json:"st"`
	M     int    `json:"m"` // kalman measurement, nanoseconds
}

type vfRateScript struct {
	Lvl   string         `json:"lvl"`
	Init  int            `json:"init"`
	Min   int            `json:"min"`
	Max   int            `json:"max"`
	Batch int            `json:"batch"`
	Steps []vfRateStep   `json:"steps"`
	Acks  []vfGccGrowAck `json:"acks"`
}

const (
	vfRateSlack   = 200 * time.Microsecond
	vfRateGuard   = 250 * time.Microsecond
	vfRateTries   = 400
	vfRateNever   = -1
	vfRateUndefIn = -2147483647 // a script's received rate that stands for math.MinInt64
)

// vfRateLimbs renders floor(f * scale) as little-endian base-10^4 limbs (exact: math/big); ok = false for a value that
// is negative, NaN or infinite.
func vfRateLimbs(f float64, scale int64) ([]int, bool) {
	if math.IsNaN(f) || math.IsInf(f, 0) || f < 0 {
		return []int{}, false
	}
	bf := new(big.Float).SetPrec(400).SetFloat64(f)
	bf.Mul(bf, new(big.Float).SetPrec(400).SetInt64(scale))
	i, _ := bf.Int(nil)
	res := []int{}
	base := big.NewInt(10000)
	rem := new(big.Int)
	for i.Sign() > 0 {
		i.DivMod(i, base, rem)
		res = append(res, int(rem.Int64()))
	}

	return res, true
}

func vfRatePpb(f float64) int {
	if math.IsNaN(f) || math.IsInf(f, 0) || f < 0 || f > 2 {
		return -1
	}
	l, _ := vfRateLimbs(f, 1_000_000_000)
	v := 0
	for i := len(l) - 1; i >= 0; i-- {
		v = v*10000 + l[i]
	}

	return v
}

func vfRateUsage(s string) usage {
	switch s {
	case "overuse":
		return usageOver
	case "underuse":
		return usageUnder
	default:
		return usageNormal
	}
}

func vfRateState(s string) state {
	switch s {
	case "decrease":
		return stateDecrease
	case "hold":
		return stateHold
	default:
		return stateIncrease
	}
}

// ---------------------------------------------------------------------------------------------------------- loss

func vfRateLoss(t *testing.T, sc *vfRateScript, out *vfWriter) {
	e := newLossBasedBWE(sc.Init, logging.NewDefaultLoggerFactory())
	now := 0
	vtl, vti, vtd := vfRateNever, vfRateNever, vfRateNever
	arrived := time.Unix(1_700_000_000, 0)
	for _, s := range sc.Steps {
		now += s.Dt
		switch s.A {
		case "get":
			ls := e.getEstimate(s.W)
			out.Emit(vfM{"a": "lget", "w": s.W, "now": now, "out": vfGccInt(ls.TargetBitrate), "oavg": vfRatePpb(ls.AverageLoss),
				"b": vfGccInt(e.bitrate)})
		case "upd":
			acks := make([]cc.Acknowledgment, s.N)
			for i := range acks {
				acks[i].SequenceNumber = uint16(i) //nolint:gosec
				if i >= s.Lost {
					acks[i].Arrival = arrived
				}
			}
			sb, sa, stl, sti, std := e.bitrate, e.averageLoss, e.lastLossUpdate, e.lastIncrease, e.lastDecrease
			done := false
			for try := 1; try <= vfRateTries && !done; try++ {
				t0 := time.Now()
				ptl, pti, ptd := stl, sti, std
				if vtl != vfRateNever {
					ptl = t0.Add(-time.Duration(now-vtl)*time.Microsecond - time.Nanosecond)
				}
				if vti != vfRateNever {
					pti = t0.Add(-time.Duration(now-vti)*time.Microsecond + vfRateGuard)
				}
				if vtd != vfRateNever {
					ptd = t0.Add(-time.Duration(now-vtd)*time.Microsecond + vfRateGuard)
				}
				e.bitrate, e.averageLoss, e.lastLossUpdate, e.lastIncrease, e.lastDecrease = sb, sa, ptl, pti, ptd
				e.updateLossEstimate(acks)
				slack := time.Since(t0)
				if slack > vfRateSlack {
					continue // too slow to know which side of a boundary the code saw: undo, again
				}
				done = true
				ev := vfM{"a": "lupd", "lost": s.Lost, "n": s.N, "now": now, "b": vfGccInt(e.bitrate), "avg": vfRatePpb(e.averageLoss),
					"stl": e.lastLossUpdate != ptl, "sti": e.lastIncrease != pti, "std": e.lastDecrease != ptd, "tries": try}
				if e.lastLossUpdate != ptl {
					vtl = now
				}
				if e.lastIncrease != pti {
					vti = now
				}
				if e.lastDecrease != ptd {
					vtd = now
				}
				out.Emit(ev)
			}
			if !done {
				out.Emit(vfM{"a": "inconclusive"})

				return
			}
		default:
			t.Fatalf("VERIF-INFRA unknown loss step %q", s.A)
		}
	}
}

// ---------------------------------------------------------------------------------------------------------- rate controller

func vfRateEma(a *exponentialMovingAverage) vfM {
	if a == nil {
		return vfM{"z": false, "wild": true, "avg": []int{}, "var": []int{}, "sd": []int{}}
	}
	avg, ok1 := vfRateLimbs(a.average, 1000)
	vr, ok2 := vfRateLimbs(a.variance, 1_000_000)
	sd, ok3 := vfRateLimbs(a.stdDeviation, 1000)
	wild := !(ok1 && ok2 && ok3) || a.average > 4e9 || a.variance > 1e19
	if wild {
		avg, vr, sd = []int{}, []int{}, []int{}
	}

	return vfM{"z": a.average == 0.0, "wild": wild, "avg": avg, "var": vr, "sd": sd}
}

func vfRateRc(t *testing.T, sc *vfRateScript, out *vfWriter) {
	var emitted []DelayStats
	c := newRateController(time.Now, sc.Init, sc.Min, sc.Max, func(ds DelayStats) { emitted = append(emitted, ds) })
	now := 0
	vtu := vfRateNever
	k := 0
	for _, s := range sc.Steps {
		now += s.Dt
		switch s.A {
		case "recv":
			r := s.R
			if r == vfRateUndefIn {
				r = math.MinInt64
			}
			c.onReceivedRate(r)
			out.Emit(vfM{"a": "rrecv", "r": s.R, "lr": vfGccInt(c.latestReceivedRate)})
		case "rtt":
			c.updateRTT(time.Duration(s.D) * time.Microsecond)
			out.Emit(vfM{"a": "rrtt", "d": s.D, "lrtt": vfGccInt(int(c.latestRTT / time.Microsecond))})
		case "ds":
			k++
			in := DelayStats{Measurement: time.Duration(1000+k) * time.Microsecond, Estimate: time.Duration(2000+k) * time.Microsecond,
				Threshold: time.Duration(3000+k) * time.Microsecond, LastReceiveDelta: time.Duration(4000+k) * time.Microsecond,
				Usage: vfRateUsage(s.Usage), State: vfRateState(s.St), TargetBitrate: 7}
			sInit, sDs, sTarget, sLast, pEma := c.init, c.delayStats, c.target, c.lastUpdate, c.latestDecreaseRate
			var sEma exponentialMovingAverage
			if pEma != nil {
				sEma = *pEma
			}
			done := false
			for try := 1; try <= vfRateTries && !done; try++ {
				emitted = emitted[:0]
				t0 := time.Now()
				plu := sLast
				if vtu != vfRateNever {
					plu = t0.Add(-time.Duration(now-vtu)*time.Microsecond - time.Nanosecond)
				}
				c.init, c.delayStats, c.target, c.lastUpdate, c.latestDecreaseRate = sInit, sDs, sTarget, plu, pEma
				if pEma != nil {
					*pEma = sEma
				}
				c.onDelayStats(in)
				if time.Since(t0) > vfRateSlack {
					continue
				}
				done = true
				ev := vfM{"a": "rds", "usage": s.Usage, "st": s.St, "now": now, "emit": len(emitted), "target": vfGccInt(c.target),
					"state": c.delayStats.State.String(), "stu": c.lastUpdate != plu, "ema": vfRateEma(c.latestDecreaseRate),
					"otarget": 0, "ostate": "", "ousage": "", "tries": try}
				if c.lastUpdate != plu {
					vtu = now
				}
				if len(emitted) > 0 {
					o := emitted[0]
					ev["otarget"], ev["ostate"], ev["ousage"] = vfGccInt(o.TargetBitrate), o.State.String(), o.Usage.String()
					// the four pass-through fields, as integers, next to what went in
					ev["im"] = []int{1000 + k, 2000 + k, 3000 + k, 4000 + k}
					ev["om"] = []int{vfGccInt(int(o.Measurement / time.Microsecond)), vfGccInt(int(o.Estimate / time.Microsecond)),
						vfGccInt(int(o.Threshold / time.Microsecond)), vfGccInt(int(o.LastReceiveDelta / time.Microsecond))}
				} else {
					ev["im"], ev["om"] = []int{}, []int{}
				}
				out.Emit(ev)
			}
			if !done {
				out.Emit(vfM{"a": "inconclusive"})

				return
			}
		default:
			t.Fatalf("VERIF-INFRA unknown rate-controller step %q", s.A)
		}
	}
}

// ---------------------------------------------------------------------------------------------------------- kalman

func vfRateKalman(sc *vfRateScript, out *vfWriter) {
	k := newKalman()
	for _, s := range sc.Steps {
		pest := k.estimate
		pee, _ := vfRateLimbs(k.estimateError, 1_000_000_000)
		pmu, _ := vfRateLimbs(k.measurementUncertainty, 1_000_000_000)
		ret := k.updateEstimate(time.Duration(s.M))
		ee, ok1 := vfRateLimbs(k.estimateError, 1_000_000_000)
		mu, ok2 := vfRateLimbs(k.measurementUncertainty, 1_000_000_000)
		out.Emit(vfM{"a": "kal", "m": s.M, "pest": vfGccInt(int(pest)), "est": vfGccInt(int(k.estimate)), "ret": vfGccInt(int(ret)),
			"gain": vfRatePpb(k.gain), "pee": pee, "ee": ee, "pmu": pmu, "mu": mu, "finite": ok1 && ok2,
			"q": vfRatePpb(k.processUncertainty)})
	}
}

// ---------------------------------------------------------------------------------------------------------- wiring

func vfRateWire(sc *vfRateScript, out *vfWriter) {
	d := newDelayController(delayControllerConfig{nowFn: time.Now, initialBitrate: sc.Init, minBitrate: sc.Min, maxBitrate: sc.Max},
		logging.NewDefaultLoggerFactory())
	var mu sync.Mutex
	var got []vfM
	d.onUpdate(func(ds DelayStats) {
		mu.Lock()
		got = append(got, vfM{"m": vfGccInt(int(ds.Measurement / time.Microsecond)), "lrd": vfGccInt(int(ds.LastReceiveDelta / time.Microsecond)),
			"usage": ds.Usage.String(), "state": ds.State.String(), "target": vfGccInt(ds.TargetBitrate),
			"exact": ds.Measurement%time.Microsecond == 0 && ds.LastReceiveDelta%time.Microsecond == 0})
		mu.Unlock()
	})
	for _, b := range vfGccGrowBatches(sc.Acks, sc.Batch) {
		acks := make([]cc.Acknowledgment, 0, len(b))
		for _, a := range b {
			ack := cc.Acknowledgment{SequenceNumber: uint16(a.ID), Size: a.Size, //nolint:gosec
				Departure: vfGccGrowBase.Add(time.Duration(a.Dep) * time.Microsecond)}
			if a.Arr >= 0 {
				ack.Arrival = vfGccGrowBase.Add(time.Duration(a.Arr) * time.Microsecond)
			}
			acks = append(acks, ack)
		}
		d.updateDelayEstimate(acks)
		d.updateDelayEstimate(nil) // accepted by each pipe only when its goroutine has finished the batch above
		mu.Lock()
		o := got
		got = nil
		mu.Unlock()
		if o == nil {
			o = []vfM{}
		}
		d.rateController.lock.Lock()
		lr := d.rateController.latestReceivedRate
		d.rateController.lock.Unlock()
		out.Emit(vfM{"a": "wbatch", "acks": b, "out": o, "lr": vfGccInt(lr)})
	}
	_ = d.Close()
}

func TestVerifGccRateExec(t *testing.T) {
	in := vfLoad(t)
	out := vfOut(t)
	defer out.Close()
	for _, raw := range in {
		var sc vfRateScript
		if err := json.Unmarshal(raw, &sc); err != nil {
			t.Fatalf("VERIF-INFRA bad script: %v", err)
		}
		out.Emit(vfM{"a": "reset", "lvl": sc.Lvl, "init": sc.Init, "min": sc.Min, "max": sc.Max})
		out.w.Flush() //nolint:errcheck // a call that never returns leaves the reset of ITS script on disk (culprit attribution)
		switch sc.Lvl {
		case "loss":
			vfRateLoss(t, &sc, out)
		case "rc":
			vfRateRc(t, &sc, out)
		case "kal":
			vfRateKalman(&sc, out)
		case "wire":
			vfRateWire(&sc, out)
		default:
			t.Fatalf("VERIF-INFRA unknown level %q", sc.Lvl)
		}
	}
}

//go:build verif

package gcc

import (
	"encoding/json"
	"sync"
	"testing"
	"time"

	"github.com/pion/interceptor/internal/cc"
)

// Growth part of the C16 harness (spec/GccGroups.tla, spec/GccOveruse.tla, validated by spec/Trace_GccGrow.tla):
// the discrete stages of the delay-based estimator are driven directly with integer inputs.
//   lvl "groups": acknowledgements (microsecond offsets) through the real arrivalGroupAccumulator.run (channel in,
//                 callback out); an empty batch sent after every batch is received only when the batch before it has
//                 been processed completely, so the groups emitted by a batch are known without any timing.
//   lvl "rate":   acknowledgements (millisecond offsets, sizes) through the real rateCalculator.run, same synchronisation.
//   lvl "od":     samples through the real adaptiveThreshold.compare (threshold pinned before every call: its adaptation
//                 is float arithmetic and is an input of the specification), the real overuseDetector and the real
//                 rateController.  The detector reads the wall clock: the harness sets lastUpdate = now - delta before
//                 the call and logs the bracket [dlo, dhi] the elapsed time must lie in together with the observed
//                 increasingDuration; no verdict depends on how long anything took.

type vfGccGrowAck struct {
	ID   int  `json:"id"`
	Dep  int  `json:"dep"`
	Arr  int  `json:"arr"` // -1 = no arrival time (lost)
	Size int  `json:"size"`
}

type vfGccGrowScript struct {
	Lvl   string          `json:"lvl"`
	Batch int             `json:"batch"`
	Acks  []vfGccGrowAck  `json:"acks"`
	Steps []struct {
		Est   int `json:"est"`   // raw estimate, microseconds
		Th    int `json:"th"`    // threshold in force, microseconds
		Delta int `json:"delta"` // nominal time since the previous sample, nanoseconds
	} `json:"steps"`
}

var vfGccGrowBase = time.Unix(1_700_000_000, 0) //nolint:gochecknoglobals

func vfGccGrowBatches(acks []vfGccGrowAck, n int) [][]vfGccGrowAck {
	if n <= 0 {
		n = len(acks)
	}
	var res [][]vfGccGrowAck
	for i := 0; i < len(acks); i += n {
		res = append(res, acks[i:min(i+n, len(acks))])
	}

	return res
}

func vfGccGrowOff(t time.Time, unit time.Duration) int {
	if t.IsZero() {
		return -1
	}

	return vfGccInt(int(t.Sub(vfGccGrowBase) / unit))
}

func vfGccGrowGroups(sc *vfGccGrowScript, out *vfWriter) {
	in := make(chan []cc.Acknowledgment)
	var mu sync.Mutex
	var emitted []vfM
	var wg sync.WaitGroup
	wg.Add(1)
	go func() {
		defer wg.Done()
		newArrivalGroupAccumulator().run(in, func(g arrivalGroup) {
			ids := make([]int, 0, len(g.packets))
			for _, p := range g.packets {
				ids = append(ids, int(p.SequenceNumber))
			}
			mu.Lock()
			emitted = append(emitted, vfM{"ids": ids, "dep": vfGccGrowOff(g.departure, time.Microsecond),
				"arr": vfGccGrowOff(g.arrival, time.Microsecond)})
			mu.Unlock()
		})
	}()
	for _, b := range vfGccGrowBatches(sc.Acks, sc.Batch) {
		acks := make([]cc.Acknowledgment, 0, len(b))
		for _, a := range b {
			ack := cc.Acknowledgment{SequenceNumber: uint16(a.ID), Size: a.Size, //nolint:gosec
				Departure: vfGccGrowBase.Add(time.Duration(a.Dep) * time.Microsecond)}
			if a.Arr >= 0 {
				ack.Arrival = vfGccGrowBase.Add(time.Duration(a.Arr) * time.Microsecond)
			}
			acks = append(acks, ack)
		}
		in <- acks
		in <- nil // received only after the batch above has been processed
		mu.Lock()
		got := emitted
		emitted = nil
		mu.Unlock()
		if got == nil {
			got = []vfM{}
		}
		out.Emit(vfM{"a": "gbatch", "acks": b, "out": got})
	}
	close(in)
	wg.Wait()
}

func vfGccGrowRate(sc *vfGccGrowScript, out *vfWriter) {
	in := make(chan []cc.Acknowledgment)
	var mu sync.Mutex
	var rates []int
	var wg sync.WaitGroup
	wg.Add(1)
	go func() {
		defer wg.Done()
		newRateCalculator(500*time.Millisecond).run(in, func(r int) {
			mu.Lock()
			rates = append(rates, vfGccInt(r))
			mu.Unlock()
		})
	}()
	for _, b := range vfGccGrowBatches(sc.Acks, sc.Batch) {
		acks := make([]cc.Acknowledgment, 0, len(b))
		for _, a := range b {
			ack := cc.Acknowledgment{SequenceNumber: uint16(a.ID), Size: a.Size, Departure: vfGccGrowBase} //nolint:gosec
			if a.Arr >= 0 {
				ack.Arrival = vfGccGrowBase.Add(time.Duration(a.Arr) * time.Millisecond)
			}
			acks = append(acks, ack)
		}
		in <- acks
		in <- nil
		mu.Lock()
		got := rates
		rates = nil
		mu.Unlock()
		if got == nil {
			got = []int{}
		}
		out.Emit(vfM{"a": "rbatch", "acks": b, "out": got})
	}
	close(in)
	wg.Wait()
}

// vfGccGrowPinned is the real adaptive threshold with its (float-adapted) threshold overwritten before every comparison.
type vfGccGrowPinned struct {
	real *adaptiveThreshold
	next time.Duration
	last vfM
}

func (p *vfGccGrowPinned) compare(estimate, delta time.Duration) (usage, time.Duration, time.Duration) {
	p.real.thresh = p.next
	u, e, th := p.real.compare(estimate, delta)
	p.last = vfM{"tuse": u.String(), "oest": vfGccInt(int(e / time.Microsecond)), "oth": vfGccInt(int(th / time.Microsecond)),
		"exact": e%time.Microsecond == 0 && th%time.Microsecond == 0}

	return u, e, th
}

func vfGccGrowOveruse(sc *vfGccGrowScript, out *vfWriter) {
	rc := newRateController(time.Now, 100_000, 50_000, 200_000, func(DelayStats) {})
	rc.onReceivedRate(120_000)
	var got DelayStats
	pin := &vfGccGrowPinned{real: newAdaptiveThreshold()}
	od := newOveruseDetector(pin, 10*time.Millisecond, func(ds DelayStats) {
		got = ds
		rc.onDelayStats(ds)
	})
	for _, s := range sc.Steps {
		pin.next = time.Duration(s.Th) * time.Microsecond
		nominal := time.Duration(s.Delta)
		t0 := time.Now()
		od.lastUpdate = t0.Add(-nominal)
		od.onDelayStats(DelayStats{Estimate: time.Duration(s.Est) * time.Microsecond})
		t1 := time.Now()
		e := vfM{"a": "od", "est": s.Est, "th": s.Th, "dlo": vfGccInt(int(nominal)), "dhi": vfGccInt(int(nominal + t1.Sub(t0))),
			"dur": vfGccInt(int(od.increasingDuration)), "cnt": od.increasingCounter, "use": got.Usage.String(),
			"dsest": vfGccInt(int(got.Estimate / time.Microsecond)), "dsth": vfGccInt(int(got.Threshold / time.Microsecond)),
			"state": rc.delayStats.State.String()}
		for k, v := range pin.last {
			e[k] = v
		}
		out.Emit(e)
	}
}

func TestVerifGccGrowExec(t *testing.T) {
	in := vfLoad(t)
	out := vfOut(t)
	defer out.Close()
	for _, raw := range in {
		var sc vfGccGrowScript
		if err := json.Unmarshal(raw, &sc); err != nil {
			t.Fatalf("VERIF-INFRA bad script: %v", err)
		}
		out.Emit(vfM{"a": "reset", "lvl": sc.Lvl})
		switch sc.Lvl {
		case "groups":
			vfGccGrowGroups(&sc, out)
		case "rate":
			vfGccGrowRate(&sc, out)
		case "od":
			vfGccGrowOveruse(&sc, out)
		default:
			t.Fatalf("VERIF-INFRA unknown level %q", sc.Lvl)
		}
	}
}

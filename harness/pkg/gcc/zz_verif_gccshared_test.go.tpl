//go:build verif

// Shared part of the C16 harness (spec/Gcc.tla, spec/Trace_Gcc.tla).  It is compiled into pkg/gcc (level "bwe":
// gcc.SendSideBWE driven directly) and into pkg/cc (level "cc": the same scripts through cc.Interceptor); the
// package clause is substituted by checks/c16.py.  Everything here only drives and records:
//   - a recording Pacer wrapper (SetTargetBitrate calls are appended to the script's event log at the instant they
//     happen, i.e. under the estimator's lock),
//   - builders of real rtcp.TransportLayerCC (through the real twcc.Recorder) / rtcp.CCFeedbackReport packets from
//     arrival patterns,
//   - the script runner and the quiescence procedure.
package PKGNAME

import (
	"errors"
	"fmt"
	"math"
	"os"
	"sort"
	"strconv"
	"sync"
	"sync/atomic"
	"testing"
	"time"

	"encoding/json"

	"github.com/pion/interceptor"
	"github.com/pion/interceptor/pkg/twcc"
	"github.com/pion/rtcp"
	"github.com/pion/rtp"
)

const (
	vfGccTWCCURI  = "http://www.ietf.org/id/draft-holmer-rmcat-transport-wide-cc-extensions-01"
	vfGccSSRC     = uint32(0x1234)
	vfGccExtID    = 5
	vfGccWatchdog = 60 * time.Second // a call of the estimator that takes longer than this is reported as not returning
)

type vfGccStep struct {
	A    string `json:"a"`
	N    int    `json:"n"`
	Gap  int    `json:"gap"` // departure gap between packets, microseconds (real sleep: departure is time.Now() in the code)
	Size int    `json:"size"`
	Pat  string `json:"pat"`
	Loss int    `json:"loss"`
	Pair bool   `json:"pair"` // fb: one compound packet - this report followed by the previous one again
	Ms   int    `json:"ms"`
}

type vfGccScript struct {
	Level    string      `json:"level"` // bwe | cc | conc | table
	Pacer    string      `json:"pacer"` // rec | noop | leaky | default
	Fb       string      `json:"fb"`    // twcc | rfc8888
	Init     int         `json:"init"`
	Min      int         `json:"min"`
	Max      int         `json:"max"`
	Defaults bool        `json:"defaults"`
	Base     int         `json:"base"`
	Steps    []vfGccStep `json:"steps"`
	// PCloseErr: the injected (recording) pacer's Close returns an error (the estimator's Close reports it; the estimator
	// is closed all the same: WriteRTCP fails with the closed error, a second Close is harmless)
	PCloseErr bool `json:"pcloseerr"`
	// Loopback: the stream's transport acknowledges every packet at once - its writer feeds an RFC 8888 report about the
	// packet to WriteRTCP synchronously, from inside the Write the pacer is performing (an in-memory loopback transport)
	Loopback bool `json:"loopback"`
	// CbWait: a rate consumer that is busy while feedback is being fed - the OnTargetBitrateChange callback does not return
	// before every WriteRTCP call in progress has returned (e.g. it hands the rate to the loop that also feeds the feedback)
	CbWait bool `json:"cbwait"`
	// CbHold: a slow rate consumer - the FIRST invocation of the change callback takes this many milliseconds; every change
	// published meanwhile must still be announced
	CbHold int `json:"cbhold"`
	// level conc
	Feeders    int `json:"feeders"`
	Writes     int `json:"writes"`
	CloseAfter int `json:"closeafter"`
	Getters    int `json:"getters"`
}

// vfGccInt keeps logged values inside TLC's 32-bit integers (a value outside is far outside every envelope anyway).
func vfGccInt(v int) int {
	if v > math.MaxInt32 {
		return math.MaxInt32
	}
	if v < -math.MaxInt32 {
		return -math.MaxInt32
	}

	return v
}

// ---- event log of one script: appended to by the driver, by the pacer wrapper and by the change callbacks ----

type vfGccLog struct {
	mu     sync.Mutex
	ev     []vfM
	npacer int
	ncb    int
	last   time.Time
}

func (l *vfGccLog) add(e vfM) {
	l.mu.Lock()
	l.ev = append(l.ev, e)
	l.mu.Unlock()
}

func (l *vfGccLog) pacer(v int) {
	l.mu.Lock()
	l.ev = append(l.ev, vfM{"a": "pacer", "v": vfGccInt(v)})
	l.npacer++
	l.last = time.Now()
	l.mu.Unlock()
}

func (l *vfGccLog) cb(v int) {
	l.mu.Lock()
	l.ev = append(l.ev, vfM{"a": "cb", "v": vfGccInt(v)})
	l.ncb++
	l.last = time.Now()
	l.mu.Unlock()
}

func (l *vfGccLog) counts() (int, int, time.Time) {
	l.mu.Lock()
	defer l.mu.Unlock()

	return l.npacer, l.ncb, l.last
}

// ---- pacers -------------------------------------------------------------------------------------------------

// method set of gcc.Pacer
type vfGccPacerAPI interface {
	interceptor.RTPWriter
	AddStream(ssrc uint32, writer interceptor.RTPWriter)
	SetTargetBitrate(int)
	Close() error
}

// vfGccDirect hands every packet straight to the stream's writer.
type vfGccDirect struct {
	mu sync.Mutex
	w  map[uint32]interceptor.RTPWriter
}

func (p *vfGccDirect) AddStream(ssrc uint32, w interceptor.RTPWriter) {
	p.mu.Lock()
	defer p.mu.Unlock()
	if p.w == nil {
		p.w = map[uint32]interceptor.RTPWriter{}
	}
	p.w[ssrc] = w
}
func (p *vfGccDirect) SetTargetBitrate(int) {}
func (p *vfGccDirect) Close() error         { return nil }
func (p *vfGccDirect) Write(h *rtp.Header, b []byte, a interceptor.Attributes) (int, error) {
	p.mu.Lock()
	w := p.w[h.SSRC]
	p.mu.Unlock()
	if w == nil {
		return 0, fmt.Errorf("vfGccDirect: unknown ssrc %d", h.SSRC)
	}

	return w.Write(h, b, a)
}

// vfGccRecPacer records SetTargetBitrate and forwards everything to the wrapped pacer.
type vfGccRecPacer struct {
	log      *vfGccLog
	inner    vfGccPacerAPI
	closeErr bool
}

var errVfGccPacerClose = errors.New("injected pacer close failure") //nolint:gochecknoglobals

func (p *vfGccRecPacer) AddStream(ssrc uint32, w interceptor.RTPWriter) { p.inner.AddStream(ssrc, w) }
func (p *vfGccRecPacer) Close() error {
	err := p.inner.Close()
	if p.closeErr {
		return errVfGccPacerClose
	}

	return err
}
func (p *vfGccRecPacer) Write(h *rtp.Header, b []byte, a interceptor.Attributes) (int, error) {
	return p.inner.Write(h, b, a)
}
func (p *vfGccRecPacer) SetTargetBitrate(v int) {
	p.log.pacer(v)
	p.inner.SetTargetBitrate(v)
}

// ---- the estimator as the runner sees it (built by the package specific file) ---------------------------------

type vfGccDriver struct {
	addStream func(*interceptor.StreamInfo, interceptor.RTPWriter) interceptor.RTPWriter
	feed      func([]rtcp.Packet) string // WriteRTCP: "ok" | "closed" | "err"
	flush     func() string              // an empty TransportLayerCC written to the estimator
	get       func() int
	stats     func() map[string]any
	close     func() error
	leakyRate func() int // target of the real leaky bucket pacer, -1 when not observable
	pipeCap   func() int // capacity of the pipeline channels, 0 when not observable (they are unbuffered in the code)
}

// vfGccWithin runs f; if it does not return within the watchdog the process is crashed with a VERIF-FAIL panic
// (the check reports "did not return" with the goroutine dump).
func vfGccWithin(what string, f func()) {
	done := make(chan struct{})
	go func() {
		defer close(done)
		f()
	}()
	select {
	case <-done:
	case <-time.After(vfGccWatchdog):
		panic("VERIF-FAIL " + what + " did not return within " + vfGccWatchdog.String())
	}
}

// ---- feedback builders ------------------------------------------------------------------------------------------

type vfGccFb struct {
	kind     string
	next     int   // next sequence number to send (unwrapped)
	from     int   // first number not yet covered by a feedback
	lastFrom int   // range of the previous feedback
	lastTo   int
	arr      int64 // receiver clock, microseconds
	gap      int   // nominal departure gap of the last send step
	prev     []rtcp.Packet
	fbCount  uint8
}

type vfGccRecv struct {
	seq  int
	lost bool
	at   int64
}

// arrival pattern -> per-packet reception record
func (s *vfGccFb) pattern(pat string, loss int) []vfGccRecv {
	from, to := s.from, s.next
	if from >= to {
		from, to = s.lastFrom, s.lastTo
	}
	if from >= to { // nothing was ever sent: report one number that is unknown to the history
		from, to = s.next, s.next+1
	}
	if pat == "unknown" {
		from, to = s.next+5000, s.next+5000+8
	} else {
		s.lastFrom, s.lastTo = from, to
		s.from = s.next
	}
	g := int64(s.gap)
	if g < 1000 {
		g = 1000
	}
	n := to - from
	res := make([]vfGccRecv, 0, n)
	for i := 0; i < n; i++ {
		r := vfGccRecv{seq: from + i}
		switch loss {
		case 50:
			r.lost = i%2 == 1
		case 100:
			r.lost = true
		}
		switch pat {
		case "equal": // zero inter-arrival
			r.at = s.arr
		case "dec": // strictly decreasing arrival times
			r.at = s.arr + int64(n-i)*1000
		case "gap10s":
			if i == n/2 {
				s.arr += 10_000_000
			}
			s.arr += g
			r.at = s.arr
		case "slow": // arrivals spread wider than departures: queue building up
			s.arr += g + 10_000
			r.at = s.arr
		case "fast": // arrivals closer than departures: queue draining
			s.arr += g / 4
			r.at = s.arr
		default: // inc, unknown, dup
			s.arr += g
			r.at = s.arr
		}
		res = append(res, r)
	}
	if pat == "dec" {
		s.arr += int64(n+1) * 1000
	}
	if pat == "equal" {
		s.arr += 250
	}

	return res
}

func (s *vfGccFb) build(pat string, loss int) []rtcp.Packet {
	if pat == "dup" && s.prev != nil {
		return s.prev
	}
	recs := s.pattern(pat, loss)
	var pkts []rtcp.Packet
	if s.kind == "twcc" {
		pkts = s.twcc(recs)
	} else {
		pkts = s.rfc8888(recs)
	}
	s.prev = pkts

	return pkts
}

func (s *vfGccFb) twcc(recs []vfGccRecv) []rtcp.Packet {
	got := false
	rec := twcc.NewRecorder(0x77)
	for _, r := range recs {
		if !r.lost {
			got = true
			rec.Record(vfGccSSRC, uint16(r.seq), r.at) //nolint:gosec
		}
	}
	if got {
		return rec.BuildFeedbackPacket()
	}
	if len(recs) == 0 {
		return []rtcp.Packet{&rtcp.TransportLayerCC{}}
	}
	// nothing received: one run-length chunk "not received"
	fb := &rtcp.TransportLayerCC{
		SenderSSRC: 0x77, MediaSSRC: vfGccSSRC,
		BaseSequenceNumber: uint16(recs[0].seq),     //nolint:gosec
		PacketStatusCount:  uint16(len(recs)),       //nolint:gosec
		ReferenceTime:      uint32(s.arr / 64000),   //nolint:gosec
		FbPktCount:         s.fbCount,
		PacketChunks: []rtcp.PacketStatusChunk{&rtcp.RunLengthChunk{
			Type: rtcp.TypeTCCRunLengthChunk, PacketStatusSymbol: rtcp.TypeTCCPacketNotReceived,
			RunLength: uint16(len(recs)), //nolint:gosec
		}},
	}
	s.fbCount++
	size := fb.MarshalSize()
	fb.Header = rtcp.Header{
		Padding: false, Count: rtcp.FormatTCC, Type: rtcp.TypeTransportSpecificFeedback,
		Length: uint16(size/4 - 1), //nolint:gosec
	}

	return []rtcp.Packet{fb}
}

func (s *vfGccFb) rfc8888(recs []vfGccRecv) []rtcp.Packet {
	if len(recs) == 0 {
		return []rtcp.Packet{&rtcp.CCFeedbackReport{SenderSSRC: 0x77}}
	}
	report := s.arr
	for _, r := range recs {
		if r.at > report {
			report = r.at
		}
	}
	sec := uint32(report/1_000_000) & 0xFFFF           //nolint:gosec
	frac := uint32((report % 1_000_000) * 65536 / 1e6) //nolint:gosec
	blk := rtcp.CCFeedbackReportBlock{MediaSSRC: vfGccSSRC, BeginSequence: uint16(recs[0].seq)} //nolint:gosec
	for _, r := range recs {
		mb := rtcp.CCFeedbackMetricBlock{Received: !r.lost}
		if !r.lost {
			off := (report - r.at) * 1024 / 1_000_000
			if off > 0x1FFD {
				off = 0x1FFE
			}
			mb.ArrivalTimeOffset = uint16(off) //nolint:gosec
		}
		blk.MetricBlocks = append(blk.MetricBlocks, mb)
	}

	return []rtcp.Packet{&rtcp.CCFeedbackReport{
		SenderSSRC: 0x77, ReportBlocks: []rtcp.CCFeedbackReportBlock{blk}, ReportTimestamp: sec<<16 | frac,
	}}
}

// ---- the sequential script runner ---------------------------------------------------------------------------------

type vfGccRun struct {
	sc     *vfGccScript
	lg     *vfGccLog
	d      *vfGccDriver
	fb     *vfGccFb
	w      interceptor.RTPWriter
	sunk   atomic.Int64 // packets that reached the downstream writer
	sent   int64
	closed bool
	// a transport that has not come back yet: the next packet that reaches the stream's transport writer parks there until
	// the script releases it (steps "sendheld" / "release")
	held     atomic.Pointer[chan struct{}]
	heldCh   chan struct{}
	heldIn   chan struct{}
	heldDone chan struct{}
	heldOnce sync.Once
}

// release lets the parked transport write (if any) return and waits for the writing goroutine
func (r *vfGccRun) release() {
	if r.heldCh == nil {
		return
	}
	r.held.Store(nil)
	r.heldOnce.Do(func() { close(r.heldCh) })
	vfGccWithin("the held RTP write (after its transport came back)", func() { <-r.heldDone })
}

func vfGccReset(sc *vfGccScript) vfM {
	return vfM{"a": "reset", "level": sc.Level, "pacer": sc.Pacer, "fb": sc.Fb, "defaults": sc.Defaults,
		"init": sc.Init, "min": sc.Min, "max": sc.Max}
}

func (r *vfGccRun) header(seq int) *rtp.Header {
	h := &rtp.Header{Version: 2, PayloadType: 96, SSRC: vfGccSSRC,
		SequenceNumber: uint16(seq), Timestamp: uint32(seq) * 3000} //nolint:gosec
	if r.sc.Fb == "twcc" {
		ext, _ := (&rtp.TransportCCExtension{TransportSequence: uint16(seq)}).Marshal() //nolint:gosec
		_ = h.SetExtension(vfGccExtID, ext)
	}

	return h
}

func (r *vfGccRun) send(s vfGccStep) {
	size := s.Size
	if size <= 0 {
		size = 1000
	}
	payload := make([]byte, size)
	ok := 0
	for i := 0; i < s.N; i++ {
		if _, err := r.w.Write(r.header(r.fb.next), payload, nil); err == nil {
			ok++
			r.sent++
		}
		r.fb.next++
		if s.Gap > 0 {
			time.Sleep(time.Duration(s.Gap) * time.Microsecond)
		}
	}
	r.fb.gap = s.Gap
	// a pacer with a queue sends asynchronously: give the packets time to reach the feedback adapter (not a check: a
	// packet that is still queued is simply unknown to the history when the feedback arrives)
	for dl := time.Now().Add(2 * time.Second); r.sunk.Load() < r.sent && time.Now().Before(dl) && !r.closed; {
		time.Sleep(time.Millisecond)
	}
	r.lg.add(vfM{"a": "send", "n": s.N, "ok": ok, "gap": s.Gap})
}

func (r *vfGccRun) get() {
	lo, _, _ := r.lg.counts()
	var v int
	vfGccWithin("GetTargetBitrate", func() { v = r.d.get() })
	hi, _, _ := r.lg.counts()
	r.lg.add(vfM{"a": "get", "v": vfGccInt(v), "lo": lo, "hi": hi})
}

func vfGccFinite(m map[string]any) bool {
	for _, v := range m {
		if f, ok := v.(float64); ok && (math.IsNaN(f) || math.IsInf(f, 0)) {
			return false
		}
	}

	return true
}

func (r *vfGccRun) stats() {
	var m map[string]any
	vfGccWithin("GetStats", func() { m = r.d.stats() })
	u, _ := m["usage"].(string)
	st, _ := m["state"].(string)
	dt, _ := m["delayTargetBitrate"].(int)
	lt, _ := m["lossTargetBitrate"].(int)
	keys := make([]string, 0, len(m))
	for k := range m {
		keys = append(keys, k)
	}
	sort.Strings(keys)
	r.lg.add(vfM{"a": "stats", "usage": u, "state": st, "dt": vfGccInt(dt), "lt": vfGccInt(lt),
		"fin": vfGccFinite(m), "keys": keys})
}

// quiesce establishes "the pipeline is idle and every spawned callback has run" without assuming any duration:
//  1. the pipeline goroutines take the next batch only when they are done with the previous one (range over a
//     channel), so an (empty) feedback written AFTER everything else has been consumed only when all earlier work -
//     every onDelayUpdate, every SetTargetBitrate, every `go callback` statement - is finished; cap+2 such flushes
//     cover a channel of capacity cap.  After Close the pipeline goroutines have been awaited by Close itself.
//  2. callbacks are goroutines that have been started by then; they are done when as many callbacks as pacer calls
//     have been logged (fast path) or when nothing new has been logged for a 3 s quiet period (slow path: the log
//     is then left as it is and the validator decides).
// If activity never stops the script is marked inconclusive.
func (r *vfGccRun) quiesce() {
	n := r.d.pipeCap() + 2
	fl := "ok"
	for i := 0; i < n; i++ {
		vfGccWithin("WriteRTCP(empty feedback)", func() { fl = r.d.flush() })
		if fl != "ok" {
			break
		}
	}
	// slow path only: a spawned goroutine that has not run for this long while this goroutine kept running is not
	// a matter of scheduling any more
	quiet := 3 * time.Second
	start := time.Now()
	for {
		np, ncb, last := r.lg.counts()
		if r.sc.Pacer != "default" && np == ncb {
			break
		}
		if r.sc.Pacer == "default" && r.seenByCallback(r.d.get(), ncb) {
			break // no pacer record to compare with: the callback announcing the current target has run
		}
		ref := last
		if ref.Before(start) {
			ref = start
		}
		if time.Since(ref) > quiet {
			break
		}
		if time.Since(start) > 30*time.Second {
			r.lg.add(vfM{"a": "inconclusive", "why": "activity did not stop within 30s"})

			return
		}
		time.Sleep(2 * time.Millisecond)
	}
	lo, _, _ := r.lg.counts()
	v := r.d.get()
	hi, ncb, _ := r.lg.counts()
	r.lg.add(vfM{"a": "quiesce", "get": vfGccInt(v), "lo": lo, "hi": hi, "ncb": ncb, "leaky": vfGccInt(r.d.leakyRate()),
		"flush": fl})
}

// seenByCallback: v is the initial bitrate and no callback ran, or some callback ran with v.
func (r *vfGccRun) seenByCallback(v, ncb int) bool {
	if ncb == 0 {
		return v == r.sc.Init
	}
	r.lg.mu.Lock()
	defer r.lg.mu.Unlock()
	for _, e := range r.lg.ev {
		if e["a"] == "cb" && e["v"] == vfGccInt(v) {
			return true
		}
	}

	return false
}

func (r *vfGccRun) close() {
	if r.closed {
		return
	}
	var err error
	vfGccWithin("Close", func() { err = r.d.close() })
	r.closed = true
	msg := ""
	if err != nil {
		msg = err.Error()
	}
	r.lg.add(vfM{"a": "close", "err": msg, "inj": r.sc.PCloseErr && r.sc.Pacer != "default"})
}

func vfGccRunSeq(sc *vfGccScript, lg *vfGccLog, d *vfGccDriver) {
	r := &vfGccRun{sc: sc, lg: lg, d: d, fb: &vfGccFb{kind: sc.Fb, next: sc.Base, from: sc.Base, arr: 1_000_000}}
	info := &interceptor.StreamInfo{SSRC: vfGccSSRC}
	if sc.Fb == "twcc" {
		info.RTPHeaderExtensions = []interceptor.RTPHeaderExtension{{URI: vfGccTWCCURI, ID: vfGccExtID}}
	}
	r.w = d.addStream(info, interceptor.RTPWriterFunc(func(h *rtp.Header, b []byte, _ interceptor.Attributes) (int, error) {
		r.sunk.Add(1)
		if ch := r.held.Swap(nil); ch != nil {
			close(r.heldIn)
			<-*ch
		}
		if sc.Loopback && h != nil {
			now := time.Now()
			secs := uint64(now.Unix()) + 2208988800 //nolint:gosec
			frac := uint64(now.Nanosecond()) << 32 / 1000000000 //nolint:gosec
			rep := &rtcp.CCFeedbackReport{SenderSSRC: 7, ReportTimestamp: uint32((secs<<32 | frac) >> 16), //nolint:gosec
				ReportBlocks: []rtcp.CCFeedbackReportBlock{{MediaSSRC: h.SSRC, BeginSequence: h.SequenceNumber,
					MetricBlocks: []rtcp.CCFeedbackMetricBlock{{Received: true, ArrivalTimeOffset: 3}}}}}
			_ = d.feed([]rtcp.Packet{rep}) // (not logged: it runs on the pacer's goroutine, concurrently with the script)
		}

		return len(b), nil
	}))
	r.get() // GetTargetBitrate of a fresh estimator = the initial bitrate
	for _, s := range sc.Steps {
		switch s.A {
		case "send":
			r.send(s)
		case "sendheld": // one packet is written from another goroutine and stays inside the transport until "release"
			ch := make(chan struct{})
			r.heldCh, r.heldIn, r.heldDone = ch, make(chan struct{}), make(chan struct{})
			r.heldOnce = sync.Once{}
			r.held.Store(&ch)
			hdr := r.header(r.fb.next)
			r.fb.next++
			go func(done chan struct{}) {
				defer close(done)
				_, _ = r.w.Write(hdr, make([]byte, 500), nil)
			}(r.heldDone)
			select {
			case <-r.heldIn:
			case <-time.After(2 * time.Second): // (a pacer that has not sent it yet: the hold stays armed)
			}
			r.sent++
			r.lg.add(vfM{"a": "send", "n": 1, "ok": 1, "gap": 0})
		case "release":
			r.release()
		case "fb":
			before := r.fb.prev
			pkts := r.fb.build(s.Pat, s.Loss)
			if s.Pair && before != nil {
				pkts = append(append([]rtcp.Packet{}, pkts...), before...)
			}
			res := "ok"
			vfGccWithin("WriteRTCP", func() { res = d.feed(pkts) })
			r.lg.add(vfM{"a": "fb", "pat": s.Pat, "loss": s.Loss, "n": len(pkts), "res": res})
		case "sleep":
			time.Sleep(time.Duration(s.Ms) * time.Millisecond)
		case "get":
			r.get()
		case "stats":
			r.stats()
		case "quiesce":
			r.quiesce()
		case "close":
			r.close()
		case "closeheld": // Close is called while a packet is still inside the transport, which comes back 30 ms later
			if r.closed {
				break
			}
			var err error
			done := make(chan struct{})
			go func() {
				defer close(done)
				err = r.d.close()
			}()
			time.Sleep(30 * time.Millisecond)
			r.release()
			select {
			case <-done:
			case <-time.After(vfGccWatchdog):
				panic("VERIF-FAIL Close (called while a write was inside the transport) did not return within " +
					vfGccWatchdog.String() + " after the transport came back")
			}
			r.closed = true
			msg := ""
			if err != nil {
				msg = err.Error()
			}
			r.lg.add(vfM{"a": "close", "err": msg, "inj": r.sc.PCloseErr && r.sc.Pacer != "default"})
		}
	}
	r.release()
	// every script ends closed, and after Close: the closed error, nothing published any more
	if !r.closed {
		r.quiesce()
		r.close()
	}
	res := "ok"
	vfGccWithin("WriteRTCP after Close", func() { res = d.feed(r.fb.build("inc", 0)) })
	r.lg.add(vfM{"a": "fb", "pat": "inc", "loss": 0, "n": 1, "res": res})
	// ... whatever the batch is made of: reports only, a NACK, a PLI, an empty batch, no batch at all
	for _, batch := range [][]rtcp.Packet{
		{&rtcp.ReceiverReport{SSRC: 7}}, {&rtcp.TransportLayerNack{SenderSSRC: 7, MediaSSRC: vfGccSSRC, Nacks: []rtcp.NackPair{{PacketID: 3}}}},
		{&rtcp.PictureLossIndication{SenderSSRC: 7, MediaSSRC: vfGccSSRC}, &rtcp.ReceiverReport{SSRC: 7}}, {}, nil,
	} {
		if len(batch) == 0 && r.sc.Level != "bwe" {
			continue // (through the cc interceptor an empty batch is not a readable RTCP packet)
		}
		res2 := "ok"
		vfGccWithin("WriteRTCP (no congestion feedback) after Close", func() { res2 = d.feed(batch) })
		r.lg.add(vfM{"a": "fb", "pat": "nofeedback", "loss": 0, "n": len(batch), "res": res2})
	}
	r.quiesce()
	// a second Close of a closed estimator is harmless (whatever the pacer's Close said the first time)
	var err2 error
	vfGccWithin("second Close", func() { err2 = d.close() })
	msg2 := ""
	if err2 != nil {
		msg2 = err2.Error()
	}
	r.lg.add(vfM{"a": "close2", "err": msg2})
	lg.add(vfM{"a": "end"})
}

// ---- concurrent level: feeders + getters + closer on one estimator ---------------------------------------------------

func vfGccRunConc(sc *vfGccScript, lg *vfGccLog, d *vfGccDriver) {
	info := &interceptor.StreamInfo{SSRC: vfGccSSRC}
	if sc.Fb == "twcc" {
		info.RTPHeaderExtensions = []interceptor.RTPHeaderExtension{{URI: vfGccTWCCURI, ID: vfGccExtID}}
	}
	w := d.addStream(info, interceptor.RTPWriterFunc(func(_ *rtp.Header, b []byte, _ interceptor.Attributes) (int, error) {
		return len(b), nil
	}))
	var calls atomic.Int64
	var wg sync.WaitGroup
	stop := make(chan struct{})
	for f := 0; f < sc.Feeders; f++ {
		wg.Add(1)
		go func(f int) {
			defer wg.Done()
			base := sc.Base + f*20000
			run := &vfGccRun{sc: sc, lg: lg, d: d, w: w,
				fb: &vfGccFb{kind: sc.Fb, next: base, from: base, arr: 1_000_000 + int64(f)*333}}
			payload := make([]byte, 800)
			for i := 0; i < sc.Writes; i++ {
				for k := 0; k < 6; k++ {
					_, _ = w.Write(run.header(run.fb.next), payload, nil)
					run.fb.next++
					time.Sleep(5500 * time.Microsecond)
				}
				run.fb.gap = 5500
				pat := []string{"inc", "slow", "inc", "equal", "fast"}[(i+f)%5]
				pkts := run.fb.build(pat, []int{0, 0, 50}[i%3])
				lg.add(vfM{"a": "wcall", "f": f})
				calls.Add(1)
				res := d.feed(pkts)
				lg.add(vfM{"a": "wret", "f": f, "res": res})
			}
		}(f)
	}
	for g := 0; g < sc.Getters; g++ {
		wg.Add(1)
		go func() {
			defer wg.Done()
			for {
				select {
				case <-stop:
					return
				default:
				}
				lo, _, _ := lg.counts()
				v := d.get()
				hi, _, _ := lg.counts()
				lg.add(vfM{"a": "get", "v": vfGccInt(v), "lo": lo, "hi": hi})
				time.Sleep(3 * time.Millisecond)
			}
		}()
	}
	closed := make(chan struct{})
	go func() {
		defer close(closed)
		for calls.Load() < int64(sc.CloseAfter) {
			time.Sleep(200 * time.Microsecond)
		}
		lg.add(vfM{"a": "ccall"})
		err := d.close()
		msg := ""
		if err != nil {
			msg = err.Error()
		}
		lg.add(vfM{"a": "cret", "err": msg, "inj": sc.PCloseErr && sc.Pacer != "default"})
	}()
	vfGccWithin("concurrent WriteRTCP/Close (every feeder and the closer)", func() {
		<-closed
		// feeders that call after Close get the closed error and finish quickly
		done := make(chan struct{})
		go func() { wg.Wait(); close(done) }()
		for {
			select {
			case <-done:
				return
			case <-time.After(time.Millisecond):
				if calls.Load() >= int64(sc.Feeders*sc.Writes) {
					select {
					case <-stop:
					default:
						close(stop)
					}
				}
			}
		}
	})
	run := &vfGccRun{sc: sc, lg: lg, d: d, closed: true, fb: &vfGccFb{kind: sc.Fb, arr: 1_000_000}}
	run.quiesce()
	lg.add(vfM{"a": "end"})
}

// ---- batch executor: scripts run in parallel goroutines (they mostly sleep), traces are written in script order ------

func vfGccExec(t *testing.T, run func(sc *vfGccScript, lg *vfGccLog) error) {
	t.Helper()
	in := vfLoad(t)
	out := vfOut(t)
	defer out.Close()
	par, _ := strconv.Atoi(os.Getenv("VERIF_PAR"))
	if par <= 0 {
		par = 8
	}
	// side file: which scripts were executing when the process died (a crash loses the in-memory logs)
	infl, err := os.OpenFile(os.Getenv("VERIF_OUT")+".inflight", os.O_CREATE|os.O_WRONLY|os.O_APPEND|os.O_TRUNC, 0o644)
	if err != nil {
		t.Fatalf("VERIF-INFRA inflight file: %v", err)
	}
	defer infl.Close()
	var imu sync.Mutex
	mark := func(s string, i int) {
		imu.Lock()
		fmt.Fprintf(infl, "%s %d\n", s, i)
		imu.Unlock()
	}
	scripts := make([]*vfGccScript, len(in))
	for i, raw := range in {
		scripts[i] = &vfGccScript{}
		if err := json.Unmarshal(raw, scripts[i]); err != nil {
			t.Fatalf("VERIF-INFRA bad script: %v", err)
		}
	}
	logs := make([]*vfGccLog, len(in))
	errs := make([]error, len(in))
	done := make([]chan struct{}, len(in))
	for i := range done {
		done[i] = make(chan struct{})
	}
	sem := make(chan struct{}, par)
	go func() {
		for i := range scripts {
			sem <- struct{}{}
			go func(i int) {
				defer func() { <-sem; close(done[i]) }()
				mark("S", i)
				logs[i] = &vfGccLog{}
				errs[i] = run(scripts[i], logs[i])
				mark("D", i)
			}(i)
		}
	}()
	for i := range scripts {
		<-done[i]
		if errs[i] != nil {
			t.Fatalf("VERIF-INFRA script %d: %v", i, errs[i])
		}
		out.Emit(vfGccReset(scripts[i]))
		for _, e := range logs[i].ev {
			out.Emit(e)
		}
		logs[i] = nil
	}
}

//go:build verif

package gcc

import (
	"reflect"
	"sync/atomic"
	"testing"
	"time"

	"github.com/pion/interceptor"
	"github.com/pion/rtp"
)

// Container-size probe of SendSideBWE with its leaky bucket pacer (C12, spec/Sizes.tla): the pacer's queue list and
// ssrcToWriter map, and (at quiescent points) the feedback adapter's history.  The probe keeps at most 64 packets
// outstanding (closed loop on observed deliveries).  acc / d1 / d2: accepted writes, deliveries counted before / after
// the list length was read.
type szLeaky struct {
	tb      testing.TB
	bwe     *SendSideBWE
	pacer   *LeakyBucketPacer
	writers map[uint32]interceptor.RTPWriter
	acc     int64
	del     atomic.Int64
}

func (d *szLeaky) hist() reflect.Value { // cc.FeedbackAdapter.history (unexported fields of internal/cc)
	return reflect.ValueOf(d.bwe.feedbackAdapter).Elem().FieldByName("history").Elem()
}

func (d *szLeaky) Reset(tb testing.TB, sc *szScript) map[string]int {
	d.tb = tb
	d.acc = 0
	d.del.Store(0)
	bwe, err := NewSendSideBWE(SendSideBWEInitialBitrate(sc.Cfg["rate"]))
	if err != nil {
		tb.Fatalf("VERIF-INFRA gcc: %v", err)
	}
	d.bwe = bwe
	d.pacer, _ = bwe.pacer.(*LeakyBucketPacer)
	d.writers = map[uint32]interceptor.RTPWriter{}

	return map[string]int{"rate": sc.Cfg["rate"], "cap": int(d.hist().FieldByName("size").Int())}
}

func (d *szLeaky) Bind(ssrc uint32, _ bool) {
	d.writers[ssrc] = d.bwe.AddStream(&interceptor.StreamInfo{SSRC: ssrc}, interceptor.RTPWriterFunc(
		func(*rtp.Header, []byte, interceptor.Attributes) (int, error) {
			d.del.Add(1)

			return 100, nil
		}))
}

// (cc.Interceptor has no UnbindLocalStream and the pacers no RemoveStream: unbinding a stream is not seen by the estimator)
func (d *szLeaky) Unbind(ssrc uint32) { delete(d.writers, ssrc) }

func (d *szLeaky) waitBelow(limit int64) {
	for i := 0; d.acc-d.del.Load() > limit; i++ {
		if i > 400000 {
			d.tb.Fatalf("VERIF-INFRA gcc pacer: %d accepted packets were not delivered within 20 s", d.acc-d.del.Load())
		}
		time.Sleep(50 * time.Microsecond)
	}
}

func (d *szLeaky) Pkt(st *szStep) bool {
	d.waitBelow(64)
	w := d.writers[st.SSRC]
	_, err := w.Write(&rtp.Header{Version: 2, SSRC: st.HS, SequenceNumber: uint16(st.T)}, make([]byte, 100), nil) //nolint:gosec
	if err == nil {
		d.acc++
	}

	return err == nil
}
func (d *szLeaky) Feedback(*szFb) {}
func (d *szLeaky) Tick(time.Time) {}

func (d *szLeaky) Drain(time.Time) bool {
	d.waitBelow(0)

	return true
}
func (d *szLeaky) Close() { _ = d.bwe.Close() }

func (d *szLeaky) Sizes() (map[string]int, map[string]int) {
	d1 := d.del.Load()
	d.pacer.qLock.RLock()
	q := d.pacer.queue.Len()
	d.pacer.qLock.RUnlock()
	d2 := d.del.Load()
	d.pacer.writerLock.RLock()
	w := len(d.pacer.ssrcToWriter)
	d.pacer.writerLock.RUnlock()
	z := map[string]int{"lbQueue": q, "writers": w}
	if d.acc == d2 && d.acc == d1 { // nothing in flight: the pacer goroutine is not touching the adapter
		z["ccItems"] = d.hist().FieldByName("items").Len()
		z["ccList"] = int(d.hist().FieldByName("evictList").Elem().FieldByName("len").Int())
	}

	return z, map[string]int{"acc": int(d.acc), "d1": int(d1), "d2": int(d2)}
}

func TestVerifSizeExec(t *testing.T) {
	szMain(t, "gcc", map[string]func() szDriver{"gccleaky": func() szDriver { return &szLeaky{} }})
}

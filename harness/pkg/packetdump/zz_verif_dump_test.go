//go:build verif

package packetdump

import (
	"bytes"
	"encoding/json"
	"io"
	"sync"
	"testing"
	"time"

	"github.com/pion/interceptor"
	"github.com/pion/rtcp"
	"github.com/pion/rtp"
)

// Script executed against the real Sender/ReceiverInterceptor through the public Bind* interface with recording filter,
// formatter and stream callbacks; every step is logged as one trace event (see spec/Trace_PacketDump.tla).
// The harness only drives and records: it never decides what should have been dumped.
//
// Harness-side gates (DESIGN.md section 4): the RTP / compound filter callback is the first thing the logger goroutine
// calls for a dump; it is held there until the call has returned and the harness has overwritten the caller's header,
// payload and read buffer, so a dump shows caller memory as it is AFTER the call.  Completion barrier: one more RTP packet
// with the sentinel SSRC through the same interceptor; the harness's RTP filter rejects it and its invocation proves
// that the logger goroutine has finished everything before it (it is not part of the trace).
type vfDumpPkt struct {
	T  string `json:"t"`
	A  uint32 `json:"a"`
	B  uint16 `json:"b"`
	Pl []int  `json:"pl"`
}

type vfDumpCall struct {
	A string      `json:"a"`
	P []vfDumpPkt `json:"p"`
	// probe only (never generated): the caller overwrites the elements of its []rtcp.Packet slice once Write has returned
	Reuse bool `json:"reuse,omitempty"`
}

type vfDumpScript struct {
	Dir   string `json:"dir"`
	Rf    string `json:"rf"`
	Cf    string `json:"cf"`
	Pf    string `json:"pf"`
	Rfmt  string `json:"rfmt"`
	Cfmt  string `json:"cfmt"`
	Steps []struct {
		A     string       `json:"a"`
		Calls []vfDumpCall `json:"calls"`
	} `json:"steps"`
}

const (
	vfDumpSentinel = uint32(0xFFFFFFF0)
	vfDumpSSRC     = uint32(0x1234)
	vfDumpWatchdog = 5 * time.Second
)

func vfDescRTP(h *rtp.Header, payload []byte) vfDumpPkt {
	pl := make([]int, 0, len(payload))
	for _, b := range payload {
		pl = append(pl, int(b))
	}

	return vfDumpPkt{T: "rtp", A: uint32(h.PayloadType), B: h.SequenceNumber, Pl: pl}
}

func vfDescRTCP(p rtcp.Packet) vfDumpPkt {
	switch v := p.(type) {
	case *rtcp.ReceiverReport:
		return vfDumpPkt{T: "rr", A: v.SSRC, Pl: []int{}}
	case *rtcp.SourceDescription:
		if len(v.Chunks) == 1 {
			return vfDumpPkt{T: "sdes", A: v.Chunks[0].Source, Pl: []int{}}
		}
	case *rtcp.PictureLossIndication:
		return vfDumpPkt{T: "pli", A: v.MediaSSRC, Pl: []int{}}
	case *rtcp.TransportLayerNack:
		if len(v.Nacks) == 1 {
			return vfDumpPkt{T: "nack", A: v.MediaSSRC, B: v.Nacks[0].PacketID, Pl: []int{}}
		}
	}

	return vfDumpPkt{T: "other", Pl: []int{}}
}

func vfDescRTCPs(ps []rtcp.Packet) []vfDumpPkt {
	res := make([]vfDumpPkt, 0, len(ps))
	for _, p := range ps {
		res = append(res, vfDescRTCP(p))
	}

	return res
}

func vfBuildRTCP(ds []vfDumpPkt) []rtcp.Packet {
	res := make([]rtcp.Packet, 0, len(ds))
	for _, d := range ds {
		switch d.T {
		case "rr":
			res = append(res, &rtcp.ReceiverReport{SSRC: d.A})
		case "sdes":
			res = append(res, &rtcp.SourceDescription{Chunks: []rtcp.SourceDescriptionChunk{{
				Source: d.A, Items: []rtcp.SourceDescriptionItem{{Type: rtcp.SDESCNAME, Text: "verif"}},
			}}})
		case "pli":
			res = append(res, &rtcp.PictureLossIndication{SenderSSRC: 1, MediaSSRC: d.A})
		case "nack":
			res = append(res, &rtcp.TransportLayerNack{SenderSSRC: 1, MediaSSRC: d.A, Nacks: []rtcp.NackPair{{PacketID: d.B}}})
		}
	}

	return res
}

func vfIsFb(p rtcp.Packet) bool {
	switch p.(type) {
	case *rtcp.PictureLossIndication, *rtcp.TransportLayerNack:
		return true
	}

	return false
}

// vfDumpRec collects what the dumper does: formatter invocations (d) and stream writes (wr), in one order.
type vfDumpRec struct {
	mu    sync.Mutex
	d     []vfM
	wr    []vfM
	holds []chan struct{} // one per call that reaches the logger goroutine, in call order
	sent  chan struct{}
}

func (r *vfDumpRec) pushHold(c chan struct{}) {
	r.mu.Lock()
	r.holds = append(r.holds, c)
	r.mu.Unlock()
}

func (r *vfDumpRec) clearHolds() {
	r.mu.Lock()
	r.holds = nil
	r.mu.Unlock()
}

// waitHold is called by the first callback of a dump (RTP filter / compound filter).
func (r *vfDumpRec) waitHold() {
	var c chan struct{}
	r.mu.Lock()
	if len(r.holds) > 0 {
		c = r.holds[0]
		r.holds = r.holds[1:]
	}
	r.mu.Unlock()
	if c != nil {
		<-c
	}
}

func (r *vfDumpRec) format(kind string, ps []vfDumpPkt) string {
	rec := vfM{"k": kind, "p": ps}
	r.mu.Lock()
	r.d = append(r.d, rec)
	r.mu.Unlock()
	b, _ := json.Marshal(rec)

	return string(b)
}

func (r *vfDumpRec) take() ([]vfM, []vfM) {
	r.mu.Lock()
	defer r.mu.Unlock()
	d, wr := r.d, r.wr
	r.d, r.wr = nil, nil
	if d == nil {
		d = []vfM{}
	}
	if wr == nil {
		wr = []vfM{}
	}

	return d, wr
}

type vfDumpStream struct {
	name string
	rec  *vfDumpRec
}

func (s *vfDumpStream) Write(b []byte) (int, error) {
	var tok struct {
		K string      `json:"k"`
		P []vfDumpPkt `json:"p"`
	}
	ev := vfM{"k": "def", "st": s.name, "p": []vfDumpPkt{}} // not a token of this harness: the default formatter's text
	if err := json.Unmarshal(b, &tok); err == nil && tok.K != "" {
		ev = vfM{"k": tok.K, "st": s.name, "p": tok.P}
	}
	s.rec.mu.Lock()
	s.rec.wr = append(s.rec.wr, ev)
	s.rec.mu.Unlock()

	return len(b), nil
}

var _ io.Writer = (*vfDumpStream)(nil)

func vfDumpOptions(t *testing.T, sc *vfDumpScript, rec *vfDumpRec) []PacketDumperOption {
	t.Helper()
	opts := []PacketDumperOption{
		RTPWriter(&vfDumpStream{name: "rtp", rec: rec}),
		RTCPWriter(&vfDumpStream{name: "rtcp", rec: rec}),
		RTPFilter(func(p *rtp.Packet) bool {
			if p.SSRC == vfDumpSentinel {
				select {
				case rec.sent <- struct{}{}:
				default:
				}

				return false
			}
			rec.waitHold()
			switch sc.Rf {
			case "all":
				return true
			case "even":
				return p.PayloadType%2 == 0
			}

			return false
		}),
		RTCPFilter(func(ps []rtcp.Packet) bool {
			rec.waitHold()
			switch sc.Cf {
			case "all":
				return true
			case "hasfb":
				for _, p := range ps {
					if vfIsFb(p) {
						return true
					}
				}
			}

			return false
		}),
		RTCPPerPacketFilter(func(p rtcp.Packet) bool {
			switch sc.Pf {
			case "all":
				return true
			case "fb":
				return vfIsFb(p)
			}

			return false
		}),
	}
	if sc.Rfmt == "text" || sc.Rfmt == "both" {
		opts = append(opts, RTPFormatter(func(p *rtp.Packet, _ interceptor.Attributes) string {
			return rec.format("rt", []vfDumpPkt{vfDescRTP(&p.Header, p.Payload)})
		}))
	}
	if sc.Rfmt == "bin" || sc.Rfmt == "both" {
		opts = append(opts, RTPBinaryFormatter(func(p *rtp.Packet, _ interceptor.Attributes) ([]byte, error) {
			return []byte(rec.format("rb", []vfDumpPkt{vfDescRTP(&p.Header, p.Payload)})), nil
		}))
	}
	if sc.Cfmt == "text" || sc.Cfmt == "both" {
		opts = append(opts, RTCPFormatter(func(ps []rtcp.Packet, _ interceptor.Attributes) string {
			return rec.format("ct", vfDescRTCPs(ps))
		}))
	}
	if sc.Cfmt == "bin" || sc.Cfmt == "both" {
		opts = append(opts, RTCPBinaryFormatter(func(p rtcp.Packet, _ interceptor.Attributes) ([]byte, error) {
			return []byte(rec.format("cb", []vfDumpPkt{vfDescRTCP(p)})), nil
		}))
	}

	return opts
}

func TestVerifDumpExec(t *testing.T) {
	in := vfLoad(t)
	out := vfOut(t)
	defer out.Close()
	blocked := 0
	for _, raw := range in {
		var sc vfDumpScript
		if err := json.Unmarshal(raw, &sc); err != nil {
			t.Fatalf("VERIF-INFRA bad script: %v", err)
		}
		if !vfRunDump(t, &sc, out) {
			// the logger did not come back within the watchdog ("blocked" event, never accepted by the trace
			// specification); two such scripts are evidence enough, the rest of the batch is not executed
			if blocked++; blocked >= 2 {
				break
			}
		}
	}
}

// vfDumpPort is one direction of traffic through the interceptor under test.
type vfDumpPort struct {
	rtp  func(h *rtp.Header, payload []byte) (fwd []vfDumpPkt, same bool) // one RTP packet; scribbles afterwards
	rtcp func(pkts []rtcp.Packet, reuse bool) (fwd []vfDumpPkt, same bool, post func() []vfDumpPkt)
}

//nolint:gocyclo,cyclop,maintidx
func vfRunDump(t *testing.T, sc *vfDumpScript, out *vfWriter) bool {
	t.Helper()
	rec := &vfDumpRec{sent: make(chan struct{}, 1)}
	reset := vfM{"a": "reset", "dir": sc.Dir, "rf": sc.Rf, "cf": sc.Cf, "pf": sc.Pf, "rfmt": sc.Rfmt, "cfmt": sc.Cfmt}
	opts := vfDumpOptions(t, sc, rec)

	var ic interceptor.Interceptor
	var port vfDumpPort
	info := &interceptor.StreamInfo{SSRC: vfDumpSSRC}
	if sc.Dir == "s" {
		f, err := NewSenderInterceptor(opts...)
		if err != nil {
			t.Fatalf("VERIF-INFRA NewSenderInterceptor: %v", err)
		}
		i, err := f.NewInterceptor("")
		if err != nil {
			out.Emit(reset)
			out.Emit(vfM{"a": "ctorerr", "err": err.Error()})

			return true
		}
		ic = i
		// the next writer in the chain: records what it is handed, at the time it is handed it
		var gotRTP []vfDumpPkt
		var gotRTCP []rtcp.Packet
		w := ic.BindLocalStream(info, interceptor.RTPWriterFunc(
			func(h *rtp.Header, payload []byte, _ interceptor.Attributes) (int, error) {
				if h.SSRC != vfDumpSentinel {
					gotRTP = []vfDumpPkt{vfDescRTP(h, payload)}
				}

				return len(payload), nil
			}))
		cw := ic.BindRTCPWriter(interceptor.RTCPWriterFunc(
			func(pkts []rtcp.Packet, _ interceptor.Attributes) (int, error) {
				gotRTCP = pkts

				return len(pkts), nil
			}))
		port.rtp = func(h *rtp.Header, payload []byte) ([]vfDumpPkt, bool) {
			gotRTP = []vfDumpPkt{}
			sentinel := h.SSRC == vfDumpSentinel
			if _, err := w.Write(h, payload, interceptor.Attributes{}); err != nil {
				return []vfDumpPkt{}, false
			}
			if !sentinel { // the caller reuses its memory as soon as Write has returned
				h.PayloadType = (h.PayloadType + 51) & 0x7f
				h.SequenceNumber = 0xDEAD
				for i := range payload {
					payload[i] = 0xEE
				}
			}

			return gotRTP, true
		}
		port.rtcp = func(pkts []rtcp.Packet, reuse bool) ([]vfDumpPkt, bool, func() []vfDumpPkt) {
			orig := append([]rtcp.Packet{}, pkts...)
			gotRTCP = nil
			if _, err := cw.Write(pkts, interceptor.Attributes{}); err != nil {
				return []vfDumpPkt{}, false, func() []vfDumpPkt { return []vfDumpPkt{} }
			}
			same := len(gotRTCP) == len(orig)
			for i := 0; same && i < len(orig); i++ {
				same = gotRTCP[i] == orig[i] // the very objects, in order
			}

			fwd := vfDescRTCPs(gotRTCP)
			if reuse {
				for i := range pkts {
					pkts[i] = &rtcp.ReceiverReport{SSRC: 0xBAD}
				}

				return fwd, same, func() []vfDumpPkt { return vfDescRTCPs(orig) }
			}

			return fwd, same, func() []vfDumpPkt { return vfDescRTCPs(pkts) }
		}
	} else {
		f, err := NewReceiverInterceptor(opts...)
		if err != nil {
			t.Fatalf("VERIF-INFRA NewReceiverInterceptor: %v", err)
		}
		i, err := f.NewInterceptor("")
		if err != nil {
			out.Emit(reset)
			out.Emit(vfM{"a": "ctorerr", "err": err.Error()})

			return true
		}
		ic = i
		var next []byte // what the transport delivers to the next Read
		inner := func(b []byte, a interceptor.Attributes) (int, interceptor.Attributes, error) {
			return copy(b, next), a, nil
		}
		r := ic.BindRemoteStream(info, interceptor.RTPReaderFunc(inner))
		cr := ic.BindRTCPReader(interceptor.RTCPReaderFunc(inner))
		port.rtp = func(h *rtp.Header, payload []byte) ([]vfDumpPkt, bool) {
			raw, err := (&rtp.Packet{Header: *h, Payload: payload}).Marshal()
			if err != nil {
				t.Fatalf("VERIF-INFRA marshal rtp: %v", err)
			}
			next = raw
			buf := make([]byte, 1500)
			attrs := interceptor.Attributes{}
			n, attr, err := r.Read(buf, attrs)
			if err != nil {
				return []vfDumpPkt{}, false
			}
			fwd := []vfDumpPkt{}
			var p rtp.Packet
			if p.Unmarshal(append([]byte{}, buf[:n]...)) == nil {
				fwd = append(fwd, vfDescRTP(&p.Header, p.Payload))
			}
			same := bytes.Equal(buf[:n], raw)
			if h.SSRC != vfDumpSentinel { // the caller reuses its buffer (and the parsed header it was given) after Read
				for i := range buf {
					buf[i] = 0xEE
				}
				if ch, err := attr.GetRTPHeader(nil); err == nil && ch != nil {
					ch.SequenceNumber = 0xDEAD
					ch.PayloadType = (ch.PayloadType + 51) & 0x7f
				}
			}

			return fwd, same
		}
		port.rtcp = func(pkts []rtcp.Packet, _ bool) ([]vfDumpPkt, bool, func() []vfDumpPkt) {
			raw, err := rtcp.Marshal(pkts)
			if err != nil {
				t.Fatalf("VERIF-INFRA marshal rtcp: %v", err)
			}
			next = raw
			buf := make([]byte, 1500)
			n, _, err := cr.Read(buf, interceptor.Attributes{})
			if err != nil {
				return []vfDumpPkt{}, false, func() []vfDumpPkt { return []vfDumpPkt{} }
			}
			parse := func() []vfDumpPkt {
				ps, err := rtcp.Unmarshal(append([]byte{}, buf[:n]...))
				if err != nil {
					return []vfDumpPkt{}
				}

				return vfDescRTCPs(ps)
			}

			return parse(), bytes.Equal(buf[:n], raw), parse
		}
	}
	out.Emit(reset)

	closed, dead := false, false
	barrier := func() {
		if closed {
			return // no logger goroutine any more (Close waits for it)
		}
		select {
		case <-rec.sent:
		default:
		}
		port.rtp(&rtp.Header{Version: 2, SSRC: vfDumpSentinel}, []byte{0})
		select {
		case <-rec.sent:
		case <-time.After(vfDumpWatchdog):
			out.Emit(vfM{"a": "blocked", "in": "barrier"})
			dead = true
		}
	}
	for _, st := range sc.Steps {
		if dead {
			break
		}
		switch st.A {
		case "calls":
			fwd := [][]vfDumpPkt{}
			same := []bool{}
			posts := []func() []vfDumpPkt{}
			rec.clearHolds()
			for _, c := range st.Calls {
				hold := make(chan struct{})
				if !closed {
					rec.pushHold(hold)
				}
				switch c.A {
				case "rtp":
					if len(c.P) != 1 {
						t.Fatalf("VERIF-INFRA rtp call needs one packet")
					}
					pl := make([]byte, 0, len(c.P[0].Pl))
					for _, b := range c.P[0].Pl {
						pl = append(pl, byte(b))
					}
					f, s := port.rtp(&rtp.Header{
						Version: 2, SSRC: vfDumpSSRC, PayloadType: uint8(c.P[0].A), SequenceNumber: c.P[0].B, Timestamp: 90000,
					}, pl)
					fwd, same = append(fwd, f), append(same, s)
					posts = append(posts, func() []vfDumpPkt { return []vfDumpPkt{} })
				case "rtcp":
					f, s, post := port.rtcp(vfBuildRTCP(c.P), c.Reuse)
					fwd, same, posts = append(fwd, f), append(same, s), append(posts, post)
				default:
					t.Fatalf("VERIF-INFRA unknown call %q", c.A)
				}
				close(hold) // the call has returned and caller memory has been reused: let the logger go on
			}
			barrier()
			if dead {
				break
			}
			post := [][]vfDumpPkt{}
			for _, p := range posts {
				post = append(post, p())
			}
			d, wr := rec.take()
			out.Emit(vfM{"a": "calls", "calls": st.Calls, "fwd": fwd, "same": same, "post": post, "d": d, "wr": wr})
		case "close":
			ret := make(chan struct{})
			go func() {
				_ = ic.Close()
				close(ret)
			}()
			select {
			case <-ret:
			case <-time.After(vfDumpWatchdog):
				out.Emit(vfM{"a": "blocked", "in": "close"})
				dead = true
			}
			if dead {
				break
			}
			closed = true
			d, wr := rec.take()
			out.Emit(vfM{"a": "close", "d": d, "wr": wr})
		default:
			t.Fatalf("VERIF-INFRA unknown step %q", st.A)
		}
	}
	if dead {
		return false
	}
	if !closed {
		t.Fatalf("VERIF-INFRA script does not end with close")
	}
	d, wr := rec.take()
	out.Emit(vfM{"a": "end", "d": d, "wr": wr})

	return true
}

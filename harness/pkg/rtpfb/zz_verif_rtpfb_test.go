//go:build verif

package rtpfb

import (
	"encoding/json"
	"testing"
	"time"

	"github.com/pion/interceptor"
	"github.com/pion/interceptor/internal/cc"
	"github.com/pion/interceptor/internal/ntp"
	"github.com/pion/interceptor/pkg/rfc8888"
	"github.com/pion/interceptor/pkg/twcc"
	"github.com/pion/rtcp"
	"github.com/pion/rtp"
)

// Script executed against the real rtpfb.Interceptor through its public interface (BindLocalStream writers,
// BindRTCPReader, Report read from the returned attributes); every step is logged as one trace event with the observed
// outputs (see spec/Trace_FbDecode.tla).  Target "comp" additionally drives a real cc.FeedbackAdapter with the same
// sends and takes the feedback from the library's own twcc.Recorder / rfc8888.Recorder instead of the script.
type vfFbChunk struct {
	T    string   `json:"t"` // "rl", "v1", "v2"
	Sym  uint16   `json:"sym"`
	Len  uint16   `json:"len"`
	Syms []uint16 `json:"syms"`
}

type vfFbMetric struct {
	R   int    `json:"r"`
	ECN uint8  `json:"ecn"`
	Ato uint16 `json:"ato"`
}

type vfFbBlock struct {
	SSRC  uint32       `json:"ssrc"`
	Begin uint16       `json:"begin"`
	Mbs   []vfFbMetric `json:"mbs"`
}

type vfFb struct {
	K      string      `json:"k"` // "twcc" | "ccfb"
	Base   uint16      `json:"base"`
	Count  uint16      `json:"count"`
	Ref    int64       `json:"ref"` // 64 ms units, offset from the script's refbase
	Chunks []vfFbChunk `json:"chunks"`
	Deltas []int64     `json:"deltas"` // 250 us ticks
	DTypes []uint16    `json:"dtypes"` // 1 small, 2 large (one per delta)
	Rts    int64       `json:"rts"`    // 2^-16 s units, offset from NTP32(t0)
	Blocks []vfFbBlock `json:"blocks"`
}

type vfFbStep struct {
	A    string `json:"a"`
	K    string `json:"k"`
	SSRC uint32 `json:"ssrc"`
	Seq  uint16 `json:"seq"`
	Tw   uint16 `json:"tw"`
	Twcc bool   `json:"twcc"`
	Ext  bool   `json:"ext"`
	N    int    `json:"n"`
	Size int    `json:"size"`
	Dep  int64  `json:"dep"`
	Gap  int64  `json:"gap"`
	Wire bool   `json:"wire"`
	At   int64  `json:"at"`
	ECN  uint8  `json:"ecn"`
	Max  int    `json:"max"`
	Fbs  []vfFb `json:"fbs"`
	Via  uint32 `json:"via"`  // run: != 0 - the packets (header SSRC = ssrc) go through the writer bound for stream `via` (RTX / FEC)
	Loop bool   `json:"loop"` // run: loopback transport - feedback about each packet is read while its Write is still in progress
}

type vfFbScript struct {
	Target  string     `json:"target"`
	RefBase int64      `json:"refbase"`
	Twin    bool       `json:"twin"` // a second interceptor built by the SAME factory carries look-alike traffic of its own
	Steps   []vfFbStep `json:"steps"`
}

var vfT0 = time.Date(2025, 1, 1, 0, 0, 0, 0, time.UTC)

func vfClamp(v int64) int64 {
	const lim = 2000000000
	if v > lim {
		return lim
	}
	if v < -lim {
		return -lim
	}

	return v
}

func vfUs(d time.Duration) int64 { return vfClamp(d.Microseconds()) }

func vfBuildTwcc(fb *vfFb, refBase int64) *rtcp.TransportLayerCC {
	pkt := &rtcp.TransportLayerCC{
		SenderSSRC:         7,
		MediaSSRC:          1,
		BaseSequenceNumber: fb.Base,
		PacketStatusCount:  fb.Count,
		ReferenceTime:      uint32(refBase + fb.Ref), //nolint:gosec
		FbPktCount:         1,
	}
	for _, c := range fb.Chunks {
		switch c.T {
		case "rl":
			pkt.PacketChunks = append(pkt.PacketChunks, &rtcp.RunLengthChunk{
				Type: rtcp.TypeTCCRunLengthChunk, PacketStatusSymbol: c.Sym, RunLength: c.Len,
			})
		case "v1":
			pkt.PacketChunks = append(pkt.PacketChunks, &rtcp.StatusVectorChunk{
				Type: rtcp.TypeTCCStatusVectorChunk, SymbolSize: rtcp.TypeTCCSymbolSizeOneBit,
				SymbolList: append([]uint16{}, c.Syms...),
			})
		default:
			pkt.PacketChunks = append(pkt.PacketChunks, &rtcp.StatusVectorChunk{
				Type: rtcp.TypeTCCStatusVectorChunk, SymbolSize: rtcp.TypeTCCSymbolSizeTwoBit,
				SymbolList: append([]uint16{}, c.Syms...),
			})
		}
	}
	for i, d := range fb.Deltas {
		ty := uint16(rtcp.TypeTCCPacketReceivedSmallDelta)
		if i < len(fb.DTypes) {
			ty = fb.DTypes[i]
		}
		pkt.RecvDeltas = append(pkt.RecvDeltas, &rtcp.RecvDelta{Type: ty, Delta: d * rtcp.TypeTCCDeltaScaleFactor})
	}
	size := pkt.MarshalSize()
	raw := 20 + 2*len(pkt.PacketChunks)
	for _, d := range pkt.RecvDeltas {
		if d.Type == rtcp.TypeTCCPacketReceivedSmallDelta {
			raw++
		} else {
			raw += 2
		}
	}
	pkt.Header = rtcp.Header{
		Padding: raw%4 != 0, Count: rtcp.FormatTCC, Type: rtcp.TypeTransportSpecificFeedback,
		Length: uint16(size/4 - 1), //nolint:gosec
	}

	return pkt
}

func vfBuildCcfb(fb *vfFb, rtsBase uint32) *rtcp.CCFeedbackReport {
	pkt := &rtcp.CCFeedbackReport{SenderSSRC: 7, ReportTimestamp: rtsBase + uint32(fb.Rts)} //nolint:gosec
	for _, b := range fb.Blocks {
		blk := rtcp.CCFeedbackReportBlock{MediaSSRC: b.SSRC, BeginSequence: b.Begin}
		for _, m := range b.Mbs {
			blk.MetricBlocks = append(blk.MetricBlocks, rtcp.CCFeedbackMetricBlock{
				Received: m.R != 0, ECN: rtcp.ECN(m.ECN), ArrivalTimeOffset: m.Ato,
			})
		}
		pkt.ReportBlocks = append(pkt.ReportBlocks, blk)
	}

	return pkt
}

// vfDescribe renders a (delivered) feedback packet in the abstract syntax of the specification.
func vfDescribe(p rtcp.Packet, refBase int64, rtsBase uint32) vfM {
	switch fb := p.(type) {
	case *rtcp.TransportLayerCC:
		chunks := []vfM{}
		for _, c := range fb.PacketChunks {
			switch ch := c.(type) {
			case *rtcp.RunLengthChunk:
				chunks = append(chunks, vfM{"t": "rl", "sym": ch.PacketStatusSymbol, "len": ch.RunLength, "syms": []uint16{}})
			case *rtcp.StatusVectorChunk:
				t := "v2"
				if ch.SymbolSize == rtcp.TypeTCCSymbolSizeOneBit {
					t = "v1"
				}
				chunks = append(chunks, vfM{"t": t, "sym": 0, "len": 0, "syms": append([]uint16{}, ch.SymbolList...)})
			}
		}
		deltas := []int64{}
		for _, d := range fb.RecvDeltas {
			deltas = append(deltas, d.Delta/rtcp.TypeTCCDeltaScaleFactor)
		}

		return vfM{
			"k": "twcc", "base": fb.BaseSequenceNumber, "count": fb.PacketStatusCount,
			"ref": vfClamp(int64(fb.ReferenceTime) - refBase), "chunks": chunks, "deltas": deltas, "rts": 0, "blocks": []vfM{},
		}
	case *rtcp.CCFeedbackReport:
		blocks := []vfM{}
		for _, b := range fb.ReportBlocks {
			mbs := []vfM{}
			for _, m := range b.MetricBlocks {
				r := 0
				if m.Received {
					r = 1
				}
				mbs = append(mbs, vfM{"r": r, "ecn": int(m.ECN), "ato": m.ArrivalTimeOffset})
			}
			blocks = append(blocks, vfM{"ssrc": b.MediaSSRC, "begin": b.BeginSequence, "mbs": mbs})
		}

		return vfM{
			"k": "ccfb", "base": 0, "count": 0, "ref": 0, "chunks": []vfM{}, "deltas": []int64{},
			"rts": vfClamp(int64(fb.ReportTimestamp) - int64(rtsBase)), "blocks": blocks,
		}
	}

	return nil
}

func vfCcAcks(acks []cc.Acknowledgment, arrBase time.Time) []vfM {
	res := []vfM{}
	for _, a := range acks {
		m := vfM{
			"seq": a.SequenceNumber, "ssrc": a.SSRC, "size": vfClamp(int64(a.Size)), "dz": a.Departure.IsZero(), "dep": 0,
			"has": !a.Arrival.IsZero(), "arr": 0, "ecn": int(a.ECN),
		}
		if !a.Departure.IsZero() {
			m["dep"] = vfUs(a.Departure.Sub(vfT0))
		}
		if !a.Arrival.IsZero() {
			m["arr"] = vfUs(a.Arrival.Sub(arrBase))
		}
		res = append(res, m)
	}

	return res
}

type vfRtpfbEnv struct {
	t           *testing.T
	sc          *vfFbScript
	out         *vfWriter
	now         time.Time
	ic          interceptor.Interceptor
	writers     map[[2]uint32]interceptor.RTPWriter
	reader      interceptor.RTCPReader
	next        []byte
	adapter     *cc.FeedbackAdapter
	twccRec     *twcc.Recorder
	ccfbRec     *rfc8888.Recorder
	rtsBase     uint32
	twccArrBase time.Time
	ccArrBase   time.Time
	inWrite     func()                   // called once by the transport-side writer from inside the next Write
	twin        interceptor.Interceptor // second connection of the same factory (nil unless the script asks for it)
	twinWriters map[[2]uint32]interceptor.RTPWriter
}

// vfTwccExtID: streams negotiate the transport-cc extension under different ids (5 for odd SSRCs, 1 for even ones)
func vfTwccExtID(ssrc uint32) uint8 {
	if ssrc%2 == 1 {
		return 5
	}

	return 1
}

func (e *vfRtpfbEnv) writer(ssrc uint32, useTWCC bool) interceptor.RTPWriter {
	k := [2]uint32{ssrc, 0}
	if useTWCC {
		k[1] = 1
	}
	if w, ok := e.writers[k]; ok {
		return w
	}
	info := &interceptor.StreamInfo{SSRC: ssrc}
	if useTWCC {
		info.RTPHeaderExtensions = []interceptor.RTPHeaderExtension{{URI: transportCCURI, ID: int(vfTwccExtID(ssrc))}}
	}
	w := e.ic.BindLocalStream(info, interceptor.RTPWriterFunc(
		func(_ *rtp.Header, payload []byte, _ interceptor.Attributes) (int, error) {
			if f := e.inWrite; f != nil { // the packet is on the wire: its feedback may be read before Write returns
				e.inWrite = nil
				f()
			}

			return len(payload), nil
		}))
	e.writers[k] = w
	if e.twin != nil {
		e.twinWriters[k] = e.twin.BindLocalStream(info, interceptor.RTPWriterFunc(
			func(_ *rtp.Header, payload []byte, _ interceptor.Attributes) (int, error) { return len(payload), nil }))
	}

	return w
}

// loopFb: feedback that acknowledges exactly packet i of the run (TWCC for a packet carrying the extension, RFC 8888 otherwise)
func (e *vfRtpfbEnv) loopFb(st *vfFbStep, i int, at int64) []rtcp.Packet {
	if st.Twcc && st.Ext {
		return []rtcp.Packet{vfBuildTwcc(&vfFb{
			K: "twcc", Base: st.Tw + uint16(i), Count: 1, Ref: 1 + at/64000, //nolint:gosec
			Chunks: []vfFbChunk{{T: "rl", Sym: 1, Len: 1}}, Deltas: []int64{8}, DTypes: []uint16{1},
		}, e.sc.RefBase)}
	}

	return []rtcp.Packet{vfBuildCcfb(&vfFb{
		K: "ccfb", Rts: at*65536/1000000 + 65536,
		Blocks: []vfFbBlock{{SSRC: st.SSRC, Begin: st.Seq + uint16(i), Mbs: []vfFbMetric{{R: 1, ECN: 3, Ato: 4}}}}, //nolint:gosec
	}, e.rtsBase)}
}

func (e *vfRtpfbEnv) run(st *vfFbStep) {
	hsz := 0
	bs := st.SSRC // the stream whose bound writer carries the packets
	if st.Via != 0 {
		bs = st.Via
	}
	for i := 0; i < st.N; i++ {
		hdr := rtp.Header{Version: 2, SSRC: st.SSRC, SequenceNumber: st.Seq + uint16(i)} //nolint:gosec
		attrs := interceptor.Attributes{}
		if st.Ext {
			ext, err := (&rtp.TransportCCExtension{TransportSequence: st.Tw + uint16(i)}).Marshal() //nolint:gosec
			if err != nil {
				e.t.Fatalf("VERIF-INFRA twcc ext: %v", err)
			}
			if err = hdr.SetExtension(vfTwccExtID(bs), ext); err != nil {
				e.t.Fatalf("VERIF-INFRA set ext: %v", err)
			}
			attrs.Set(cc.TwccExtensionAttributesKey, vfTwccExtID(bs))
		}
		hsz = hdr.MarshalSize()
		w := e.writer(bs, st.Twcc)
		if e.twin != nil { // the other connection sends a look-alike (same numbers, another size, another time) just before
			k := [2]uint32{bs, 0}
			if st.Twcc {
				k[1] = 1
			}
			th := hdr.Clone()
			e.now = vfT0.Add(time.Duration(st.Dep+int64(i)*st.Gap-777) * time.Microsecond)
			if _, err := e.twinWriters[k].Write(&th, make([]byte, st.Size+i+1000), attrs); err != nil {
				e.t.Fatalf("VERIF-INFRA twin write: %v", err)
			}
		}
		e.now = vfT0.Add(time.Duration(st.Dep+int64(i)*st.Gap) * time.Microsecond)
		if st.Loop { // the packet counts as sent from the moment it is handed to the next writer
			e.out.Emit(vfM{
				"a": "run", "ssrc": st.SSRC, "seq": st.Seq + uint16(i), "tw": st.Tw + uint16(i), "twcc": st.Twcc, "ext": st.Ext, //nolint:gosec
				"n": 1, "size": st.Size + i, "dep": st.Dep + int64(i)*st.Gap, "gap": 0, "hsz": hsz,
			})
			at, was := st.Dep+int64(i)*st.Gap+500, e.now
			e.inWrite = func() {
				e.feed(e.loopFb(st, i, at), at, false)
				e.now = was
			}
		}
		if _, err := w.Write(&hdr, make([]byte, st.Size+i), attrs); err != nil {
			e.t.Fatalf("VERIF-INFRA write: %v", err)
		}
		if e.adapter != nil {
			if err := e.adapter.OnSent(e.now, &hdr, st.Size+i, attrs); err != nil {
				e.t.Fatalf("VERIF-INFRA OnSent: %v", err)
			}
		}
	}
	if st.Loop {
		return
	}
	e.out.Emit(vfM{
		"a": "run", "ssrc": st.SSRC, "seq": st.Seq, "tw": st.Tw, "twcc": st.Twcc, "ext": st.Ext, "n": st.N,
		"size": st.Size, "dep": st.Dep, "gap": st.Gap, "hsz": hsz,
	})
}

// feed hands one (compound) RTCP packet to the interceptor's reader (and, for "comp", to the adapter) and logs the result.
func (e *vfRtpfbEnv) feed(pkts []rtcp.Packet, at int64, e2e bool) {
	none := vfM{"a": "fb", "parsed": false, "fbs": []vfM{}, "hasout": false, "outs": []vfM{}, "hasrep": false,
		"rep": []vfM{}, "e2e": false}
	raw, err := rtcp.Marshal(pkts)
	if err != nil {
		e.out.Emit(none)

		return
	}
	delivered, err := rtcp.Unmarshal(raw)
	e.now = vfT0.Add(time.Duration(at) * time.Microsecond)
	e.next = raw
	buf := make([]byte, len(raw)+16)
	n, attrs, rerr := e.reader.Read(buf, interceptor.Attributes{})
	if (err != nil) != (rerr != nil) {
		e.t.Fatalf("VERIF-INFRA rtcp.Unmarshal err=%v but reader err=%v", err, rerr)
	}
	if err != nil {
		e.out.Emit(none)

		return
	}
	if n != len(raw) {
		e.t.Fatalf("VERIF-INFRA short read %d/%d", n, len(raw))
	}
	fbs := []vfM{}
	for _, p := range delivered {
		if d := vfDescribe(p, e.sc.RefBase, e.rtsBase); d != nil {
			fbs = append(fbs, d)
		}
	}
	rep := []vfM{}
	if v := attrs.Get(CCFBAttributesKey); v != nil {
		report, ok := v.(Report)
		if !ok {
			e.t.Fatalf("VERIF-INFRA attribute has type %T", v)
		}
		for _, pr := range report.PacketReports {
			m := vfM{
				"cnt": vfClamp(int64(pr.SequenceNumber)), "ssrc": pr.SSRC, "seq": pr.RTPSequenceNumber, //nolint:gosec
				"tw": pr.TWCCSequenceNumber, "size": vfClamp(int64(pr.Size)), "dep": vfUs(pr.Departure.Sub(vfT0)),
				"arrived": pr.Arrived, "has": !pr.Arrival.IsZero(), "arr": 0, "ecn": int(pr.ECN),
			}
			if !pr.Arrival.IsZero() {
				if pr.Arrival.Year() < 1000 { // TWCC arrival times count from the zero time
					m["arr"] = vfUs(pr.Arrival.Sub(e.twccArrBase))
				} else {
					m["arr"] = vfUs(pr.Arrival.Sub(vfT0))
				}
			}
			rep = append(rep, m)
		}
	}
	ev := vfM{"a": "fb", "parsed": true, "fbs": fbs, "hasout": false, "outs": []vfM{}, "hasrep": true, "rep": rep, "e2e": e2e}
	if e.adapter != nil {
		outs := []vfM{}
		for _, p := range delivered {
			switch fb := p.(type) {
			case *rtcp.TransportLayerCC:
				acks, aerr := e.adapter.OnTransportCCFeedback(e.now, fb)
				outs = append(outs, vfM{"err": aerr != nil, "acks": vfCcAcks(acks, e.twccArrBase)})
			case *rtcp.CCFeedbackReport:
				outs = append(outs, vfM{"err": false, "acks": vfCcAcks(e.adapter.OnRFC8888Feedback(e.now, fb), e.ccArrBase)})
			}
		}
		ev["hasout"] = true
		ev["outs"] = outs
	}
	e.out.Emit(ev)
}

func TestVerifRtpfbExec(t *testing.T) {
	in := vfLoad(t)
	out := vfOut(t)
	defer out.Close()
	for _, raw := range in {
		var sc vfFbScript
		if err := json.Unmarshal(raw, &sc); err != nil {
			t.Fatalf("VERIF-INFRA bad script: %v", err)
		}
		env := &vfRtpfbEnv{t: t, sc: &sc, out: out, now: vfT0, writers: map[[2]uint32]interceptor.RTPWriter{}}
		env.rtsBase = ntp.ToNTP32(vfT0)
		env.twccArrBase = time.Time{}.Add(time.Duration(sc.RefBase) * 64 * time.Millisecond)
		env.ccArrBase = ntp.ToTime(uint64(env.rtsBase) << 16)
		f, err := NewInterceptor(timeFactory(func() time.Time { return env.now }))
		if err != nil {
			t.Fatalf("VERIF-INFRA factory: %v", err)
		}
		if env.ic, err = f.NewInterceptor(""); err != nil {
			t.Fatalf("VERIF-INFRA NewInterceptor: %v", err)
		}
		if sc.Twin {
			if env.twin, err = f.NewInterceptor("twin"); err != nil {
				t.Fatalf("VERIF-INFRA NewInterceptor (twin): %v", err)
			}
			env.twinWriters = map[[2]uint32]interceptor.RTPWriter{}
		}
		env.reader = env.ic.BindRTCPReader(interceptor.RTCPReaderFunc(
			func(b []byte, a interceptor.Attributes) (int, interceptor.Attributes, error) {
				return copy(b, env.next), a, nil
			}))
		if sc.Target == "comp" {
			env.adapter = cc.NewFeedbackAdapter()
			env.twccRec = twcc.NewRecorder(7)
			env.ccfbRec = rfc8888.NewRecorder()
		}
		out.Emit(vfM{"a": "reset", "target": sc.Target})
		for i := range sc.Steps {
			st := &sc.Steps[i]
			switch st.A {
			case "run":
				env.run(st)
			case "fb":
				pkts := []rtcp.Packet{}
				for j := range st.Fbs {
					if st.Fbs[j].K == "twcc" {
						pkts = append(pkts, vfBuildTwcc(&st.Fbs[j], sc.RefBase))
					} else {
						pkts = append(pkts, vfBuildCcfb(&st.Fbs[j], env.rtsBase))
					}
				}
				env.feed(pkts, st.At, false)
			case "rx": // composition: a packet arrives at the remote end
				if env.twccRec == nil {
					t.Fatalf("VERIF-INFRA rx step outside a comp script")
				}
				if st.K == "twcc" {
					env.twccRec.Record(st.SSRC, st.Tw, sc.RefBase*64000+st.At)
					out.Emit(vfM{"a": "rx", "k": "twcc", "ssrc": 0, "n": st.Tw, "at": st.At, "ecn": 0})
				} else {
					env.ccfbRec.AddPacket(vfT0.Add(time.Duration(st.At)*time.Microsecond), st.SSRC, st.Seq, st.ECN)
					out.Emit(vfM{"a": "rx", "k": "ccfb", "ssrc": st.SSRC, "n": st.Seq, "at": st.At, "ecn": st.ECN})
				}
			case "build": // composition: the remote end emits feedback
				if env.twccRec == nil {
					t.Fatalf("VERIF-INFRA build step outside a comp script")
				}
				var pkts []rtcp.Packet
				if st.K == "twcc" {
					pkts = env.twccRec.BuildFeedbackPacket()
				} else {
					pkts = []rtcp.Packet{env.ccfbRec.BuildReport(vfT0.Add(time.Duration(st.At)*time.Microsecond), st.Max)}
				}
				if len(pkts) > 0 {
					env.feed(pkts, st.At+20000, true)
				}
			default:
				t.Fatalf("VERIF-INFRA unknown step %q", st.A)
			}
		}
		if err := env.ic.Close(); err != nil {
			t.Fatalf("VERIF-INFRA close: %v", err)
		}
		if env.twin != nil {
			if err := env.twin.Close(); err != nil {
				t.Fatalf("VERIF-INFRA close (twin): %v", err)
			}
		}
	}
}

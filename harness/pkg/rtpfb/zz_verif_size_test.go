//go:build verif

package rtpfb

import (
	"testing"
	"time"

	"github.com/pion/interceptor"
	"github.com/pion/rtcp"
	"github.com/pion/rtp"
)

// Container-size probe of the rtpfb interceptor (C12, spec/Sizes.tla): history.packets and both index maps, driven through
// BindLocalStream / BindRTCPReader with real RTCP feedback (RFC 8888 reports, or TWCC when cfg.twcc = 1).
type szRtpfb struct {
	tb      testing.TB
	ic      *Interceptor
	hist    *history
	twcc    bool
	now     time.Time
	writers map[uint32]interceptor.RTPWriter
	rtcpIn  []byte
	reader  interceptor.RTCPReader
	fbCount uint8
}

func (d *szRtpfb) Reset(tb testing.TB, sc *szScript) map[string]int {
	d.tb = tb
	d.twcc = sc.Cfg["twcc"] == 1
	f, _ := NewInterceptor(timeFactory(func() time.Time { return d.now }))
	ic, err := f.NewInterceptor("")
	if err != nil {
		tb.Fatalf("VERIF-INFRA rtpfb: %v", err)
	}
	d.ic, _ = ic.(*Interceptor)
	d.hist, _ = d.ic.history.(*history)
	d.writers = map[uint32]interceptor.RTPWriter{}
	d.reader = d.ic.BindRTCPReader(interceptor.RTCPReaderFunc(
		func(b []byte, a interceptor.Attributes) (int, interceptor.Attributes, error) { return copy(b, d.rtcpIn), a, nil }))

	return map[string]int{"fb": sc.FB, "twcc": sc.Cfg["twcc"]}
}

func (d *szRtpfb) Bind(ssrc uint32, _ bool) {
	info := &interceptor.StreamInfo{SSRC: ssrc}
	if d.twcc {
		info.RTPHeaderExtensions = []interceptor.RTPHeaderExtension{{URI: transportCCURI, ID: 5}}
	}
	d.writers[ssrc] = d.ic.BindLocalStream(info, interceptor.RTPWriterFunc(
		func(*rtp.Header, []byte, interceptor.Attributes) (int, error) { return 0, nil }))
}

func (d *szRtpfb) Unbind(ssrc uint32) {
	d.ic.UnbindLocalStream(&interceptor.StreamInfo{SSRC: ssrc})
	delete(d.writers, ssrc)
}

func (d *szRtpfb) Pkt(st *szStep) bool {
	d.now = st.Now
	h := &rtp.Header{Version: 2, SSRC: st.HS, SequenceNumber: uint16(st.T)} //nolint:gosec
	if d.twcc {
		ext, _ := (&rtp.TransportCCExtension{TransportSequence: uint16(st.T)}).Marshal() //nolint:gosec
		h.Extension, h.ExtensionProfile = true, 0xBEDE
		_ = h.SetExtension(5, ext)
	}
	_, err := d.writers[st.SSRC].Write(h, make([]byte, 40), nil)

	return err == nil
}

func (d *szRtpfb) Feedback(fb *szFb) {
	d.now = fb.Now
	var pkt rtcp.Packet
	if d.twcc { // every sent number of the range is reported received (one run-length chunk), gaps in the numbers as well
		n := fb.Hi - fb.Lo + 1
		deltas := make([]*rtcp.RecvDelta, n)
		for i := range deltas {
			deltas[i] = &rtcp.RecvDelta{Type: rtcp.TypeTCCPacketReceivedSmallDelta, Delta: 250}
		}
		d.fbCount++
		tcc := &rtcp.TransportLayerCC{SenderSSRC: 1, MediaSSRC: fb.SSRC, BaseSequenceNumber: uint16(fb.Lo), //nolint:gosec
			PacketStatusCount: uint16(n), ReferenceTime: 1, FbPktCount: d.fbCount, //nolint:gosec
			PacketChunks: []rtcp.PacketStatusChunk{&rtcp.RunLengthChunk{Type: rtcp.TypeTCCRunLengthChunk,
				PacketStatusSymbol: rtcp.TypeTCCPacketReceivedSmallDelta, RunLength: uint16(n)}}, //nolint:gosec
			RecvDeltas: deltas}
		raw := 20 + 2 + n // header, fixed part, one chunk, one byte per small delta
		tcc.Header = rtcp.Header{Padding: raw%4 != 0, Count: rtcp.FormatTCC, Type: rtcp.TypeTransportSpecificFeedback,
			Length: uint16(tcc.MarshalSize()/4 - 1)} //nolint:gosec
		pkt = tcc
	} else {
		blocks := []rtcp.CCFeedbackMetricBlock{}
		for t := fb.Lo; t <= fb.Hi; t++ {
			blocks = append(blocks, rtcp.CCFeedbackMetricBlock{Received: fb.Sent[t] && !fb.Lost[t], ArrivalTimeOffset: 10})
		}
		pkt = &rtcp.CCFeedbackReport{SenderSSRC: 1, ReportBlocks: []rtcp.CCFeedbackReportBlock{
			{MediaSSRC: fb.SSRC, BeginSequence: uint16(fb.Lo), MetricBlocks: blocks}}} //nolint:gosec
	}
	b, err := rtcp.Marshal([]rtcp.Packet{pkt})
	if err != nil {
		d.tb.Fatalf("VERIF-INFRA marshal feedback [%d,%d]: %v", fb.Lo, fb.Hi, err)
	}
	d.rtcpIn = b
	if _, _, err := d.reader.Read(make([]byte, len(b)+16), nil); err != nil {
		d.tb.Fatalf("VERIF-INFRA rtpfb RTCP read: %v", err)
	}
}
func (d *szRtpfb) Tick(time.Time)       {}
func (d *szRtpfb) Drain(time.Time) bool { return false }
func (d *szRtpfb) Close()               { _ = d.ic.Close() }

func (d *szRtpfb) Sizes() (map[string]int, map[string]int) {
	d.hist.lock.Lock()
	defer d.hist.lock.Unlock()

	return map[string]int{"fbPackets": len(d.hist.packets), "fbTwIdx": len(d.hist.twccToCounter),
		"fbSsIdx": len(d.hist.ssrcSeqNrToCounter)}, nil
}

func TestVerifSizeExec(t *testing.T) {
	szMain(t, "rtpfb", map[string]func() szDriver{"rtpfb": func() szDriver { return &szRtpfb{} }})
}

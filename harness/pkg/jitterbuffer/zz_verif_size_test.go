//go:build verif

package jitterbuffer

import (
	"testing"
	"time"

	"github.com/pion/interceptor"
	"github.com/pion/rtp"
)

// Container-size probe of the jitter buffer interceptor (C12, spec/Sizes.tla): the priority queue, measured by walking
// the list, next to its cached length.  Pkt reports whether the read returned a packet (i.e. one was popped).
type szJitter struct {
	ic      *ReceiverInterceptor
	readers map[uint32]interceptor.RTPReader
	next    []byte
}

func (d *szJitter) Reset(tb testing.TB, _ *szScript) map[string]int {
	f, _ := NewInterceptor()
	ic, err := f.NewInterceptor("")
	if err != nil {
		tb.Fatalf("VERIF-INFRA jitterbuffer: %v", err)
	}
	d.ic, _ = ic.(*ReceiverInterceptor)
	d.readers = map[uint32]interceptor.RTPReader{}

	return map[string]int{"minstart": int(d.ic.buffer.minStartCount)}
}

func (d *szJitter) Bind(ssrc uint32, _ bool) {
	d.readers[ssrc] = d.ic.BindRemoteStream(&interceptor.StreamInfo{SSRC: ssrc}, interceptor.RTPReaderFunc(
		func(b []byte, a interceptor.Attributes) (int, interceptor.Attributes, error) { return copy(b, d.next), a, nil }))
}

func (d *szJitter) Unbind(ssrc uint32) {
	d.ic.UnbindRemoteStream(&interceptor.StreamInfo{SSRC: ssrc})
	delete(d.readers, ssrc)
}

func (d *szJitter) Pkt(st *szStep) bool {
	h := rtp.Header{Version: 2, SSRC: st.HS, SequenceNumber: uint16(st.T), Timestamp: uint32(st.T) * 3000} //nolint:gosec
	d.next, _ = (&rtp.Packet{Header: h, Payload: []byte{1, 2}}).Marshal()
	_, _, err := d.readers[st.SSRC].Read(make([]byte, 1500), nil)

	return err == nil
}
func (d *szJitter) Feedback(*szFb)       {}
func (d *szJitter) Tick(time.Time)       {}
func (d *szJitter) Drain(time.Time) bool { return false }
func (d *szJitter) Close()               { _ = d.ic.Close() }

func (d *szJitter) Sizes() (map[string]int, map[string]int) {
	d.ic.m.Lock()
	defer d.ic.m.Unlock()
	walk := 0
	for n := d.ic.buffer.packets.next; n != nil && walk < 1<<22; n = n.next {
		walk++
	}

	return map[string]int{"jbQueue": walk, "jbLength": int(d.ic.buffer.packets.length)}, nil
}

func TestVerifSizeExec(t *testing.T) {
	szMain(t, "jitterbuffer", map[string]func() szDriver{"jitter": func() szDriver { return &szJitter{} }})
}
